(* C08  Results do not depend on working directory, path spelling or earlier operations (logic part: the
   placeholder counter; the rest is observed by replaying operations after different prefixes / cwd). *)
From Coq Require Import NArith ZArith List Bool.
From DictIO Require Import Chars Str Value Scalar Lexer MiscSpec CliProofs.
Import ListNotations.

(* the counter stays within the six digits of a placeholder, whatever its history *)
Theorem C08_counter_range : forall n c, counter_ok c -> (0 <= counter_iter (S n) c <= 999999)%Z.
Proof. exact counter_range. Qed.
Print Assumptions C08_counter_range.

(* non-vacuity: the fresh counter (-1), a mid-range value and the last value before the wrap-around are admissible *)
Example C08_counter_range_nonvacuous :
  counter_ok (-1)%Z /\ counter_ok 123456%Z /\ counter_ok 999999%Z /\
  (0 <= counter_iter 5 999998%Z <= 999999)%Z /\ counter_iter 5 999998%Z = 3%Z.
Proof.
  assert (H : counter_ok 999998%Z) by (unfold counter_ok; split; discriminate).
  refine (conj _ (conj _ (conj _ (conj (C08_counter_range 4 _ H) _))));
    [unfold counter_ok; split; discriminate .. | vm_compute; reflexivity].
Qed.

(* ids handed out within one operation are pairwise distinct, also across the wrap-around, as long as fewer
   than 10^6 are drawn: so placeholder entries never collide, whatever value the counter started from *)
Theorem C08_ids_distinct : forall c n m, counter_ok c -> (n < m)%nat -> (m - n < 1000000)%nat ->
  counter_iter (S n) c <> counter_iter (S m) c.
Proof. exact counter_distinct. Qed.
Print Assumptions C08_ids_distinct.

(* non-vacuity: the 1st and the 6th id drawn from 999997 lie on different sides of the wrap-around *)
Example C08_ids_distinct_nonvacuous :
  counter_ok 999997%Z /\ (0 < 5)%nat /\ (5 - 0 < 1000000)%nat /\
  counter_iter 1 999997%Z = 999998%Z /\ counter_iter 6 999997%Z = 3%Z /\
  counter_iter 1 999997%Z <> counter_iter 6 999997%Z.
Proof.
  assert (H1 : counter_ok 999997%Z) by (unfold counter_ok; split; discriminate).
  assert (H2 : (0 < 5)%nat) by (apply PeanoNat.Nat.ltb_lt; reflexivity).
  assert (H3 : (5 - 0 < 1000000)%nat) by (apply PeanoNat.Nat.ltb_lt; vm_compute; reflexivity).
  refine (conj H1 (conj H2 (conj H3 (conj _ (conj _ (C08_ids_distinct _ 0 5 H1 H2 H3)))))); vm_compute; reflexivity.
Qed.

(* the k-th id after a start value is that value plus k modulo 10^6 *)
Theorem C08_counter_closed_form : forall n c, counter_ok c ->
  counter_iter (S n) c = ((c + 1 + Z.of_nat n) mod 1000000)%Z.
Proof. exact counter_closed_form. Qed.
Print Assumptions C08_counter_closed_form.

Example C08_counter_closed_form_nonvacuous :
  counter_ok (-1)%Z /\ counter_iter 8 (-1)%Z = ((-1 + 1 + Z.of_nat 7) mod 1000000)%Z /\ counter_iter 8 (-1)%Z = 7%Z.
Proof.
  assert (H : counter_ok (-1)%Z) by (unfold counter_ok; split; discriminate).
  refine (conj H (conj (C08_counter_closed_form 7 _ H) _)). vm_compute. reflexivity.
Qed.

Example C08_wrap : counter_iter 3 999998%Z = 1%Z /\ counter_ok 999998%Z.
Proof. split; [vm_compute; reflexivity | unfold counter_ok; split; discriminate]. Qed.

(* ================================================================================================ *)
(* Counter independence of reading: the result depends on the start value of the process-global      *)
(* placeholder counter only through a consistent renaming of the placeholder ids                     *)
(* ================================================================================================ *)
(* The renaming (theories/Proofs/CounterBase.v, CounterLex.v, CounterParse.v, CounterProofs.v):
     shift d i            = (i + d) mod 10^6 for six digit ids i: with d = c2 - c1 the n-th id drawn after c1 goes to the
                            n-th id drawn after c2 (crel_next); a bijection (shift_inv), also across the wrap-around
     rename_str d s       every occurrence of LINECOMMENT / INCLUDE / STRINGLITERAL / EXPRESSION + six digits in s gets its
                            id shifted (BLOCKCOMMENT ids are numbered from 0 in every parse: rename_block_any)
     rename_lexed d lx k  tokens renamed; ids of the lc / inc / expr / literal tables shifted, ids of the block comment
                            table kept; the CONTENTS of all tables renamed (a comment text or an include name can contain
                            placeholders of earlier stages; an expression entry stores its own placeholder name); counter k
     rename_tree d t      keys and string leaves renamed;  rename_sd d s : data and the four tables
   cleanb s = true: s contains none of the four renamed words followed by six digits (then rename_str d s = s). *)
From DictIO Require Import KeyPath SDict TokParser Reader CounterBase CounterLex CounterParse CounterProofs.
From DictIO Require E2EInsert.

(* the example: two line comments, an include directive, a block comment, two string literals, a nested dict *)
Definition c08_text : str := of_string "// first
#include 'sub.dict'
a 1; /* blk */ b 'lit one';
c { d ""two""; e 2.5; } // second
".
Definition c08_dir : str := of_string "/d".
Definition c08_root : str := of_string "/d/main.dict".
Definition c08_fs : fsys := [(c08_root, FNative c08_text)].

Lemma c08_ok : counter_ok (-1)%Z /\ counter_ok 123456%Z /\ counter_ok 999997%Z.
Proof. unfold counter_ok. repeat split; discriminate. Qed.

(* ---- the lexer -------------------------------------------------------------------------------------- *)
(* side conditions: comments are kept (comments = true, the reader's default; with comments = false removing a comment can
   glue a placeholder name together, see CounterProofs.v); the source text and the directory contain no placeholder name
   of the four renamed families (cleanb) -- a text that spells a placeholder is the same text under both counters, but
   the renaming would change it.  The number of ids drawn is the same under both counters. *)
Theorem C08_lex_counter_independent : forall c1 c2 dir text,
  counter_ok c1 -> counter_ok c2 -> cleanb text = true -> cleanb dir = true ->
  exists n,
    lxd_count (lex true dir c1 text) = counter_iter n c1 /\
    lex true dir c2 text = rename_lexed (c2 - c1) (lex true dir c1 text) (counter_iter n c2) /\
    Forall idok (lxd_lit (lex true dir c1 text)).
Proof. exact lex_counter_independent. Qed.
Print Assumptions C08_lex_counter_independent.

(* non-vacuity: both sides computed; 123456 is a mid-range start value, 999997 makes the five ids straddle the wrap-around
   (999998 999999 0 1 2): the renaming is the cyclic shift, nothing else changes *)
Example C08_lex_counter_independent_nonvacuous :
  (cleanb c08_text = true /\ cleanb c08_dir = true) /\
  (exists n, lxd_count (lex true c08_dir (-1) c08_text) = counter_iter n (-1)%Z /\
             lex true c08_dir 123456 c08_text = rename_lexed (123456 - -1) (lex true c08_dir (-1) c08_text) (counter_iter n 123456%Z) /\
             Forall idok (lxd_lit (lex true c08_dir (-1) c08_text))) /\
  (exists n, lxd_count (lex true c08_dir (-1) c08_text) = counter_iter n (-1)%Z /\
             lex true c08_dir 999997 c08_text = rename_lexed (999997 - -1) (lex true c08_dir (-1) c08_text) (counter_iter n 999997%Z) /\
             Forall idok (lxd_lit (lex true c08_dir (-1) c08_text))) /\
  lxd_count (lex true c08_dir (-1) c08_text) = counter_iter 5 (-1)%Z /\
  lex true c08_dir 999997 c08_text = rename_lexed (999997 - -1) (lex true c08_dir (-1) c08_text) (counter_iter 5 999997%Z) /\
  (map fst (lxd_lc (lex true c08_dir (-1) c08_text)), map fst (lxd_inc (lex true c08_dir (-1) c08_text)),
   map fst (lxd_lit (lex true c08_dir (-1) c08_text)), map fst (lxd_bc (lex true c08_dir (-1) c08_text))) = ([0; 1], [2], [3; 4], [0])%N /\
  (map fst (lxd_lc (lex true c08_dir 999997 c08_text)), map fst (lxd_inc (lex true c08_dir 999997 c08_text)),
   map fst (lxd_lit (lex true c08_dir 999997 c08_text)), map fst (lxd_bc (lex true c08_dir 999997 c08_text))) = ([999998; 999999], [0], [1; 2], [0])%N /\
  lxd_count (lex true c08_dir 999997 c08_text) = 2%Z /\
  List.length (lxd_tokens (lex true c08_dir (-1) c08_text)) = 19%nat.
Proof.
  destruct c08_ok as (H1 & H2 & H3).
  assert (Hc : cleanb c08_text = true /\ cleanb c08_dir = true) by (split; vm_compute; reflexivity).
  refine (conj Hc (conj (C08_lex_counter_independent _ _ _ _ H1 H2 (proj1 Hc) (proj2 Hc))
                  (conj (C08_lex_counter_independent _ _ _ _ H1 H3 (proj1 Hc) (proj2 Hc)) _))).
  repeat split; vm_compute; reflexivity.
Qed.

(* the CONTENTS of table entries are renamed too, they are not identical: a comment swallowed by a later stage leaves its
   placeholder in the text of the block comment / include directive / string literal that contains it *)
Example C08_table_contents_are_renamed :
  let t := of_string "/* a // b
 */ x 1;" in
  cleanb t = true /\
  map snd (lxd_bc (lex true c08_dir (-1) t)) = [of_string "/* a LINECOMMENT000000
 */"] /\
  map snd (lxd_bc (lex true c08_dir 5 t)) = [of_string "/* a LINECOMMENT000006
 */"] /\
  lex true c08_dir 5 t = rename_lexed (5 - -1) (lex true c08_dir (-1) t) 6%Z.
Proof. repeat split; vm_compute; reflexivity. Qed.

(* ---- parse_string ----------------------------------------------------------------------------------- *)
(* further side condition parse_side, a boolean on the first run that is invariant under the renaming (parse_side_R):
   (1) keys_okt: in every comment / include placeholder key the FIRST run of six digits (that is what SDict._clean reads
       as the id) is the id of a placeholder of the right family.  Needed: for the text "123456//k" + newline + "//k" the
       result under counter 123454 has one comment key and one line-comment entry, under counter -1 two and two
       (C08_counter_dependence_finding below): the key 123456LINECOMMENT... is looked up under id 123456, which is a
       drawn id under one counter and not under the other.  A defect of the modelled library (key_id = first six digits).
   (2) lits_own_ok: no string literal evaluates to a text containing its OWN placeholder -- the condition under which
       _insert_string_literals terminates (ParserFuelProofs.literal_ok).
   One run raises iff the other does, with the same error (map_res) -- also the RecursionError of set_global_key for a
   string literal more than ten keys deep, whatever the order in which find_global_key visits the leaves
   (CounterInsert.insert_literal_full; the sort order of placeholder keys does change across the wrap-around). *)
Theorem C08_parse_counter_independent : forall c1 c2 dir text,
  counter_ok c1 -> counter_ok c2 -> cleanb text = true -> cleanb dir = true ->
  parse_side (lex true dir c1 text) = true ->
  exists n,
    lxd_count (lex true dir c1 text) = counter_iter n c1 /\
    parse_string true dir c2 text =
    map_res (rename_parsed (c2 - c1) (counter_iter n c2)) (parse_string true dir c1 text).
Proof. exact parse_counter_independent. Qed.
Print Assumptions C08_parse_counter_independent.

Example C08_parse_counter_independent_nonvacuous :
  parse_side (lex true c08_dir (-1) c08_text) = true /\
  (exists n, lxd_count (lex true c08_dir (-1) c08_text) = counter_iter n (-1)%Z /\
             parse_string true c08_dir 123456 c08_text =
             map_res (rename_parsed (123456 - -1) (counter_iter n 123456%Z)) (parse_string true c08_dir (-1) c08_text)) /\
  (exists n, lxd_count (lex true c08_dir (-1) c08_text) = counter_iter n (-1)%Z /\
             parse_string true c08_dir 999997 c08_text =
             map_res (rename_parsed (999997 - -1) (counter_iter n 999997%Z)) (parse_string true c08_dir (-1) c08_text)) /\
  parse_string true c08_dir 999997 c08_text =
    map_res (rename_parsed (999997 - -1) 2%Z) (parse_string true c08_dir (-1) c08_text) /\
  (match parse_string true c08_dir 999997 c08_text with
   | Ok p => (List.length (sd_data (pr_sd p)), map fst (sd_lc (pr_sd p)), map fst (sd_inc (pr_sd p)), pr_count p)
   | Raise _ => (O, [], [], 0%Z)
   end) = (7%nat, [999998; 999999]%N, [0]%N, 2%Z).
Proof.
  destruct c08_ok as (H1 & H2 & H3).
  assert (Hc : cleanb c08_text = true /\ cleanb c08_dir = true) by (split; vm_compute; reflexivity).
  assert (Hs : parse_side (lex true c08_dir (-1) c08_text) = true) by (vm_compute; reflexivity).
  refine (conj Hs (conj (C08_parse_counter_independent _ _ _ _ H1 H2 (proj1 Hc) (proj2 Hc) Hs)
                  (conj (C08_parse_counter_independent _ _ _ _ H1 H3 (proj1 Hc) (proj2 Hc) Hs) _))).
  split; vm_compute; reflexivity.
Qed.

(* a string literal twelve keys deep: RecursionError under every counter *)
Example C08_parse_counter_independent_raise :
  let t := of_string "a{b{c{d{e{f{g{h{i{j{k{l 'x';}}}}}}}}}}}" in
  cleanb t = true /\ parse_side (lex true c08_dir (-1) t) = true /\
  parse_string true c08_dir (-1) t = Raise E_Recursion /\ parse_string true c08_dir 999999 t = Raise E_Recursion /\
  (exists n, lxd_count (lex true c08_dir (-1) t) = counter_iter n (-1)%Z /\
             parse_string true c08_dir 999999 t = map_res (rename_parsed (999999 - -1) (counter_iter n 999999%Z)) (parse_string true c08_dir (-1) t)).
Proof.
  cbv zeta. assert (Hc : cleanb (of_string "a{b{c{d{e{f{g{h{i{j{k{l 'x';}}}}}}}}}}}") = true) by (vm_compute; reflexivity).
  assert (Hs : parse_side (lex true c08_dir (-1) (of_string "a{b{c{d{e{f{g{h{i{j{k{l 'x';}}}}}}}}}}}")) = true) by (vm_compute; reflexivity).
  split; [exact Hc|]. split; [exact Hs|]. split; [vm_compute; reflexivity|]. split; [vm_compute; reflexivity|].
  apply C08_parse_counter_independent; try assumption; try (unfold counter_ok; split; discriminate); vm_compute; reflexivity.
Qed.

(* the ordinary data -- entries whose key is no placeholder and whose value is no text with a placeholder in it, at every
   depth -- are literally equal *)
Theorem C08_ordinary_data_equal : forall d data,
  ordinary_part (Dict (rename_kvs d data)) = ordinary_part (Dict data).
Proof. exact ordinary_data_equal. Qed.
Print Assumptions C08_ordinary_data_equal.

Example C08_ordinary_data_equal_nonvacuous :
  let d1 := match parse_string true c08_dir (-1) c08_text with Ok p => sd_data (pr_sd p) | Raise _ => [] end in
  let d2 := match parse_string true c08_dir 999997 c08_text with Ok p => sd_data (pr_sd p) | Raise _ => [] end in
  let o := Dict [(KS (of_string "a"), Leaf (SInt 1));
                 (KS (of_string "BLOCKCOMMENT000000"), Leaf (SStr (of_string "BLOCKCOMMENT000000")));  (* numbered from 0 in every parse *)
                 (KS (of_string "b"), Leaf (SStr (of_string "lit one")));
                 (KS (of_string "c"), Dict [(KS (of_string "d"), Leaf (SStr (of_string "two")));
                                            (KS (of_string "e"), Leaf (SFloat (of_string "2.5")))])] in
  d2 = rename_kvs (999997 - -1) d1 /\
  ordinary_part (Dict (rename_kvs (999997 - -1) d1)) = ordinary_part (Dict d1) /\
  ordinary_part (Dict d1) = o /\ ordinary_part (Dict d2) = o /\ List.length d1 = 7%nat /\ d1 <> d2.
Proof.
  cbv zeta. split; [vm_compute; reflexivity|]. split; [apply C08_ordinary_data_equal|].
  split; [vm_compute; reflexivity|]. split; [vm_compute; reflexivity|]. split; [vm_compute; reflexivity|]. vm_compute. discriminate.
Qed.

(* ---- reading a file (no include merging) -------------------------------------------------------------- *)
Theorem C08_read_counter_independent : forall fs root text c1 c2,
  counter_ok c1 -> counter_ok c2 ->
  fs_lookup (norm_path root) fs = Some (FNative text) ->
  cleanb text = true -> cleanb (dir_of root) = true ->
  parse_side (lex true (dir_of root) c1 text) = true ->
  exists n,
    lxd_count (lex true (dir_of root) c1 text) = counter_iter n c1 /\
    read_plain fs root false true c2 = map_res (rename_read (c2 - c1) (counter_iter n c2)) (read_plain fs root false true c1).
Proof. exact read_counter_independent_noinc. Qed.
Print Assumptions C08_read_counter_independent.

Example C08_read_counter_independent_nonvacuous :
  fs_lookup (norm_path c08_root) c08_fs = Some (FNative c08_text) /\
  cleanb (dir_of c08_root) = true /\ parse_side (lex true (dir_of c08_root) (-1) c08_text) = true /\
  (exists n, lxd_count (lex true (dir_of c08_root) (-1) c08_text) = counter_iter n (-1)%Z /\
             read_plain c08_fs c08_root false true 999997 =
             map_res (rename_read (999997 - -1) (counter_iter n 999997%Z)) (read_plain c08_fs c08_root false true (-1))) /\
  read_plain c08_fs c08_root false true 999997 = map_res (rename_read (999997 - -1) 2%Z) (read_plain c08_fs c08_root false true (-1)) /\
  read_plain c08_fs c08_root false true 123456 = map_res (rename_read (123456 - -1) 123461%Z) (read_plain c08_fs c08_root false true (-1)) /\
  (match read_plain c08_fs c08_root false true 999997 with Ok (s, c) => (List.length (sd_data s), c) | Raise _ => (O, 0%Z) end) = (6%nat, 2%Z).
Proof.
  destruct c08_ok as (H1 & H2 & H3).
  assert (Hf : fs_lookup (norm_path c08_root) c08_fs = Some (FNative c08_text)) by (vm_compute; reflexivity).
  assert (Hd : cleanb (dir_of c08_root) = true) by (vm_compute; reflexivity).
  assert (Ht : cleanb c08_text = true) by (vm_compute; reflexivity).
  assert (Hs : parse_side (lex true (dir_of c08_root) (-1) c08_text) = true) by (vm_compute; reflexivity).
  refine (conj Hf (conj Hd (conj Hs (conj (C08_read_counter_independent _ _ _ _ _ H1 H3 Hf Ht Hd Hs) _)))).
  repeat split; vm_compute; reflexivity.
Qed.

(* ---- reading with include merging ------------------------------------------------------------------------ *)
(* side conditions (CounterRead.v): every file of the file system is native, free of placeholder names and of references
   and satisfies the parser's side condition (file_ok, checked at the fresh counter -1; file_ok_any transports it to every
   counter); the normalised paths that key the file system and the spelling of the root path contain no placeholder names.
   One read raises iff the other does; the number of ids drawn in the whole read is the same. *)
From DictIO Require Import CounterRead.
Theorem C08_read_includes_counter_independent : forall fs root c1 c2,
  counter_ok c1 -> counter_ok c2 -> fs_ok fs = true -> cleanb root = true ->
  exists n,
    read_plain fs root true true c2 = map_res (rename_read (c2 - c1) (counter_iter n c2)) (read_plain fs root true true c1) /\
    (forall s k, read_plain fs root true true c1 = Ok (s, k) -> k = counter_iter n c1).
Proof. exact read_counter_independent_inc. Qed.
Print Assumptions C08_read_includes_counter_independent.

Definition c08_sub : str := of_string "x 'inner'; // sub comment
y { z 3; }
".
Definition c08_fs2 : fsys := [(c08_root, FNative c08_text); (of_string "/d/sub.dict", FNative c08_sub)].

(* the included file draws two more ids (a line comment and a string literal): eight in all; started at 999997 they are
   999998 999999 0 1 2 (main file) and 3 4 (included file), started at -1 they are 0 .. 6 *)
Example C08_read_includes_counter_independent_nonvacuous :
  fs_ok c08_fs2 = true /\ cleanb c08_root = true /\
  (exists n, read_plain c08_fs2 c08_root true true 999997 =
             map_res (rename_read (999997 - -1) (counter_iter n 999997%Z)) (read_plain c08_fs2 c08_root true true (-1)) /\
             (forall s k, read_plain c08_fs2 c08_root true true (-1) = Ok (s, k) -> k = counter_iter n (-1)%Z)) /\
  read_plain c08_fs2 c08_root true true 999997 = map_res (rename_read (999997 - -1) 4%Z) (read_plain c08_fs2 c08_root true true (-1)) /\
  read_plain c08_fs2 c08_root true true 123456 = map_res (rename_read (123456 - -1) 123463%Z) (read_plain c08_fs2 c08_root true true (-1)) /\
  (match read_plain c08_fs2 c08_root true true 999997 with
   | Ok (s, c) => (List.length (sd_data s), map fst (sd_lc s), map fst (sd_inc s), c)
   | Raise _ => (O, [], [], 0%Z)
   end) = (10%nat, [999998; 999999; 3]%N, [0]%N, 4%Z) /\
  (match read_plain c08_fs2 c08_root true true (-1) with
   | Ok (s, c) => (List.length (sd_data s), map fst (sd_lc s), map fst (sd_inc s), c)
   | Raise _ => (O, [], [], 0%Z)
   end) = (10%nat, [0; 1; 5]%N, [2]%N, 6%Z).
Proof.
  destruct c08_ok as (H1 & H2 & H3).
  assert (Hf : fs_ok c08_fs2 = true) by (vm_compute; reflexivity).
  assert (Hr : cleanb c08_root = true) by (vm_compute; reflexivity).
  refine (conj Hf (conj Hr (conj (C08_read_includes_counter_independent _ _ _ _ H1 H3 Hf Hr) _))).
  repeat split; vm_compute; reflexivity.
Qed.

(* ---- findings: where the result DOES depend on the counter beyond renaming (excluded by the side conditions) ------- *)
Definition c08_shape (r : res parsed) : nat * list N * list N :=
  match r with Ok p => (List.length (sd_data (pr_sd p)), map fst (sd_lc (pr_sd p)), map fst (sd_bc (pr_sd p))) | Raise _ => (O, [], []) end.
(* (1) SDict._clean takes the first six digits of a key for its id: a number glued to a comment is looked up as an id *)
Example C08_counter_dependence_finding :
  let t := of_string "123456//k
//k" in
  cleanb t = true /\ parse_side (lex true c08_dir (-1) t) = false /\
  c08_shape (parse_string true c08_dir (-1) t) = (2%nat, [0; 1]%N, []) /\
  c08_shape (parse_string true c08_dir 123454 t) = (1%nat, [123455]%N, []).
Proof. repeat split; vm_compute; reflexivity. Qed.
(* (1') the same with a string literal glued to a block comment (block comment ids are not drawn from the counter) *)
Example C08_counter_dependence_finding_block :
  let t := of_string "'a'/*c*/ /*c*/" in
  cleanb t = true /\ parse_side (lex true c08_dir 0 t) = false /\
  c08_shape (parse_string true c08_dir 0 t) = (1%nat, [], [1]%N) /\
  c08_shape (parse_string true c08_dir 4 t) = (2%nat, [], [0; 1]%N).
Proof. repeat split; vm_compute; reflexivity. Qed.
(* (2) comments = false: removing a comment can spell a placeholder name (the source itself contains none), which _clean
   then looks up under ids that are drawn under one counter and not under the other *)
Example C08_counter_dependence_finding_nocomments :
  let t := of_string "LINECOMMENT/**/000000 LINECOMMENT/**/000001 //x
//x
" in
  cleanb t = true /\
  lxd_tokens (lex false c08_dir (-1) (of_string "LINECOMMENT/**/000001 1;")) =
  lxd_tokens (lex false c08_dir 5 (of_string "LINECOMMENT/**/000001 1;")) /\
  c08_shape (parse_string false c08_dir (-1) t) = (1%nat, [0]%N, [0; 1]%N) /\
  c08_shape (parse_string false c08_dir 10 t) = (2%nat, [11; 12]%N, [0; 1]%N).
Proof. repeat split; vm_compute; reflexivity. Qed.

(* ================================================================================================== *)
(* added from Properties/C08_add.v (2026-10-01)                                              *)
(* ================================================================================================== *)
(* C08 (addition): the WRITER.  The bytes written from the result of a read do not depend on the value the placeholder
   counter had reached, including across its wrap-around.  To be appended to Properties/C08.v. *)
From Coq Require Import NArith ZArith List Bool.
From DictIO Require Import Chars Str Value Scalar Lexer MiscSpec CliProofs KeyPath SDict Layout TokParser Reader.
From DictIO Require Parse.
From DictIO Require Import CounterBase CounterLex CounterParse CounterProofs CounterRead CounterWrite.
Import ListNotations.

(* ---- the writer commutes with the renaming ------------------------------------------------------------- *)
(* write_safe s (CounterWrite.v), a boolean that only looks at character classes:
     - the ids of the line comment and include tables are six digit numbers;
     - line comment and block comment texts begin with a character that is neither an upper case letter nor a digit
       (they begin with a slash), block comment texts also end with one;
     - in keys, string / float leaves, comment texts and include names a semicolon is never directly followed by an upper
       case letter or a digit (semi_ok): the re-insertion pattern  PLACEHOLDER ws+ PLACEHOLDER;  ends with a semicolon,
       and what follows it is glued to the end of the text put in its place (C08_writer_safe_finding below). *)
Theorem C08_writer_equivariant : forall d s, write_safe s = true ->
  to_string_sd (rename_sd d s) = rename_str d (to_string_sd s).
Proof. exact writer_equivariant. Qed.
Print Assumptions C08_writer_equivariant.

(* (A) a written text that contains no placeholder name is literally the same under the renaming *)
Theorem C08_writer_counter_independent : forall d s, write_safe s = true -> cleanb (to_string_sd s) = true ->
  to_string_sd (rename_sd d s) = to_string_sd s.
Proof. exact writer_invariant. Qed.
Print Assumptions C08_writer_counter_independent.

Definition c08_sd (r : res (sdict * Z)) : sdict := match r with Ok (s, _) => s | Raise _ => sd_empty end.

(* non-vacuity: the SDict read from c08_text (two line comments, an include, a block comment, two string literals) at the
   fresh counter; renamed by 999998 (= the read at 999997: ids 999998 999999 0 1 2) the tables differ, the texts are equal *)
Example C08_writer_counter_independent_nonvacuous :
  let s := c08_sd (read_plain c08_fs c08_root false true (-1)) in
  write_safe s = true /\ cleanb (to_string_sd s) = true /\
  to_string_sd (rename_sd 999998 s) = rename_str 999998 (to_string_sd s) /\
  to_string_sd (rename_sd 999998 s) = to_string_sd s /\
  rename_sd 999998 s = c08_sd (read_plain c08_fs c08_root false true 999997) /\
  map fst (sd_lc s) = [0; 1]%N /\ map fst (sd_lc (rename_sd 999998 s)) = [999998; 999999]%N /\
  List.length (to_string_sd s) = 411%nat.
Proof.
  cbv zeta.
  assert (H1 : write_safe (c08_sd (read_plain c08_fs c08_root false true (-1))) = true) by (vm_compute; reflexivity).
  assert (H2 : cleanb (to_string_sd (c08_sd (read_plain c08_fs c08_root false true (-1)))) = true) by (vm_compute; reflexivity).
  refine (conj H1 (conj H2 (conj (C08_writer_equivariant _ _ H1) (conj (C08_writer_counter_independent _ _ H1 H2) _)))).
  repeat split; vm_compute; reflexivity.
Qed.

(* ---- (B) the text written after a read ---------------------------------------------------------------------- *)
(* written_after wr r: the text wr writes from the result of the read r, or the error of the read.
   write_side wr r (a boolean on the FIRST read): its result is write_safe and the text written from it contains no
   placeholder name.  The second half is not implied by the reader's side conditions: the modelled library leaves
   placeholders in the written text (C08_written_placeholder_finding below), and those bytes do depend on the counter. *)
Theorem C08_write_after_read_counter_independent : forall fs root text c1 c2,
  counter_ok c1 -> counter_ok c2 ->
  fs_lookup (norm_path root) fs = Some (FNative text) ->
  cleanb text = true -> cleanb (dir_of root) = true ->
  parse_side (lex true (dir_of root) c1 text) = true ->
  write_side to_string_sd (read_plain fs root false true c1) = true ->
  written_after to_string_sd (read_plain fs root false true c2) = written_after to_string_sd (read_plain fs root false true c1).
Proof. exact write_after_read_noinc. Qed.
Print Assumptions C08_write_after_read_counter_independent.

Theorem C08_write_after_read_includes_counter_independent : forall fs root c1 c2,
  counter_ok c1 -> counter_ok c2 -> fs_ok fs = true -> cleanb root = true ->
  write_side to_string_sd (read_plain fs root true true c1) = true ->
  written_after to_string_sd (read_plain fs root true true c2) = written_after to_string_sd (read_plain fs root true true c1).
Proof. exact write_after_read_inc. Qed.
Print Assumptions C08_write_after_read_includes_counter_independent.

(* two successful reads: the written texts are equal *)
Theorem C08_write_after_read_text : forall fs root inc c1 c2 s1 k1 s2 k2,
  written_after to_string_sd (read_plain fs root inc true c2) = written_after to_string_sd (read_plain fs root inc true c1) ->
  read_plain fs root inc true c1 = Ok (s1, k1) -> read_plain fs root inc true c2 = Ok (s2, k2) ->
  to_string_sd s1 = to_string_sd s2.
Proof. exact write_after_read_text. Qed.
Print Assumptions C08_write_after_read_text.

(* non-vacuity: c08_fs (no include merging) and c08_fs2 (the included file merged: eight ids) read at -1, 123456 and 999997
   (the ids straddle the wrap-around): by the theorems, and literally (vm_compute) *)
Example C08_write_after_read_counter_independent_nonvacuous :
  write_side to_string_sd (read_plain c08_fs c08_root false true (-1)) = true /\
  written_after to_string_sd (read_plain c08_fs c08_root false true 123456) = written_after to_string_sd (read_plain c08_fs c08_root false true (-1)) /\
  written_after to_string_sd (read_plain c08_fs c08_root false true 999997) = written_after to_string_sd (read_plain c08_fs c08_root false true (-1)) /\
  to_string_sd (c08_sd (read_plain c08_fs c08_root false true 999997)) = to_string_sd (c08_sd (read_plain c08_fs c08_root false true (-1))) /\
  to_string_sd (c08_sd (read_plain c08_fs c08_root false true 123456)) = to_string_sd (c08_sd (read_plain c08_fs c08_root false true (-1))) /\
  c08_sd (read_plain c08_fs c08_root false true 999997) <> c08_sd (read_plain c08_fs c08_root false true (-1)) /\
  (exists txt, written_after to_string_sd (read_plain c08_fs c08_root false true (-1)) = Ok txt /\ List.length txt = 411%nat).
Proof.
  destruct c08_ok as (H1 & H2 & H3).
  assert (Hf : fs_lookup (norm_path c08_root) c08_fs = Some (FNative c08_text)) by (vm_compute; reflexivity).
  assert (Hd : cleanb (dir_of c08_root) = true) by (vm_compute; reflexivity).
  assert (Ht : cleanb c08_text = true) by (vm_compute; reflexivity).
  assert (Hs : parse_side (lex true (dir_of c08_root) (-1) c08_text) = true) by (vm_compute; reflexivity).
  assert (Hw : write_side to_string_sd (read_plain c08_fs c08_root false true (-1)) = true) by (vm_compute; reflexivity).
  refine (conj Hw (conj (C08_write_after_read_counter_independent _ _ _ _ _ H1 H2 Hf Ht Hd Hs Hw)
                  (conj (C08_write_after_read_counter_independent _ _ _ _ _ H1 H3 Hf Ht Hd Hs Hw) _))).
  split; [vm_compute; reflexivity|]. split; [vm_compute; reflexivity|]. split; [vm_compute; discriminate|].
  eexists. split; vm_compute; reflexivity.
Qed.

Example C08_write_after_read_includes_counter_independent_nonvacuous :
  fs_ok c08_fs2 = true /\ cleanb c08_root = true /\
  write_side to_string_sd (read_plain c08_fs2 c08_root true true (-1)) = true /\
  written_after to_string_sd (read_plain c08_fs2 c08_root true true 123456) = written_after to_string_sd (read_plain c08_fs2 c08_root true true (-1)) /\
  written_after to_string_sd (read_plain c08_fs2 c08_root true true 999997) = written_after to_string_sd (read_plain c08_fs2 c08_root true true (-1)) /\
  (forall s1 k1 s2 k2, read_plain c08_fs2 c08_root true true (-1) = Ok (s1, k1) -> read_plain c08_fs2 c08_root true true 999997 = Ok (s2, k2) ->
                       to_string_sd s1 = to_string_sd s2) /\
  to_string_sd (c08_sd (read_plain c08_fs2 c08_root true true 999997)) = to_string_sd (c08_sd (read_plain c08_fs2 c08_root true true (-1))) /\
  to_string_sd (c08_sd (read_plain c08_fs2 c08_root true true 123456)) = to_string_sd (c08_sd (read_plain c08_fs2 c08_root true true (-1))) /\
  (map fst (sd_lc (c08_sd (read_plain c08_fs2 c08_root true true 999997))), map fst (sd_lc (c08_sd (read_plain c08_fs2 c08_root true true (-1))))) =
    ([999998; 999999; 3]%N, [0; 1; 5]%N) /\
  (exists txt, written_after to_string_sd (read_plain c08_fs2 c08_root true true (-1)) = Ok txt /\ List.length txt = 520%nat).
Proof.
  destruct c08_ok as (H1 & H2 & H3).
  assert (Hf : fs_ok c08_fs2 = true) by (vm_compute; reflexivity).
  assert (Hr : cleanb c08_root = true) by (vm_compute; reflexivity).
  assert (Hw : write_side to_string_sd (read_plain c08_fs2 c08_root true true (-1)) = true) by (vm_compute; reflexivity).
  pose proof (C08_write_after_read_includes_counter_independent _ _ _ _ H1 H3 Hf Hr Hw) as E3.
  refine (conj Hf (conj Hr (conj Hw (conj (C08_write_after_read_includes_counter_independent _ _ _ _ H1 H2 Hf Hr Hw) (conj E3 _))))).
  split; [intros s1 k1 s2 k2; exact (C08_write_after_read_text _ _ _ _ _ _ _ _ _ E3)|].
  split; [vm_compute; reflexivity|]. split; [vm_compute; reflexivity|]. split; [vm_compute; reflexivity|].
  eexists. split; vm_compute; reflexivity.
Qed.

(* the side condition write_side can be checked under either counter (write_safe only looks at character classes and at
   ids being six digit numbers; the written text of the second read is the renamed text of the first) *)
Theorem C08_write_side_counter_independent : forall fs root c1 c2,
  counter_ok c1 -> counter_ok c2 -> fs_ok fs = true -> cleanb root = true ->
  write_side to_string_sd (read_plain fs root true true c2) = write_side to_string_sd (read_plain fs root true true c1).
Proof. exact write_side_counter_independent. Qed.
Print Assumptions C08_write_side_counter_independent.

Example C08_write_side_counter_independent_nonvacuous :
  fs_ok c08_fs2 = true /\ cleanb c08_root = true /\
  write_side to_string_sd (read_plain c08_fs2 c08_root true true 999997) = write_side to_string_sd (read_plain c08_fs2 c08_root true true (-1)) /\
  write_side to_string_sd (read_plain c08_fs2 c08_root true true 999997) = true.
Proof.
  destruct c08_ok as (H1 & H2 & H3).
  assert (Hf : fs_ok c08_fs2 = true) by (vm_compute; reflexivity).
  assert (Hr : cleanb c08_root = true) by (vm_compute; reflexivity).
  refine (conj Hf (conj Hr (conj (C08_write_side_counter_independent _ _ _ _ H1 H3 Hf Hr) _))). vm_compute. reflexivity.
Qed.

(* ---- FoamFormatter ----------------------------------------------------------------------------------------- *)
Theorem C08_foam_writer_equivariant : forall d s, write_safe s = true ->
  foam_to_string_sd (rename_sd d s) = rename_str d (foam_to_string_sd s).
Proof. exact foam_writer_equivariant. Qed.
Print Assumptions C08_foam_writer_equivariant.

Theorem C08_foam_writer_counter_independent : forall d s, write_safe s = true -> cleanb (foam_to_string_sd s) = true ->
  foam_to_string_sd (rename_sd d s) = foam_to_string_sd s.
Proof. exact foam_writer_invariant. Qed.
Print Assumptions C08_foam_writer_counter_independent.

Theorem C08_foam_write_after_read_includes_counter_independent : forall fs root c1 c2,
  counter_ok c1 -> counter_ok c2 -> fs_ok fs = true -> cleanb root = true ->
  write_side foam_to_string_sd (read_plain fs root true true c1) = true ->
  written_after foam_to_string_sd (read_plain fs root true true c2) = written_after foam_to_string_sd (read_plain fs root true true c1).
Proof. exact foam_write_after_read_inc. Qed.
Print Assumptions C08_foam_write_after_read_includes_counter_independent.

Example C08_foam_write_after_read_includes_counter_independent_nonvacuous :
  write_side foam_to_string_sd (read_plain c08_fs2 c08_root true true (-1)) = true /\
  written_after foam_to_string_sd (read_plain c08_fs2 c08_root true true 999997) = written_after foam_to_string_sd (read_plain c08_fs2 c08_root true true (-1)) /\
  foam_to_string_sd (c08_sd (read_plain c08_fs2 c08_root true true 999997)) = foam_to_string_sd (c08_sd (read_plain c08_fs2 c08_root true true (-1))) /\
  foam_to_string_sd (rename_sd 999998 (c08_sd (read_plain c08_fs2 c08_root true true (-1)))) =
    rename_str 999998 (foam_to_string_sd (c08_sd (read_plain c08_fs2 c08_root true true (-1)))) /\
  contains (of_string "OpenFOAM") (foam_to_string_sd (c08_sd (read_plain c08_fs2 c08_root true true (-1)))) = true /\
  contains (of_string "// sub comment") (foam_to_string_sd (c08_sd (read_plain c08_fs2 c08_root true true (-1)))) = true.
Proof.
  destruct c08_ok as (H1 & H2 & H3).
  assert (Hf : fs_ok c08_fs2 = true) by (vm_compute; reflexivity).
  assert (Hr : cleanb c08_root = true) by (vm_compute; reflexivity).
  assert (Hw : write_side foam_to_string_sd (read_plain c08_fs2 c08_root true true (-1)) = true) by (vm_compute; reflexivity).
  assert (Hs : write_safe (c08_sd (read_plain c08_fs2 c08_root true true (-1))) = true) by (vm_compute; reflexivity).
  refine (conj Hw (conj (C08_foam_write_after_read_includes_counter_independent _ _ _ _ H1 H3 Hf Hr Hw) _)).
  split; [vm_compute; reflexivity|]. split; [exact (C08_foam_writer_equivariant _ _ Hs)|]. split; vm_compute; reflexivity.
Qed.

(* ---- (C) DictWriter.write and DictParser.parse (mode w, order off) ----------------------------------------------- *)
(* write_sd with append = false, order = false: parse_values on the source, then the formatter.  write_sd_side foam s: the
   source as serialised (write_src s: after parse_values) is write_safe and its text contains no placeholder name.
   text_of drops the counter that the model threads through. *)
Theorem C08_write_sd_counter_independent : forall fs foam target d s c c',
  write_sd_side foam s = true ->
  text_of (Parse.write_sd fs foam target false false (rename_sd d s) c') = text_of (Parse.write_sd fs foam target false false s c).
Proof. exact write_sd_counter_independent. Qed.
Print Assumptions C08_write_sd_counter_independent.

Example C08_write_sd_counter_independent_nonvacuous :
  let s := c08_sd (read_plain c08_fs2 c08_root true true (-1)) in
  write_sd_side false s = true /\ write_sd_side true s = true /\
  text_of (Parse.write_sd c08_fs2 false (of_string "/d/out.dict") false false (rename_sd 999998 s) 4) =
  text_of (Parse.write_sd c08_fs2 false (of_string "/d/out.dict") false false s 6) /\
  rename_sd 999998 s = c08_sd (read_plain c08_fs2 c08_root true true 999997) /\
  (exists txt, text_of (Parse.write_sd c08_fs2 false (of_string "/d/out.dict") false false s 6) = Some (Ok txt) /\ List.length txt = 520%nat).
Proof.
  cbv zeta.
  assert (Hw : write_sd_side false (c08_sd (read_plain c08_fs2 c08_root true true (-1))) = true) by (vm_compute; reflexivity).
  refine (conj Hw (conj _ (conj (C08_write_sd_counter_independent _ _ _ _ _ _ _ Hw) (conj _ _)))); [vm_compute; reflexivity|vm_compute; reflexivity|].
  eexists. split; vm_compute; reflexivity.
Qed.

(* DictParser.parse(source) with includes on, mode w, order off, comments on, no scope (the defaults), output None / cpp /
   foam: the target path and the text written do not depend on the counter.  pm_out drops the counter; pm_side: the
   side condition write_sd_side on the SDict read in the first run, for the formatter the output option selects. *)
Theorem C08_parse_counter_independent_written : forall fs src output c1 c2,
  counter_ok c1 -> counter_ok c2 -> fs_ok fs = true -> cleanb src = true ->
  pm_side fs src output c1 = true ->
  pm_out (Parse.parse_model fs src true false false true [] output c2) = pm_out (Parse.parse_model fs src true false false true [] output c1).
Proof. exact parse_model_counter_independent. Qed.
Print Assumptions C08_parse_counter_independent_written.

Example C08_parse_counter_independent_written_nonvacuous :
  fs_ok c08_fs2 = true /\ cleanb c08_root = true /\ pm_side c08_fs2 c08_root None (-1) = true /\
  pm_side c08_fs2 c08_root (Some (of_string "foam")) (-1) = true /\
  pm_out (Parse.parse_model c08_fs2 c08_root true false false true [] None 123456) = pm_out (Parse.parse_model c08_fs2 c08_root true false false true [] None (-1)) /\
  pm_out (Parse.parse_model c08_fs2 c08_root true false false true [] None 999997) = pm_out (Parse.parse_model c08_fs2 c08_root true false false true [] None (-1)) /\
  pm_out (Parse.parse_model c08_fs2 c08_root true false false true [] (Some (of_string "foam")) 999997) =
    pm_out (Parse.parse_model c08_fs2 c08_root true false false true [] (Some (of_string "foam")) (-1)) /\
  (exists txt, pm_out (Parse.parse_model c08_fs2 c08_root true false false true [] None 999997) = Some (Ok (of_string "/d/parsed.main.dict", txt)) /\
               List.length txt = 520%nat /\ contains (of_string "// sub comment") txt = true) /\
  (* the counters the two runs end with differ *)
  (option_map (map_res snd) (Parse.parse_model c08_fs2 c08_root true false false true [] None 999997),
   option_map (map_res snd) (Parse.parse_model c08_fs2 c08_root true false false true [] None (-1))) = (Some (Ok 4%Z), Some (Ok 6%Z)).
Proof.
  destruct c08_ok as (H1 & H2 & H3).
  assert (Hf : fs_ok c08_fs2 = true) by (vm_compute; reflexivity).
  assert (Hr : cleanb c08_root = true) by (vm_compute; reflexivity).
  assert (Hp : pm_side c08_fs2 c08_root None (-1) = true) by (vm_compute; reflexivity).
  assert (Hq : pm_side c08_fs2 c08_root (Some (of_string "foam")) (-1) = true) by (vm_compute; reflexivity).
  refine (conj Hf (conj Hr (conj Hp (conj Hq (conj (C08_parse_counter_independent_written _ _ _ _ _ H1 H2 Hf Hr Hp)
         (conj (C08_parse_counter_independent_written _ _ _ _ _ H1 H3 Hf Hr Hp)
         (conj (C08_parse_counter_independent_written _ _ _ _ _ H1 H3 Hf Hr Hq) _))))))).
  split; [|vm_compute; reflexivity]. eexists. split; [vm_compute; reflexivity|]. split; vm_compute; reflexivity.
Qed.

(* order = true: SDict.order_keys sorts the placeholder keys (and the tables) by their ids, so when the ids of one read
   straddle the wrap-around the comments come out in a different order: the bytes written DO depend on the counter.
   Known finding, same behaviour of the library (dictIO 0.4.1: DictParser.parse(main.dict, order=True) with the counter
   preset to 999997 writes "// sub comment" before "// first", with -1 and 123456 after "// second"). *)
Example C08_order_wrap_finding :
  let w c := match Parse.parse_model c08_fs2 c08_root true false true true [] None c with Some (Ok (_, txt, _)) => txt | _ => [] end in
  w 123456%Z = w (-1)%Z /\ w 999997%Z <> w (-1)%Z /\ List.length (w 999997%Z) = List.length (w (-1)%Z) /\
  contains (of_string "// first
// second
// sub comment
a ") (w (-1)%Z) = true /\
  contains (of_string "// sub comment
// first
// second
a ") (w 999997%Z) = true.
Proof.
  cbv zeta. split; [vm_compute; reflexivity|]. split; [vm_compute; discriminate|]. split; [vm_compute; reflexivity|].
  split; vm_compute; reflexivity.
Qed.

(* ---- findings ---------------------------------------------------------------------------------------------- *)
(* (1) the written text CAN contain placeholder names, and then the bytes depend on the counter: a line comment inside a
   block comment stays LINECOMMENT + id in the comment text (the writer only re-inserts the pattern
   PLACEHOLDER ws+ PLACEHOLDER; ), a quoted key stays STRINGLITERAL + id (the parser re-inserts string literals into values
   only).  Same behaviour of the library (dictIO 0.4.1, DictReader.read + NativeFormatter.to_string):
   BLOCKCOMMENT texts and keys of the output show LINECOMMENT000000 / STRINGLITERAL000002 at the fresh counter and
   LINECOMMENT000006 / STRINGLITERAL000008 at counter 5. *)
Example C08_written_placeholder_finding :
  let t := of_string "/* a // b
 */ x 1;
'k k' 3;
" in
  let fs := [(c08_root, FNative t)] in
  let w c := match read_plain fs c08_root false true c with Ok (s, _) => to_string_sd s | Raise _ => [] end in
  cleanb t = true /\ parse_side (lex true (dir_of c08_root) (-1) t) = true /\
  write_side to_string_sd (read_plain fs c08_root false true (-1)) = false /\
  match read_plain fs c08_root false true (-1) with Ok (s, _) => write_safe s | Raise _ => false end = true /\
  contains (of_string "/* a LINECOMMENT000000") (w (-1)%Z) = true /\ contains (of_string "STRINGLITERAL000001  ") (w (-1)%Z) = true /\
  contains (of_string "/* a LINECOMMENT000006") (w 5%Z) = true /\ contains (of_string "STRINGLITERAL000007  ") (w 5%Z) = true /\
  w (-1)%Z <> w 5%Z /\ w 5%Z = rename_str (5 - -1) (w (-1)%Z).
Proof.
  cbv zeta. do 8 (split; [vm_compute; reflexivity|]). split; [vm_compute; discriminate|vm_compute; reflexivity].
Qed.

(* (2) write_safe is needed for the writer to commute with the renaming: a key in which the re-insertion pattern is followed
   by digits.  After the block comment "/* LINECOMMENT" has been put in place of the pattern, its end and the digits spell the
   placeholder of line comment 1, which the line comment stage then replaces; renamed, the digits stay (they are no
   placeholder in the key) and the line comment has id 8: nothing is replaced.  The text written from s is free of
   placeholder names all the same.  (Not reachable from a read of a placeholder-free source.) *)
Example C08_writer_safe_finding :
  let s := mkSD [(KS (of_string "BLOCKCOMMENT000001 BLOCKCOMMENT000001;000001 LINECOMMENT000001;"), Leaf (SInt 1))]
                [(1%N, of_string "//x")] [(0%N, of_string "/* h */"); (1%N, of_string "/* LINECOMMENT")] [] [] in
  write_safe s = false /\ cleanb (to_string_sd s) = true /\
  contains (of_string "'/* //x'") (to_string_sd s) = true /\
  contains (of_string "'/* LINECOMMENT000001 LINECOMMENT000008;'") (to_string_sd (rename_sd 7 s)) = true /\
  to_string_sd (rename_sd 7 s) <> rename_str 7 (to_string_sd s).
Proof. cbv zeta. do 4 (split; [vm_compute; reflexivity|]). vm_compute. discriminate. Qed.

(* (2') the other parts of write_safe are needed as well.
   ids: a table id of seven digits is not moved by the renaming, but its placeholder text is read as a six digit id plus a
   digit, and is renamed in the data: the entry is no longer found (the text written from s is free of placeholders).
   head: a table text that begins with digits spells a new placeholder together with an upper case word in front of it.
   last: the duplicate test of insert_block_comments (is the comment contained in what was inserted so far) is a substring
   test; a block comment text ending in the middle of a placeholder name matches before the renaming and not after. *)
Example C08_writer_safe_finding_ids :
  let s := mkSD [(KS (of_string "LINECOMMENT1000000"), Leaf (SStr (of_string "LINECOMMENT1000000")))] [(1000000%N, of_string "//x")] [] [] [] in
  write_safe s = false /\ cleanb (to_string_sd s) = true /\ contains (of_string "//x") (to_string_sd s) = true /\
  contains (of_string "LINECOMMENT1000070            LINECOMMENT1000070;") (to_string_sd (rename_sd 7 s)) = true /\
  to_string_sd (rename_sd 7 s) <> to_string_sd s.
Proof. cbv zeta. do 4 (split; [vm_compute; reflexivity|]). vm_compute. discriminate. Qed.

Example C08_writer_safe_finding_head :
  let s := mkSD [(KS (of_string "x"), Leaf (SStr (of_string "LINECOMMENTLINECOMMENT000001 LINECOMMENT000001; y")))] [(1%N, of_string "000002")] [] [] [] in
  write_safe s = false /\
  contains (of_string "'LINECOMMENT000002 y'") (to_string_sd s) = true /\
  contains (of_string "'LINECOMMENT000002 y'") (to_string_sd (rename_sd 7 s)) = true /\
  contains (of_string "'LINECOMMENT000009 y'") (rename_str 7 (to_string_sd s)) = true /\
  to_string_sd (rename_sd 7 s) <> rename_str 7 (to_string_sd s).
Proof. cbv zeta. do 4 (split; [vm_compute; reflexivity|]). vm_compute. discriminate. Qed.

Example C08_writer_safe_finding_last :
  let k i := (KS (placeholder w_BLOCKCOMMENT i), Leaf (SStr (placeholder w_BLOCKCOMMENT i))) in
  let s := mkSD [k 0%N; k 1%N; (KS (of_string "a"), Leaf (SInt 1))] []
                [(0%N, of_string "/*A LINECOMMENT000001 */"); (1%N, of_string "/*A LINECOMMENT00000")] [] [] in
  write_safe s = false /\
  contains (of_string "/*A LINECOMMENT00000
") (to_string_sd s) = false /\
  contains (of_string "/*A LINECOMMENT00000
") (to_string_sd (rename_sd 100000 s)) = true /\
  to_string_sd (rename_sd 100000 s) <> rename_str 100000 (to_string_sd s).
Proof. cbv zeta. do 3 (split; [vm_compute; reflexivity|]). vm_compute. discriminate. Qed.

(* ================================================================================================== *)
(* added from Properties/C08_add.v (2026-10-01)                                              *)
(* ================================================================================================== *)
(* C08 (addition): PATH SPELLING.  The data returned by a read and the bytes written by a parse do not depend on how the
   path of the file is spelled (dot and dot-dot components, doubled and trailing slashes), as long as the spellings name the
   same file and, textually, the same directory.  To be appended to Properties/C08.v. *)
From Coq Require Import String.
From Coq Require Import NArith ZArith List Bool.
From DictIO Require Import Chars Str Value Scalar KeyPath SDict Layout Lexer TokParser Reader.
From DictIO Require Parse.
From DictIO Require Import SpellingProofs.
Import ListNotations.
Ltac c08p_conj := repeat match goal with |- _ /\ _ => split end.

(* ---- (1) the path functions ----------------------------------------------------------------------------------- *)
(* An include directive in a file spelled r names path_join (dir_of r) name, looked up under norm_path.  dir_of is textual
   (Path.parent): it does not resolve dot-dot.  The file named depends on the directory exactly through its normal form. *)
Theorem C08_include_target_spelling : forall d1 d2,
  (forall n, norm_path (path_join d1 n) = norm_path (path_join d2 n)) <-> norm_path d1 = norm_path d2.
Proof. exact norm_path_join_iff. Qed.
Print Assumptions C08_include_target_spelling.

(* same_file r1 r2 (boolean): norm_path r1 = norm_path r2 and norm_path (dir_of r1) = norm_path (dir_of r2).  The second
   half follows from the first when the last non-empty component of both spellings is a proper name (proper_last: not
   dot, not dot-dot, not missing); it fails for a spelling that goes on after the file name (finding below). *)
Theorem C08_same_file_spec : forall r1 r2, same_file r1 r2 = true <->
  norm_path r1 = norm_path r2 /\ norm_path (dir_of r1) = norm_path (dir_of r2).
Proof. exact same_file_spec. Qed.
Print Assumptions C08_same_file_spec.

Theorem C08_same_file_proper : forall r1 r2, proper_last r1 = true -> proper_last r2 = true -> norm_path r1 = norm_path r2 ->
  same_file r1 r2 = true /\ last (ncomps r1) [] = last (ncomps r2) [].
Proof. exact same_file_proper. Qed.
Print Assumptions C08_same_file_proper.

Definition c08p_A : str := of_string "/r/main.dict".
Definition c08p_B : str := of_string "/r/./main.dict".
Definition c08p_C : str := of_string "/r/sub/../main.dict".
Definition c08p_D : str := of_string "//r//main.dict".
Definition c08p_E : str := of_string "/../r/main.dict/".

Example C08_same_file_proper_nonvacuous :
  proper_last c08p_A = true /\ proper_last c08p_C = true /\ norm_path c08p_A = norm_path c08p_C /\
  same_file c08p_A c08p_C = true /\ last (ncomps c08p_A) [] = last (ncomps c08p_C) [] /\
  dir_of c08p_C = of_string "/r/sub/.." /\ dir_of c08p_A = of_string "/r" /\
  (forall n, norm_path (path_join (dir_of c08p_A) n) = norm_path (path_join (dir_of c08p_C) n)) /\
  path_join (dir_of c08p_C) (of_string "x.dict") = of_string "/r/sub/../x.dict" /\
  norm_path (path_join (dir_of c08p_C) (of_string "x.dict")) = of_string "/r/x.dict" /\
  (* doubled slashes, a dot-dot above the root and a trailing slash are harmless as well *)
  same_file c08p_A c08p_B = true /\ same_file c08p_A c08p_D = true /\ same_file c08p_A c08p_E = true.
Proof.
  assert (H1 : proper_last c08p_A = true) by (vm_compute; reflexivity).
  assert (H2 : proper_last c08p_C = true) by (vm_compute; reflexivity).
  assert (H3 : norm_path c08p_A = norm_path c08p_C) by (vm_compute; reflexivity).
  destruct (C08_same_file_proper _ _ H1 H2 H3) as [H4 H5].
  refine (conj H1 (conj H2 (conj H3 (conj H4 (conj H5 _))))).
  split; [vm_compute; reflexivity|]. split; [vm_compute; reflexivity|].
  split; [apply C08_include_target_spelling; apply C08_same_file_spec in H4; exact (proj2 H4)|].
  c08p_conj; vm_compute; reflexivity.
Qed.

(* finding: a spelling that continues after the file name (a trailing dot component, or a component followed by dot-dot)
   normalises to the same file but has another textual directory: includes are looked up below the FILE.
   (pathlib drops a trailing dot component, so the first spelling is harmless in the library; the second is not openable.) *)
Example C08_spelling_dir_finding :
  let r1 := of_string "/r/main.dict" in let r2 := of_string "/r/main.dict/." in let r3 := of_string "/r/main.dict/x/.." in
  norm_path r1 = norm_path r2 /\ norm_path r1 = norm_path r3 /\ same_file r1 r2 = false /\ same_file r1 r3 = false /\
  proper_last r2 = false /\ proper_last r3 = false /\
  norm_path (path_join (dir_of r1) (of_string "x.dict")) = of_string "/r/x.dict" /\
  norm_path (path_join (dir_of r2) (of_string "x.dict")) = of_string "/r/main.dict/x.dict" /\
  norm_path (path_join (dir_of r3) (of_string "x.dict")) = of_string "/r/main.dict/x/x.dict".
Proof. cbv zeta. c08p_conj; vm_compute; reflexivity. Qed.

(* ---- (2) DictReader.read ------------------------------------------------------------------------------------------ *)
(* the example: main.dict includes sub/a.dict, which includes ../b.dict *)
Definition c08p_fs : fsys :=
  [(of_string "/r/main.dict", FNative (of_string "#include 'sub/a.dict'
m 1;
"));
   (of_string "/r/sub/a.dict", FNative (of_string "#include '../b.dict'
a 2;
"));
   (of_string "/r/b.dict", FNative (of_string "b 3; // comment
"))].

(* includes off: only the root file is read; nothing but norm_path r1 = norm_path r2 is needed.  The results agree in
   everything except the third component of the include entries, which is the name joined to the directory as spelled
   (read_rel (ER_dir d1 d2): data, comment tables, expression table, counter equal; include tables entry by entry:
   same id, same directive, same name, path_i = path_join d_i name).  One read raises iff the other does, same error. *)
Theorem C08_read_spelling_includes_off : forall fs r1 r2 com c, norm_path r1 = norm_path r2 ->
  read_rel (ER_dir (dir_of r1) (dir_of r2)) (read_plain fs r1 false com c) (read_plain fs r2 false com c).
Proof. exact read_plain_off_rel. Qed.
Print Assumptions C08_read_spelling_includes_off.

(* includes on.  Side condition read_names_ok fs r1 com c (boolean, on the first read; it walks the include recursion
   exactly as merge_includes_rec does, with the same counters): every file that is parsed has only include names that
   are non-empty and relative.  Forced by the two findings below.  ER_on r1 r2: same directive, same name, the stored
   paths normalise to the same path, and they are dir_of r1 ++ s and dir_of r2 ++ s for one and the same text s: they
   differ in the spelling of the root's directory only. *)
Theorem C08_read_spelling_includes_on : forall fs r1 r2 com c, same_file r1 r2 = true -> read_names_ok fs r1 com c = true ->
  read_rel (ER_on r1 r2) (read_plain fs r1 true com c) (read_plain fs r2 true com c).
Proof. exact read_spelling_on. Qed.
Print Assumptions C08_read_spelling_includes_on.

(* both, in plain words (same_result): same data, same line comment / block comment / expression tables, same counter;
   include tables entry by entry: same id, directive, name, and the stored paths equal after norm_path *)
Theorem C08_read_spelling_independent : forall fs r1 r2 inc com c, same_file r1 r2 = true ->
  (inc = true -> read_names_ok fs r1 com c = true) ->
  same_result (read_plain fs r1 inc com c) (read_plain fs r2 inc com c).
Proof. exact read_spelling_independent. Qed.
Print Assumptions C08_read_spelling_independent.

Definition c08p_view (r : res (sdict * Z)) : list key * list (N * str) * list str * Z :=
  match r with
  | Ok (s, c) => (map fst (sd_data s), map (fun e => (fst e, inc_name e)) (sd_inc s), map inc_path (sd_inc s), c)
  | Raise _ => ([], [], [], 0%Z)
  end.

Example C08_read_spelling_independent_nonvacuous :
  same_file c08p_A c08p_B = true /\ same_file c08p_A c08p_C = true /\ read_names_ok c08p_fs c08p_A true (-1) = true /\
  same_result (read_plain c08p_fs c08p_A true true (-1)) (read_plain c08p_fs c08p_B true true (-1)) /\
  same_result (read_plain c08p_fs c08p_A true true (-1)) (read_plain c08p_fs c08p_C true true (-1)) /\
  same_result (read_plain c08p_fs c08p_A false true (-1)) (read_plain c08p_fs c08p_C false true (-1)) /\
  read_rel (ER_on c08p_A c08p_C) (read_plain c08p_fs c08p_A true true (-1)) (read_plain c08p_fs c08p_C true true (-1)) /\
  (* all three files are merged, whatever the spelling; the stored paths differ literally *)
  c08p_view (read_plain c08p_fs c08p_A true true (-1)) =
    ([KS (of_string "INCLUDE000000"); KS (of_string "m"); KS (of_string "INCLUDE000001"); KS (of_string "a"); KS (of_string "b");
      KS (of_string "LINECOMMENT000002")],
     [(0%N, of_string "sub/a.dict"); (1%N, of_string "../b.dict")],
     [of_string "/r/sub/a.dict"; of_string "/r/sub/../b.dict"], 2%Z) /\
  c08p_view (read_plain c08p_fs c08p_B true true (-1)) =
    (fst (fst (fst (c08p_view (read_plain c08p_fs c08p_A true true (-1))))),
     [(0%N, of_string "sub/a.dict"); (1%N, of_string "../b.dict")],
     [of_string "/r/./sub/a.dict"; of_string "/r/./sub/../b.dict"], 2%Z) /\
  c08p_view (read_plain c08p_fs c08p_C true true (-1)) =
    (fst (fst (fst (c08p_view (read_plain c08p_fs c08p_A true true (-1))))),
     [(0%N, of_string "sub/a.dict"); (1%N, of_string "../b.dict")],
     [of_string "/r/sub/../sub/a.dict"; of_string "/r/sub/../sub/../b.dict"], 2%Z) /\
  match read_plain c08p_fs c08p_A true true (-1), read_plain c08p_fs c08p_C true true (-1) with
  | Ok (s1, _), Ok (s2, _) => sd_data s1 = sd_data s2 /\ sd_lc s1 = sd_lc s2 /\ sd_inc s1 <> sd_inc s2
  | _, _ => False
  end.
Proof.
  assert (H1 : same_file c08p_A c08p_B = true) by (vm_compute; reflexivity).
  assert (H2 : same_file c08p_A c08p_C = true) by (vm_compute; reflexivity).
  assert (H3 : read_names_ok c08p_fs c08p_A true (-1) = true) by (vm_compute; reflexivity).
  refine (conj H1 (conj H2 (conj H3 (conj (C08_read_spelling_independent _ _ _ true true _ H1 (fun _ => H3))
         (conj (C08_read_spelling_independent _ _ _ true true _ H2 (fun _ => H3))
         (conj (C08_read_spelling_independent _ _ _ false true (-1)%Z H2 _)
         (conj (C08_read_spelling_includes_on _ _ _ true _ H2 H3) _))))))); [intros H; discriminate H|].
  split; [vm_compute; reflexivity|]. split; [vm_compute; reflexivity|]. split; [vm_compute; reflexivity|].
  vm_compute. split; [reflexivity|]. split; [reflexivity|]. discriminate.
Qed.

(* finding (also of the library, dictIO 0.4.1: DictReader.read of main.dict spelled .../r/main.dict and .../r/sub/../main.dict
   returns the keys INCLUDE000000 INCLUDE000001 m x o and INCLUDE000000 INCLUDE000001 m x INCLUDE000002 o): an ABSOLUTE
   include name.  main.dict includes x.dict and (by its absolute path) other.dict, which includes x.dict as well.
   SDict._clean drops an include entry that equals an earlier one, paths compared as spelled: read as /r/main.dict both
   x.dict entries carry /r/x.dict and the second one is dropped; read as /r/sub/../main.dict the first carries
   /r/sub/../x.dict, the second (anchored at the absolute /r/other.dict) /r/x.dict: both stay.  The DATA differ. *)
Example C08_spelling_absolute_include_finding :
  let fs := [(of_string "/r/main.dict", FNative (of_string "#include 'x.dict'
#include '/r/other.dict'
m 1;
")); (of_string "/r/other.dict", FNative (of_string "#include 'x.dict'
o 2;
")); (of_string "/r/x.dict", FNative (of_string "x 3;
"))] in
  same_file c08p_A c08p_C = true /\ read_names_ok fs c08p_A true (-1) = false /\
  fst (fst (fst (c08p_view (read_plain fs c08p_A true true (-1))))) =
    [KS (of_string "INCLUDE000000"); KS (of_string "INCLUDE000001"); KS (of_string "m"); KS (of_string "x"); KS (of_string "o")] /\
  fst (fst (fst (c08p_view (read_plain fs c08p_C true true (-1))))) =
    [KS (of_string "INCLUDE000000"); KS (of_string "INCLUDE000001"); KS (of_string "m"); KS (of_string "x");
     KS (of_string "INCLUDE000002"); KS (of_string "o")] /\
  snd (fst (c08p_view (read_plain fs c08p_C true true (-1)))) = [of_string "/r/sub/../x.dict"; of_string "/r/other.dict"; of_string "/r/x.dict"] /\
  (* model only: the model keeps a dot component in the directory, pathlib drops it; the library returns the first key list
     for .../r/./main.dict *)
  fst (fst (fst (c08p_view (read_plain fs c08p_B true true (-1))))) = fst (fst (fst (c08p_view (read_plain fs c08p_C true true (-1))))).
Proof. cbv zeta. c08p_conj; vm_compute; reflexivity. Qed.

(* finding (model only: the model's file system has no directories, a path can be a file and a directory of files): an
   EMPTY include name is joined to the directory itself; if a file is stored under that path, its own includes are anchored
   at the textual parent of the directory as spelled *)
Example C08_spelling_empty_include_finding :
  let fs := [(of_string "/r/main.dict", FNative (of_string "#include ''
m 1;
")); (of_string "/r", FNative (of_string "#include 'x.dict'
o 2;
")); (of_string "/x.dict", FNative (of_string "x 3;
"))] in
  same_file c08p_A c08p_C = true /\ read_names_ok fs c08p_A true (-1) = false /\
  fst (fst (fst (c08p_view (read_plain fs c08p_A true true (-1))))) =
    [KS (of_string "INCLUDE000000"); KS (of_string "m"); KS (of_string "INCLUDE000001"); KS (of_string "o"); KS (of_string "x")] /\
  fst (fst (fst (c08p_view (read_plain fs c08p_C true true (-1))))) =
    [KS (of_string "INCLUDE000000"); KS (of_string "m"); KS (of_string "INCLUDE000001"); KS (of_string "o")] /\
  snd (fst (c08p_view (read_plain fs c08p_A true true (-1)))) = [of_string "/r"; of_string "/x.dict"] /\
  snd (fst (c08p_view (read_plain fs c08p_C true true (-1)))) = [of_string "/r/sub/.."; of_string "/r/sub/x.dict"].
Proof. cbv zeta. c08p_conj; vm_compute; reflexivity. Qed.

(* ---- (3) DictReader.read with all options, DictParser.parse ------------------------------------------------------ *)
(* same_opt_result: both reads are outside the modelled fragment (None), or same_result *)
Theorem C08_read_opts_spelling_independent : forall fs r1 r2 inc order com scope c, same_file r1 r2 = true ->
  (inc = true -> read_names_ok fs r1 com c = true) ->
  same_opt_result (Parse.read_opts fs r1 inc order com scope c) (Parse.read_opts fs r2 inc order com scope c).
Proof. exact read_opts_spelling. Qed.
Print Assumptions C08_read_opts_spelling_independent.

Example C08_read_opts_spelling_independent_nonvacuous :
  same_file c08p_A c08p_C = true /\ read_names_ok c08p_fs c08p_A true (-1) = true /\
  same_opt_result (Parse.read_opts c08p_fs c08p_A true true true [] (-1)) (Parse.read_opts c08p_fs c08p_C true true true [] (-1)) /\
  same_opt_result (Parse.read_opts c08p_fs c08p_A false false false [] (-1)) (Parse.read_opts c08p_fs c08p_C false false false [] (-1)) /\
  option_map c08p_view (Parse.read_opts c08p_fs c08p_C true true true [] (-1)) =
    Some ([KS (of_string "INCLUDE000000"); KS (of_string "INCLUDE000001"); KS (of_string "LINECOMMENT000002"); KS (of_string "a");
           KS (of_string "b"); KS (of_string "m")],
          [(0%N, of_string "sub/a.dict"); (1%N, of_string "../b.dict")],
          [of_string "/r/sub/../sub/a.dict"; of_string "/r/sub/../sub/../b.dict"], 2%Z).
Proof.
  assert (H2 : same_file c08p_A c08p_C = true) by (vm_compute; reflexivity).
  assert (H3 : read_names_ok c08p_fs c08p_A true (-1) = true) by (vm_compute; reflexivity).
  refine (conj H2 (conj H3 (conj (C08_read_opts_spelling_independent _ _ _ true true true [] _ H2 (fun _ => H3))
         (conj (C08_read_opts_spelling_independent _ _ _ false false false [] (-1)%Z H2 _) _)))); [intros H; discriminate H|].
  vm_compute. reflexivity.
Qed.

(* DictParser.parse, all options (native / Foam output; json / xml are outside the model on both sides).  pm_same: both runs
   are outside the model, or raise the same error, or write the SAME TEXT, end with the same counter, and name targets that
   normalise to the same path (the target is dir_of src + name: it carries the spelling of the source's directory).
   Side conditions: same_file; the two spellings have the same base name (a trailing slash gives the empty base name in the
   model: finding below); includes on: read_names_ok as above; append mode (pm_append_side, boolean, on the first run): when
   the target exists already, the read of the target meets non-empty relative include names only, and so does the include
   table of the source if it was read with includes off (the tables of source and target are merged). *)
Theorem C08_parse_spelling_independent : forall fs r1 r2 inc append order com scope output c,
  same_file r1 r2 = true -> base_name r1 = base_name r2 ->
  (inc = true -> read_names_ok fs r1 com c = true) ->
  (append = true -> pm_append_side fs r1 inc order com scope output c = true) ->
  pm_same (Parse.parse_model fs r1 inc append order com scope output c) (Parse.parse_model fs r2 inc append order com scope output c).
Proof. exact parse_model_spelling. Qed.
Print Assumptions C08_parse_spelling_independent.

(* the example with the parsed file present already (it has an include of its own): mode a merges into it *)
Definition c08p_fs2 : fsys := c08p_fs ++ [(of_string "/r/parsed.main.dict", FNative (of_string "old 7;
#include 'b.dict'
"))].
Definition c08p_pm (o : option (res (str * str * Z))) : str * nat * Z :=
  match o with Some (Ok (t, x, c)) => (t, List.length x, c) | _ => ([], O, 0%Z) end.

Example C08_parse_spelling_independent_nonvacuous :
  same_file c08p_A c08p_C = true /\ base_name c08p_A = base_name c08p_C /\ read_names_ok c08p_fs2 c08p_A true (-1) = true /\
  pm_append_side c08p_fs2 c08p_A true false true [] None (-1) = true /\
  pm_append_side c08p_fs2 c08p_A false true true [] (Some (of_string "foam")) (-1) = true /\
  (* mode w *)
  pm_same (Parse.parse_model c08p_fs2 c08p_A true false false true [] None (-1)) (Parse.parse_model c08p_fs2 c08p_C true false false true [] None (-1)) /\
  (* mode a, onto the existing parsed.main.dict *)
  pm_same (Parse.parse_model c08p_fs2 c08p_A true true false true [] None (-1)) (Parse.parse_model c08p_fs2 c08p_C true true false true [] None (-1)) /\
  (* includes off, order on, Foam output, mode a *)
  pm_same (Parse.parse_model c08p_fs2 c08p_A false true true true [] (Some (of_string "foam")) (-1))
          (Parse.parse_model c08p_fs2 c08p_C false true true true [] (Some (of_string "foam")) (-1)) /\
  c08p_pm (Parse.parse_model c08p_fs2 c08p_A true true false true [] None (-1)) = (of_string "/r/parsed.main.dict", 434%nat, 4%Z) /\
  c08p_pm (Parse.parse_model c08p_fs2 c08p_C true true false true [] None (-1)) = (of_string "/r/sub/../parsed.main.dict", 434%nat, 4%Z) /\
  c08p_pm (Parse.parse_model c08p_fs2 c08p_C true false false true [] None (-1)) = (of_string "/r/sub/../parsed.main.dict", 385%nat, 2%Z) /\
  match Parse.parse_model c08p_fs2 c08p_A true true false true [] None (-1), Parse.parse_model c08p_fs2 c08p_C true true false true [] None (-1) with
  | Some (Ok (_, x1, _)), Some (Ok (_, x2, _)) => x1 = x2 /\ contains (of_string "old ") x1 = true /\ contains (of_string "// comment") x1 = true
  | _, _ => False
  end.
Proof.
  assert (H1 : same_file c08p_A c08p_C = true) by (vm_compute; reflexivity).
  assert (H2 : base_name c08p_A = base_name c08p_C) by (vm_compute; reflexivity).
  assert (H3 : read_names_ok c08p_fs2 c08p_A true (-1) = true) by (vm_compute; reflexivity).
  assert (H4 : pm_append_side c08p_fs2 c08p_A true false true [] None (-1) = true) by (vm_compute; reflexivity).
  assert (H5 : pm_append_side c08p_fs2 c08p_A false true true [] (Some (of_string "foam")) (-1) = true) by (vm_compute; reflexivity).
  refine (conj H1 (conj H2 (conj H3 (conj H4 (conj H5
         (conj (C08_parse_spelling_independent _ _ _ true false false true [] None _ H1 H2 (fun _ => H3) _)
         (conj (C08_parse_spelling_independent _ _ _ true true false true [] None _ H1 H2 (fun _ => H3) (fun _ => H4))
         (conj (C08_parse_spelling_independent _ _ _ false true true true [] (Some (of_string "foam")) (-1)%Z H1 H2 _ (fun _ => H5)) _))))))));
    try (intros H; discriminate H).
  split; [vm_compute; reflexivity|]. split; [vm_compute; reflexivity|]. split; [vm_compute; reflexivity|].
  vm_compute. c08p_conj; reflexivity.
Qed.

(* finding (model only: pathlib's Path.name ignores a trailing slash): base_name of a spelling with a trailing slash is
   empty, the derived target name is "parsed." and the text written differs *)
Example C08_spelling_base_name_finding :
  let r2 := of_string "/r/main.dict/" in
  same_file c08p_A r2 = true /\ base_name c08p_A = of_string "main.dict" /\ base_name r2 = [] /\
  c08p_pm (Parse.parse_model c08p_fs2 c08p_A true false false true [] None (-1)) = (of_string "/r/parsed.main.dict", 385%nat, 2%Z) /\
  c08p_pm (Parse.parse_model c08p_fs2 r2 true false false true [] None (-1)) = (of_string "/r/parsed.", 385%nat, 2%Z) /\
  c08p_pm (Parse.parse_model c08p_fs2 c08p_A true true false true [] None (-1)) = (of_string "/r/parsed.main.dict", 434%nat, 4%Z) /\
  c08p_pm (Parse.parse_model c08p_fs2 r2 true true false true [] None (-1)) = (of_string "/r/parsed.", 385%nat, 2%Z).
Proof. cbv zeta. c08p_conj; vm_compute; reflexivity. Qed.

(* DictWriter.write of a plain dict (write_text; mode a reads the existing text of the target, includes on): the text
   written does not depend on the spelling of the target *)
Theorem C08_write_text_spelling_independent : forall foam p1 p2 existing append d, same_file p1 p2 = true ->
  (forall text, existing = Some text -> append = true -> read_names_ok [(norm_path p1, FNative text)] p1 true (-1) = true) ->
  write_text foam p1 existing append d = write_text foam p2 existing append d.
Proof. exact write_text_spelling. Qed.
Print Assumptions C08_write_text_spelling_independent.

Definition c08p_P1 : str := of_string "/r/parsed.main.dict".
Definition c08p_P2 : str := of_string "/r/sub/../parsed.main.dict".
Definition c08p_old : str := of_string "old 7; // kept
#include 'b.dict'
".
Definition c08p_d : list (key * tree) := [(KS (of_string "n"), Leaf (SInt 5))].

Example C08_write_text_spelling_independent_nonvacuous :
  same_file c08p_P1 c08p_P2 = true /\ read_names_ok [(norm_path c08p_P1, FNative c08p_old)] c08p_P1 true (-1) = true /\
  write_text false c08p_P1 (Some c08p_old) true c08p_d = write_text false c08p_P2 (Some c08p_old) true c08p_d /\
  write_text true c08p_P1 (Some c08p_old) true c08p_d = write_text true c08p_P2 (Some c08p_old) true c08p_d /\
  match write_text false c08p_P2 (Some c08p_old) true c08p_d with
  | Ok x => List.length x = 322%nat /\ contains (of_string "// kept") x = true /\ contains (of_string "#include b.dict") x = true /\
            contains (of_string "n ") x = true
  | Raise _ => False
  end.
Proof.
  assert (H1 : same_file c08p_P1 c08p_P2 = true) by (vm_compute; reflexivity).
  assert (H0 : read_names_ok [(norm_path c08p_P1, FNative c08p_old)] c08p_P1 true (-1) = true) by (vm_compute; reflexivity).
  assert (H2 : forall text, Some c08p_old = Some text -> true = true ->
            read_names_ok [(norm_path c08p_P1, FNative text)] c08p_P1 true (-1) = true)
    by (intros text E _; injection E as <-; exact H0).
  split; [exact H1|]. split; [exact H0|].
  split; [exact (C08_write_text_spelling_independent false c08p_P1 c08p_P2 (Some c08p_old) true c08p_d H1 H2)|].
  split; [exact (C08_write_text_spelling_independent true c08p_P1 c08p_P2 (Some c08p_old) true c08p_d H1 H2)|].
  vm_compute. c08p_conj; reflexivity.
Qed.

(* ================================================================================================== *)
(* non-vacuity examples added after the reviewer's audit (Properties/C08_nv.v, 2026-10-01)         *)
(* ================================================================================================== *)

(* ==== non-vacuity instances obtained BY APPLYING the theorems above (added after review) ================== *)

(* C08_foam_writer_counter_independent: the SDict read from c08_text and its include (two line comments, an include, a block
   comment, two string literals, a nested dict, the sub-file's comment) at the fresh counter; renamed by 999998 (= the
   read at 999997, ids 999998 999999 0 1 ...: across the wrap-around) the tables differ, the Foam text is the same *)
Example C08_foam_writer_counter_independent_nonvacuous :
  let s := c08_sd (read_plain c08_fs2 c08_root true true (-1)) in
  write_safe s = true /\ cleanb (foam_to_string_sd s) = true /\
  foam_to_string_sd (rename_sd 999998 s) = foam_to_string_sd s /\
  rename_sd 999998 s = c08_sd (read_plain c08_fs2 c08_root true true 999997) /\
  map fst (sd_lc s) <> map fst (sd_lc (rename_sd 999998 s)) /\ rename_sd 999998 s <> s /\
  contains (of_string "OpenFOAM") (foam_to_string_sd s) = true /\ contains (of_string "// sub comment") (foam_to_string_sd s) = true.
Proof.
  cbv zeta.
  assert (H1 : write_safe (c08_sd (read_plain c08_fs2 c08_root true true (-1))) = true) by (vm_compute; reflexivity).
  assert (H2 : cleanb (foam_to_string_sd (c08_sd (read_plain c08_fs2 c08_root true true (-1)))) = true) by (vm_compute; reflexivity).
  refine (conj H1 (conj H2 (conj (C08_foam_writer_counter_independent _ _ H1 H2) _))).
  split; [vm_compute; reflexivity|]. split; [vm_compute; discriminate|]. split; [vm_compute; discriminate|].
  split; vm_compute; reflexivity.
Qed.

(* C08_read_spelling_includes_off: only  norm_path r1 = norm_path r2  is asked, so also the spelling with a leading /.. and
   a trailing slash qualifies (it is NOT same_file with the plain one); counter two steps before the wrap-around *)
Example C08_read_spelling_includes_off_nonvacuous :
  norm_path c08p_A = norm_path c08p_C /\ norm_path c08p_A = norm_path c08p_E /\
  read_rel (ER_dir (dir_of c08p_A) (dir_of c08p_C)) (read_plain c08p_fs c08p_A false true 999998) (read_plain c08p_fs c08p_C false true 999998) /\
  read_rel (ER_dir (dir_of c08p_A) (dir_of c08p_E)) (read_plain c08p_fs c08p_A false false 999998) (read_plain c08p_fs c08p_E false false 999998) /\
  c08p_view (read_plain c08p_fs c08p_A false true 999998) =
    ([KS (of_string "m")], [(999999%N, of_string "sub/a.dict")], [of_string "/r/sub/a.dict"], 999999%Z) /\
  c08p_view (read_plain c08p_fs c08p_C false true 999998) =
    ([KS (of_string "m")], [(999999%N, of_string "sub/a.dict")], [of_string "/r/sub/../sub/a.dict"], 999999%Z).
Proof.
  assert (H1 : norm_path c08p_A = norm_path c08p_C) by (vm_compute; reflexivity).
  assert (H2 : norm_path c08p_A = norm_path c08p_E) by (vm_compute; reflexivity).
  refine (conj H1 (conj H2 (conj (C08_read_spelling_includes_off _ _ _ _ _ H1) (conj (C08_read_spelling_includes_off _ _ _ _ _ H2) _)))).
  split; vm_compute; reflexivity.
Qed.

(* ================================================================================================== *)
(* added from Properties/C08_add.v (2026-10-01)                                              *)
(* ================================================================================================== *)
(* C08 (addition): the WRITER under the weaker side condition write_safe'.  To be appended to Properties/C08.v. *)
From Coq Require Import String.
From Coq Require Import NArith ZArith List Bool.
From DictIO Require Import Chars Str Value Scalar Lexer MiscSpec CliProofs KeyPath SDict Layout TokParser Reader.
From DictIO Require Parse.
From DictIO Require Import CounterBase CounterLex CounterParse CounterProofs CounterRead CounterWrite CounterWriteWeak.
Import ListNotations.

(* ---- the condition ------------------------------------------------------------------------------------------ *)
(* write_safe (above) asks that NO semicolon in a key, string / float leaf, comment text or include name is directly followed
   by an upper case letter or a digit; that excludes ordinary files (c08w_text below).  write_safe' s (CounterWriteWeak.v)
   only looks at semicolons that directly follow a placeholder-shaped word.  With

     psemi x :  x has no factor   W d^{>=6} ;^{>=1} [A-Z0-9]     (W one of BLOCKCOMMENT INCLUDE LINECOMMENT, the words the
                                                                  formatter searches for; d a digit)
     hd_ok x :  x does not begin with   ;^{>=0} [A-Z0-9]

   write_safe' s  =  psemi (native_body (sd_data s))                    (the text laid out from the data, before re-insertion)
                  && every block comment text t:   hd_ok t, psemi t, the last character of t is not in [A-Z0-9]
                  && every include entry:          id < 10^6, psemi (format_string name)
                  && every line comment entry:     id < 10^6, hd_ok t, psemi t.
   foam_write_safe' is the same with the body and the name formatting of the Foam formatter. *)
Theorem C08_write_safe_weaker : forall s, write_safe s = true -> write_safe' s = true /\ foam_write_safe' s = true.
Proof. intros s H. split; [exact (write_safe_weaker s H)|exact (foam_write_safe_weaker s H)]. Qed.
Print Assumptions C08_write_safe_weaker.

Theorem C08_writer_equivariant_weak : forall d s, write_safe' s = true ->
  to_string_sd (rename_sd d s) = rename_str d (to_string_sd s).
Proof. exact writer_equivariant'. Qed.
Print Assumptions C08_writer_equivariant_weak.

Theorem C08_foam_writer_equivariant_weak : forall d s, foam_write_safe' s = true ->
  foam_to_string_sd (rename_sd d s) = rename_str d (foam_to_string_sd s).
Proof. exact foam_writer_equivariant'. Qed.
Print Assumptions C08_foam_writer_equivariant_weak.

Theorem C08_writer_counter_independent_weak : forall d s, write_safe' s = true -> cleanb (to_string_sd s) = true ->
  to_string_sd (rename_sd d s) = to_string_sd s.
Proof. exact writer_invariant'. Qed.
Print Assumptions C08_writer_counter_independent_weak.

(* the reviewer's file: a semicolon followed by an upper case letter in a comment, by a digit in a string *)
Definition c08w_text : str := of_string "// see a;B
k 'x;1 y';
m 2;
".
Definition c08w_root : str := of_string "/d/main.dict".
Definition c08w_fs : fsys := [(c08w_root, FNative c08w_text)].
Definition c08w_sd (r : res (sdict * Z)) : sdict := match r with Ok (s, _) => s | Raise _ => sd_empty end.

Example C08_writer_equivariant_weak_nonvacuous :
  let s := c08w_sd (read_plain c08w_fs c08w_root false true (-1)) in
  write_safe s = false /\ write_safe' s = true /\ foam_write_safe' s = true /\ cleanb (to_string_sd s) = true /\
  to_string_sd (rename_sd 6 s) = rename_str 6 (to_string_sd s) /\
  to_string_sd (rename_sd 6 s) = to_string_sd s /\
  foam_to_string_sd (rename_sd 6 s) = rename_str 6 (foam_to_string_sd s) /\
  rename_sd 6 s = c08w_sd (read_plain c08w_fs c08w_root false true 5) /\
  map fst (sd_lc s) = [0]%N /\ map fst (sd_lc (rename_sd 6 s)) = [6]%N /\
  contains (of_string "// see a;B
k                             'x;1 y';
m                             2;
") (to_string_sd s) = true.
Proof.
  cbv zeta.
  assert (H1 : write_safe' (c08w_sd (read_plain c08w_fs c08w_root false true (-1))) = true) by (vm_compute; reflexivity).
  assert (H2 : cleanb (to_string_sd (c08w_sd (read_plain c08w_fs c08w_root false true (-1)))) = true) by (vm_compute; reflexivity).
  assert (H3 : foam_write_safe' (c08w_sd (read_plain c08w_fs c08w_root false true (-1))) = true) by (vm_compute; reflexivity).
  split; [vm_compute; reflexivity|].
  refine (conj H1 (conj H3 (conj H2 (conj (C08_writer_equivariant_weak _ _ H1) (conj (C08_writer_counter_independent_weak _ _ H1 H2)
           (conj (C08_foam_writer_equivariant_weak _ _ H3) _)))))).
  repeat split; vm_compute; reflexivity.
Qed.

(* every side condition of the theorems above (write_side, write_sd_side, pm_side) implies its weak counterpart *)
Theorem C08_side_conditions_weaker :
  (forall r, write_side to_string_sd r = true -> write_side' false r = true) /\
  (forall r, write_side foam_to_string_sd r = true -> write_side' true r = true) /\
  (forall foam s, write_sd_side foam s = true -> write_sd_side' foam s = true) /\
  (forall fs src output c, pm_side fs src output c = true -> pm_side' fs src output c = true).
Proof. exact (conj write_side_weaker (conj foam_write_side_weaker (conj write_sd_side_weaker pm_side_weaker))). Qed.
Print Assumptions C08_side_conditions_weaker.

(* ---- the text written after a read ------------------------------------------------------------------------------ *)
(* fmt_sd foam = foam_to_string_sd / to_string_sd.  write_side' foam r (a boolean on the FIRST read): its result is
   write_safe' (foam_write_safe') and the text written from it contains no placeholder name.  Neither half follows from the
   reader's side conditions alone: C08_written_placeholder_finding (above) for the second,
   C08_write_after_read_source_finding (below) for the first. *)
Theorem C08_write_after_read_counter_independent_weak : forall fs root text foam c1 c2,
  counter_ok c1 -> counter_ok c2 ->
  fs_lookup (norm_path root) fs = Some (FNative text) ->
  cleanb text = true -> cleanb (dir_of root) = true ->
  parse_side (lex true (dir_of root) c1 text) = true ->
  write_side' foam (read_plain fs root false true c1) = true ->
  written_after (fmt_sd foam) (read_plain fs root false true c2) = written_after (fmt_sd foam) (read_plain fs root false true c1).
Proof. exact write_after_read_noinc'. Qed.
Print Assumptions C08_write_after_read_counter_independent_weak.

Theorem C08_write_after_read_includes_counter_independent_weak : forall fs root foam c1 c2,
  counter_ok c1 -> counter_ok c2 -> fs_ok fs = true -> cleanb root = true ->
  write_side' foam (read_plain fs root true true c1) = true ->
  written_after (fmt_sd foam) (read_plain fs root true true c2) = written_after (fmt_sd foam) (read_plain fs root true true c1).
Proof. exact write_after_read_inc'. Qed.
Print Assumptions C08_write_after_read_includes_counter_independent_weak.

(* the side condition does not depend on the counter under which it is evaluated ... *)
Theorem C08_write_side_weak_counter_independent : forall fs root foam c1 c2,
  counter_ok c1 -> counter_ok c2 -> fs_ok fs = true -> cleanb root = true ->
  write_side' foam (read_plain fs root true true c2) = write_side' foam (read_plain fs root true true c1).
Proof. exact write_side'_counter_independent. Qed.
Print Assumptions C08_write_side_weak_counter_independent.

(* ... so it can be evaluated once, at the fresh counter: source_write_ok foam fs root is a boolean on the files only *)
Theorem C08_write_after_read_includes_source_condition : forall fs root foam c1 c2,
  counter_ok c1 -> counter_ok c2 -> fs_ok fs = true -> cleanb root = true ->
  source_write_ok foam fs root = true ->
  written_after (fmt_sd foam) (read_plain fs root true true c2) = written_after (fmt_sd foam) (read_plain fs root true true c1).
Proof. exact write_after_read_inc_fresh. Qed.
Print Assumptions C08_write_after_read_includes_source_condition.

(* non-vacuity: the reviewer's file at the counters -1, 5 and 999998 (its ids: 0,1 / 6,7 / 999999,0), native and Foam *)
Example C08_write_after_read_counter_independent_weak_nonvacuous :
  counter_ok (-1) /\ counter_ok 5 /\ counter_ok 999998 /\
  cleanb c08w_text = true /\ parse_side (lex true (dir_of c08w_root) (-1) c08w_text) = true /\
  write_side to_string_sd (read_plain c08w_fs c08w_root false true (-1)) = false /\
  write_side' false (read_plain c08w_fs c08w_root false true (-1)) = true /\
  write_side' true (read_plain c08w_fs c08w_root false true (-1)) = true /\
  written_after to_string_sd (read_plain c08w_fs c08w_root false true 5) = written_after to_string_sd (read_plain c08w_fs c08w_root false true (-1)) /\
  written_after to_string_sd (read_plain c08w_fs c08w_root false true 999998) = written_after to_string_sd (read_plain c08w_fs c08w_root false true (-1)) /\
  written_after foam_to_string_sd (read_plain c08w_fs c08w_root false true 999998) = written_after foam_to_string_sd (read_plain c08w_fs c08w_root false true (-1)) /\
  c08w_sd (read_plain c08w_fs c08w_root false true 999998) <> c08w_sd (read_plain c08w_fs c08w_root false true (-1)) /\
  (map fst (sd_lc (c08w_sd (read_plain c08w_fs c08w_root false true 999998))), map fst (sd_lc (c08w_sd (read_plain c08w_fs c08w_root false true 5)))) = ([999999]%N, [6]%N) /\
  (exists txt, written_after to_string_sd (read_plain c08w_fs c08w_root false true (-1)) = Ok txt /\ List.length txt = 315%nat).
Proof.
  assert (H1 : counter_ok (-1)) by (unfold counter_ok; split; discriminate).
  assert (H2 : counter_ok 5) by (unfold counter_ok; split; discriminate).
  assert (H3 : counter_ok 999998) by (unfold counter_ok; split; discriminate).
  assert (Hf : fs_lookup (norm_path c08w_root) c08w_fs = Some (FNative c08w_text)) by (vm_compute; reflexivity).
  assert (Hd : cleanb (dir_of c08w_root) = true) by (vm_compute; reflexivity).
  assert (Ht : cleanb c08w_text = true) by (vm_compute; reflexivity).
  assert (Hs : parse_side (lex true (dir_of c08w_root) (-1) c08w_text) = true) by (vm_compute; reflexivity).
  assert (Hw : write_side' false (read_plain c08w_fs c08w_root false true (-1)) = true) by (vm_compute; reflexivity).
  assert (Hv : write_side' true (read_plain c08w_fs c08w_root false true (-1)) = true) by (vm_compute; reflexivity).
  refine (conj H1 (conj H2 (conj H3 (conj Ht (conj Hs (conj _ (conj Hw (conj Hv
           (conj (C08_write_after_read_counter_independent_weak _ _ _ false _ _ H1 H2 Hf Ht Hd Hs Hw)
           (conj (C08_write_after_read_counter_independent_weak _ _ _ false _ _ H1 H3 Hf Ht Hd Hs Hw)
           (conj (C08_write_after_read_counter_independent_weak _ _ _ true _ _ H1 H3 Hf Ht Hd Hs Hv) _))))))))))).
  - vm_compute. reflexivity.
  - split; [vm_compute; discriminate|]. split; [vm_compute; reflexivity|]. eexists. split; vm_compute; reflexivity.
Qed.

(* with include merging: both files carry semicolons followed by upper case letters / digits *)
Definition c08w_main : str := of_string "// see a;B
#include 'sub.dict'
k 'x;1 y';
m 2;
".
Definition c08w_sub : str := of_string "// sub c;D 9;8
s 'p;Q';
".
Definition c08w_fs2 : fsys := [(c08w_root, FNative c08w_main); (of_string "/d/sub.dict", FNative c08w_sub)].

Example C08_write_after_read_includes_counter_independent_weak_nonvacuous :
  fs_ok c08w_fs2 = true /\ cleanb c08w_root = true /\
  write_side to_string_sd (read_plain c08w_fs2 c08w_root true true (-1)) = false /\
  source_write_ok false c08w_fs2 c08w_root = true /\ source_write_ok true c08w_fs2 c08w_root = true /\
  written_after to_string_sd (read_plain c08w_fs2 c08w_root true true 5) = written_after to_string_sd (read_plain c08w_fs2 c08w_root true true 999998) /\
  written_after to_string_sd (read_plain c08w_fs2 c08w_root true true 999998) = written_after to_string_sd (read_plain c08w_fs2 c08w_root true true (-1)) /\
  written_after foam_to_string_sd (read_plain c08w_fs2 c08w_root true true 999998) = written_after foam_to_string_sd (read_plain c08w_fs2 c08w_root true true (-1)) /\
  write_side' false (read_plain c08w_fs2 c08w_root true true 999998) = write_side' false (read_plain c08w_fs2 c08w_root true true (-1)) /\
  (map fst (sd_lc (c08w_sd (read_plain c08w_fs2 c08w_root true true 999998))), map fst (sd_lc (c08w_sd (read_plain c08w_fs2 c08w_root true true (-1))))) =
    ([999999; 2]%N, [0; 3]%N) /\
  (exists txt, written_after to_string_sd (read_plain c08w_fs2 c08w_root true true (-1)) = Ok txt /\
               contains (of_string "// sub c;D 9;8") txt = true /\ contains (of_string "'p;Q';") txt = true /\ contains (of_string "// see a;B") txt = true).
Proof.
  assert (H1 : counter_ok (-1)) by (unfold counter_ok; split; discriminate).
  assert (H2 : counter_ok 5) by (unfold counter_ok; split; discriminate).
  assert (H3 : counter_ok 999998) by (unfold counter_ok; split; discriminate).
  assert (Hf : fs_ok c08w_fs2 = true) by (vm_compute; reflexivity).
  assert (Hr : cleanb c08w_root = true) by (vm_compute; reflexivity).
  assert (Hw : source_write_ok false c08w_fs2 c08w_root = true) by (vm_compute; reflexivity).
  assert (Hv : source_write_ok true c08w_fs2 c08w_root = true) by (vm_compute; reflexivity).
  refine (conj Hf (conj Hr (conj _ (conj Hw (conj Hv
           (conj (C08_write_after_read_includes_source_condition _ _ false _ _ H3 H2 Hf Hr Hw)
           (conj (C08_write_after_read_includes_counter_independent_weak _ _ false _ _ H1 H3 Hf Hr Hw)
           (conj (C08_write_after_read_includes_counter_independent_weak _ _ true _ _ H1 H3 Hf Hr Hv)
           (conj (C08_write_side_weak_counter_independent _ _ false _ _ H1 H3 Hf Hr) _))))))))).
  - vm_compute. reflexivity.
  - split; [vm_compute; reflexivity|]. eexists. split; [vm_compute; reflexivity|]. repeat split; vm_compute; reflexivity.
Qed.

(* ---- DictWriter.write and DictParser.parse (mode w, order off) ---------------------------------------------------- *)
Theorem C08_write_sd_counter_independent_weak : forall fs foam target d s c c',
  write_sd_side' foam s = true ->
  text_of (Parse.write_sd fs foam target false false (rename_sd d s) c') = text_of (Parse.write_sd fs foam target false false s c).
Proof. exact write_sd_counter_independent'. Qed.
Print Assumptions C08_write_sd_counter_independent_weak.

Theorem C08_parse_counter_independent_written_weak : forall fs src output c1 c2,
  counter_ok c1 -> counter_ok c2 -> fs_ok fs = true -> cleanb src = true ->
  pm_side' fs src output c1 = true ->
  pm_out (Parse.parse_model fs src true false false true [] output c2) = pm_out (Parse.parse_model fs src true false false true [] output c1).
Proof. exact parse_model_counter_independent'. Qed.
Print Assumptions C08_parse_counter_independent_written_weak.

Example C08_parse_counter_independent_written_weak_nonvacuous :
  let s := c08w_sd (read_plain c08w_fs2 c08w_root true true (-1)) in
  fs_ok c08w_fs2 = true /\ cleanb c08w_root = true /\
  pm_side c08w_fs2 c08w_root None (-1) = false /\ pm_side' c08w_fs2 c08w_root None (-1) = true /\
  pm_side' c08w_fs2 c08w_root (Some (of_string "foam")) (-1) = true /\
  write_sd_side false s = false /\ write_sd_side' false s = true /\
  text_of (Parse.write_sd c08w_fs2 false (of_string "/d/out.dict") false false (rename_sd 999999 s) 2) =
  text_of (Parse.write_sd c08w_fs2 false (of_string "/d/out.dict") false false s 4) /\
  rename_sd 999999 s = c08w_sd (read_plain c08w_fs2 c08w_root true true 999998) /\
  pm_out (Parse.parse_model c08w_fs2 c08w_root true false false true [] None 5) = pm_out (Parse.parse_model c08w_fs2 c08w_root true false false true [] None (-1)) /\
  pm_out (Parse.parse_model c08w_fs2 c08w_root true false false true [] None 999998) = pm_out (Parse.parse_model c08w_fs2 c08w_root true false false true [] None (-1)) /\
  pm_out (Parse.parse_model c08w_fs2 c08w_root true false false true [] (Some (of_string "foam")) 999998) =
    pm_out (Parse.parse_model c08w_fs2 c08w_root true false false true [] (Some (of_string "foam")) (-1)) /\
  (exists txt, pm_out (Parse.parse_model c08w_fs2 c08w_root true false false true [] None 999998) = Some (Ok (of_string "/d/parsed.main.dict", txt)) /\
               contains (of_string "// sub c;D 9;8") txt = true /\ contains (of_string "'x;1 y';") txt = true).
Proof.
  cbv zeta.
  assert (H1 : counter_ok (-1)) by (unfold counter_ok; split; discriminate).
  assert (H2 : counter_ok 5) by (unfold counter_ok; split; discriminate).
  assert (H3 : counter_ok 999998) by (unfold counter_ok; split; discriminate).
  assert (Hf : fs_ok c08w_fs2 = true) by (vm_compute; reflexivity).
  assert (Hr : cleanb c08w_root = true) by (vm_compute; reflexivity).
  assert (Hp : pm_side' c08w_fs2 c08w_root None (-1) = true) by (vm_compute; reflexivity).
  assert (Hq : pm_side' c08w_fs2 c08w_root (Some (of_string "foam")) (-1) = true) by (vm_compute; reflexivity).
  assert (Hw : write_sd_side' false (c08w_sd (read_plain c08w_fs2 c08w_root true true (-1))) = true) by (vm_compute; reflexivity).
  refine (conj Hf (conj Hr (conj _ (conj Hp (conj Hq (conj _ (conj Hw (conj (C08_write_sd_counter_independent_weak _ _ _ _ _ _ _ Hw) (conj _
         (conj (C08_parse_counter_independent_written_weak _ _ _ _ _ H1 H2 Hf Hr Hp)
         (conj (C08_parse_counter_independent_written_weak _ _ _ _ _ H1 H3 Hf Hr Hp)
         (conj (C08_parse_counter_independent_written_weak _ _ _ _ _ H1 H3 Hf Hr Hq) _)))))))))))); try (vm_compute; reflexivity).
  eexists. split; [vm_compute; reflexivity|]. split; vm_compute; reflexivity.
Qed.

(* ---- findings --------------------------------------------------------------------------------------------------- *)
(* (1) The side condition on the read result cannot be replaced by the reader's conditions on the source text (cleanb,
   parse_side) -- the best case is FALSE.  insert_block_comments writes a block comment whose text is contained in the
   block comments inserted so far as NOTHING (its duplicate test is a substring test): here "/*a*/" is contained in
   "/* x /*a*/" (a comment opener inside a block comment).  With the empty replacement the characters on both sides of the
   pattern are glued: the string 'LINECOMMENT00000/*a*/ /*a*/;1 ...' of the source becomes LINECOMMENT000001 LINECOMMENT000001;
   and that IS the pattern of line comment 1 -- when the counter happened to give "// c2" the id 1, the string is written
   as '// c2', under any other counter it stays.  The source text contains no placeholder name, the text written at the
   fresh counter contains none either, and still the bytes depend on the counter.  Same behaviour of the library
   (dictIO 0.4.1: DictReader.read + NativeFormatter.to_string with the counter preset to -1 and to 5). *)
Example C08_write_after_read_source_finding :
  let t := of_string "/* x /*a*/ /*a*/
k 'LINECOMMENT00000/*a*/ /*a*/;1 LINECOMMENT00000/*a*/ /*a*/;1;';
// c1
// c2
" in
  let fs := [(c08w_root, FNative t)] in
  let w c := match read_plain fs c08w_root false true c with Ok (s, _) => to_string_sd s | Raise _ => [] end in
  cleanb t = true /\ parse_side (lex true (dir_of c08w_root) (-1) t) = true /\
  cleanb (w (-1)%Z) = true /\
  write_side' false (read_plain fs c08w_root false true (-1)) = false /\
  match read_plain fs c08w_root false true (-1) with Ok (s, _) => psemi (native_body (sd_data s)) | Raise _ => true end = false /\
  contains (of_string "k                             '// c2';") (w (-1)%Z) = true /\
  contains (of_string "k                             'LINECOMMENT000001 LINECOMMENT000001;';") (w 5%Z) = true /\
  w 5%Z <> w (-1)%Z /\ w 5%Z <> rename_str (5 - -1) (w (-1)%Z).
Proof. cbv zeta. do 7 (split; [vm_compute; reflexivity|]). split; vm_compute; discriminate. Qed.

(* (2) every conjunct of write_safe' is needed for the writer to commute with the renaming (hand-built SDicts, d = 7).
   psemi of the body: C08_writer_safe_finding above (the pattern followed by digits), and the pattern followed by
   semicolons and then a digit -- after block comment 1 (a duplicate of block comment 0) has been replaced by nothing, what
   is left spells the pattern of line comment 1 followed by ;5 -- so "one or more semicolons" in psemi. *)
Example C08_write_safe_weak_finding_semis :
  let k i := (KS (placeholder w_BLOCKCOMMENT i), Leaf (SStr (placeholder w_BLOCKCOMMENT i))) in
  let s := mkSD [k 0%N; (KS (of_string "x"), Leaf (SStr (of_string "LINECOMMENT000001 LINECOMMENT000001BLOCKCOMMENT000001 BLOCKCOMMENT000001;;5 y")))]
                [(1%N, of_string "// LINECOMMENT00000")] [(0%N, of_string "/* h */"); (1%N, of_string "/* h */")] [] [] in
  psemi (native_body (sd_data s)) = false /\
  forallb (fun e => bc_ok' (snd e)) (sd_bc s) && forallb (fun e => idb e && lc_ok' (snd e)) (sd_lc s) = true /\
  contains (of_string "'// LINECOMMENT000005 y'") (to_string_sd s) = true /\
  contains (of_string "'// LINECOMMENT000005 y'") (to_string_sd (rename_sd 7 s)) = true /\
  to_string_sd (rename_sd 7 s) <> rename_str 7 (to_string_sd s).
Proof. cbv zeta. do 4 (split; [vm_compute; reflexivity|]). vm_compute. discriminate. Qed.

(* psemi of a line comment text, of a block comment text, of a formatted include name: the text put in place carries the
   pattern of line comment 1 followed by a digit *)
Example C08_write_safe_weak_finding_texts :
  let s1 := mkSD [(KS (of_string "LINECOMMENT000000"), Leaf (SStr (of_string "LINECOMMENT000000")))]
                 [(0%N, of_string "// LINECOMMENT000001 LINECOMMENT000001;5"); (1%N, of_string "// LINECOMMENT00000")] [] [] [] in
  let s2 := mkSD [(KS (of_string "BLOCKCOMMENT000000"), Leaf (SStr (of_string "BLOCKCOMMENT000000")))]
                 [(1%N, of_string "// LINECOMMENT00000")] [(0%N, of_string "/* LINECOMMENT000001 LINECOMMENT000001;5 */")] [] [] in
  let s3 := mkSD [(KS (of_string "INCLUDE000000"), Leaf (SStr (of_string "INCLUDE000000")))]
                 [(1%N, of_string "// LINECOMMENT00000")] [] [(0%N, ([], of_string "LINECOMMENT000001 LINECOMMENT000001;5", []))] [] in
  (psemi (native_body (sd_data s1)) = true /\ forallb (fun e : N * str => idb e && hd_ok (snd e)) (sd_lc s1) = true /\
   forallb (fun e : N * str => psemi (snd e)) (sd_lc s1) = false /\
   contains (of_string "// // LINECOMMENT000005") (to_string_sd (rename_sd 7 s1)) = true /\
   to_string_sd (rename_sd 7 s1) <> rename_str 7 (to_string_sd s1)) /\
  (psemi (native_body (sd_data s2)) = true /\ forallb (fun e : N * str => idb e && lc_ok' (snd e)) (sd_lc s2) = true /\
   forallb (fun e : N * str => hd_ok (snd e) && last_ok (snd e)) (sd_bc s2) = true /\ forallb (fun e : N * str => psemi (snd e)) (sd_bc s2) = false /\
   contains (of_string "/* // LINECOMMENT000005 */") (to_string_sd (rename_sd 7 s2)) = true /\
   to_string_sd (rename_sd 7 s2) <> rename_str 7 (to_string_sd s2)) /\
  (psemi (native_body (sd_data s3)) = true /\ forallb (fun e : N * str => idb e && lc_ok' (snd e)) (sd_lc s3) = true /\
   forallb (fun e : N * include_entry => idb e) (sd_inc s3) = true /\ forallb (fun e => psemi (format_string (inc_name e))) (sd_inc s3) = false /\
   contains (of_string "#include '// LINECOMMENT000005'") (to_string_sd (rename_sd 7 s3)) = true /\
   to_string_sd (rename_sd 7 s3) <> rename_str 7 (to_string_sd s3)).
Proof.
  cbv zeta. repeat split; try (vm_compute; reflexivity); vm_compute; discriminate.
Qed.

(* hd_ok of a table text (it begins with semicolons and then a digit): put in place of its pattern directly after the
   pattern of line comment 2, it completes that pattern to one followed by a digit.  (A text that begins with a digit:
   C08_writer_safe_finding_head above; the last character of a block comment: C08_writer_safe_finding_last; ids of more than
   six digits: C08_writer_safe_finding_ids.) *)
Example C08_write_safe_weak_finding_head :
  let s := mkSD [(KS (of_string "x"), Leaf (SStr (of_string "LINECOMMENT000002 LINECOMMENT000002LINECOMMENT000001 LINECOMMENT000001; y")))]
                [(1%N, of_string ";5 x"); (2%N, of_string "// LINECOMMENT00000")] [] [] [] in
  psemi (native_body (sd_data s)) = true /\ forallb (fun e : N * str => idb e && psemi (snd e)) (sd_lc s) = true /\
  map (fun e : N * str => (head_ok (snd e), hd_ok (snd e))) (sd_lc s) = [(true, false); (true, true)] /\
  contains (of_string "'// LINECOMMENT000005 x y'") (to_string_sd s) = true /\
  contains (of_string "'// LINECOMMENT000005 x y'") (to_string_sd (rename_sd 7 s)) = true /\
  to_string_sd (rename_sd 7 s) <> rename_str 7 (to_string_sd s).
Proof. cbv zeta. do 5 (split; [vm_compute; reflexivity|]). vm_compute. discriminate. Qed.

(* (3) what write_safe' still excludes although the writer commutes with the renaming: the condition is sufficient, not
   necessary.  A string with the same block comment twice, a semicolon and a digit: the lexer turns it into the pattern of
   block comment 0 followed by a digit; the replacement ends with a slash, nothing is glued. *)
Example C08_write_safe_weak_not_necessary :
  let t := of_string "k '/*a*/ /*a*/;1';
" in
  let fs := [(c08w_root, FNative t)] in
  let s := c08w_sd (read_plain fs c08w_root false true (-1)) in
  write_safe' s = false /\ psemi (native_body (sd_data s)) = false /\
  contains (of_string "'BLOCKCOMMENT000000 BLOCKCOMMENT000000;1';") (native_body (sd_data s)) = true /\
  contains (of_string "k                             '/*a*/1';") (to_string_sd s) = true /\
  to_string_sd (rename_sd 6 s) = rename_str 6 (to_string_sd s) /\ rename_sd 6 s = c08w_sd (read_plain fs c08w_root false true 5).
Proof. cbv zeta. repeat split; vm_compute; reflexivity. Qed.

(* ================================================================================================== *)
(* added from Properties/C08_add.v (2026-10-01)                                              *)
(* ================================================================================================== *)
(* C08 (addition): ORDER = TRUE without a wrap.  SDict.order_keys sorts the keys of every dict level (placeholder keys
   included) and the id tables; it commutes with the renaming of placeholder ids as long as the ids do not straddle the
   wrap-around and every key is either exactly one renamed placeholder or unrelated to the placeholder words.
   To be appended to Properties/C08.v (then drop the line that imports C08). *)
From Coq Require Import String.
From Coq Require Import NArith ZArith List Bool.
From DictIO Require Import Chars Str Value Scalar Lexer MiscSpec CliProofs KeyPath SDict Layout TokParser Reader.
From DictIO Require Parse.
From DictIO Require Import CounterBase CounterLex CounterParse CounterProofs CounterRead CounterWrite CounterWriteWeak CounterOrder.
Import ListNotations.

(* ---- the vocabulary (CounterOrder.v) -------------------------------------------------------------------------- *)
(* A key (a string; int keys are always good) is good in one of two ways.
     key_exact:  it IS one renamed placeholder,  w ++ six digits  with w one of LINECOMMENT INCLUDE STRINGLITERAL EXPRESSION,
                 or it is free: the renaming leaves it alone (cleanb) and it does not begin with one of the four words followed
                 by a digit (BLOCKCOMMENT placeholders, whose ids are not renamed, are free).
     key_scan:   scanning it the way the renaming does, every position that is not the start of a whole placeholder does not
                 begin with one of the four words followed by a digit: the placeholders may be glued to other characters
                 (kLINECOMMENT000000, STRINGLITERAL000001cd -- the lexer produces such keys), but there is no partial one
                 (a word followed by one to five digits).
   keys_pure s:  all keys of the dict levels that order_keys sorts (those reachable through dicts) are key_exact, or all of
                 them are key_scan (the two ways cannot be mixed: C08_order_keys_mixed_finding).
   sd_ids s:     the ids of the line comment, include and expression tables and of the renamed placeholders in those keys.
   nowrapb d i:  i >= 10^6 (such an id is not renamed), or 0 <= i + d < 10^6. *)

(* (1) ordering commutes with the renaming when no id wraps *)
Theorem C08_order_no_wrap : forall d s, keys_pure s = true -> forallb (nowrapb d) (sd_ids s) = true ->
  sd_order (rename_sd d s) = rename_sd d (sd_order s).
Proof. exact order_no_wrap. Qed.
Print Assumptions C08_order_no_wrap.

(* (1') what is needed of the ids is exactly that the shift keeps the order of every two of them (all below the wrap, or all
   beyond it) *)
Theorem C08_order_monotone : forall d s, keys_pure s = true ->
  (forall i j, In i (sd_ids s) -> In j (sd_ids s) -> (shift d i <? shift d j)%N = (i <? j)%N) ->
  sd_order (rename_sd d s) = rename_sd d (sd_order s).
Proof. exact order_monotone. Qed.
Print Assumptions C08_order_monotone.

Example C08_order_no_wrap_nonvacuous :
  let s := c08_sd (read_plain c08_fs2 c08_root true true (-1)) in
  keys_pure s = true /\ sd_ids s = [0; 1; 5; 2; 0; 2; 1; 5]%N /\
  forallb (nowrapb 6) (sd_ids s) = true /\ forallb (nowrapb 123457) (sd_ids s) = true /\ forallb (nowrapb 999998) (sd_ids s) = false /\
  sd_order (rename_sd 6 s) = rename_sd 6 (sd_order s) /\
  sd_order (rename_sd 123457 s) = rename_sd 123457 (sd_order s) /\
  sd_order (rename_sd 999998 s) <> rename_sd 999998 (sd_order s) /\
  sd_order s <> s /\
  map fst (sd_data (sd_order (rename_sd 6 s))) =
    map (fun x => KS (of_string x)) ["BLOCKCOMMENT000000"; "INCLUDE000008"; "LINECOMMENT000006"; "LINECOMMENT000007"; "LINECOMMENT000011";
                                     "a"; "b"; "c"; "x"; "y"]%string.
Proof.
  cbv zeta.
  assert (Hp : keys_pure (c08_sd (read_plain c08_fs2 c08_root true true (-1))) = true) by (vm_compute; reflexivity).
  assert (H6 : forallb (nowrapb 6) (sd_ids (c08_sd (read_plain c08_fs2 c08_root true true (-1)))) = true) by (vm_compute; reflexivity).
  assert (H7 : forallb (nowrapb 123457) (sd_ids (c08_sd (read_plain c08_fs2 c08_root true true (-1)))) = true) by (vm_compute; reflexivity).
  refine (conj Hp (conj _ (conj H6 (conj H7 (conj _ (conj (C08_order_no_wrap _ _ Hp H6) (conj (C08_order_no_wrap _ _ Hp H7) _))))))).
  - vm_compute. reflexivity.
  - vm_compute. reflexivity.
  - split; [vm_compute; discriminate|]. split; [vm_compute; discriminate|vm_compute; reflexivity].
Qed.

(* all ids beyond the wrap: nowrapb fails, the shift is monotone on them all the same *)
Example C08_order_monotone_nonvacuous :
  let k i := (KS (placeholder w_LINECOMMENT i), Leaf (SStr (placeholder w_LINECOMMENT i))) in
  let s := mkSD [(KS (of_string "b"), Leaf (SInt 1)); k 999999%N; k 999998%N] [(999999%N, of_string "// two"); (999998%N, of_string "// one")] [] [] [] in
  keys_pure s = true /\ forallb (nowrapb 5) (sd_ids s) = false /\
  sd_order (rename_sd 5 s) = rename_sd 5 (sd_order s) /\
  map fst (sd_lc (sd_order (rename_sd 5 s))) = [3; 4]%N.
Proof.
  cbv zeta. split; [vm_compute; reflexivity|]. split; [vm_compute; reflexivity|]. split; [|vm_compute; reflexivity].
  apply C08_order_monotone; [vm_compute; reflexivity|].
  intros i j Hi Hj. vm_compute in Hi, Hj.
  repeat (destruct Hi as [<-|Hi]; [repeat (destruct Hj as [<-|Hj]; [vm_compute; reflexivity|]); destruct Hj|]). destruct Hi.
Qed.

(* ---- (2) DictReader.read(order=True), includes on, comments on, no scope -------------------------------------------- *)
(* order_side d r (a boolean on the FIRST read, before the sort): keys_pure and no id wraps under d.
   rename_read d k (s, _) = (rename_sd d s, k). *)
Theorem C08_read_order_counter_independent : forall fs root c1 c2,
  counter_ok c1 -> counter_ok c2 -> fs_ok fs = true -> cleanb root = true ->
  order_side (c2 - c1) (read_plain fs root true true c1) = true ->
  exists n,
    Parse.read_opts fs root true true true [] c2 =
    option_map (map_res (rename_read (c2 - c1) (counter_iter n c2))) (Parse.read_opts fs root true true true [] c1).
Proof. exact read_order_counter_independent. Qed.
Print Assumptions C08_read_order_counter_independent.

(* the text written from the sorted result *)
Theorem C08_write_after_read_order_counter_independent : forall fs root foam c1 c2,
  counter_ok c1 -> counter_ok c2 -> fs_ok fs = true -> cleanb root = true ->
  order_side (c2 - c1) (read_plain fs root true true c1) = true ->
  write_side' foam (order_read (read_plain fs root true true c1)) = true ->
  option_map (written_after (fmt_sd foam)) (Parse.read_opts fs root true true true [] c2) =
  option_map (written_after (fmt_sd foam)) (Parse.read_opts fs root true true true [] c1).
Proof. exact write_after_read_order. Qed.
Print Assumptions C08_write_after_read_order_counter_independent.

(* DictWriter.write(order=True), mode w: write_sd_order_side foam s = the source after parse_values and the sort is
   write_safe' (foam_write_safe') and its text contains no placeholder name *)
Theorem C08_write_sd_order_counter_independent : forall fs foam target d s c c',
  keys_pure s = true -> forallb (nowrapb d) (sd_ids s) = true -> write_sd_order_side foam s = true ->
  text_of (Parse.write_sd fs foam target false true (rename_sd d s) c') = text_of (Parse.write_sd fs foam target false true s c).
Proof. exact write_sd_order_counter_independent. Qed.
Print Assumptions C08_write_sd_order_counter_independent.

(* DictParser.parse(order=True), mode w, includes on, comments on, no scope.  pm_order_side fs src output c1 c2 (on the FIRST
   run): the SDict read (before the sort) has pure keys, none of its ids wraps under c2 - c1, and the sorted SDict satisfies
   write_sd_order_side for the formatter the output option selects. *)
Theorem C08_parse_order_counter_independent : forall fs src output c1 c2,
  counter_ok c1 -> counter_ok c2 -> fs_ok fs = true -> cleanb src = true ->
  pm_order_side fs src output c1 c2 = true ->
  pm_out (Parse.parse_model fs src true false true true [] output c2) = pm_out (Parse.parse_model fs src true false true true [] output c1).
Proof. exact parse_model_order_counter_independent. Qed.
Print Assumptions C08_parse_order_counter_independent.

(* ---- the conditions evaluated once, at the fresh counter: on the files and the two counters only ------------------------ *)
(* keys_pure does not depend on the counter; the ids of the read at counter c are those of the read at the fresh counter
   (0, 1, 2, ... in the order drawn) plus c + 1.  source_order_ok fs root c1 c2: the read at the fresh counter has pure keys and
   every id i of it satisfies  i + 1 + max c1 c2 < 10^6  -- no id drawn wraps, at either counter (symmetric in c1, c2). *)
Theorem C08_order_source_condition : forall fs root c1 c2,
  counter_ok c1 -> counter_ok c2 -> fs_ok fs = true -> cleanb root = true ->
  source_order_ok fs root c1 c2 = true -> order_side (c2 - c1) (read_plain fs root true true c1) = true.
Proof. exact source_order_side. Qed.
Print Assumptions C08_order_source_condition.

Theorem C08_keys_pure_counter_independent : forall d s, keys_pure (rename_sd d s) = keys_pure s.
Proof. exact keys_pure_R. Qed.
Print Assumptions C08_keys_pure_counter_independent.

Theorem C08_ids_renamed : forall d s, sd_ids (rename_sd d s) = map (shift d) (sd_ids s).
Proof. exact sd_ids_R. Qed.
Print Assumptions C08_ids_renamed.

Theorem C08_read_order_source_condition : forall fs root c1 c2,
  counter_ok c1 -> counter_ok c2 -> fs_ok fs = true -> cleanb root = true ->
  source_order_ok fs root c1 c2 = true ->
  exists n,
    Parse.read_opts fs root true true true [] c2 =
    option_map (map_res (rename_read (c2 - c1) (counter_iter n c2))) (Parse.read_opts fs root true true true [] c1).
Proof. exact read_order_source. Qed.
Print Assumptions C08_read_order_source_condition.

(* pm_order_source_ok = source_order_ok and write_sd_order_side of the sorted read at the fresh counter *)
Theorem C08_parse_order_source_condition : forall fs src output c1 c2,
  counter_ok c1 -> counter_ok c2 -> fs_ok fs = true -> cleanb src = true ->
  pm_order_source_ok fs src output c1 c2 = true ->
  pm_out (Parse.parse_model fs src true false true true [] output c2) = pm_out (Parse.parse_model fs src true false true true [] output c1).
Proof. exact parse_model_order_source. Qed.
Print Assumptions C08_parse_order_source_condition.

(* non-vacuity: c08_fs2 (eight ids drawn, six kept) with order = true at the counters -1, 5 and 123456, in both directions:
   identical bytes by the theorems; at 999997 the condition fails and the bytes differ (C08_order_wrap_finding) *)
Example C08_parse_order_counter_independent_nonvacuous :
  let pm c := pm_out (Parse.parse_model c08_fs2 c08_root true false true true [] None c) in
  fs_ok c08_fs2 = true /\ cleanb c08_root = true /\ counter_ok 5 /\
  pm_order_source_ok c08_fs2 c08_root None (-1) 5 = true /\ pm_order_source_ok c08_fs2 c08_root None (-1) 123456 = true /\
  pm_order_source_ok c08_fs2 c08_root None 123456 5 = true /\
  pm_order_source_ok c08_fs2 c08_root (Some (of_string "foam")) (-1) 123456 = true /\
  pm_order_side c08_fs2 c08_root None 5 123456 = true /\
  pm 5%Z = pm (-1)%Z /\ pm 123456%Z = pm (-1)%Z /\ pm 5%Z = pm 123456%Z /\ pm 123456%Z = pm 5%Z /\
  pm_out (Parse.parse_model c08_fs2 c08_root true false true true [] (Some (of_string "foam")) 123456) =
    pm_out (Parse.parse_model c08_fs2 c08_root true false true true [] (Some (of_string "foam")) (-1)) /\
  (exists n, Parse.read_opts c08_fs2 c08_root true true true [] 123456 =
             option_map (map_res (rename_read (123456 - -1) (counter_iter n 123456))) (Parse.read_opts c08_fs2 c08_root true true true [] (-1))) /\
  (* across the wrap *)
  pm_order_source_ok c08_fs2 c08_root None (-1) 999997 = false /\ source_order_ok c08_fs2 c08_root (-1) 999997 = false /\
  pm_order_side c08_fs2 c08_root None (-1) 999997 = false /\ pm 999997%Z <> pm (-1)%Z /\
  (exists txt, pm 5%Z = Some (Ok (of_string "/d/parsed.main.dict", txt)) /\ List.length txt = 520%nat /\
               contains (of_string "// first
// second
// sub comment
a ") txt = true).
Proof.
  cbv zeta. destruct c08_ok as (H1 & H2 & H3).
  assert (H5 : counter_ok 5) by (unfold counter_ok; split; discriminate).
  assert (Hf : fs_ok c08_fs2 = true) by (vm_compute; reflexivity).
  assert (Hr : cleanb c08_root = true) by (vm_compute; reflexivity).
  assert (Ha : pm_order_source_ok c08_fs2 c08_root None (-1) 5 = true) by (vm_compute; reflexivity).
  assert (Hb : pm_order_source_ok c08_fs2 c08_root None (-1) 123456 = true) by (vm_compute; reflexivity).
  assert (Hc : pm_order_source_ok c08_fs2 c08_root None 123456 5 = true) by (vm_compute; reflexivity).
  assert (Hd : pm_order_source_ok c08_fs2 c08_root (Some (of_string "foam")) (-1) 123456 = true) by (vm_compute; reflexivity).
  assert (He : pm_order_side c08_fs2 c08_root None 5 123456 = true) by (vm_compute; reflexivity).
  assert (Hs : source_order_ok c08_fs2 c08_root (-1) 123456 = true) by (vm_compute; reflexivity).
  refine (conj Hf (conj Hr (conj H5 (conj Ha (conj Hb (conj Hc (conj Hd (conj He
           (conj (C08_parse_order_source_condition _ _ _ _ _ H1 H5 Hf Hr Ha)
           (conj (C08_parse_order_source_condition _ _ _ _ _ H1 H2 Hf Hr Hb)
           (conj (C08_parse_order_source_condition _ _ _ _ _ H2 H5 Hf Hr Hc)
           (conj (C08_parse_order_counter_independent _ _ _ _ _ H5 H2 Hf Hr He)
           (conj (C08_parse_order_source_condition _ _ _ _ _ H1 H2 Hf Hr Hd)
           (conj (C08_read_order_source_condition _ _ _ _ H1 H2 Hf Hr Hs) _)))))))))))))).
  split; [vm_compute; reflexivity|]. split; [vm_compute; reflexivity|]. split; [vm_compute; reflexivity|].
  split; [vm_compute; discriminate|]. eexists. split; [vm_compute; reflexivity|]. split; vm_compute; reflexivity.
Qed.

Example C08_write_after_read_order_counter_independent_nonvacuous :
  counter_ok 5 /\ order_side (123456 - 5) (read_plain c08_fs2 c08_root true true 5) = true /\
  write_side' false (order_read (read_plain c08_fs2 c08_root true true 5)) = true /\
  option_map (written_after (fmt_sd false)) (Parse.read_opts c08_fs2 c08_root true true true [] 123456) =
  option_map (written_after (fmt_sd false)) (Parse.read_opts c08_fs2 c08_root true true true [] 5) /\
  (exists txt, option_map (written_after (fmt_sd false)) (Parse.read_opts c08_fs2 c08_root true true true [] 5) = Some (Ok txt) /\
               List.length txt = 520%nat).
Proof.
  destruct c08_ok as (H1 & H2 & H3).
  assert (H5 : counter_ok 5) by (unfold counter_ok; split; discriminate).
  assert (Hf : fs_ok c08_fs2 = true) by (vm_compute; reflexivity).
  assert (Hr : cleanb c08_root = true) by (vm_compute; reflexivity).
  assert (Ho : order_side (123456 - 5) (read_plain c08_fs2 c08_root true true 5) = true) by (vm_compute; reflexivity).
  assert (Hw : write_side' false (order_read (read_plain c08_fs2 c08_root true true 5)) = true) by (vm_compute; reflexivity).
  refine (conj H5 (conj Ho (conj Hw (conj (C08_write_after_read_order_counter_independent _ _ _ _ _ H5 H2 Hf Hr Ho Hw) _)))).
  eexists. split; vm_compute; reflexivity.
Qed.

Example C08_write_sd_order_counter_independent_nonvacuous :
  let s := c08_sd (read_plain c08_fs2 c08_root true true (-1)) in
  keys_pure s = true /\ forallb (nowrapb 6) (sd_ids s) = true /\ write_sd_order_side false s = true /\
  text_of (Parse.write_sd c08_fs2 false (of_string "/d/out.dict") false true (rename_sd 6 s) 11) =
  text_of (Parse.write_sd c08_fs2 false (of_string "/d/out.dict") false true s 5) /\
  rename_sd 6 s = c08_sd (read_plain c08_fs2 c08_root true true 5) /\
  text_of (Parse.write_sd c08_fs2 false (of_string "/d/out.dict") false true s 5) <>
  text_of (Parse.write_sd c08_fs2 false (of_string "/d/out.dict") false false s 5).
Proof.
  cbv zeta.
  assert (Hp : keys_pure (c08_sd (read_plain c08_fs2 c08_root true true (-1))) = true) by (vm_compute; reflexivity).
  assert (H6 : forallb (nowrapb 6) (sd_ids (c08_sd (read_plain c08_fs2 c08_root true true (-1)))) = true) by (vm_compute; reflexivity).
  assert (Hw : write_sd_order_side false (c08_sd (read_plain c08_fs2 c08_root true true (-1))) = true) by (vm_compute; reflexivity).
  refine (conj Hp (conj H6 (conj Hw (conj (C08_write_sd_order_counter_independent _ _ _ _ _ _ _ Hp H6 Hw) _)))).
  split; [vm_compute; reflexivity|vm_compute; discriminate].
Qed.

(* ---- (3) findings --------------------------------------------------------------------------------------------- *)
(* (a) keys_pure is needed, also WITHOUT a wrap: a key that begins with a placeholder word followed by fewer than six
   digits.  LINECOMMENT000009 < LINECOMMENT00000x (9 < x), but LINECOMMENT000014 > LINECOMMENT00000x (1 > 0): monotonicity of the
   shift on the ids is not enough, the comparison is decided inside the digits against a key that is not renamed.
   From a source: the file below has no placeholder name in it (cleanb, fs_ok); parsed with order = true at the counters 8 and
   13 (ids 9 and 14, no wrap) the comment comes out before / after the entry.  Same behaviour of the library (dictIO 0.4.1:
   DictParser.parse(main.dict, order=True) with BorgCounter preset to 8 and to 13 writes "// c" before resp. after the line
   "LINECOMMENT00000x  LINECOMMENT00000x;" -- the parser takes that key for a comment placeholder). *)
Example C08_order_keys_pure_finding :
  let s := mkSD [(KS (of_string "LINECOMMENT000009"), Leaf (SStr (of_string "LINECOMMENT000009"))); (KS (of_string "LINECOMMENT00000x"), Leaf (SInt 1))]
                [(9%N, of_string "// c")] [] [] [] in
  let fs := [(c08_root, FNative (of_string "// c
LINECOMMENT00000x 1;
b 2;
"))] in
  let w c := match Parse.parse_model fs c08_root true false true true [] None c with Some (Ok (_, txt, _)) => txt | _ => [] end in
  keys_pure s = false /\ forallb (nowrapb 5) (sd_ids s) = true /\
  key_exact (fun _ => true) (KS (of_string "LINECOMMENT000009")) = true /\ key_scan (fun _ => true) (KS (of_string "LINECOMMENT000009")) = true /\
  key_exact (fun _ => true) (KS (of_string "LINECOMMENT00000x")) = false /\ key_scan (fun _ => true) (KS (of_string "LINECOMMENT00000x")) = false /\
  sd_order (rename_sd 5 s) <> rename_sd 5 (sd_order s) /\
  map fst (sd_data (sd_order s)) = [KS (of_string "LINECOMMENT000009"); KS (of_string "LINECOMMENT00000x")] /\
  map fst (sd_data (sd_order (rename_sd 5 s))) = [KS (of_string "LINECOMMENT00000x"); KS (of_string "LINECOMMENT000014")] /\
  (* from a source *)
  fs_ok fs = true /\ source_order_ok fs c08_root 8 13 = false /\ pm_order_side fs c08_root None 8 13 = false /\
  w 8%Z <> w 13%Z /\
  contains (of_string "// c
LINECOMMENT00000x             LINECOMMENT00000x;
b ") (w 8%Z) = true /\
  contains (of_string "LINECOMMENT00000x             LINECOMMENT00000x;
// c
b ") (w 13%Z) = true.
Proof.
  cbv zeta. do 6 (split; [vm_compute; reflexivity|]). split; [vm_compute; discriminate|]. do 5 (split; [vm_compute; reflexivity|]).
  split; [vm_compute; discriminate|]. split; vm_compute; reflexivity.
Qed.

(* (b) why there are two ways.  The reader does NOT produce only keys that are exactly a placeholder or free, also from sources
   free of placeholder names: the lexer puts a placeholder in the place of a comment / string literal without separating it
   from its neighbours, so a comment or a quoted string glued to a key gives keys such as kLINECOMMENT000000 and
   STRINGLITERAL000001cd (same keys in the library, dictIO 0.4.1).  They are key_scan: the theorems apply. *)
Example C08_order_glued_keys_nonvacuous :
  let t := of_string "k// c
 3;
'ab'cd 1;
a 2;
" in
  let fs := [(c08_root, FNative t)] in
  let s := c08_sd (read_plain fs c08_root true true (-1)) in
  fs_ok fs = true /\ cleanb t = true /\
  map fst (sd_data s) = map (fun x => KS (of_string x)) ["kLINECOMMENT000000"; "STRINGLITERAL000001cd"; "a"]%string /\
  pure_t (key_exact (fun _ => true)) (Dict (sd_data s)) = false /\ pure_t (key_scan (fun _ => true)) (Dict (sd_data s)) = true /\
  keys_pure s = true /\ sd_ids s = [0; 0; 1]%N /\
  source_order_ok fs c08_root (-1) 123456 = true /\
  sd_order (rename_sd 123457 s) = rename_sd 123457 (sd_order s) /\
  (exists n, Parse.read_opts fs c08_root true true true [] 123456 =
             option_map (map_res (rename_read (123456 - -1) (counter_iter n 123456))) (Parse.read_opts fs c08_root true true true [] (-1))) /\
  (* the bytes written do depend on the counter here, for another reason: the glued placeholder stays in the written text
     (C08_written_placeholder_finding) *)
  pm_order_source_ok fs c08_root None (-1) 123456 = false.
Proof.
  cbv zeta. destruct c08_ok as (H1 & H2 & H3).
  assert (Hf : fs_ok [(c08_root, FNative (of_string "k// c
 3;
'ab'cd 1;
a 2;
"))] = true) by (vm_compute; reflexivity).
  assert (Hr : cleanb c08_root = true) by (vm_compute; reflexivity).
  assert (Hs : source_order_ok [(c08_root, FNative (of_string "k// c
 3;
'ab'cd 1;
a 2;
"))] c08_root (-1) 123456 = true) by (vm_compute; reflexivity).
  split; [exact Hf|]. do 6 (split; [vm_compute; reflexivity|]). split; [exact Hs|].
  split; [apply C08_order_no_wrap; vm_compute; reflexivity|].
  split; [exact (C08_read_order_source_condition _ _ _ _ H1 H2 Hf Hr Hs)|vm_compute; reflexivity].
Qed.

(* (b') the two ways cannot be mixed within one SDict: aLINECOMMENT00000x is free (good the first way, not the second: a
   partial placeholder inside), aLINECOMMENT000009 is a glued placeholder (good the second way, not the first); together the
   order changes under the shift by 5, without a wrap. *)
Example C08_order_keys_mixed_finding :
  let K x := (KS (of_string x), Leaf (SInt 1)) in
  let s := mkSD [K "aLINECOMMENT000009"; K "aLINECOMMENT00000x"]%string [] [] [] [] in
  key_exact (fun _ => true) (KS (of_string "aLINECOMMENT00000x")) = true /\ key_scan (fun _ => true) (KS (of_string "aLINECOMMENT00000x")) = false /\
  key_exact (fun _ => true) (KS (of_string "aLINECOMMENT000009")) = false /\ key_scan (fun _ => true) (KS (of_string "aLINECOMMENT000009")) = true /\
  keys_pure s = false /\ forallb (nowrapb 5) (sd_ids s) = true /\
  sd_order (rename_sd 5 s) <> rename_sd 5 (sd_order s) /\
  keys_pure (mkSD [K "LINECOMMENT000009"; K "aLINECOMMENT00000x"]%string [] [] [] []) = true /\
  keys_pure (mkSD [K "aLINECOMMENT000009"; K "LINECOMMENT000003"; K "b"]%string [] [] [] []) = true.
Proof.
  cbv zeta. do 6 (split; [vm_compute; reflexivity|]). split; [vm_compute; discriminate|]. split; vm_compute; reflexivity.
Qed.

(* (c) the boundary on the ids stays C08_order_wrap_finding (above): ids 999998 999999 0 1 of one read. *)

(* ================================================================================================== *)
(* added from Properties/C08_add.v, job pj_fix (2026-10-01)                                   *)
(* ================================================================================================== *)
(* C08 (addition): non-vacuity examples for C08_write_safe_weaker, C08_side_conditions_weaker, C08_read_order_counter_independent,
   C08_order_source_condition, C08_keys_pure_counter_independent and C08_ids_renamed.
   To be appended to Properties/C08.v. *)
From Coq Require Import String.
From Coq Require Import NArith ZArith List Bool.
From DictIO Require Import Chars Str Value Scalar Lexer MiscSpec CliProofs KeyPath SDict Layout TokParser Reader.
From DictIO Require Parse.
From DictIO Require Import CounterBase CounterLex CounterParse CounterProofs CounterRead CounterWrite CounterWriteWeak CounterOrder.
Import ListNotations.

(* the SDict read from c08_fs2 (two files: main.dict with two line comments, an include directive, a block comment and two
   string literals; the included sub.dict merged in: ten top level entries, three line comments, one include) is write_safe,
   so by the theorem it is write_safe' and foam_write_safe' *)
Example C08_write_safe_weaker_nonvacuous :
  let s := c08_sd (read_plain c08_fs2 c08_root true true (-1)) in
  write_safe s = true /\
  (List.length (sd_data s), map fst (sd_lc s), map fst (sd_inc s), List.length (sd_bc s)) = (10%nat, [0; 1; 5]%N, [2]%N, 1%nat) /\
  write_safe' s = true /\ foam_write_safe' s = true.
Proof.
  cbv zeta.
  assert (H1 : write_safe (c08_sd (read_plain c08_fs2 c08_root true true (-1))) = true) by (vm_compute; reflexivity).
  split; [exact H1|]. split; [vm_compute; reflexivity|].
  exact (C08_write_safe_weaker _ H1).
Qed.

(* the four strong side conditions hold of the read of c08_fs2 (native and Foam formatter, the SDict as a write_sd source,
   the parse_model run with output None and foam); the theorem gives the four weak ones *)
Example C08_side_conditions_weaker_nonvacuous :
  let r := read_plain c08_fs2 c08_root true true (-1) in
  (exists s k, r = Ok (s, k) /\ List.length (sd_data s) = 10%nat) /\
  write_side to_string_sd r = true /\ write_side foam_to_string_sd r = true /\
  write_sd_side false (c08_sd r) = true /\ write_sd_side true (c08_sd r) = true /\
  pm_side c08_fs2 c08_root None (-1) = true /\ pm_side c08_fs2 c08_root (Some (of_string "foam")) (-1) = true /\
  write_side' false r = true /\ write_side' true r = true /\
  write_sd_side' false (c08_sd r) = true /\ write_sd_side' true (c08_sd r) = true /\
  pm_side' c08_fs2 c08_root None (-1) = true /\ pm_side' c08_fs2 c08_root (Some (of_string "foam")) (-1) = true.
Proof.
  cbv zeta.
  assert (H0 : exists s k, read_plain c08_fs2 c08_root true true (-1) = Ok (s, k) /\ List.length (sd_data s) = 10%nat)
    by (do 2 eexists; split; vm_compute; reflexivity).
  assert (H1 : write_side to_string_sd (read_plain c08_fs2 c08_root true true (-1)) = true) by (vm_compute; reflexivity).
  assert (H2 : write_side foam_to_string_sd (read_plain c08_fs2 c08_root true true (-1)) = true) by (vm_compute; reflexivity).
  assert (H3 : write_sd_side false (c08_sd (read_plain c08_fs2 c08_root true true (-1))) = true) by (vm_compute; reflexivity).
  assert (H4 : write_sd_side true (c08_sd (read_plain c08_fs2 c08_root true true (-1))) = true) by (vm_compute; reflexivity).
  assert (H5 : pm_side c08_fs2 c08_root None (-1) = true) by (vm_compute; reflexivity).
  assert (H6 : pm_side c08_fs2 c08_root (Some (of_string "foam")) (-1) = true) by (vm_compute; reflexivity).
  destruct C08_side_conditions_weaker as [W1 [W2 [W3 W4]]].
  exact (conj H0 (conj H1 (conj H2 (conj H3 (conj H4 (conj H5 (conj H6
         (conj (W1 _ H1) (conj (W2 _ H2) (conj (W3 _ _ H3) (conj (W3 _ _ H4) (conj (W4 _ _ _ _ H5) (W4 _ _ _ _ H6))))))))))))).
Qed.

(* ---- order = true ------------------------------------------------------------------------------------------------ *)
(* DictReader.read(order=True) of c08_fs2 (two files, an include merged, eight ids drawn) at the counters 5 and 123456: the
   side condition order_side holds of the first read; by the theorem the second result is the renamed first *)
Example C08_read_order_counter_independent_nonvacuous :
  counter_ok 5 /\ fs_ok c08_fs2 = true /\ cleanb c08_root = true /\
  order_side (123456 - 5) (read_plain c08_fs2 c08_root true true 5) = true /\
  (exists n, Parse.read_opts c08_fs2 c08_root true true true [] 123456 =
             option_map (map_res (rename_read (123456 - 5) (counter_iter n 123456))) (Parse.read_opts c08_fs2 c08_root true true true [] 5)) /\
  (* the two results are not trivially equal: the ids of the line comment tables *)
  (match Parse.read_opts c08_fs2 c08_root true true true [] 5, Parse.read_opts c08_fs2 c08_root true true true [] 123456 with
   | Some (Ok (s1, _)), Some (Ok (s2, _)) => (map fst (sd_lc s1), map fst (sd_lc s2), List.length (sd_data s1))
   | _, _ => ([], [], 0%nat)
   end) = ([6; 7; 11]%N, [123457; 123458; 123462]%N, 10%nat).
Proof.
  destruct c08_ok as (H1 & H2 & H3).
  assert (H5 : counter_ok 5) by (unfold counter_ok; split; discriminate).
  assert (Hf : fs_ok c08_fs2 = true) by (vm_compute; reflexivity).
  assert (Hr : cleanb c08_root = true) by (vm_compute; reflexivity).
  assert (Ho : order_side (123456 - 5) (read_plain c08_fs2 c08_root true true 5) = true) by (vm_compute; reflexivity).
  refine (conj H5 (conj Hf (conj Hr (conj Ho (conj (C08_read_order_counter_independent _ _ _ _ H5 H2 Hf Hr Ho) _))))).
  vm_compute. reflexivity.
Qed.

(* the condition on the files and the two counters only (the read at the fresh counter) gives the condition on the first read *)
Example C08_order_source_condition_nonvacuous :
  counter_ok 5 /\ fs_ok c08_fs2 = true /\ cleanb c08_root = true /\
  source_order_ok c08_fs2 c08_root 5 123456 = true /\ source_order_ok c08_fs2 c08_root 123456 5 = true /\
  order_side (123456 - 5) (read_plain c08_fs2 c08_root true true 5) = true /\
  order_side (5 - 123456) (read_plain c08_fs2 c08_root true true 123456) = true /\
  (* across the wrap the source condition fails *)
  source_order_ok c08_fs2 c08_root (-1) 999997 = false.
Proof.
  destruct c08_ok as (H1 & H2 & H3).
  assert (H5 : counter_ok 5) by (unfold counter_ok; split; discriminate).
  assert (Hf : fs_ok c08_fs2 = true) by (vm_compute; reflexivity).
  assert (Hr : cleanb c08_root = true) by (vm_compute; reflexivity).
  assert (Ha : source_order_ok c08_fs2 c08_root 5 123456 = true) by (vm_compute; reflexivity).
  assert (Hb : source_order_ok c08_fs2 c08_root 123456 5 = true) by (vm_compute; reflexivity).
  refine (conj H5 (conj Hf (conj Hr (conj Ha (conj Hb (conj (C08_order_source_condition _ _ _ _ H5 H2 Hf Hr Ha)
            (conj (C08_order_source_condition _ _ _ _ H2 H5 Hf Hr Hb) _))))))).
  vm_compute. reflexivity.
Qed.

(* keys_pure of the SDict read from c08_fs2 and of its renaming by 999998 (ids across the wrap: the SDicts differ) *)
Example C08_keys_pure_counter_independent_nonvacuous :
  let s := c08_sd (read_plain c08_fs2 c08_root true true (-1)) in
  keys_pure s = true /\ rename_sd 999998 s <> s /\ List.length (sd_data s) = 10%nat /\
  keys_pure (rename_sd 999998 s) = keys_pure s /\ keys_pure (rename_sd 999998 s) = true.
Proof.
  cbv zeta.
  assert (Hp : keys_pure (c08_sd (read_plain c08_fs2 c08_root true true (-1))) = true) by (vm_compute; reflexivity).
  split; [exact Hp|]. split; [vm_compute; discriminate|]. split; [vm_compute; reflexivity|].
  split; [exact (C08_keys_pure_counter_independent _ _)|].
  rewrite (C08_keys_pure_counter_independent 999998 _). exact Hp.
Qed.

(* the ids of the renamed SDict, obtained from the theorem: shifted by 6, and by 999998 across the wrap *)
Example C08_ids_renamed_nonvacuous :
  let s := c08_sd (read_plain c08_fs2 c08_root true true (-1)) in
  sd_ids s = [0; 1; 5; 2; 0; 2; 1; 5]%N /\
  sd_ids (rename_sd 6 s) = [6; 7; 11; 8; 6; 8; 7; 11]%N /\
  sd_ids (rename_sd 999998 s) = [999998; 999999; 3; 0; 999998; 0; 999999; 3]%N.
Proof.
  cbv zeta.
  assert (Hi : sd_ids (c08_sd (read_plain c08_fs2 c08_root true true (-1))) = [0; 1; 5; 2; 0; 2; 1; 5]%N) by (vm_compute; reflexivity).
  split; [exact Hi|]. rewrite !C08_ids_renamed, Hi. split; vm_compute; reflexivity.
Qed.
