(* C08  Results do not depend on working directory, path spelling or earlier operations (logic part: the
   placeholder counter; the rest is observed by replaying operations after different prefixes / cwd). *)
From Coq Require Import NArith ZArith List Bool.
From DictIO Require Import Chars Str Value Scalar Lexer MiscSpec CliProofs.
Import ListNotations.

(* the counter stays within the six digits of a placeholder, whatever its history *)
Theorem C08_counter_range : forall n c, counter_ok c -> (0 <= counter_iter (S n) c <= 999999)%Z.
Proof. exact counter_range. Qed.
Print Assumptions C08_counter_range.

(* non-vacuity: the fresh counter (-1), a mid-range value and the last value before the wrap-around are admissible *)
Example C08_counter_range_nonvacuous :
  counter_ok (-1)%Z /\ counter_ok 123456%Z /\ counter_ok 999999%Z /\
  (0 <= counter_iter 5 999998%Z <= 999999)%Z /\ counter_iter 5 999998%Z = 3%Z.
Proof.
  assert (H : counter_ok 999998%Z) by (unfold counter_ok; split; discriminate).
  refine (conj _ (conj _ (conj _ (conj (C08_counter_range 4 _ H) _))));
    [unfold counter_ok; split; discriminate .. | vm_compute; reflexivity].
Qed.

(* ids handed out within one operation are pairwise distinct, also across the wrap-around, as long as fewer
   than 10^6 are drawn: so placeholder entries never collide, whatever value the counter started from *)
Theorem C08_ids_distinct : forall c n m, counter_ok c -> (n < m)%nat -> (m - n < 1000000)%nat ->
  counter_iter (S n) c <> counter_iter (S m) c.
Proof. exact counter_distinct. Qed.
Print Assumptions C08_ids_distinct.

(* non-vacuity: the 1st and the 6th id drawn from 999997 lie on different sides of the wrap-around *)
Example C08_ids_distinct_nonvacuous :
  counter_ok 999997%Z /\ (0 < 5)%nat /\ (5 - 0 < 1000000)%nat /\
  counter_iter 1 999997%Z = 999998%Z /\ counter_iter 6 999997%Z = 3%Z /\
  counter_iter 1 999997%Z <> counter_iter 6 999997%Z.
Proof.
  assert (H1 : counter_ok 999997%Z) by (unfold counter_ok; split; discriminate).
  assert (H2 : (0 < 5)%nat) by (apply PeanoNat.Nat.ltb_lt; reflexivity).
  assert (H3 : (5 - 0 < 1000000)%nat) by (apply PeanoNat.Nat.ltb_lt; vm_compute; reflexivity).
  refine (conj H1 (conj H2 (conj H3 (conj _ (conj _ (C08_ids_distinct _ 0 5 H1 H2 H3)))))); vm_compute; reflexivity.
Qed.

(* the k-th id after a start value is that value plus k modulo 10^6 *)
Theorem C08_counter_closed_form : forall n c, counter_ok c ->
  counter_iter (S n) c = ((c + 1 + Z.of_nat n) mod 1000000)%Z.
Proof. exact counter_closed_form. Qed.
Print Assumptions C08_counter_closed_form.

Example C08_counter_closed_form_nonvacuous :
  counter_ok (-1)%Z /\ counter_iter 8 (-1)%Z = ((-1 + 1 + Z.of_nat 7) mod 1000000)%Z /\ counter_iter 8 (-1)%Z = 7%Z.
Proof.
  assert (H : counter_ok (-1)%Z) by (unfold counter_ok; split; discriminate).
  refine (conj H (conj (C08_counter_closed_form 7 _ H) _)). vm_compute. reflexivity.
Qed.

Example C08_wrap : counter_iter 3 999998%Z = 1%Z /\ counter_ok 999998%Z.
Proof. split; [vm_compute; reflexivity | unfold counter_ok; split; discriminate]. Qed.

(* ================================================================================================ *)
(* Counter independence of reading: the result depends on the start value of the process-global      *)
(* placeholder counter only through a consistent renaming of the placeholder ids                     *)
(* ================================================================================================ *)
(* The renaming (theories/Proofs/CounterBase.v, CounterLex.v, CounterParse.v, CounterProofs.v):
     shift d i            = (i + d) mod 10^6 for six digit ids i: with d = c2 - c1 the n-th id drawn after c1 goes to the
                            n-th id drawn after c2 (crel_next); a bijection (shift_inv), also across the wrap-around
     rename_str d s       every occurrence of LINECOMMENT / INCLUDE / STRINGLITERAL / EXPRESSION + six digits in s gets its
                            id shifted (BLOCKCOMMENT ids are numbered from 0 in every parse: rename_block_any)
     rename_lexed d lx k  tokens renamed; ids of the lc / inc / expr / literal tables shifted, ids of the block comment
                            table kept; the CONTENTS of all tables renamed (a comment text or an include name can contain
                            placeholders of earlier stages; an expression entry stores its own placeholder name); counter k
     rename_tree d t      keys and string leaves renamed;  rename_sd d s : data and the four tables
   cleanb s = true: s contains none of the four renamed words followed by six digits (then rename_str d s = s). *)
From DictIO Require Import KeyPath SDict TokParser Reader CounterBase CounterLex CounterParse CounterProofs.
From DictIO Require E2EInsert.

(* the example: two line comments, an include directive, a block comment, two string literals, a nested dict *)
Definition c08_text : str := of_string "// first
#include 'sub.dict'
a 1; /* blk */ b 'lit one';
c { d ""two""; e 2.5; } // second
".
Definition c08_dir : str := of_string "/d".
Definition c08_root : str := of_string "/d/main.dict".
Definition c08_fs : fsys := [(c08_root, FNative c08_text)].

Lemma c08_ok : counter_ok (-1)%Z /\ counter_ok 123456%Z /\ counter_ok 999997%Z.
Proof. unfold counter_ok. repeat split; discriminate. Qed.

(* ---- the lexer -------------------------------------------------------------------------------------- *)
(* side conditions: comments are kept (comments = true, the reader's default; with comments = false removing a comment can
   glue a placeholder name together, see CounterProofs.v); the source text and the directory contain no placeholder name
   of the four renamed families (cleanb) -- a text that spells a placeholder is the same text under both counters, but
   the renaming would change it.  The number of ids drawn is the same under both counters. *)
Theorem C08_lex_counter_independent : forall c1 c2 dir text,
  counter_ok c1 -> counter_ok c2 -> cleanb text = true -> cleanb dir = true ->
  exists n,
    lxd_count (lex true dir c1 text) = counter_iter n c1 /\
    lex true dir c2 text = rename_lexed (c2 - c1) (lex true dir c1 text) (counter_iter n c2) /\
    Forall idok (lxd_lit (lex true dir c1 text)).
Proof. exact lex_counter_independent. Qed.
Print Assumptions C08_lex_counter_independent.

(* non-vacuity: both sides computed; 123456 is a mid-range start value, 999997 makes the five ids straddle the wrap-around
   (999998 999999 0 1 2): the renaming is the cyclic shift, nothing else changes *)
Example C08_lex_counter_independent_nonvacuous :
  (cleanb c08_text = true /\ cleanb c08_dir = true) /\
  (exists n, lxd_count (lex true c08_dir (-1) c08_text) = counter_iter n (-1)%Z /\
             lex true c08_dir 123456 c08_text = rename_lexed (123456 - -1) (lex true c08_dir (-1) c08_text) (counter_iter n 123456%Z) /\
             Forall idok (lxd_lit (lex true c08_dir (-1) c08_text))) /\
  (exists n, lxd_count (lex true c08_dir (-1) c08_text) = counter_iter n (-1)%Z /\
             lex true c08_dir 999997 c08_text = rename_lexed (999997 - -1) (lex true c08_dir (-1) c08_text) (counter_iter n 999997%Z) /\
             Forall idok (lxd_lit (lex true c08_dir (-1) c08_text))) /\
  lxd_count (lex true c08_dir (-1) c08_text) = counter_iter 5 (-1)%Z /\
  lex true c08_dir 999997 c08_text = rename_lexed (999997 - -1) (lex true c08_dir (-1) c08_text) (counter_iter 5 999997%Z) /\
  (map fst (lxd_lc (lex true c08_dir (-1) c08_text)), map fst (lxd_inc (lex true c08_dir (-1) c08_text)),
   map fst (lxd_lit (lex true c08_dir (-1) c08_text)), map fst (lxd_bc (lex true c08_dir (-1) c08_text))) = ([0; 1], [2], [3; 4], [0])%N /\
  (map fst (lxd_lc (lex true c08_dir 999997 c08_text)), map fst (lxd_inc (lex true c08_dir 999997 c08_text)),
   map fst (lxd_lit (lex true c08_dir 999997 c08_text)), map fst (lxd_bc (lex true c08_dir 999997 c08_text))) = ([999998; 999999], [0], [1; 2], [0])%N /\
  lxd_count (lex true c08_dir 999997 c08_text) = 2%Z /\
  List.length (lxd_tokens (lex true c08_dir (-1) c08_text)) = 19%nat.
Proof.
  destruct c08_ok as (H1 & H2 & H3).
  assert (Hc : cleanb c08_text = true /\ cleanb c08_dir = true) by (split; vm_compute; reflexivity).
  refine (conj Hc (conj (C08_lex_counter_independent _ _ _ _ H1 H2 (proj1 Hc) (proj2 Hc))
                  (conj (C08_lex_counter_independent _ _ _ _ H1 H3 (proj1 Hc) (proj2 Hc)) _))).
  repeat split; vm_compute; reflexivity.
Qed.

(* the CONTENTS of table entries are renamed too, they are not identical: a comment swallowed by a later stage leaves its
   placeholder in the text of the block comment / include directive / string literal that contains it *)
Example C08_table_contents_are_renamed :
  let t := of_string "/* a // b
 */ x 1;" in
  cleanb t = true /\
  map snd (lxd_bc (lex true c08_dir (-1) t)) = [of_string "/* a LINECOMMENT000000
 */"] /\
  map snd (lxd_bc (lex true c08_dir 5 t)) = [of_string "/* a LINECOMMENT000006
 */"] /\
  lex true c08_dir 5 t = rename_lexed (5 - -1) (lex true c08_dir (-1) t) 6%Z.
Proof. repeat split; vm_compute; reflexivity. Qed.

(* ---- parse_string ----------------------------------------------------------------------------------- *)
(* further side condition parse_side, a boolean on the first run that is invariant under the renaming (parse_side_R):
   (1) keys_okt: in every comment / include placeholder key the FIRST run of six digits (that is what SDict._clean reads
       as the id) is the id of a placeholder of the right family.  Needed: for the text "123456//k" + newline + "//k" the
       result under counter 123454 has one comment key and one line-comment entry, under counter -1 two and two
       (C08_counter_dependence_finding below): the key 123456LINECOMMENT... is looked up under id 123456, which is a
       drawn id under one counter and not under the other.  A defect of the modelled library (key_id = first six digits).
   (2) lits_own_ok: no string literal evaluates to a text containing its OWN placeholder -- the condition under which
       _insert_string_literals terminates (ParserFuelProofs.literal_ok).
   One run raises iff the other does, with the same error (map_res) -- also the RecursionError of set_global_key for a
   string literal more than ten keys deep, whatever the order in which find_global_key visits the leaves
   (CounterInsert.insert_literal_full; the sort order of placeholder keys does change across the wrap-around). *)
Theorem C08_parse_counter_independent : forall c1 c2 dir text,
  counter_ok c1 -> counter_ok c2 -> cleanb text = true -> cleanb dir = true ->
  parse_side (lex true dir c1 text) = true ->
  exists n,
    lxd_count (lex true dir c1 text) = counter_iter n c1 /\
    parse_string true dir c2 text =
    map_res (rename_parsed (c2 - c1) (counter_iter n c2)) (parse_string true dir c1 text).
Proof. exact parse_counter_independent. Qed.
Print Assumptions C08_parse_counter_independent.

Example C08_parse_counter_independent_nonvacuous :
  parse_side (lex true c08_dir (-1) c08_text) = true /\
  (exists n, lxd_count (lex true c08_dir (-1) c08_text) = counter_iter n (-1)%Z /\
             parse_string true c08_dir 123456 c08_text =
             map_res (rename_parsed (123456 - -1) (counter_iter n 123456%Z)) (parse_string true c08_dir (-1) c08_text)) /\
  (exists n, lxd_count (lex true c08_dir (-1) c08_text) = counter_iter n (-1)%Z /\
             parse_string true c08_dir 999997 c08_text =
             map_res (rename_parsed (999997 - -1) (counter_iter n 999997%Z)) (parse_string true c08_dir (-1) c08_text)) /\
  parse_string true c08_dir 999997 c08_text =
    map_res (rename_parsed (999997 - -1) 2%Z) (parse_string true c08_dir (-1) c08_text) /\
  (match parse_string true c08_dir 999997 c08_text with
   | Ok p => (List.length (sd_data (pr_sd p)), map fst (sd_lc (pr_sd p)), map fst (sd_inc (pr_sd p)), pr_count p)
   | Raise _ => (O, [], [], 0%Z)
   end) = (7%nat, [999998; 999999]%N, [0]%N, 2%Z).
Proof.
  destruct c08_ok as (H1 & H2 & H3).
  assert (Hc : cleanb c08_text = true /\ cleanb c08_dir = true) by (split; vm_compute; reflexivity).
  assert (Hs : parse_side (lex true c08_dir (-1) c08_text) = true) by (vm_compute; reflexivity).
  refine (conj Hs (conj (C08_parse_counter_independent _ _ _ _ H1 H2 (proj1 Hc) (proj2 Hc) Hs)
                  (conj (C08_parse_counter_independent _ _ _ _ H1 H3 (proj1 Hc) (proj2 Hc) Hs) _))).
  split; vm_compute; reflexivity.
Qed.

(* a string literal twelve keys deep: RecursionError under every counter *)
Example C08_parse_counter_independent_raise :
  let t := of_string "a{b{c{d{e{f{g{h{i{j{k{l 'x';}}}}}}}}}}}" in
  cleanb t = true /\ parse_side (lex true c08_dir (-1) t) = true /\
  parse_string true c08_dir (-1) t = Raise E_Recursion /\ parse_string true c08_dir 999999 t = Raise E_Recursion /\
  (exists n, lxd_count (lex true c08_dir (-1) t) = counter_iter n (-1)%Z /\
             parse_string true c08_dir 999999 t = map_res (rename_parsed (999999 - -1) (counter_iter n 999999%Z)) (parse_string true c08_dir (-1) t)).
Proof.
  cbv zeta. assert (Hc : cleanb (of_string "a{b{c{d{e{f{g{h{i{j{k{l 'x';}}}}}}}}}}}") = true) by (vm_compute; reflexivity).
  assert (Hs : parse_side (lex true c08_dir (-1) (of_string "a{b{c{d{e{f{g{h{i{j{k{l 'x';}}}}}}}}}}}")) = true) by (vm_compute; reflexivity).
  split; [exact Hc|]. split; [exact Hs|]. split; [vm_compute; reflexivity|]. split; [vm_compute; reflexivity|].
  apply C08_parse_counter_independent; try assumption; try (unfold counter_ok; split; discriminate); vm_compute; reflexivity.
Qed.

(* the ordinary data -- entries whose key is no placeholder and whose value is no text with a placeholder in it, at every
   depth -- are literally equal *)
Theorem C08_ordinary_data_equal : forall d data,
  ordinary_part (Dict (rename_kvs d data)) = ordinary_part (Dict data).
Proof. exact ordinary_data_equal. Qed.
Print Assumptions C08_ordinary_data_equal.

Example C08_ordinary_data_equal_nonvacuous :
  let d1 := match parse_string true c08_dir (-1) c08_text with Ok p => sd_data (pr_sd p) | Raise _ => [] end in
  let d2 := match parse_string true c08_dir 999997 c08_text with Ok p => sd_data (pr_sd p) | Raise _ => [] end in
  let o := Dict [(KS (of_string "a"), Leaf (SInt 1));
                 (KS (of_string "BLOCKCOMMENT000000"), Leaf (SStr (of_string "BLOCKCOMMENT000000")));  (* numbered from 0 in every parse *)
                 (KS (of_string "b"), Leaf (SStr (of_string "lit one")));
                 (KS (of_string "c"), Dict [(KS (of_string "d"), Leaf (SStr (of_string "two")));
                                            (KS (of_string "e"), Leaf (SFloat (of_string "2.5")))])] in
  d2 = rename_kvs (999997 - -1) d1 /\
  ordinary_part (Dict (rename_kvs (999997 - -1) d1)) = ordinary_part (Dict d1) /\
  ordinary_part (Dict d1) = o /\ ordinary_part (Dict d2) = o /\ List.length d1 = 7%nat /\ d1 <> d2.
Proof.
  cbv zeta. split; [vm_compute; reflexivity|]. split; [apply C08_ordinary_data_equal|].
  split; [vm_compute; reflexivity|]. split; [vm_compute; reflexivity|]. split; [vm_compute; reflexivity|]. vm_compute. discriminate.
Qed.

(* ---- reading a file (no include merging) -------------------------------------------------------------- *)
Theorem C08_read_counter_independent : forall fs root text c1 c2,
  counter_ok c1 -> counter_ok c2 ->
  fs_lookup (norm_path root) fs = Some (FNative text) ->
  cleanb text = true -> cleanb (dir_of root) = true ->
  parse_side (lex true (dir_of root) c1 text) = true ->
  exists n,
    lxd_count (lex true (dir_of root) c1 text) = counter_iter n c1 /\
    read_plain fs root false true c2 = map_res (rename_read (c2 - c1) (counter_iter n c2)) (read_plain fs root false true c1).
Proof. exact read_counter_independent_noinc. Qed.
Print Assumptions C08_read_counter_independent.

Example C08_read_counter_independent_nonvacuous :
  fs_lookup (norm_path c08_root) c08_fs = Some (FNative c08_text) /\
  cleanb (dir_of c08_root) = true /\ parse_side (lex true (dir_of c08_root) (-1) c08_text) = true /\
  (exists n, lxd_count (lex true (dir_of c08_root) (-1) c08_text) = counter_iter n (-1)%Z /\
             read_plain c08_fs c08_root false true 999997 =
             map_res (rename_read (999997 - -1) (counter_iter n 999997%Z)) (read_plain c08_fs c08_root false true (-1))) /\
  read_plain c08_fs c08_root false true 999997 = map_res (rename_read (999997 - -1) 2%Z) (read_plain c08_fs c08_root false true (-1)) /\
  read_plain c08_fs c08_root false true 123456 = map_res (rename_read (123456 - -1) 123461%Z) (read_plain c08_fs c08_root false true (-1)) /\
  (match read_plain c08_fs c08_root false true 999997 with Ok (s, c) => (List.length (sd_data s), c) | Raise _ => (O, 0%Z) end) = (6%nat, 2%Z).
Proof.
  destruct c08_ok as (H1 & H2 & H3).
  assert (Hf : fs_lookup (norm_path c08_root) c08_fs = Some (FNative c08_text)) by (vm_compute; reflexivity).
  assert (Hd : cleanb (dir_of c08_root) = true) by (vm_compute; reflexivity).
  assert (Ht : cleanb c08_text = true) by (vm_compute; reflexivity).
  assert (Hs : parse_side (lex true (dir_of c08_root) (-1) c08_text) = true) by (vm_compute; reflexivity).
  refine (conj Hf (conj Hd (conj Hs (conj (C08_read_counter_independent _ _ _ _ _ H1 H3 Hf Ht Hd Hs) _)))).
  repeat split; vm_compute; reflexivity.
Qed.

(* ---- reading with include merging ------------------------------------------------------------------------ *)
(* side conditions (CounterRead.v): every file of the file system is native, free of placeholder names and of references
   and satisfies the parser's side condition (file_ok, checked at the fresh counter -1; file_ok_any transports it to every
   counter); the normalised paths that key the file system and the spelling of the root path contain no placeholder names.
   One read raises iff the other does; the number of ids drawn in the whole read is the same. *)
From DictIO Require Import CounterRead.
Theorem C08_read_includes_counter_independent : forall fs root c1 c2,
  counter_ok c1 -> counter_ok c2 -> fs_ok fs = true -> cleanb root = true ->
  exists n,
    read_plain fs root true true c2 = map_res (rename_read (c2 - c1) (counter_iter n c2)) (read_plain fs root true true c1) /\
    (forall s k, read_plain fs root true true c1 = Ok (s, k) -> k = counter_iter n c1).
Proof. exact read_counter_independent_inc. Qed.
Print Assumptions C08_read_includes_counter_independent.

Definition c08_sub : str := of_string "x 'inner'; // sub comment
y { z 3; }
".
Definition c08_fs2 : fsys := [(c08_root, FNative c08_text); (of_string "/d/sub.dict", FNative c08_sub)].

(* the included file draws two more ids (a line comment and a string literal): eight in all; started at 999997 they are
   999998 999999 0 1 2 (main file) and 3 4 (included file), started at -1 they are 0 .. 6 *)
Example C08_read_includes_counter_independent_nonvacuous :
  fs_ok c08_fs2 = true /\ cleanb c08_root = true /\
  (exists n, read_plain c08_fs2 c08_root true true 999997 =
             map_res (rename_read (999997 - -1) (counter_iter n 999997%Z)) (read_plain c08_fs2 c08_root true true (-1)) /\
             (forall s k, read_plain c08_fs2 c08_root true true (-1) = Ok (s, k) -> k = counter_iter n (-1)%Z)) /\
  read_plain c08_fs2 c08_root true true 999997 = map_res (rename_read (999997 - -1) 4%Z) (read_plain c08_fs2 c08_root true true (-1)) /\
  read_plain c08_fs2 c08_root true true 123456 = map_res (rename_read (123456 - -1) 123463%Z) (read_plain c08_fs2 c08_root true true (-1)) /\
  (match read_plain c08_fs2 c08_root true true 999997 with
   | Ok (s, c) => (List.length (sd_data s), map fst (sd_lc s), map fst (sd_inc s), c)
   | Raise _ => (O, [], [], 0%Z)
   end) = (10%nat, [999998; 999999; 3]%N, [0]%N, 4%Z) /\
  (match read_plain c08_fs2 c08_root true true (-1) with
   | Ok (s, c) => (List.length (sd_data s), map fst (sd_lc s), map fst (sd_inc s), c)
   | Raise _ => (O, [], [], 0%Z)
   end) = (10%nat, [0; 1; 5]%N, [2]%N, 6%Z).
Proof.
  destruct c08_ok as (H1 & H2 & H3).
  assert (Hf : fs_ok c08_fs2 = true) by (vm_compute; reflexivity).
  assert (Hr : cleanb c08_root = true) by (vm_compute; reflexivity).
  refine (conj Hf (conj Hr (conj (C08_read_includes_counter_independent _ _ _ _ H1 H3 Hf Hr) _))).
  repeat split; vm_compute; reflexivity.
Qed.

(* ---- findings: where the result DOES depend on the counter beyond renaming (excluded by the side conditions) ------- *)
Definition c08_shape (r : res parsed) : nat * list N * list N :=
  match r with Ok p => (List.length (sd_data (pr_sd p)), map fst (sd_lc (pr_sd p)), map fst (sd_bc (pr_sd p))) | Raise _ => (O, [], []) end.
(* (1) SDict._clean takes the first six digits of a key for its id: a number glued to a comment is looked up as an id *)
Example C08_counter_dependence_finding :
  let t := of_string "123456//k
//k" in
  cleanb t = true /\ parse_side (lex true c08_dir (-1) t) = false /\
  c08_shape (parse_string true c08_dir (-1) t) = (2%nat, [0; 1]%N, []) /\
  c08_shape (parse_string true c08_dir 123454 t) = (1%nat, [123455]%N, []).
Proof. repeat split; vm_compute; reflexivity. Qed.
(* (1') the same with a string literal glued to a block comment (block comment ids are not drawn from the counter) *)
Example C08_counter_dependence_finding_block :
  let t := of_string "'a'/*c*/ /*c*/" in
  cleanb t = true /\ parse_side (lex true c08_dir 0 t) = false /\
  c08_shape (parse_string true c08_dir 0 t) = (1%nat, [], [1]%N) /\
  c08_shape (parse_string true c08_dir 4 t) = (2%nat, [], [0; 1]%N).
Proof. repeat split; vm_compute; reflexivity. Qed.
(* (2) comments = false: removing a comment can spell a placeholder name (the source itself contains none), which _clean
   then looks up under ids that are drawn under one counter and not under the other *)
Example C08_counter_dependence_finding_nocomments :
  let t := of_string "LINECOMMENT/**/000000 LINECOMMENT/**/000001 //x
//x
" in
  cleanb t = true /\
  lxd_tokens (lex false c08_dir (-1) (of_string "LINECOMMENT/**/000001 1;")) =
  lxd_tokens (lex false c08_dir 5 (of_string "LINECOMMENT/**/000001 1;")) /\
  c08_shape (parse_string false c08_dir (-1) t) = (1%nat, [0]%N, [0; 1]%N) /\
  c08_shape (parse_string false c08_dir 10 t) = (2%nat, [11; 12]%N, [0; 1]%N).
Proof. repeat split; vm_compute; reflexivity. Qed.
