(* C15  Ordering sorts keys at every dict level and changes nothing else. *)
From Coq Require Import NArith ZArith List Bool Permutation.
From DictIO Require Import Chars Str Value Scalar KeyPath SDict TreeSpec OrderProofs.
Import ListNotations.

(* keys ascending (ints before strings) at every dict level reachable through dicts *)
Theorem C15_sorted : forall t, sorted_deep (order_tree t) = true.
Proof. exact order_sorted_deep. Qed.
Print Assumptions C15_sorted.

(* the keys of a level are permuted, nothing is lost or added *)
Theorem C15_perm : forall kvs, Permutation (map fst (kvs_of (order_tree (Dict kvs)))) (map fst kvs).
Proof. exact order_keys_perm. Qed.
Print Assumptions C15_perm.

(* same key-to-value association at every level: whatever is reached through a path of dict keys is the
   ordered version of what was there before (leaves and lists: the very same value) *)
Theorem C15_assoc : forall t p, get_dpath (order_tree t) p = option_map order_child (get_dpath t p).
Proof. exact order_assoc_deep. Qed.
Print Assumptions C15_assoc.

(* lists, and the dicts inside lists, keep their order; leaves are untouched *)
Theorem C15_lists : (forall ts, order_child (Lst ts) = Lst ts) /\ (forall v, order_child (Leaf v) = Leaf v).
Proof. exact order_lists_untouched. Qed.
Print Assumptions C15_lists.

Theorem C15_idem : forall t, order_tree (order_tree t) = order_tree t.
Proof. exact order_idem. Qed.
Print Assumptions C15_idem.

(* non-vacuity: a mixed-key dict with a nested dict and a list of dicts *)
Example C15_example :
  order_tree (Dict [(KS [98%N], Leaf (SInt 1)); (KI 2, Dict [(KS [122%N], Leaf SNone); (KI (-1), Leaf SNone)]);
                    (KS [97%N], Lst [Dict [(KS [98%N], Leaf SNone); (KS [97%N], Leaf SNone)]])])
  = Dict [(KI 2, Dict [(KI (-1), Leaf SNone); (KS [122%N], Leaf SNone)]);
          (KS [97%N], Lst [Dict [(KS [98%N], Leaf SNone); (KS [97%N], Leaf SNone)]]); (KS [98%N], Leaf (SInt 1))].
Proof. vm_compute. reflexivity. Qed.

(* ================================================================================================== *)
(* added from Properties/C15_add.v (2026-10-01)                                              *)
(* ================================================================================================== *)
(* C15 (continued): SDict.order_keys on the whole SDict, the order option of DictReader.read / DictWriter.write /
   DictParser.parse, closure of the writer domain under ordering, and: an ordered file reads back to the same data
   as the unordered one. *)
From Coq Require Import String.
From Coq Require Import NArith ZArith List Bool Permutation.
From DictIO Require Import Chars Str Value Scalar KeyPath SDict Layout Lexer TokParser Reader Expr Eval Cli Parse.
From DictIO Require Import TreeSpec NativeSpec E2ESpec E2EFullProofs OrderProofs OrderFile.
Import ListNotations.

(* ---- SDict.order_keys: the data is ordered with order_tree semantics (C15_sorted / _perm / _assoc / _lists apply to
   it); each of the four side tables keeps its entries and is stably sorted by placeholder id ----------------------- *)
Theorem C15_sd_order : forall s,
  Dict (sd_data (sd_order s)) = order_tree (Dict (sd_data s)) /\
  sd_lc (sd_order s) = tsort (sd_lc s) /\ sd_bc (sd_order s) = tsort (sd_bc s) /\
  sd_inc (sd_order s) = tsort (sd_inc s) /\ sd_expr (sd_order s) = tsort (sd_expr s).
Proof. exact sd_order_spec. Qed.
Print Assumptions C15_sd_order.

(* what sorting a side table means: a permutation, ids ascending, every id still finds the same entry; a table whose
   ids ascend already (every table a reader builds, below the counter wrap) is left as it is *)
Theorem C15_sd_order_tables : forall (V : Type) (l : list (N * V)),
  Permutation (tsort l) l /\ ids_sorted (map fst (tsort l)) = true /\ (forall i, tlookup i (tsort l) = tlookup i l) /\
  (ids_sorted (map fst l) = true -> tsort l = l).
Proof. exact tsort_spec. Qed.
Print Assumptions C15_sd_order_tables.

Theorem C15_sd_order_idem : forall s, sd_order (sd_order s) = sd_order s.
Proof. exact sd_order_idem. Qed.
Print Assumptions C15_sd_order_idem.

Example C15_sd_order_nonvacuous :
  let s := mkSD [(KS (of_string "b"), Leaf (SInt 1));
                 (KI 4, Dict [(KS (of_string "z"), Leaf SNone); (KI (-1), Leaf (SStr (of_string "x  y")))]);
                 (KS (of_string "a"), Lst [Dict [(KS (of_string "q"), Leaf (SInt 1)); (KS (of_string "p"), Leaf (SInt 2))]])]
                [(3%N, of_string "// three"); (1%N, of_string "// one")] [] [] [(7%N, (of_string "$a", of_string "EXPRESSION000007")); (2%N, (of_string "$b", of_string "EXPRESSION000002"))] in
  sd_order s =
    mkSD [(KI 4, Dict [(KI (-1), Leaf (SStr (of_string "x  y"))); (KS (of_string "z"), Leaf SNone)]);
          (KS (of_string "a"), Lst [Dict [(KS (of_string "q"), Leaf (SInt 1)); (KS (of_string "p"), Leaf (SInt 2))]]);
          (KS (of_string "b"), Leaf (SInt 1))]
         [(1%N, of_string "// one"); (3%N, of_string "// three")] [] [] [(2%N, (of_string "$b", of_string "EXPRESSION000002")); (7%N, (of_string "$a", of_string "EXPRESSION000007"))] /\
  sd_order s <> s /\ sd_order (sd_order s) = sd_order s.
Proof.
  intros s. split; [vm_compute; reflexivity|]. split; [vm_compute; discriminate|]. exact (C15_sd_order_idem s).
Qed.

(* ---- the order option of DictReader.read: reading with order=True is reading with order=False and then ordering the
   SDict -- same counter, same error, same "outside the model"; with includes=False as well, because dropping the
   include keys (a filter on the top-level keys) commutes with the stable sort ------------------------------------ *)
Theorem C15_read_option : forall fs root includes comments scope count,
  read_opts fs root includes true comments scope count =
  match read_opts fs root includes false comments scope count with
  | None => None
  | Some (Raise e) => Some (Raise e)
  | Some (Ok (s, c)) => Some (Ok (sd_order s, c))
  end.
Proof. exact read_order_option_x. Qed.
Print Assumptions C15_read_option.

Theorem C15_include_keys_commute : forall d,
  remove_include_keys (kvs_of (order_tree (Dict d))) = kvs_of (order_tree (Dict (remove_include_keys d))).
Proof. exact remove_include_keys_order. Qed.
Print Assumptions C15_include_keys_commute.

(* non-vacuity: a file with line and block comments, an include, an expression, int and str keys at two levels and a
   list of dicts; read with and without includes; the key sequences before and after *)
Example C15_read_option_nonvacuous :
  let nl := String (Ascii.ascii_of_nat 10) "" in
  let txt := of_string ("// first" ++ nl ++ "#include 'inc.dict'" ++ nl ++ "zeta 1; // c2" ++ nl ++
                        "alpha { y 2; 3 4; x 'a  b'; }" ++ nl ++ "/* blk */" ++ nl ++ "5 ( {q 1; p 2;} 7 ); beta $zeta;" ++ nl) in
  let inc := of_string ("mm 1; aa 2;" ++ nl) in
  let fs : fsys := [(of_string "/d/main.dict", FNative txt); (of_string "/d/inc.dict", FNative inc)] in
  let keys r := match r with Some (Ok (s, _)) => map fst (sd_data s) | _ => [] end in
  let sub r := match r with Some (Ok (s, _)) => alookup (KS (of_string "alpha")) (sd_data s) | _ => None end in
  let lst r := match r with Some (Ok (s, _)) => alookup (KI 5) (sd_data s) | _ => None end in
  keys (read_opts fs (of_string "/d/main.dict") true false true [] (-1)) =
    [KS (of_string "LINECOMMENT000000"); KS (of_string "INCLUDE000002"); KS (of_string "zeta"); KS (of_string "LINECOMMENT000001");
     KS (of_string "alpha"); KS (of_string "BLOCKCOMMENT000000"); KI 5; KS (of_string "beta"); KS (of_string "mm"); KS (of_string "aa")] /\
  keys (read_opts fs (of_string "/d/main.dict") true true true [] (-1)) =
    [KI 5; KS (of_string "BLOCKCOMMENT000000"); KS (of_string "INCLUDE000002"); KS (of_string "LINECOMMENT000000");
     KS (of_string "LINECOMMENT000001"); KS (of_string "aa"); KS (of_string "alpha"); KS (of_string "beta"); KS (of_string "mm"); KS (of_string "zeta")] /\
  keys (read_opts fs (of_string "/d/main.dict") false true true [] (-1)) =
    [KI 5; KS (of_string "BLOCKCOMMENT000000"); KS (of_string "LINECOMMENT000000");
     KS (of_string "LINECOMMENT000001"); KS (of_string "alpha"); KS (of_string "beta"); KS (of_string "zeta")] /\
  sub (read_opts fs (of_string "/d/main.dict") true true true [] (-1)) =
    Some (Dict [(KI 3, Leaf (SInt 4)); (KS (of_string "x"), Leaf (SStr (of_string "a  b"))); (KS (of_string "y"), Leaf (SInt 2))]) /\
  lst (read_opts fs (of_string "/d/main.dict") true true true [] (-1)) =
    Some (Lst [Dict [(KS (of_string "q"), Leaf (SInt 1)); (KS (of_string "p"), Leaf (SInt 2))]; Leaf (SInt 7)]) /\
  (forall includes,
   read_opts fs (of_string "/d/main.dict") includes true true [] (-1) =
   match read_opts fs (of_string "/d/main.dict") includes false true [] (-1) with
   | None => None
   | Some (Raise e) => Some (Raise e)
   | Some (Ok (s, c)) => Some (Ok (sd_order s, c))
   end).
Proof.
  intros nl txt inc fs keys sub lst.
  split; [vm_compute; reflexivity|]. split; [vm_compute; reflexivity|]. split; [vm_compute; reflexivity|].
  split; [vm_compute; reflexivity|]. split; [vm_compute; reflexivity|].
  intros includes. exact (C15_read_option fs _ includes true [] (-1)%Z).
Qed.

(* ---- the order option of DictWriter.write.  Without append (or with nothing to append to): writing with order=True is
   writing the ordered SDict with order=False -------------------------------------------------------------------- *)
Theorem C15_write_option : forall fs foam target (append : bool) s count,
  (if append then fs_lookup (norm_path target) fs else None) = None ->
  write_sd fs foam target append true s count = write_sd fs foam target append false (sd_order s) count.
Proof. exact write_order_option. Qed.
Print Assumptions C15_write_option.

(* parse_values, the typing pass of the writer, never raises and commutes with ordering *)
Theorem C15_parse_values_order : forall t,
  (exists t', parse_values_tree t = Ok t') /\
  (forall t', parse_values_tree t = Ok t' -> parse_values_tree (order_tree t) = Ok (order_tree t')).
Proof. intros t. exact (conj (pvt_total t) (pvt_order t)). Qed.
Print Assumptions C15_parse_values_order.

(* append onto an existing target with order=True: the target is read without ordering, ORDERED, the (typed) source is
   merged into it, and the merged SDict is ordered again before it is serialised *)
Theorem C15_write_option_append : forall fs foam target s count u t,
  fs_lookup (norm_path target) fs = Some u ->
  parse_values_tree (Dict (sd_data s)) = Ok t ->
  let src := mkSD (kvs_of_tree t) (sd_lc s) (sd_bc s) (sd_inc s) (sd_expr s) in
  write_sd fs foam target true true s count =
  match read_opts fs target true false true [] count with
  | None => None
  | Some (Raise e) => Some (Raise e)
  | Some (Ok (existing, c)) =>
      let m := sd_order (sd_merge (sd_order existing) (sd_data src) (Some src)) in
      Some (Ok (if foam then foam_to_string_sd m else to_string_sd m, c))
  end.
Proof. exact write_order_option_append_x. Qed.
Print Assumptions C15_write_option_append.

(* finding (SDict algebra, not reachable through a read, which has removed duplicate comments already): ordering
   BEFORE the merge is not absorbed by ordering after it -- with two comments of the same text it decides which of
   the two placeholders _clean keeps *)
Example C15_append_preorder_finding :
  let e := mkSD [(KS (of_string "LINECOMMENT000001"), Leaf (SStr (of_string "LINECOMMENT000001")));
                 (KS (of_string "LINECOMMENT000000"), Leaf (SStr (of_string "LINECOMMENT000000")))]
                [(1%N, of_string "// c"); (0%N, of_string "// c")] [] [] [] in
  sd_order (sd_merge (sd_order e) [] None) <> sd_order (sd_merge e [] None).
Proof. vm_compute. discriminate. Qed.

Example C15_write_option_nonvacuous :
  let s := mkSD [(KS (of_string "b"), Leaf (SStr (of_string "12")));
                 (KS (of_string "LINECOMMENT000003"), Leaf (SStr (of_string "LINECOMMENT000003")));
                 (KI 4, Dict [(KS (of_string "z"), Leaf (SStr (of_string "on")));
                              (KS (of_string "LINECOMMENT000001"), Leaf (SStr (of_string "LINECOMMENT000001")));
                              (KI (-1), Leaf (SStr (of_string "x  y")))]);
                 (KS (of_string "a"), Lst [Dict [(KS (of_string "q"), Leaf (SInt 1)); (KS (of_string "p"), Leaf (SInt 2))]])]
                [(3%N, of_string "// three"); (1%N, of_string "// one")] [] [] [] in
  let target := of_string "/d/out.dict" in
  (if false then fs_lookup (norm_path target) [] else None) = None /\
  write_sd [] false target false false s 5 = Some (Ok (of_string
"/*---------------------------------*- C++ -*----------------------------------*\
filetype dictionary; coding utf-8; version 0.1; local --; purpose --;
\*----------------------------------------------------------------------------*/
b                             12;
// three
4
{
    z                         true;
    // one
    -1                        'x  y';
}
a
(

    {
        q                     1;
        p                     2;
    }
);
", 5%Z)) /\
  write_sd [] false target false false (sd_order s) 5 = Some (Ok (of_string
"/*---------------------------------*- C++ -*----------------------------------*\
filetype dictionary; coding utf-8; version 0.1; local --; purpose --;
\*----------------------------------------------------------------------------*/
4
{
    -1                        'x  y';
    // one
    z                         true;
}
// three
a
(

    {
        q                     1;
        p                     2;
    }
);
b                             12;
", 5%Z)) /\
  write_sd [] false target false true s 5 = write_sd [] false target false false (sd_order s) 5.
Proof.
  intros s target. assert (H : (if false then fs_lookup (norm_path target) [] else None) = (None : option funit)) by reflexivity.
  split; [exact H|]. split; [vm_compute; reflexivity|]. split; [vm_compute; reflexivity|].
  exact (C15_write_option [] false target false s 5%Z H).
Qed.

(* ---- the order option of DictParser.parse (no append): read without ordering, order the SDict once, write without
   ordering (the second ordering, inside write, changes nothing) -------------------------------------------------- *)
Theorem C15_parse_option : forall fs src includes comments scope output count,
  parse_model fs src includes false true comments scope output count =
  match output_kind output with
  | None => None
  | Some foam0 =>
      match read_opts fs src includes false comments scope count with
      | None => None
      | Some (Raise e) => Some (Raise e)
      | Some (Ok (s, c)) =>
          let name := target_file_name (base_name src) (Some (of_string "parsed")) scope output in
          let target := dir_of src ++ [c_slash] ++ name in
          let foam := foam0 || ends_with (of_string ".foam") name in
          if ends_with (of_string ".json") name || ends_with (of_string ".xml") name then None else
          match write_sd fs foam target false false (sd_order s) c with
          | None => None
          | Some (Raise e) => Some (Raise e)
          | Some (Ok (txt, c')) => Some (Ok (dir_of src ++ [c_slash] ++ name, txt, c'))
          end
      end
  end.
Proof. exact parse_order_option. Qed.
Print Assumptions C15_parse_option.

(* ---- the writer domain of C01 is closed under ordering: every side condition of C01_roundtrip has the same value on
   the ordered tree, and re-typing the leaves commutes with ordering ------------------------------------------------ *)
Theorem C15_writer_domain_closed : forall t,
  wf (order_tree t) = wf t /\ writable_tree (order_tree t) = writable_tree t /\ simple_tree (order_tree t) = simple_tree t /\
  nq (order_tree t) = nq t /\ (forall b, quoted_within b (order_tree t) = quoted_within b t) /\
  (forall f, map_leaves f (order_tree t) = order_tree (map_leaves f t)).
Proof. exact writer_domain_closed. Qed.
Print Assumptions C15_writer_domain_closed.

(* ---- an ordered file reads back to the same data as the unordered one: on the writer domain of C01_roundtrip, the
   file written from the ordered dict is read back (same counter) as the ORDERED SDict of what is read back from the
   file written from the dict as it is; so both hold the same value under every key path (lists and leaves the very
   same value, dicts the ordered dict) ------------------------------------------------------------------------------ *)
Theorem C15_ordered_file_reads_back : forall kvs dirc count,
  wf (Dict kvs) = true -> writable_tree (Dict kvs) = true ->
  (-1 <= count)%Z -> (Z.of_nat (nq (Dict kvs)) <= 1000000)%Z -> quoted_within 11 (Dict kvs) = true ->
  let okvs := kvs_of (order_tree (Dict kvs)) in
  (wf (Dict okvs) = true /\ writable_tree (Dict okvs) = true /\ nq (Dict okvs) = nq (Dict kvs) /\ quoted_within 11 (Dict okvs) = true) /\
  exists s count',
    parse_string true dirc count (to_string_plain kvs) = Ok (mkParsed s count') /\
    parse_string true dirc count (to_string_plain okvs) = Ok (mkParsed (sd_order s) count') /\
    sd_data s = kvs_of (map_leaves written_value (Dict kvs)) /\
    sd_data (sd_order s) = kvs_of (order_tree (Dict (sd_data s))) /\
    forall p, get_dpath (Dict (sd_data (sd_order s))) p = option_map order_child (get_dpath (Dict (sd_data s)) p).
Proof. exact ordered_file_reads_back. Qed.
Print Assumptions C15_ordered_file_reads_back.

(* non-vacuity: int and str keys at two levels, a list of dicts with unsorted keys (keeps its order), strings with
   blanks, a delimiter and an apostrophe; both texts and both read-backs *)
Example C15_ordered_file_reads_back_nonvacuous :
  let d := [(KS (of_string "zeta"), Leaf (SStr (of_string "two  words")));
            (KI 7, Dict [(KS (of_string "y"), Leaf (SInt 2)); (KI 3, Leaf (SStr (of_string "a b; c")));
                         (KS (of_string "x"), Leaf (SBool true)); (KI (-1), Leaf SNone)]);
            (KS (of_string "alpha"), Lst [Dict [(KS (of_string "q"), Leaf (SInt 1)); (KS (of_string "p"), Leaf (SStr (of_string "it's")))];
                                          Leaf (SInt 7)]);
            (KI (-2), Leaf (SFloat (of_string "1.5")))] in
  let od := [(KI (-2), Leaf (SFloat (of_string "1.5")));
             (KI 7, Dict [(KI (-1), Leaf SNone); (KI 3, Leaf (SStr (of_string "a b; c")));
                          (KS (of_string "x"), Leaf (SBool true)); (KS (of_string "y"), Leaf (SInt 2))]);
             (KS (of_string "alpha"), Lst [Dict [(KS (of_string "q"), Leaf (SInt 1)); (KS (of_string "p"), Leaf (SStr (of_string "it's")))];
                                           Leaf (SInt 7)]);
             (KS (of_string "zeta"), Leaf (SStr (of_string "two  words")))] in
  wf (Dict d) = true /\ writable_tree (Dict d) = true /\ (Z.of_nat (nq (Dict d)) <= 1000000)%Z /\ quoted_within 11 (Dict d) = true /\
  kvs_of (order_tree (Dict d)) = od /\
  to_string_plain d = of_string
"zeta                          'two  words';
7
{
    y                         2;
    3                         'a b; c';
    x                         true;
    -1                        NULL;
}
alpha
(

    {
        q                     1;
        p                     ""it's"";
    }
    7
);
-2                            1.5;
" /\
  to_string_plain od = of_string
"-2                            1.5;
7
{
    -1                        NULL;
    3                         'a b; c';
    x                         true;
    y                         2;
}
alpha
(

    {
        q                     1;
        p                     ""it's"";
    }
    7
);
zeta                          'two  words';
" /\
  parse_string true [] 7 (to_string_plain d) = Ok (mkParsed (mkSD d [] [] [] []) 10) /\
  parse_string true [] 7 (to_string_plain od) = Ok (mkParsed (mkSD od [] [] [] []) 10) /\
  (exists s count',
    parse_string true [] 7 (to_string_plain d) = Ok (mkParsed s count') /\
    parse_string true [] 7 (to_string_plain (kvs_of (order_tree (Dict d)))) = Ok (mkParsed (sd_order s) count') /\
    forall p, get_dpath (Dict (sd_data (sd_order s))) p = option_map order_child (get_dpath (Dict (sd_data s)) p)).
Proof.
  intros d od.
  assert (Hw : wf (Dict d) = true) by (vm_compute; reflexivity).
  assert (Hwr : writable_tree (Dict d) = true) by (vm_compute; reflexivity).
  assert (Hn : (Z.of_nat (nq (Dict d)) <= 1000000)%Z) by (vm_compute; discriminate).
  assert (Hq : quoted_within 11 (Dict d) = true) by (vm_compute; reflexivity).
  assert (Hc : (-1 <= 7)%Z) by discriminate.
  refine (conj Hw (conj Hwr (conj Hn (conj Hq _)))).
  split; [vm_compute; reflexivity|]. split; [vm_compute; reflexivity|]. split; [vm_compute; reflexivity|].
  split; [vm_compute; reflexivity|]. split; [vm_compute; reflexivity|].
  destruct (C15_ordered_file_reads_back d [] 7%Z Hw Hwr Hc Hn Hq) as [_ (s & c' & E1 & E2 & _ & _ & E5)].
  exists s, c'. exact (conj E1 (conj E2 E5)).
Qed.

(* ---- ordering when the file is written = ordering when the file is read: DictReader.read (include processing off,
   comments on, no scope) of the file written from the ordered dict -- with or without order=True -- returns exactly
   what read with order=True returns for the file written from the dict as it is -------------------------------------- *)
Theorem C15_order_at_write_or_at_read : forall kvs root count fsU fsO,
  wf (Dict kvs) = true -> writable_tree (Dict kvs) = true ->
  (-1 <= count)%Z -> (Z.of_nat (nq (Dict kvs)) <= 1000000)%Z -> quoted_within 11 (Dict kvs) = true ->
  fs_lookup (norm_path root) fsU = Some (FNative (to_string_plain kvs)) ->
  fs_lookup (norm_path root) fsO = Some (FNative (to_string_plain (kvs_of (order_tree (Dict kvs))))) ->
  exists s c',
    read_opts fsU root false false true [] count = Some (Ok (s, c')) /\
    read_opts fsU root false true true [] count = Some (Ok (sd_order s, c')) /\
    read_opts fsO root false false true [] count = Some (Ok (sd_order s, c')) /\
    read_opts fsO root false true true [] count = Some (Ok (sd_order s, c')) /\
    sd_data s = kvs_of (map_leaves written_value (Dict kvs)).
Proof. exact order_at_write_or_at_read. Qed.
Print Assumptions C15_order_at_write_or_at_read.

Example C15_order_at_write_or_at_read_nonvacuous :
  let d := [(KS (of_string "zeta"), Leaf (SStr (of_string "two  words")));
            (KI 7, Dict [(KS (of_string "y"), Leaf (SInt 2)); (KI 3, Leaf (SStr (of_string "a b; c")));
                         (KS (of_string "x"), Leaf (SBool true)); (KI (-1), Leaf SNone)]);
            (KS (of_string "alpha"), Lst [Dict [(KS (of_string "q"), Leaf (SInt 1)); (KS (of_string "p"), Leaf (SStr (of_string "it's")))];
                                          Leaf (SInt 7)]);
            (KI (-2), Leaf (SFloat (of_string "1.5")))] in
  let od := [(KI (-2), Leaf (SFloat (of_string "1.5")));
             (KI 7, Dict [(KI (-1), Leaf SNone); (KI 3, Leaf (SStr (of_string "a b; c")));
                          (KS (of_string "x"), Leaf (SBool true)); (KS (of_string "y"), Leaf (SInt 2))]);
             (KS (of_string "alpha"), Lst [Dict [(KS (of_string "q"), Leaf (SInt 1)); (KS (of_string "p"), Leaf (SStr (of_string "it's")))];
                                           Leaf (SInt 7)]);
             (KS (of_string "zeta"), Leaf (SStr (of_string "two  words")))] in
  let root := of_string "/d/x.dict" in
  let fsU : fsys := [(root, FNative (to_string_plain d))] in
  let fsO : fsys := [(root, FNative (to_string_plain (kvs_of (order_tree (Dict d)))))] in
  wf (Dict d) = true /\ writable_tree (Dict d) = true /\ (Z.of_nat (nq (Dict d)) <= 1000000)%Z /\ quoted_within 11 (Dict d) = true /\
  fs_lookup (norm_path root) fsU = Some (FNative (to_string_plain d)) /\
  fs_lookup (norm_path root) fsO = Some (FNative (to_string_plain (kvs_of (order_tree (Dict d))))) /\
  read_opts fsU root false false true [] (-1) = Some (Ok (mkSD d [] [] [] [], 2%Z)) /\
  read_opts fsO root false false true [] (-1) = Some (Ok (mkSD od [] [] [] [], 2%Z)) /\
  (exists s c',
    read_opts fsU root false false true [] (-1) = Some (Ok (s, c')) /\
    read_opts fsU root false true true [] (-1) = Some (Ok (sd_order s, c')) /\
    read_opts fsO root false false true [] (-1) = Some (Ok (sd_order s, c')) /\
    read_opts fsO root false true true [] (-1) = Some (Ok (sd_order s, c')) /\
    sd_data s = kvs_of (map_leaves written_value (Dict d))).
Proof.
  intros d od root fsU fsO.
  assert (Hw : wf (Dict d) = true) by (vm_compute; reflexivity).
  assert (Hwr : writable_tree (Dict d) = true) by (vm_compute; reflexivity).
  assert (Hn : (Z.of_nat (nq (Dict d)) <= 1000000)%Z) by (vm_compute; discriminate).
  assert (Hq : quoted_within 11 (Dict d) = true) by (vm_compute; reflexivity).
  assert (Hc : (-1 <= -1)%Z) by discriminate.
  assert (HU : fs_lookup (norm_path root) fsU = Some (FNative (to_string_plain d))) by (vm_compute; reflexivity).
  assert (HO : fs_lookup (norm_path root) fsO = Some (FNative (to_string_plain (kvs_of (order_tree (Dict d))))))
    by (vm_compute; reflexivity).
  refine (conj Hw (conj Hwr (conj Hn (conj Hq (conj HU (conj HO _)))))).
  split; [vm_compute; reflexivity|]. split; [vm_compute; reflexivity|].
  exact (C15_order_at_write_or_at_read d root (-1)%Z fsU fsO Hw Hwr Hc Hn Hq HU HO).
Qed.

(* ================================================================================================== *)
(* added from Properties/C15_add.v (2026-10-01, pj_c16c)  *)
(* ================================================================================================== *)
(* C15 (continued): ordering when the file is written = ordering when the file is read, for DictReader.read with its
   DEFAULT options (include processing ON, comments on, no scope).  C15_order_at_write_or_at_read above is the
   includes=False version; with includes=True the reader runs its include pass (_merge_includes: merge of the -- here
   empty -- included data, then the merge of the dict into itself with the clean-up), which is the identity on the
   states read back from a plain file (AppendSeq.merge_includes_st), and does not drop any key afterwards. *)
From Coq Require Import String.
From Coq Require Import NArith ZArith List Bool Permutation.
From DictIO Require Import Chars Str Value Scalar KeyPath SDict Layout Lexer TokParser Reader Expr Eval Cli Parse.
From DictIO Require Import TreeSpec NativeSpec E2ESpec E2EFullProofs OrderProofs OrderFile OrderInclude.
Import ListNotations.

Theorem C15_order_at_write_or_at_read_includes : forall kvs root count fsU fsO,
  wf (Dict kvs) = true -> writable_tree (Dict kvs) = true ->
  (-1 <= count)%Z -> (Z.of_nat (nq (Dict kvs)) <= 1000000)%Z -> quoted_within 11 (Dict kvs) = true ->
  fs_lookup (norm_path root) fsU = Some (FNative (to_string_plain kvs)) ->
  fs_lookup (norm_path root) fsO = Some (FNative (to_string_plain (kvs_of (order_tree (Dict kvs))))) ->
  exists s c',
    read_opts fsU root true false true [] count = Some (Ok (s, c')) /\
    read_opts fsU root true true true [] count = Some (Ok (sd_order s, c')) /\
    read_opts fsO root true false true [] count = Some (Ok (sd_order s, c')) /\
    read_opts fsO root true true true [] count = Some (Ok (sd_order s, c')) /\
    sd_data s = kvs_of (map_leaves written_value (Dict kvs)).
Proof. exact order_at_write_or_at_read_includes. Qed.
Print Assumptions C15_order_at_write_or_at_read_includes.

(* non-vacuity: the dict of C15_order_at_write_or_at_read_nonvacuous; each file tree holds a second file as well (it is
   not included by anything: the include pass has nothing to do, whatever else the file tree holds) *)
Example C15_order_at_write_or_at_read_includes_nonvacuous :
  let d := [(KS (of_string "zeta"), Leaf (SStr (of_string "two  words")));
            (KI 7, Dict [(KS (of_string "y"), Leaf (SInt 2)); (KI 3, Leaf (SStr (of_string "a b; c")));
                         (KS (of_string "x"), Leaf (SBool true)); (KI (-1), Leaf SNone)]);
            (KS (of_string "alpha"), Lst [Dict [(KS (of_string "q"), Leaf (SInt 1)); (KS (of_string "p"), Leaf (SStr (of_string "it's")))];
                                          Leaf (SInt 7)]);
            (KI (-2), Leaf (SFloat (of_string "1.5")))] in
  let od := [(KI (-2), Leaf (SFloat (of_string "1.5")));
             (KI 7, Dict [(KI (-1), Leaf SNone); (KI 3, Leaf (SStr (of_string "a b; c")));
                          (KS (of_string "x"), Leaf (SBool true)); (KS (of_string "y"), Leaf (SInt 2))]);
             (KS (of_string "alpha"), Lst [Dict [(KS (of_string "q"), Leaf (SInt 1)); (KS (of_string "p"), Leaf (SStr (of_string "it's")))];
                                           Leaf (SInt 7)]);
             (KS (of_string "zeta"), Leaf (SStr (of_string "two  words")))] in
  let root := of_string "/d/x.dict" in
  let other : str * funit := (of_string "/d/other.dict", FNative (of_string "mm 1;")) in
  let fsU : fsys := [other; (root, FNative (to_string_plain d))] in
  let fsO : fsys := [(root, FNative (to_string_plain (kvs_of (order_tree (Dict d))))); other] in
  wf (Dict d) = true /\ writable_tree (Dict d) = true /\ (Z.of_nat (nq (Dict d)) <= 1000000)%Z /\ quoted_within 11 (Dict d) = true /\
  fs_lookup (norm_path root) fsU = Some (FNative (to_string_plain d)) /\
  fs_lookup (norm_path root) fsO = Some (FNative (to_string_plain (kvs_of (order_tree (Dict d))))) /\
  od <> d /\
  read_opts fsU root true false true [] (-1) = Some (Ok (mkSD d [] [] [] [], 2%Z)) /\
  read_opts fsO root true false true [] (-1) = Some (Ok (mkSD od [] [] [] [], 2%Z)) /\
  (exists s c',
    read_opts fsU root true false true [] (-1) = Some (Ok (s, c')) /\
    read_opts fsU root true true true [] (-1) = Some (Ok (sd_order s, c')) /\
    read_opts fsO root true false true [] (-1) = Some (Ok (sd_order s, c')) /\
    read_opts fsO root true true true [] (-1) = Some (Ok (sd_order s, c')) /\
    sd_data s = kvs_of (map_leaves written_value (Dict d))).
Proof.
  intros d od root other fsU fsO.
  assert (Hw : wf (Dict d) = true) by (vm_compute; reflexivity).
  assert (Hwr : writable_tree (Dict d) = true) by (vm_compute; reflexivity).
  assert (Hn : (Z.of_nat (nq (Dict d)) <= 1000000)%Z) by (vm_compute; discriminate).
  assert (Hq : quoted_within 11 (Dict d) = true) by (vm_compute; reflexivity).
  assert (Hc : (-1 <= -1)%Z) by discriminate.
  assert (HU : fs_lookup (norm_path root) fsU = Some (FNative (to_string_plain d))) by (vm_compute; reflexivity).
  assert (HO : fs_lookup (norm_path root) fsO = Some (FNative (to_string_plain (kvs_of (order_tree (Dict d))))))
    by (vm_compute; reflexivity).
  refine (conj Hw (conj Hwr (conj Hn (conj Hq (conj HU (conj HO _)))))).
  split; [vm_compute; discriminate|].
  split; [vm_compute; reflexivity|]. split; [vm_compute; reflexivity|].
  exact (C15_order_at_write_or_at_read_includes d root (-1)%Z fsU fsO Hw Hwr Hc Hn Hq HU HO).
Qed.
