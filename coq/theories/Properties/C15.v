(* placeholder until the proofs are integrated *)
From DictIO Require Import Chars Str Value Scalar.
Theorem C15_placeholder : True. Proof. exact I. Qed.
Print Assumptions C15_placeholder.
