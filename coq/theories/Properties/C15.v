(* C15  Ordering sorts keys at every dict level and changes nothing else. *)
From Coq Require Import NArith ZArith List Bool Permutation.
From DictIO Require Import Chars Str Value Scalar KeyPath SDict TreeSpec OrderProofs.
Import ListNotations.

(* keys ascending (ints before strings) at every dict level reachable through dicts *)
Theorem C15_sorted : forall t, sorted_deep (order_tree t) = true.
Proof. exact order_sorted_deep. Qed.
Print Assumptions C15_sorted.

(* the keys of a level are permuted, nothing is lost or added *)
Theorem C15_perm : forall kvs, Permutation (map fst (kvs_of (order_tree (Dict kvs)))) (map fst kvs).
Proof. exact order_keys_perm. Qed.
Print Assumptions C15_perm.

(* same key-to-value association at every level: whatever is reached through a path of dict keys is the
   ordered version of what was there before (leaves and lists: the very same value) *)
Theorem C15_assoc : forall t p, get_dpath (order_tree t) p = option_map order_child (get_dpath t p).
Proof. exact order_assoc_deep. Qed.
Print Assumptions C15_assoc.

(* lists, and the dicts inside lists, keep their order; leaves are untouched *)
Theorem C15_lists : (forall ts, order_child (Lst ts) = Lst ts) /\ (forall v, order_child (Leaf v) = Leaf v).
Proof. exact order_lists_untouched. Qed.
Print Assumptions C15_lists.

Theorem C15_idem : forall t, order_tree (order_tree t) = order_tree t.
Proof. exact order_idem. Qed.
Print Assumptions C15_idem.

(* non-vacuity: a mixed-key dict with a nested dict and a list of dicts *)
Example C15_example :
  order_tree (Dict [(KS [98%N], Leaf (SInt 1)); (KI 2, Dict [(KS [122%N], Leaf SNone); (KI (-1), Leaf SNone)]);
                    (KS [97%N], Lst [Dict [(KS [98%N], Leaf SNone); (KS [97%N], Leaf SNone)]])])
  = Dict [(KI 2, Dict [(KI (-1), Leaf SNone); (KS [122%N], Leaf SNone)]);
          (KS [97%N], Lst [Dict [(KS [98%N], Leaf SNone); (KS [97%N], Leaf SNone)]]); (KS [98%N], Leaf (SInt 1))].
Proof. vm_compute. reflexivity. Qed.

(* ================================================================================================== *)
(* added from Properties/C15_add.v (2026-10-01)                                              *)
(* ================================================================================================== *)
(* C15 (continued): SDict.order_keys on the whole SDict, the order option of DictReader.read / DictWriter.write /
   DictParser.parse, closure of the writer domain under ordering, and: an ordered file reads back to the same data
   as the unordered one. *)
From Coq Require Import String.
From Coq Require Import NArith ZArith List Bool Permutation.
From DictIO Require Import Chars Str Value Scalar KeyPath SDict Layout Lexer TokParser Reader Expr Eval Cli Parse.
From DictIO Require Import TreeSpec NativeSpec E2ESpec E2EFullProofs OrderProofs OrderFile.
Import ListNotations.

(* ---- SDict.order_keys: the data is ordered with order_tree semantics (C15_sorted / _perm / _assoc / _lists apply to
   it); each of the four side tables keeps its entries and is stably sorted by placeholder id ----------------------- *)
Theorem C15_sd_order : forall s,
  Dict (sd_data (sd_order s)) = order_tree (Dict (sd_data s)) /\
  sd_lc (sd_order s) = tsort (sd_lc s) /\ sd_bc (sd_order s) = tsort (sd_bc s) /\
  sd_inc (sd_order s) = tsort (sd_inc s) /\ sd_expr (sd_order s) = tsort (sd_expr s).
Proof. exact sd_order_spec. Qed.
Print Assumptions C15_sd_order.

(* what sorting a side table means: a permutation, ids ascending, every id still finds the same entry; a table whose
   ids ascend already (every table a reader builds, below the counter wrap) is left as it is *)
Theorem C15_sd_order_tables : forall (V : Type) (l : list (N * V)),
  Permutation (tsort l) l /\ ids_sorted (map fst (tsort l)) = true /\ (forall i, tlookup i (tsort l) = tlookup i l) /\
  (ids_sorted (map fst l) = true -> tsort l = l).
Proof. exact tsort_spec. Qed.
Print Assumptions C15_sd_order_tables.

Theorem C15_sd_order_idem : forall s, sd_order (sd_order s) = sd_order s.
Proof. exact sd_order_idem. Qed.
Print Assumptions C15_sd_order_idem.

Example C15_sd_order_nonvacuous :
  let s := mkSD [(KS (of_string "b"), Leaf (SInt 1));
                 (KI 4, Dict [(KS (of_string "z"), Leaf SNone); (KI (-1), Leaf (SStr (of_string "x  y")))]);
                 (KS (of_string "a"), Lst [Dict [(KS (of_string "q"), Leaf (SInt 1)); (KS (of_string "p"), Leaf (SInt 2))]])]
                [(3%N, of_string "// three"); (1%N, of_string "// one")] [] [] [(7%N, (of_string "$a", of_string "EXPRESSION000007")); (2%N, (of_string "$b", of_string "EXPRESSION000002"))] in
  sd_order s =
    mkSD [(KI 4, Dict [(KI (-1), Leaf (SStr (of_string "x  y"))); (KS (of_string "z"), Leaf SNone)]);
          (KS (of_string "a"), Lst [Dict [(KS (of_string "q"), Leaf (SInt 1)); (KS (of_string "p"), Leaf (SInt 2))]]);
          (KS (of_string "b"), Leaf (SInt 1))]
         [(1%N, of_string "// one"); (3%N, of_string "// three")] [] [] [(2%N, (of_string "$b", of_string "EXPRESSION000002")); (7%N, (of_string "$a", of_string "EXPRESSION000007"))] /\
  sd_order s <> s /\ sd_order (sd_order s) = sd_order s.
Proof.
  intros s. split; [vm_compute; reflexivity|]. split; [vm_compute; discriminate|]. exact (C15_sd_order_idem s).
Qed.

(* ---- the order option of DictReader.read: reading with order=True is reading with order=False and then ordering the
   SDict -- same counter, same error, same "outside the model"; with includes=False as well, because dropping the
   include keys (a filter on the top-level keys) commutes with the stable sort ------------------------------------ *)
Theorem C15_read_option : forall fs root includes comments scope count,
  read_opts fs root includes true comments scope count =
  match read_opts fs root includes false comments scope count with
  | None => None
  | Some (Raise e) => Some (Raise e)
  | Some (Ok (s, c)) => Some (Ok (sd_order s, c))
  end.
Proof. exact read_order_option_x. Qed.
Print Assumptions C15_read_option.

Theorem C15_include_keys_commute : forall d,
  remove_include_keys (kvs_of (order_tree (Dict d))) = kvs_of (order_tree (Dict (remove_include_keys d))).
Proof. exact remove_include_keys_order. Qed.
Print Assumptions C15_include_keys_commute.

(* non-vacuity: a file with line and block comments, an include, an expression, int and str keys at two levels and a
   list of dicts; read with and without includes; the key sequences before and after *)
Example C15_read_option_nonvacuous :
  let nl := String (Ascii.ascii_of_nat 10) "" in
  let txt := of_string ("// first" ++ nl ++ "#include 'inc.dict'" ++ nl ++ "zeta 1; // c2" ++ nl ++
                        "alpha { y 2; 3 4; x 'a  b'; }" ++ nl ++ "/* blk */" ++ nl ++ "5 ( {q 1; p 2;} 7 ); beta $zeta;" ++ nl) in
  let inc := of_string ("mm 1; aa 2;" ++ nl) in
  let fs : fsys := [(of_string "/d/main.dict", FNative txt); (of_string "/d/inc.dict", FNative inc)] in
  let keys r := match r with Some (Ok (s, _)) => map fst (sd_data s) | _ => [] end in
  let sub r := match r with Some (Ok (s, _)) => alookup (KS (of_string "alpha")) (sd_data s) | _ => None end in
  let lst r := match r with Some (Ok (s, _)) => alookup (KI 5) (sd_data s) | _ => None end in
  keys (read_opts fs (of_string "/d/main.dict") true false true [] (-1)) =
    [KS (of_string "LINECOMMENT000000"); KS (of_string "INCLUDE000002"); KS (of_string "zeta"); KS (of_string "LINECOMMENT000001");
     KS (of_string "alpha"); KS (of_string "BLOCKCOMMENT000000"); KI 5; KS (of_string "beta"); KS (of_string "mm"); KS (of_string "aa")] /\
  keys (read_opts fs (of_string "/d/main.dict") true true true [] (-1)) =
    [KI 5; KS (of_string "BLOCKCOMMENT000000"); KS (of_string "INCLUDE000002"); KS (of_string "LINECOMMENT000000");
     KS (of_string "LINECOMMENT000001"); KS (of_string "aa"); KS (of_string "alpha"); KS (of_string "beta"); KS (of_string "mm"); KS (of_string "zeta")] /\
  keys (read_opts fs (of_string "/d/main.dict") false true true [] (-1)) =
    [KI 5; KS (of_string "BLOCKCOMMENT000000"); KS (of_string "LINECOMMENT000000");
     KS (of_string "LINECOMMENT000001"); KS (of_string "alpha"); KS (of_string "beta"); KS (of_string "zeta")] /\
  sub (read_opts fs (of_string "/d/main.dict") true true true [] (-1)) =
    Some (Dict [(KI 3, Leaf (SInt 4)); (KS (of_string "x"), Leaf (SStr (of_string "a  b"))); (KS (of_string "y"), Leaf (SInt 2))]) /\
  lst (read_opts fs (of_string "/d/main.dict") true true true [] (-1)) =
    Some (Lst [Dict [(KS (of_string "q"), Leaf (SInt 1)); (KS (of_string "p"), Leaf (SInt 2))]; Leaf (SInt 7)]) /\
  (forall includes,
   read_opts fs (of_string "/d/main.dict") includes true true [] (-1) =
   match read_opts fs (of_string "/d/main.dict") includes false true [] (-1) with
   | None => None
   | Some (Raise e) => Some (Raise e)
   | Some (Ok (s, c)) => Some (Ok (sd_order s, c))
   end).
Proof.
  intros nl txt inc fs keys sub lst.
  split; [vm_compute; reflexivity|]. split; [vm_compute; reflexivity|]. split; [vm_compute; reflexivity|].
  split; [vm_compute; reflexivity|]. split; [vm_compute; reflexivity|].
  intros includes. exact (C15_read_option fs _ includes true [] (-1)%Z).
Qed.

(* ---- the order option of DictWriter.write.  Without append (or with nothing to append to): writing with order=True is
   writing the ordered SDict with order=False -------------------------------------------------------------------- *)
Theorem C15_write_option : forall fs foam target (append : bool) s count,
  (if append then fs_lookup (norm_path target) fs else None) = None ->
  write_sd fs foam target append true s count = write_sd fs foam target append false (sd_order s) count.
Proof. exact write_order_option. Qed.
Print Assumptions C15_write_option.

(* parse_values, the typing pass of the writer, never raises and commutes with ordering *)
Theorem C15_parse_values_order : forall t,
  (exists t', parse_values_tree t = Ok t') /\
  (forall t', parse_values_tree t = Ok t' -> parse_values_tree (order_tree t) = Ok (order_tree t')).
Proof. intros t. exact (conj (pvt_total t) (pvt_order t)). Qed.
Print Assumptions C15_parse_values_order.

(* append onto an existing target with order=True: the target is read without ordering, ORDERED, the (typed) source is
   merged into it, and the merged SDict is ordered again before it is serialised *)
Theorem C15_write_option_append : forall fs foam target s count u t,
  fs_lookup (norm_path target) fs = Some u ->
  parse_values_tree (Dict (sd_data s)) = Ok t ->
  let src := mkSD (kvs_of_tree t) (sd_lc s) (sd_bc s) (sd_inc s) (sd_expr s) in
  write_sd fs foam target true true s count =
  match read_opts fs target true false true [] count with
  | None => None
  | Some (Raise e) => Some (Raise e)
  | Some (Ok (existing, c)) =>
      let m := sd_order (sd_merge (sd_order existing) (sd_data src) (Some src)) in
      Some (Ok (if foam then foam_to_string_sd m else to_string_sd m, c))
  end.
Proof. exact write_order_option_append_x. Qed.
Print Assumptions C15_write_option_append.

(* finding (SDict algebra, not reachable through a read, which has removed duplicate comments already): ordering
   BEFORE the merge is not absorbed by ordering after it -- with two comments of the same text it decides which of
   the two placeholders _clean keeps *)
Example C15_append_preorder_finding :
  let e := mkSD [(KS (of_string "LINECOMMENT000001"), Leaf (SStr (of_string "LINECOMMENT000001")));
                 (KS (of_string "LINECOMMENT000000"), Leaf (SStr (of_string "LINECOMMENT000000")))]
                [(1%N, of_string "// c"); (0%N, of_string "// c")] [] [] [] in
  sd_order (sd_merge (sd_order e) [] None) <> sd_order (sd_merge e [] None).
Proof. vm_compute. discriminate. Qed.

Example C15_write_option_nonvacuous :
  let s := mkSD [(KS (of_string "b"), Leaf (SStr (of_string "12")));
                 (KS (of_string "LINECOMMENT000003"), Leaf (SStr (of_string "LINECOMMENT000003")));
                 (KI 4, Dict [(KS (of_string "z"), Leaf (SStr (of_string "on")));
                              (KS (of_string "LINECOMMENT000001"), Leaf (SStr (of_string "LINECOMMENT000001")));
                              (KI (-1), Leaf (SStr (of_string "x  y")))]);
                 (KS (of_string "a"), Lst [Dict [(KS (of_string "q"), Leaf (SInt 1)); (KS (of_string "p"), Leaf (SInt 2))]])]
                [(3%N, of_string "// three"); (1%N, of_string "// one")] [] [] [] in
  let target := of_string "/d/out.dict" in
  (if false then fs_lookup (norm_path target) [] else None) = None /\
  write_sd [] false target false false s 5 = Some (Ok (of_string
"/*---------------------------------*- C++ -*----------------------------------*\
filetype dictionary; coding utf-8; version 0.1; local --; purpose --;
\*----------------------------------------------------------------------------*/
b                             12;
// three
4
{
    z                         true;
    // one
    -1                        'x  y';
}
a
(

    {
        q                     1;
        p                     2;
    }
);
", 5%Z)) /\
  write_sd [] false target false false (sd_order s) 5 = Some (Ok (of_string
"/*---------------------------------*- C++ -*----------------------------------*\
filetype dictionary; coding utf-8; version 0.1; local --; purpose --;
\*----------------------------------------------------------------------------*/
4
{
    -1                        'x  y';
    // one
    z                         true;
}
// three
a
(

    {
        q                     1;
        p                     2;
    }
);
b                             12;
", 5%Z)) /\
  write_sd [] false target false true s 5 = write_sd [] false target false false (sd_order s) 5.
Proof.
  intros s target. assert (H : (if false then fs_lookup (norm_path target) [] else None) = (None : option funit)) by reflexivity.
  split; [exact H|]. split; [vm_compute; reflexivity|]. split; [vm_compute; reflexivity|].
  exact (C15_write_option [] false target false s 5%Z H).
Qed.

(* ---- the order option of DictParser.parse (no append): read without ordering, order the SDict once, write without
   ordering (the second ordering, inside write, changes nothing) -------------------------------------------------- *)
Theorem C15_parse_option : forall fs src includes comments scope output count,
  parse_model fs src includes false true comments scope output count =
  match output_kind output with
  | None => None
  | Some foam0 =>
      match read_opts fs src includes false comments scope count with
      | None => None
      | Some (Raise e) => Some (Raise e)
      | Some (Ok (s, c)) =>
          let name := target_file_name (base_name src) (Some (of_string "parsed")) scope output in
          let target := dir_of src ++ [c_slash] ++ name in
          let foam := foam0 || ends_with (of_string ".foam") name in
          if ends_with (of_string ".json") name || ends_with (of_string ".xml") name then None else
          match write_sd fs foam target false false (sd_order s) c with
          | None => None
          | Some (Raise e) => Some (Raise e)
          | Some (Ok (txt, c')) => Some (Ok (dir_of src ++ [c_slash] ++ name, txt, c'))
          end
      end
  end.
Proof. exact parse_order_option. Qed.
Print Assumptions C15_parse_option.

(* ---- the writer domain of C01 is closed under ordering: every side condition of C01_roundtrip has the same value on
   the ordered tree, and re-typing the leaves commutes with ordering ------------------------------------------------ *)
Theorem C15_writer_domain_closed : forall t,
  wf (order_tree t) = wf t /\ writable_tree (order_tree t) = writable_tree t /\ simple_tree (order_tree t) = simple_tree t /\
  nq (order_tree t) = nq t /\ (forall b, quoted_within b (order_tree t) = quoted_within b t) /\
  (forall f, map_leaves f (order_tree t) = order_tree (map_leaves f t)).
Proof. exact writer_domain_closed. Qed.
Print Assumptions C15_writer_domain_closed.

(* ---- an ordered file reads back to the same data as the unordered one: on the writer domain of C01_roundtrip, the
   file written from the ordered dict is read back (same counter) as the ORDERED SDict of what is read back from the
   file written from the dict as it is; so both hold the same value under every key path (lists and leaves the very
   same value, dicts the ordered dict) ------------------------------------------------------------------------------ *)
Theorem C15_ordered_file_reads_back : forall kvs dirc count,
  wf (Dict kvs) = true -> writable_tree (Dict kvs) = true ->
  (-1 <= count)%Z -> (Z.of_nat (nq (Dict kvs)) <= 1000000)%Z -> quoted_within 11 (Dict kvs) = true ->
  let okvs := kvs_of (order_tree (Dict kvs)) in
  (wf (Dict okvs) = true /\ writable_tree (Dict okvs) = true /\ nq (Dict okvs) = nq (Dict kvs) /\ quoted_within 11 (Dict okvs) = true) /\
  exists s count',
    parse_string true dirc count (to_string_plain kvs) = Ok (mkParsed s count') /\
    parse_string true dirc count (to_string_plain okvs) = Ok (mkParsed (sd_order s) count') /\
    sd_data s = kvs_of (map_leaves written_value (Dict kvs)) /\
    sd_data (sd_order s) = kvs_of (order_tree (Dict (sd_data s))) /\
    forall p, get_dpath (Dict (sd_data (sd_order s))) p = option_map order_child (get_dpath (Dict (sd_data s)) p).
Proof. exact ordered_file_reads_back. Qed.
Print Assumptions C15_ordered_file_reads_back.

(* non-vacuity: int and str keys at two levels, a list of dicts with unsorted keys (keeps its order), strings with
   blanks, a delimiter and an apostrophe; both texts and both read-backs *)
Example C15_ordered_file_reads_back_nonvacuous :
  let d := [(KS (of_string "zeta"), Leaf (SStr (of_string "two  words")));
            (KI 7, Dict [(KS (of_string "y"), Leaf (SInt 2)); (KI 3, Leaf (SStr (of_string "a b; c")));
                         (KS (of_string "x"), Leaf (SBool true)); (KI (-1), Leaf SNone)]);
            (KS (of_string "alpha"), Lst [Dict [(KS (of_string "q"), Leaf (SInt 1)); (KS (of_string "p"), Leaf (SStr (of_string "it's")))];
                                          Leaf (SInt 7)]);
            (KI (-2), Leaf (SFloat (of_string "1.5")))] in
  let od := [(KI (-2), Leaf (SFloat (of_string "1.5")));
             (KI 7, Dict [(KI (-1), Leaf SNone); (KI 3, Leaf (SStr (of_string "a b; c")));
                          (KS (of_string "x"), Leaf (SBool true)); (KS (of_string "y"), Leaf (SInt 2))]);
             (KS (of_string "alpha"), Lst [Dict [(KS (of_string "q"), Leaf (SInt 1)); (KS (of_string "p"), Leaf (SStr (of_string "it's")))];
                                           Leaf (SInt 7)]);
             (KS (of_string "zeta"), Leaf (SStr (of_string "two  words")))] in
  wf (Dict d) = true /\ writable_tree (Dict d) = true /\ (Z.of_nat (nq (Dict d)) <= 1000000)%Z /\ quoted_within 11 (Dict d) = true /\
  kvs_of (order_tree (Dict d)) = od /\
  to_string_plain d = of_string
"zeta                          'two  words';
7
{
    y                         2;
    3                         'a b; c';
    x                         true;
    -1                        NULL;
}
alpha
(

    {
        q                     1;
        p                     ""it's"";
    }
    7
);
-2                            1.5;
" /\
  to_string_plain od = of_string
"-2                            1.5;
7
{
    -1                        NULL;
    3                         'a b; c';
    x                         true;
    y                         2;
}
alpha
(

    {
        q                     1;
        p                     ""it's"";
    }
    7
);
zeta                          'two  words';
" /\
  parse_string true [] 7 (to_string_plain d) = Ok (mkParsed (mkSD d [] [] [] []) 10) /\
  parse_string true [] 7 (to_string_plain od) = Ok (mkParsed (mkSD od [] [] [] []) 10) /\
  (exists s count',
    parse_string true [] 7 (to_string_plain d) = Ok (mkParsed s count') /\
    parse_string true [] 7 (to_string_plain (kvs_of (order_tree (Dict d)))) = Ok (mkParsed (sd_order s) count') /\
    forall p, get_dpath (Dict (sd_data (sd_order s))) p = option_map order_child (get_dpath (Dict (sd_data s)) p)).
Proof.
  intros d od.
  assert (Hw : wf (Dict d) = true) by (vm_compute; reflexivity).
  assert (Hwr : writable_tree (Dict d) = true) by (vm_compute; reflexivity).
  assert (Hn : (Z.of_nat (nq (Dict d)) <= 1000000)%Z) by (vm_compute; discriminate).
  assert (Hq : quoted_within 11 (Dict d) = true) by (vm_compute; reflexivity).
  assert (Hc : (-1 <= 7)%Z) by discriminate.
  refine (conj Hw (conj Hwr (conj Hn (conj Hq _)))).
  split; [vm_compute; reflexivity|]. split; [vm_compute; reflexivity|]. split; [vm_compute; reflexivity|].
  split; [vm_compute; reflexivity|]. split; [vm_compute; reflexivity|].
  destruct (C15_ordered_file_reads_back d [] 7%Z Hw Hwr Hc Hn Hq) as [_ (s & c' & E1 & E2 & _ & _ & E5)].
  exists s, c'. exact (conj E1 (conj E2 E5)).
Qed.

(* ---- ordering when the file is written = ordering when the file is read: DictReader.read (include processing off,
   comments on, no scope) of the file written from the ordered dict -- with or without order=True -- returns exactly
   what read with order=True returns for the file written from the dict as it is -------------------------------------- *)
Theorem C15_order_at_write_or_at_read : forall kvs root count fsU fsO,
  wf (Dict kvs) = true -> writable_tree (Dict kvs) = true ->
  (-1 <= count)%Z -> (Z.of_nat (nq (Dict kvs)) <= 1000000)%Z -> quoted_within 11 (Dict kvs) = true ->
  fs_lookup (norm_path root) fsU = Some (FNative (to_string_plain kvs)) ->
  fs_lookup (norm_path root) fsO = Some (FNative (to_string_plain (kvs_of (order_tree (Dict kvs))))) ->
  exists s c',
    read_opts fsU root false false true [] count = Some (Ok (s, c')) /\
    read_opts fsU root false true true [] count = Some (Ok (sd_order s, c')) /\
    read_opts fsO root false false true [] count = Some (Ok (sd_order s, c')) /\
    read_opts fsO root false true true [] count = Some (Ok (sd_order s, c')) /\
    sd_data s = kvs_of (map_leaves written_value (Dict kvs)).
Proof. exact order_at_write_or_at_read. Qed.
Print Assumptions C15_order_at_write_or_at_read.

Example C15_order_at_write_or_at_read_nonvacuous :
  let d := [(KS (of_string "zeta"), Leaf (SStr (of_string "two  words")));
            (KI 7, Dict [(KS (of_string "y"), Leaf (SInt 2)); (KI 3, Leaf (SStr (of_string "a b; c")));
                         (KS (of_string "x"), Leaf (SBool true)); (KI (-1), Leaf SNone)]);
            (KS (of_string "alpha"), Lst [Dict [(KS (of_string "q"), Leaf (SInt 1)); (KS (of_string "p"), Leaf (SStr (of_string "it's")))];
                                          Leaf (SInt 7)]);
            (KI (-2), Leaf (SFloat (of_string "1.5")))] in
  let od := [(KI (-2), Leaf (SFloat (of_string "1.5")));
             (KI 7, Dict [(KI (-1), Leaf SNone); (KI 3, Leaf (SStr (of_string "a b; c")));
                          (KS (of_string "x"), Leaf (SBool true)); (KS (of_string "y"), Leaf (SInt 2))]);
             (KS (of_string "alpha"), Lst [Dict [(KS (of_string "q"), Leaf (SInt 1)); (KS (of_string "p"), Leaf (SStr (of_string "it's")))];
                                           Leaf (SInt 7)]);
             (KS (of_string "zeta"), Leaf (SStr (of_string "two  words")))] in
  let root := of_string "/d/x.dict" in
  let fsU : fsys := [(root, FNative (to_string_plain d))] in
  let fsO : fsys := [(root, FNative (to_string_plain (kvs_of (order_tree (Dict d)))))] in
  wf (Dict d) = true /\ writable_tree (Dict d) = true /\ (Z.of_nat (nq (Dict d)) <= 1000000)%Z /\ quoted_within 11 (Dict d) = true /\
  fs_lookup (norm_path root) fsU = Some (FNative (to_string_plain d)) /\
  fs_lookup (norm_path root) fsO = Some (FNative (to_string_plain (kvs_of (order_tree (Dict d))))) /\
  read_opts fsU root false false true [] (-1) = Some (Ok (mkSD d [] [] [] [], 2%Z)) /\
  read_opts fsO root false false true [] (-1) = Some (Ok (mkSD od [] [] [] [], 2%Z)) /\
  (exists s c',
    read_opts fsU root false false true [] (-1) = Some (Ok (s, c')) /\
    read_opts fsU root false true true [] (-1) = Some (Ok (sd_order s, c')) /\
    read_opts fsO root false false true [] (-1) = Some (Ok (sd_order s, c')) /\
    read_opts fsO root false true true [] (-1) = Some (Ok (sd_order s, c')) /\
    sd_data s = kvs_of (map_leaves written_value (Dict d))).
Proof.
  intros d od root fsU fsO.
  assert (Hw : wf (Dict d) = true) by (vm_compute; reflexivity).
  assert (Hwr : writable_tree (Dict d) = true) by (vm_compute; reflexivity).
  assert (Hn : (Z.of_nat (nq (Dict d)) <= 1000000)%Z) by (vm_compute; discriminate).
  assert (Hq : quoted_within 11 (Dict d) = true) by (vm_compute; reflexivity).
  assert (Hc : (-1 <= -1)%Z) by discriminate.
  assert (HU : fs_lookup (norm_path root) fsU = Some (FNative (to_string_plain d))) by (vm_compute; reflexivity).
  assert (HO : fs_lookup (norm_path root) fsO = Some (FNative (to_string_plain (kvs_of (order_tree (Dict d))))))
    by (vm_compute; reflexivity).
  refine (conj Hw (conj Hwr (conj Hn (conj Hq (conj HU (conj HO _)))))).
  split; [vm_compute; reflexivity|]. split; [vm_compute; reflexivity|].
  exact (C15_order_at_write_or_at_read d root (-1)%Z fsU fsO Hw Hwr Hc Hn Hq HU HO).
Qed.

(* ================================================================================================== *)
(* added from Properties/C15_add.v (2026-10-01, pj_c16c)  *)
(* ================================================================================================== *)
(* C15 (continued): ordering when the file is written = ordering when the file is read, for DictReader.read with its
   DEFAULT options (include processing ON, comments on, no scope).  C15_order_at_write_or_at_read above is the
   includes=False version; with includes=True the reader runs its include pass (_merge_includes: merge of the -- here
   empty -- included data, then the merge of the dict into itself with the clean-up), which is the identity on the
   states read back from a plain file (AppendSeq.merge_includes_st), and does not drop any key afterwards. *)
From Coq Require Import String.
From Coq Require Import NArith ZArith List Bool Permutation.
From DictIO Require Import Chars Str Value Scalar KeyPath SDict Layout Lexer TokParser Reader Expr Eval Cli Parse.
From DictIO Require Import TreeSpec NativeSpec E2ESpec E2EFullProofs OrderProofs OrderFile OrderInclude.
Import ListNotations.

Theorem C15_order_at_write_or_at_read_includes : forall kvs root count fsU fsO,
  wf (Dict kvs) = true -> writable_tree (Dict kvs) = true ->
  (-1 <= count)%Z -> (Z.of_nat (nq (Dict kvs)) <= 1000000)%Z -> quoted_within 11 (Dict kvs) = true ->
  fs_lookup (norm_path root) fsU = Some (FNative (to_string_plain kvs)) ->
  fs_lookup (norm_path root) fsO = Some (FNative (to_string_plain (kvs_of (order_tree (Dict kvs))))) ->
  exists s c',
    read_opts fsU root true false true [] count = Some (Ok (s, c')) /\
    read_opts fsU root true true true [] count = Some (Ok (sd_order s, c')) /\
    read_opts fsO root true false true [] count = Some (Ok (sd_order s, c')) /\
    read_opts fsO root true true true [] count = Some (Ok (sd_order s, c')) /\
    sd_data s = kvs_of (map_leaves written_value (Dict kvs)).
Proof. exact order_at_write_or_at_read_includes. Qed.
Print Assumptions C15_order_at_write_or_at_read_includes.

(* non-vacuity: the dict of C15_order_at_write_or_at_read_nonvacuous; each file tree holds a second file as well (it is
   not included by anything: the include pass has nothing to do, whatever else the file tree holds) *)
Example C15_order_at_write_or_at_read_includes_nonvacuous :
  let d := [(KS (of_string "zeta"), Leaf (SStr (of_string "two  words")));
            (KI 7, Dict [(KS (of_string "y"), Leaf (SInt 2)); (KI 3, Leaf (SStr (of_string "a b; c")));
                         (KS (of_string "x"), Leaf (SBool true)); (KI (-1), Leaf SNone)]);
            (KS (of_string "alpha"), Lst [Dict [(KS (of_string "q"), Leaf (SInt 1)); (KS (of_string "p"), Leaf (SStr (of_string "it's")))];
                                          Leaf (SInt 7)]);
            (KI (-2), Leaf (SFloat (of_string "1.5")))] in
  let od := [(KI (-2), Leaf (SFloat (of_string "1.5")));
             (KI 7, Dict [(KI (-1), Leaf SNone); (KI 3, Leaf (SStr (of_string "a b; c")));
                          (KS (of_string "x"), Leaf (SBool true)); (KS (of_string "y"), Leaf (SInt 2))]);
             (KS (of_string "alpha"), Lst [Dict [(KS (of_string "q"), Leaf (SInt 1)); (KS (of_string "p"), Leaf (SStr (of_string "it's")))];
                                           Leaf (SInt 7)]);
             (KS (of_string "zeta"), Leaf (SStr (of_string "two  words")))] in
  let root := of_string "/d/x.dict" in
  let other : str * funit := (of_string "/d/other.dict", FNative (of_string "mm 1;")) in
  let fsU : fsys := [other; (root, FNative (to_string_plain d))] in
  let fsO : fsys := [(root, FNative (to_string_plain (kvs_of (order_tree (Dict d))))); other] in
  wf (Dict d) = true /\ writable_tree (Dict d) = true /\ (Z.of_nat (nq (Dict d)) <= 1000000)%Z /\ quoted_within 11 (Dict d) = true /\
  fs_lookup (norm_path root) fsU = Some (FNative (to_string_plain d)) /\
  fs_lookup (norm_path root) fsO = Some (FNative (to_string_plain (kvs_of (order_tree (Dict d))))) /\
  od <> d /\
  read_opts fsU root true false true [] (-1) = Some (Ok (mkSD d [] [] [] [], 2%Z)) /\
  read_opts fsO root true false true [] (-1) = Some (Ok (mkSD od [] [] [] [], 2%Z)) /\
  (exists s c',
    read_opts fsU root true false true [] (-1) = Some (Ok (s, c')) /\
    read_opts fsU root true true true [] (-1) = Some (Ok (sd_order s, c')) /\
    read_opts fsO root true false true [] (-1) = Some (Ok (sd_order s, c')) /\
    read_opts fsO root true true true [] (-1) = Some (Ok (sd_order s, c')) /\
    sd_data s = kvs_of (map_leaves written_value (Dict d))).
Proof.
  intros d od root other fsU fsO.
  assert (Hw : wf (Dict d) = true) by (vm_compute; reflexivity).
  assert (Hwr : writable_tree (Dict d) = true) by (vm_compute; reflexivity).
  assert (Hn : (Z.of_nat (nq (Dict d)) <= 1000000)%Z) by (vm_compute; discriminate).
  assert (Hq : quoted_within 11 (Dict d) = true) by (vm_compute; reflexivity).
  assert (Hc : (-1 <= -1)%Z) by discriminate.
  assert (HU : fs_lookup (norm_path root) fsU = Some (FNative (to_string_plain d))) by (vm_compute; reflexivity).
  assert (HO : fs_lookup (norm_path root) fsO = Some (FNative (to_string_plain (kvs_of (order_tree (Dict d))))))
    by (vm_compute; reflexivity).
  refine (conj Hw (conj Hwr (conj Hn (conj Hq (conj HU (conj HO _)))))).
  split; [vm_compute; discriminate|].
  split; [vm_compute; reflexivity|]. split; [vm_compute; reflexivity|].
  exact (C15_order_at_write_or_at_read_includes d root (-1)%Z fsU fsO Hw Hwr Hc Hn Hq HU HO).
Qed.

(* ================================================================================================== *)
(* non-vacuity examples added after the reviewer's audit (Properties/C15_nv.v, 2026-10-01)         *)
(* ================================================================================================== *)

(* ==== non-vacuity instances obtained BY APPLYING the theorems above (added after review) ================== *)

(* the example tree: int and str keys at three dict levels, all of them unsorted; a list of dicts with unsorted keys at
   level 1 and at level 3; strings that need quotes and strings the typing pass re-types ("12", " on ") *)
Definition C15nv_d : list (key * tree) :=
  [(KS (of_string "zeta"), Leaf (SStr (of_string "two  words")));
   (KI 7, Dict [(KS (of_string "y"), Leaf (SInt 2)); (KI 3, Leaf (SStr (of_string "a b; c")));
                (KS (of_string "w"), Dict [(KS (of_string "b"), Leaf (SStr (of_string "12")));
                                           (KI 0, Lst [Dict [(KS (of_string "q"), Leaf (SInt 1)); (KS (of_string "p"), Leaf (SStr (of_string " on ")))]]);
                                           (KS (of_string "a"), Leaf SNone)]);
                (KI (-1), Leaf SNone)]);
   (KS (of_string "alpha"), Lst [Dict [(KS (of_string "q"), Leaf (SInt 1)); (KS (of_string "p"), Leaf (SStr (of_string "it's")))]; Leaf (SInt 7)]);
   (KI (-2), Leaf (SFloat (of_string "1.5")))].
Definition C15nv_od : list (key * tree) :=
  [(KI (-2), Leaf (SFloat (of_string "1.5")));
   (KI 7, Dict [(KI (-1), Leaf SNone); (KI 3, Leaf (SStr (of_string "a b; c")));
                (KS (of_string "w"), Dict [(KI 0, Lst [Dict [(KS (of_string "q"), Leaf (SInt 1)); (KS (of_string "p"), Leaf (SStr (of_string " on ")))]]);
                                           (KS (of_string "a"), Leaf SNone); (KS (of_string "b"), Leaf (SStr (of_string "12")))]);
                (KS (of_string "y"), Leaf (SInt 2))]);
   (KS (of_string "alpha"), Lst [Dict [(KS (of_string "q"), Leaf (SInt 1)); (KS (of_string "p"), Leaf (SStr (of_string "it's")))]; Leaf (SInt 7)]);
   (KS (of_string "zeta"), Leaf (SStr (of_string "two  words")))].

Example C15_sorted_nonvacuous :
  sorted_deep (order_tree (Dict C15nv_d)) = true /\ sorted_deep (Dict C15nv_d) = false /\ order_tree (Dict C15nv_d) = Dict C15nv_od.
Proof. split; [exact (C15_sorted (Dict C15nv_d))|]. split; vm_compute; reflexivity. Qed.

Example C15_perm_nonvacuous :
  Permutation (map fst (kvs_of (order_tree (Dict C15nv_d)))) (map fst C15nv_d) /\
  map fst (kvs_of (order_tree (Dict C15nv_d))) = [KI (-2); KI 7; KS (of_string "alpha"); KS (of_string "zeta")] /\
  map fst C15nv_d = [KS (of_string "zeta"); KI 7; KS (of_string "alpha"); KI (-2)].
Proof. split; [exact (C15_perm C15nv_d)|]. split; vm_compute; reflexivity. Qed.

(* C15_assoc at paths of length 1, 2 and 3: to a dict (comes back ordered), to a list with a dict inside (the very same
   value), to a leaf, and a path that leads nowhere *)
Example C15_assoc_nonvacuous :
  let t := Dict C15nv_d in
  let p1 := [KI 7; KS (of_string "w")] in let p2 := [KI 7; KS (of_string "w"); KI 0] in
  let p3 := [KI 7; KI 3] in let p4 := [KI 7; KS (of_string "nope")] in
  (get_dpath (order_tree t) p1 = option_map order_child (get_dpath t p1) /\
   get_dpath (order_tree t) p2 = option_map order_child (get_dpath t p2) /\
   get_dpath (order_tree t) p3 = option_map order_child (get_dpath t p3) /\
   get_dpath (order_tree t) p4 = option_map order_child (get_dpath t p4)) /\
  get_dpath (order_tree t) p1 =
    Some (Dict [(KI 0, Lst [Dict [(KS (of_string "q"), Leaf (SInt 1)); (KS (of_string "p"), Leaf (SStr (of_string " on ")))]]);
                (KS (of_string "a"), Leaf SNone); (KS (of_string "b"), Leaf (SStr (of_string "12")))]) /\
  get_dpath (order_tree t) p1 <> get_dpath t p1 /\
  get_dpath (order_tree t) p2 = get_dpath t p2 /\ get_dpath t p2 <> None /\
  get_dpath (order_tree t) p3 = Some (Leaf (SStr (of_string "a b; c"))) /\ get_dpath (order_tree t) p4 = None.
Proof.
  intros t p1 p2 p3 p4.
  split; [exact (conj (C15_assoc t p1) (conj (C15_assoc t p2) (conj (C15_assoc t p3) (C15_assoc t p4))))|].
  split; [vm_compute; reflexivity|]. split; [vm_compute; discriminate|]. split; [vm_compute; reflexivity|].
  split; [vm_compute; discriminate|]. split; vm_compute; reflexivity.
Qed.

Example C15_lists_nonvacuous :
  let l := [Dict [(KS (of_string "q"), Leaf (SInt 1)); (KI 5, Leaf (SStr (of_string "it's")))]; Leaf (SInt 7); Lst [Dict [(KS (of_string "b"), Leaf SNone); (KS (of_string "a"), Leaf SNone)]]] in
  order_child (Lst l) = Lst l /\ order_child (Leaf (SStr (of_string "b a"))) = Leaf (SStr (of_string "b a")) /\
  order_child (Dict [(KS (of_string "b"), Leaf SNone); (KS (of_string "a"), Leaf SNone)]) <> Dict [(KS (of_string "b"), Leaf SNone); (KS (of_string "a"), Leaf SNone)].
Proof. intros l. refine (conj (proj1 C15_lists l) (conj (proj2 C15_lists _) _)). vm_compute. discriminate. Qed.

Example C15_idem_nonvacuous :
  order_tree (order_tree (Dict C15nv_d)) = order_tree (Dict C15nv_d) /\ order_tree (Dict C15nv_d) <> Dict C15nv_d.
Proof. split; [exact (C15_idem (Dict C15nv_d)) | vm_compute; discriminate]. Qed.

(* C15_sd_order: all four side tables non-empty and unsorted (the line comment table as a reader builds it across the
   counter wrap-around: 999999 before 0) *)
Definition C15nv_sd : sdict :=
  mkSD C15nv_d [(999999%N, of_string "// last id"); (0%N, of_string "// first id")]
       [(2%N, of_string "/* two */"); (1%N, of_string "/* one */")]
       [(5%N, (of_string "#include 'b'", of_string "b", of_string "/d/b")); (4%N, (of_string "#include 'a'", of_string "a", of_string "/d/a"))]
       [(7%N, (of_string "$a", of_string "EXPRESSION000007")); (6%N, (of_string "$b", of_string "EXPRESSION000006"))].
Example C15_sd_order_applied :
  (Dict (sd_data (sd_order C15nv_sd)) = order_tree (Dict (sd_data C15nv_sd)) /\
   sd_lc (sd_order C15nv_sd) = tsort (sd_lc C15nv_sd) /\ sd_bc (sd_order C15nv_sd) = tsort (sd_bc C15nv_sd) /\
   sd_inc (sd_order C15nv_sd) = tsort (sd_inc C15nv_sd) /\ sd_expr (sd_order C15nv_sd) = tsort (sd_expr C15nv_sd)) /\
  sd_data (sd_order C15nv_sd) = C15nv_od /\
  sd_lc (sd_order C15nv_sd) = [(0%N, of_string "// first id"); (999999%N, of_string "// last id")] /\
  map fst (sd_bc (sd_order C15nv_sd)) = [1; 2]%N /\ map fst (sd_inc (sd_order C15nv_sd)) = [4; 5]%N /\
  map fst (sd_expr (sd_order C15nv_sd)) = [6; 7]%N.
Proof. split; [exact (C15_sd_order C15nv_sd)|]. repeat split; vm_compute; reflexivity. Qed.

(* C15_sd_order_tables: a table numbered across the wrap-around (not ascending: it is re-sorted), and one below it
   (ascending: the premise of the last part holds and the table is left as it is) *)
Example C15_sd_order_tables_nonvacuous :
  let l := [(999998%N, of_string "a"); (999999%N, of_string "b"); (0%N, of_string "c"); (1%N, of_string "d")] in
  let l2 := [(41%N, of_string "a"); (42%N, of_string "b"); (42%N, of_string "b'"); (999999%N, of_string "c")] in
  (Permutation (tsort l) l /\ ids_sorted (map fst (tsort l)) = true /\ (forall i, tlookup i (tsort l) = tlookup i l)) /\
  tsort l = [(0%N, of_string "c"); (1%N, of_string "d"); (999998%N, of_string "a"); (999999%N, of_string "b")] /\
  ids_sorted (map fst l) = false /\
  ids_sorted (map fst l2) = true /\ tsort l2 = l2.
Proof.
  intros l l2. destruct (C15_sd_order_tables str l) as (A & B & C & _). destruct (C15_sd_order_tables str l2) as (_ & _ & _ & D).
  assert (H2 : ids_sorted (map fst l2) = true) by (vm_compute; reflexivity).
  refine (conj (conj A (conj B C)) (conj _ (conj _ (conj H2 (D H2))))); vm_compute; reflexivity.
Qed.

(* C15_include_keys_commute: include placeholder keys at both ends and in the middle of an unsorted top level *)
Example C15_include_keys_commute_nonvacuous :
  let ph i := (KS (placeholder w_INCLUDE i), Leaf (SStr (placeholder w_INCLUDE i))) in
  let d := ph 2%N :: (KS (of_string "zeta"), Leaf (SInt 1)) :: (KI 7, Dict [(KS (of_string "y"), Leaf (SInt 2)); (KI 3, Leaf SNone)]) ::
           ph 999999%N :: (KS (of_string "alpha"), Lst [Leaf (SInt 7)]) :: ph 0%N :: nil in
  remove_include_keys (kvs_of (order_tree (Dict d))) = kvs_of (order_tree (Dict (remove_include_keys d))) /\
  map fst (kvs_of (order_tree (Dict d))) =
    [KI 7; KS (of_string "INCLUDE000000"); KS (of_string "INCLUDE000002"); KS (of_string "INCLUDE999999"); KS (of_string "alpha"); KS (of_string "zeta")] /\
  remove_include_keys (kvs_of (order_tree (Dict d))) =
    [(KI 7, Dict [(KI 3, Leaf SNone); (KS (of_string "y"), Leaf (SInt 2))]); (KS (of_string "alpha"), Lst [Leaf (SInt 7)]); (KS (of_string "zeta"), Leaf (SInt 1))].
Proof. intros ph d. split; [exact (C15_include_keys_commute d)|]. split; vm_compute; reflexivity. Qed.

(* C15_parse_values_order on the example tree: "12" becomes the int 12 and " on " the bool true (two and three levels
   down, the latter inside a list), before or after ordering *)
Example C15_parse_values_order_nonvacuous :
  let t := Dict C15nv_d in
  exists t', parse_values_tree t = Ok t' /\ parse_values_tree (order_tree t) = Ok (order_tree t') /\ t' <> t /\
    get_dpath t' [KI 7; KS (of_string "w"); KS (of_string "b")] = Some (Leaf (SInt 12)) /\
    get_dpath (order_tree t') [KI 7; KS (of_string "w"); KI 0] =
      Some (Lst [Dict [(KS (of_string "q"), Leaf (SInt 1)); (KS (of_string "p"), Leaf (SBool true))]]).
Proof.
  intros t. destruct (C15_parse_values_order t) as [[t' E] H]. exists t'. split; [exact E|]. split; [exact (H t' E)|].
  vm_compute in E. injection E as <-. split; [vm_compute; discriminate|]. split; vm_compute; reflexivity.
Qed.

(* C15_write_option_append: the target exists (a comment, an int key with a sub-dict that overlaps the source's, unsorted);
   the source has comments at two levels, strings that are re-typed, a list of dicts; the counter one step before its
   last value (the target's comment gets the id 999999, the counter ends at 0) *)
Definition C15nv_fs : fsys := [(of_string "/d/out.dict", FNative (of_string "zz 1; // kept
4 { m 'x'; -1 old; }
"))].
Definition C15nv_src : sdict :=
  mkSD [(KS (of_string "b"), Leaf (SStr (of_string "12")));
        (KS (of_string "LINECOMMENT000003"), Leaf (SStr (of_string "LINECOMMENT000003")));
        (KI 4, Dict [(KS (of_string "z"), Leaf (SStr (of_string "on")));
                     (KS (of_string "LINECOMMENT000001"), Leaf (SStr (of_string "LINECOMMENT000001")));
                     (KI (-1), Leaf (SStr (of_string "x  y")))]);
        (KS (of_string "a"), Lst [Dict [(KS (of_string "q"), Leaf (SInt 1)); (KS (of_string "p"), Leaf (SInt 2))]])]
       [(3%N, of_string "// three"); (1%N, of_string "// one")] [] [] [].
Example C15_write_option_append_nonvacuous :
  let target := of_string "/d/out.dict" in let s := C15nv_src in
  exists u t,
    fs_lookup (norm_path target) C15nv_fs = Some u /\ parse_values_tree (Dict (sd_data s)) = Ok t /\
    (let src := mkSD (kvs_of_tree t) (sd_lc s) (sd_bc s) (sd_inc s) (sd_expr s) in
     write_sd C15nv_fs false target true true s 999998 =
     match read_opts C15nv_fs target true false true [] 999998 with
     | None => None
     | Some (Raise e) => Some (Raise e)
     | Some (Ok (existing, c)) =>
         let m := sd_order (sd_merge (sd_order existing) (sd_data src) (Some src)) in
         Some (Ok (if false then foam_to_string_sd m else to_string_sd m, c))
     end) /\
    write_sd C15nv_fs false target true true s 999998 = Some (Ok (native_header ++ of_string
"4
{
    -1                        old;
    // one
    m                         x;
    z                         true;
}
// three
// kept
a
(

    {
        q                     1;
        p                     2;
    }
);
b                             12;
zz                            1;
", 0%Z)) /\
    write_sd C15nv_fs false target true true s 999998 <> write_sd C15nv_fs false target true false s 999998.
Proof.
  intros target s.
  destruct (fs_lookup (norm_path target) C15nv_fs) as [u|] eqn:E1; [|vm_compute in E1; discriminate E1].
  destruct (parse_values_tree (Dict (sd_data s))) as [t|e] eqn:E2; [|vm_compute in E2; discriminate E2].
  exists u, t. split; [reflexivity|]. split; [reflexivity|].
  split; [exact (C15_write_option_append C15nv_fs false target s 999998%Z u t E1 E2)|].
  split; [vm_compute; reflexivity | vm_compute; discriminate].
Qed.

(* C15_parse_option: DictParser.parse with order=True of a file with line and block comments, an include, an expression,
   int and str keys at two levels and a list of dicts (the file tree of C15_read_option_nonvacuous), native and Foam
   output, with and without include processing *)
Definition C15nv_pfs : fsys :=
  [(of_string "/d/main.dict", FNative (of_string "// first
#include 'inc.dict'
zeta 1; // c2
alpha { y 2; 3 4; x 'a  b'; }
/* blk */
5 ( {q 1; p 2;} 7 ); beta $zeta;
"));
   (of_string "/d/inc.dict", FNative (of_string "mm 1; aa 2;
"))].
Definition C15nv_parse_rhs (fs : fsys) (src : str) (includes comments : bool) (scope : list scalar) (output : option str) (count : Z) :=
  match output_kind output with
  | None => None
  | Some foam0 =>
      match read_opts fs src includes false comments scope count with
      | None => None
      | Some (Raise e) => Some (Raise e)
      | Some (Ok (s, c)) =>
          let name := target_file_name (base_name src) (Some (of_string "parsed")) scope output in
          let target := dir_of src ++ [c_slash] ++ name in
          let foam := foam0 || ends_with (of_string ".foam") name in
          if ends_with (of_string ".json") name || ends_with (of_string ".xml") name then None else
          match write_sd fs foam target false false (sd_order s) c with
          | None => None
          | Some (Raise e) => Some (Raise e)
          | Some (Ok (txt, c')) => Some (Ok (dir_of src ++ [c_slash] ++ name, txt, c'))
          end
      end
  end.
Example C15_parse_option_nonvacuous :
  let src := of_string "/d/main.dict" in
  parse_model C15nv_pfs src true false true true [] None 999997 = C15nv_parse_rhs C15nv_pfs src true true [] None 999997 /\
  parse_model C15nv_pfs src false false true true [] (Some (of_string "foam")) (-1) =
    C15nv_parse_rhs C15nv_pfs src false true [] (Some (of_string "foam")) (-1) /\
  match parse_model C15nv_pfs src true false true true [] None 999997 with
  | Some (Ok (target, txt, c)) => target = of_string "/d/parsed.main.dict" /\ c = 2%Z /\ txt = native_header ++ of_string
"/* blk */
#include inc.dict
5
(

    {
        q                     1;
        p                     2;
    }
    7
);
// first
// c2
aa                            2;
alpha
{
    3                         4;
    x                         'a  b';
    y                         2;
}
beta                          1;
mm                            1;
zeta                          1;
"
  | _ => False
  end.
Proof.
  intros src. split; [exact (C15_parse_option C15nv_pfs src true true [] None 999997%Z)|].
  split; [exact (C15_parse_option C15nv_pfs src false true [] (Some (of_string "foam")) (-1)%Z)|].
  vm_compute. repeat split; reflexivity.
Qed.

(* C15_writer_domain_closed on the example tree (four quoted leaves, the deepest three keys down, one of them inside a list) *)
Example C15_writer_domain_closed_nonvacuous :
  let t := Dict C15nv_d in
  (wf (order_tree t) = wf t /\ writable_tree (order_tree t) = writable_tree t /\ simple_tree (order_tree t) = simple_tree t /\
   nq (order_tree t) = nq t /\ (forall b, quoted_within b (order_tree t) = quoted_within b t) /\
   (forall f, map_leaves f (order_tree t) = order_tree (map_leaves f t))) /\
  wf t = true /\ writable_tree t = true /\ simple_tree t = false /\ nq t = 4%nat /\
  quoted_within 11 t = true /\ quoted_within 2 t = false /\
  map_leaves written_value (order_tree t) = order_tree (map_leaves written_value t) /\
  map_leaves written_value t <> t.
Proof.
  intros t. pose proof (C15_writer_domain_closed t) as H. split; [exact H|].
  destruct H as (_ & _ & _ & _ & _ & Hf).
  refine (conj _ (conj _ (conj _ (conj _ (conj _ (conj _ (conj (Hf written_value) _))))))); try (vm_compute; reflexivity).
  vm_compute. discriminate.
Qed.

(* ================================================================================================== *)
(* added from Properties/C15_add.v (2026-10-01)                                              *)
(* ================================================================================================== *)
(* C15 (continued): is the ordering of the existing target BEFORE the merge (C15_write_option_append) redundant when the
   target is the result of a read?  C15_append_preorder_finding showed that it is not for hand-built states with duplicate
   comments and conjectured that it is for read results.  It is NOT, even for two clean read results: the clean-up after
   the merge threads the side tables through the dict levels in data order, and a table row deleted at one level changes
   the decision taken for the same id at a later level.  Needs CleanInvariant in _CoqProject before it. *)
From Coq Require Import String.
From Coq Require Import NArith ZArith List Bool.
From DictIO Require Import Chars Str Value Scalar KeyPath SDict TokParser Reader Parse TreeSpec IncludeNested CleanInvariant.
Import ListNotations.

Module C15_clean_ex.
  Definition eroot := of_string "/d/e.dict".   Definition sroot := of_string "/d/s.dict".
  (* the existing target: the dicts b, a in this (unsorted) order, the same block comment in both *)
  Definition etext := of_string "b { /* o */ /* blk */ y 1; }
a { /* blk */ x 1; }
".
  (* the source: the same block comment, under another id, in a and in b *)
  Definition stext := of_string "a { /* p */ /* q */ /* r */ /* blk */ u 1; }
b { /* blk */ v 1; }
".
  Definition fs : fsys := [(eroot, FNative etext); (sroot, FNative stext)].
  Definition bc3 := KS (of_string "BLOCKCOMMENT000003").
End C15_clean_ex.

(* finding (confirmed on the real library with DictReader.read, order_keys and merge): [existing] and [src] are read results,
   both clean with distinct table ids (clean_state, tabs_ok: by the theorem C14_read_clean, not by computation), and still
   ordering the existing dict before the merge changes the result after the final ordering: the placeholder entry
   BLOCKCOMMENT000003 of the source survives in the dict that the clean-up visits SECOND (b when a comes first, a when b
   comes first) -- as a dangling entry, its table row 3 is deleted in both cases *)
Example C15_append_preorder_clean_finding :
  exists existing src c1 c2,
    read_opts C15_clean_ex.fs C15_clean_ex.eroot true false true [] 0 = Some (Ok (existing, c1)) /\
    read_opts C15_clean_ex.fs C15_clean_ex.sroot true false true [] 0 = Some (Ok (src, c2)) /\
    clean_state existing = true /\ tabs_ok existing = true /\ clean_state src = true /\ tabs_ok src = true /\
    let r1 := sd_order (sd_merge (sd_order existing) (sd_data src) (Some src)) in
    let r2 := sd_order (sd_merge existing (sd_data src) (Some src)) in
    r1 <> r2 /\
    get_dpath (Dict (sd_data r1)) [KS (of_string "a"); C15_clean_ex.bc3] = None /\
    get_dpath (Dict (sd_data r1)) [KS (of_string "b"); C15_clean_ex.bc3] <> None /\
    get_dpath (Dict (sd_data r2)) [KS (of_string "a"); C15_clean_ex.bc3] <> None /\
    get_dpath (Dict (sd_data r2)) [KS (of_string "b"); C15_clean_ex.bc3] = None /\
    tlookup 3%N (sd_bc r1) = None /\ tlookup 3%N (sd_bc r2) = None /\ sd_bc r1 = sd_bc r2.
Proof.
  destruct (read_opts C15_clean_ex.fs C15_clean_ex.eroot true false true [] 0) as [[[e c1]|x]|] eqn:E;
    [|vm_compute in E; discriminate E|vm_compute in E; discriminate E].
  destruct (read_opts C15_clean_ex.fs C15_clean_ex.sroot true false true [] 0) as [[[s c2]|x]|] eqn:S;
    [|vm_compute in S; discriminate S|vm_compute in S; discriminate S].
  assert (F : fs_wf C15_clean_ex.fs = true) by reflexivity.
  assert (Ge : clean_state e = true /\ tabs_ok e = true).
  { apply (read_opts_good_noexpr _ _ _ _ _ _ _ _ _ F E). intros sm km Em. vm_compute in Em. injection Em as <- _. reflexivity. }
  assert (Gs : clean_state s = true /\ tabs_ok s = true).
  { apply (read_opts_good_noexpr _ _ _ _ _ _ _ _ _ F S). intros sm km Em. vm_compute in Em. injection Em as <- _. reflexivity. }
  exists e, s, c1, c2. split; [reflexivity|]. split; [reflexivity|].
  split; [exact (proj1 Ge)|]. split; [exact (proj2 Ge)|]. split; [exact (proj1 Gs)|]. split; [exact (proj2 Gs)|].
  vm_compute in E. injection E as <- _. vm_compute in S. injection S as <- _. cbv zeta.
  split; [intros H; apply (f_equal (fun r => get_dpath (Dict (sd_data r)) [KS (of_string "a"); C15_clean_ex.bc3])) in H;
          vm_compute in H; discriminate H|].
  split; [vm_compute; reflexivity|]. split; [vm_compute; discriminate|]. split; [vm_compute; discriminate|].
  split; [vm_compute; reflexivity|]. split; [vm_compute; reflexivity|]. split; vm_compute; reflexivity.
Qed.
