(* C15  Ordering sorts keys at every dict level and changes nothing else. *)
From Coq Require Import NArith ZArith List Bool Permutation.
From DictIO Require Import Chars Str Value Scalar KeyPath SDict TreeSpec OrderProofs.
Import ListNotations.

(* keys ascending (ints before strings) at every dict level reachable through dicts *)
Theorem C15_sorted : forall t, sorted_deep (order_tree t) = true.
Proof. exact order_sorted_deep. Qed.
Print Assumptions C15_sorted.

(* the keys of a level are permuted, nothing is lost or added *)
Theorem C15_perm : forall kvs, Permutation (map fst (kvs_of (order_tree (Dict kvs)))) (map fst kvs).
Proof. exact order_keys_perm. Qed.
Print Assumptions C15_perm.

(* same key-to-value association at every level: whatever is reached through a path of dict keys is the
   ordered version of what was there before (leaves and lists: the very same value) *)
Theorem C15_assoc : forall t p, get_dpath (order_tree t) p = option_map order_child (get_dpath t p).
Proof. exact order_assoc_deep. Qed.
Print Assumptions C15_assoc.

(* lists, and the dicts inside lists, keep their order; leaves are untouched *)
Theorem C15_lists : (forall ts, order_child (Lst ts) = Lst ts) /\ (forall v, order_child (Leaf v) = Leaf v).
Proof. exact order_lists_untouched. Qed.
Print Assumptions C15_lists.

Theorem C15_idem : forall t, order_tree (order_tree t) = order_tree t.
Proof. exact order_idem. Qed.
Print Assumptions C15_idem.

(* non-vacuity: a mixed-key dict with a nested dict and a list of dicts *)
Example C15_example :
  order_tree (Dict [(KS [98%N], Leaf (SInt 1)); (KI 2, Dict [(KS [122%N], Leaf SNone); (KI (-1), Leaf SNone)]);
                    (KS [97%N], Lst [Dict [(KS [98%N], Leaf SNone); (KS [97%N], Leaf SNone)]])])
  = Dict [(KI 2, Dict [(KI (-1), Leaf SNone); (KS [122%N], Leaf SNone)]);
          (KS [97%N], Lst [Dict [(KS [98%N], Leaf SNone); (KS [97%N], Leaf SNone)]]); (KS [98%N], Leaf (SInt 1))].
Proof. vm_compute. reflexivity. Qed.
