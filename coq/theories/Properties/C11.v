(* C11  XML mapping (element-tree level; text <-> element tree is the XML libraries' business). *)
From Coq Require Import String.   (* string literals of the examples; imported first so the list names win *)
From Coq Require Import NArith ZArith List Bool.
From DictIO Require Import Chars Str Value Scalar SDict KeyPath Reader Expr Xml TreeSpec LayoutSpec SemProofs.
Import ListNotations.

(* the running node number added on reading is removed again on writing *)
Theorem C11_numbering_removed : forall i tag, (i < 1000000)%N ->
  strip_numbering (pad6 i ++ [c_us] ++ tag) = tag.
Proof. exact numbering_removed. Qed.
Print Assumptions C11_numbering_removed.

(* non-vacuity: smallest and largest id; a tag that itself starts with digits and an underscore loses only the
   running number *)
Example C11_numbering_removed_nonvacuous :
  (42 < 1000000)%N /\ pad6 42 ++ [c_us] ++ of_string "12_Model" = of_string "000042_12_Model" /\
  strip_numbering (pad6 42 ++ [c_us] ++ of_string "12_Model") = of_string "12_Model" /\
  strip_numbering (pad6 999999 ++ [c_us] ++ of_string "x") = of_string "x".
Proof.
  assert (H : (42 < 1000000)%N) by reflexivity.
  refine (conj H (conj _ (conj (C11_numbering_removed 42 _ H) (C11_numbering_removed 999999 _ _)))); vm_compute; reflexivity.
Qed.

(* writing a dict: every scalar leaf under an ordinary key becomes the text of a child element named by that key *)
Theorem C11_write_leaf : forall tag kvs k v, wf (Dict kvs) = true ->
  alookup k kvs = Some (Leaf v) -> special_xml_key (key_text_xml k) = false -> v <> SNone ->
  In (Elem (strip_numbering (key_text_xml k)) [] (Some (py_str v)) []) (elem_children (populate tag (Dict kvs))).
Proof. exact populate_leaf. Qed.
Print Assumptions C11_write_leaf.

(* non-vacuity: a dict as the XML reader produces it (numbered keys, _attributes, _content) with leaves of several
   types; the leaf under the numbered key 000002_mass becomes the element mass *)
Example C11_write_leaf_nonvacuous :
  let kvs := [(KS (of_string "_attributes"), Dict [(KS (of_string "id"), Leaf (SInt 7))]);
              (KS (of_string "000001_name"), Leaf (SStr (of_string "two words")));
              (KS (of_string "000002_mass"), Leaf (SFloat (of_string "1.5")));
              (KS (of_string "000003_sub"), Dict [(KS (of_string "_content"), Leaf (SBool true))]);
              (KI 4, Leaf SNone)] in
  let k := KS (of_string "000002_mass") in
  wf (Dict kvs) = true /\ alookup k kvs = Some (Leaf (SFloat (of_string "1.5"))) /\
  special_xml_key (key_text_xml k) = false /\ SFloat (of_string "1.5") <> SNone /\
  In (Elem (of_string "mass") [] (Some (of_string "1.5")) []) (elem_children (populate (of_string "root") (Dict kvs))) /\
  populate (of_string "root") (Dict kvs) =
    Elem (of_string "root") [(of_string "id", of_string "7")] None
      [Elem (of_string "name") [] (Some (of_string "two words")) []; Elem (of_string "mass") [] (Some (of_string "1.5")) [];
       Elem (of_string "sub") [] (Some (of_string "True")) []; Elem (of_string "4") [] (Some []) []].
Proof.
  intros kvs k.
  assert (H1 : wf (Dict kvs) = true) by (vm_compute; reflexivity).
  assert (H2 : alookup k kvs = Some (Leaf (SFloat (of_string "1.5")))) by (vm_compute; reflexivity).
  assert (H3 : special_xml_key (key_text_xml k) = false) by (vm_compute; reflexivity).
  assert (H4 : SFloat (of_string "1.5") <> SNone) by discriminate.
  refine (conj H1 (conj H2 (conj H3 (conj H4 (conj (C11_write_leaf (of_string "root") kvs k _ H1 H2 H3 H4) _))))).
  vm_compute. reflexivity.
Qed.

(* element order is preserved: children appear in the order of the dict's ordinary keys *)
Theorem C11_write_order : forall tag kvs,
  map (fun e => match e with Elem t _ _ _ => t end) (elem_children (populate tag (Dict kvs))) =
  map (fun kv => strip_numbering (key_text_xml (fst kv))) (filter (fun kv => negb (special_xml_key (key_text_xml (fst kv)))) kvs).
Proof. exact populate_order. Qed.
Print Assumptions C11_write_order.

(* ---- the write / read cycle ------------------------------------------------------------------------- *)
From DictIO Require Import MiscSpec XmlProofs.

(* The class of element trees (XmlProofs.xml_ok): every element below the root has
     - a tag without quote characters,
     - attributes with distinct names that do not start with a digit, values that neither begin nor end with a quote
       character, and - if there are attributes at all - at least one non-empty value,
     - text (of elements without children) that, once normalised, neither begins nor end with a quote character,
     - at most 1000000 children (the six-digit counter does not wrap among siblings);
   tag, attributes and text of the root element are not looked at by the reader.
   counter_ok c : -1 <= c <= 999999, the values BorgCounter.theCount can have. *)

(* reading yields the un-numbered entries xml_entries e: one entry per child element, in document order, named by its
   tag, holding the children's entries, then _content (typed, normalised text), then _attributes (typed values) *)
Theorem C11_read_entries : forall e c, xml_ok e = true -> counter_ok c ->
  unnumber (fst (xml_parse true e c)) = xml_entries e.
Proof. exact xml_read_entries. Qed.
Print Assumptions C11_read_entries.

(* element order is kept, and with numbering on no element is lost: the keys, un-numbered, are the children's tags in
   document order (repeated tags included), and the numbered keys are pairwise distinct *)
Theorem C11_read_order : forall e c, xml_ok e = true -> counter_ok c ->
  map unnumber_key (map fst (fst (xml_parse true e c))) = map (fun ch => KS (tag_of ch)) (elem_children e)
  /\ NoDup (map fst (fst (xml_parse true e c))).
Proof. exact xml_read_order. Qed.
Print Assumptions C11_read_order.

(* writing the dict that was read gives the element tree back, up to text normalisation: text normalised and re-spelled
   by the classifier (True / False / None, 5 for +5), attributes with empty value dropped, text next to child elements
   dropped, root attributes and root text dropped *)
Theorem C11_write_inverts_read : forall e c, xml_ok e = true -> counter_ok c ->
  populate (tag_of e) (Dict (fst (xml_parse true e c))) = normalise_root e.
Proof. exact xml_write_inverts_read. Qed.
Print Assumptions C11_write_inverts_read.

(* reading, writing and reading again yields the same entries up to the running node numbers *)
Theorem C11_cycle : forall e c c2, xml_ok e = true -> counter_ok c -> counter_ok c2 ->
  unnumber (fst (xml_parse true (populate (tag_of e) (Dict (fst (xml_parse true e c)))) c2)) =
  unnumber (fst (xml_parse true e c)).
Proof. exact xml_cycle. Qed.
Print Assumptions C11_cycle.

(* a concrete tree in the class: three levels, repeated tags, attributes, typed, multi-line, empty and blank text *)
Definition s_ := of_string.
Definition C11_example : elem :=
  Elem (s_ "root") [(s_ "ra", s_ "'q'")] (Some (s_ " rt "))
    [ Elem (s_ "a") [] (Some (s_ "1.5")) [];
      Elem (s_ "a") [] (Some (s_ " true ")) [];
      Elem (s_ "b") [] (Some (s_ "None")) [];
      Elem (s_ "c") [] (Some ([c_lf; c_sp] ++ s_ "line1  " ++ [c_cr; c_lf; c_tab] ++ s_ "line2 " ++ [c_lf; c_sp])) [];
      Elem (s_ "d") [] (Some []) [];
      Elem (s_ "e") [] None [];
      Elem (s_ "f") [(s_ "x", s_ "1"); (s_ "y", []); (s_ "z", s_ "TRUE")] None [];
      Elem (s_ "g") [(s_ "k", s_ "v")] (Some (s_ "mixed"))
        [ Elem (s_ "h") [] (Some (s_ "+5")) [];
          Elem (s_ "i") [] None
            [ Elem (s_ "j") [] (Some (s_ "007")) []; Elem (s_ "j") [] (Some (s_ "it's")) [] ] ] ].
Definition C11_example_entries : list (key * tree) :=
  [ (KS (s_ "a"), Dict [(k_content, Leaf (SFloat (s_ "1.5")))]);
    (KS (s_ "a"), Dict [(k_content, Leaf (SBool true))]);
    (KS (s_ "b"), Dict [(k_content, Leaf SNone)]);
    (KS (s_ "c"), Dict [(k_content, Leaf (SStr (s_ "line1" ++ [c_lf] ++ s_ "line2")))]);
    (KS (s_ "d"), Dict []);
    (KS (s_ "e"), Dict []);
    (KS (s_ "f"), Dict [(k_attributes, Dict [(KS (s_ "x"), Leaf (SInt 1)); (KS (s_ "z"), Leaf (SBool true))])]);
    (KS (s_ "g"), Dict [ (KS (s_ "h"), Dict [(k_content, Leaf (SInt 5))]);
                         (KS (s_ "i"), Dict [ (KS (s_ "j"), Dict [(k_content, Leaf (SInt 7))]);
                                              (KS (s_ "j"), Dict [(k_content, Leaf (SStr (s_ "it's")))]) ]);
                         (k_attributes, Dict [(KS (s_ "k"), Leaf (SStr (s_ "v")))]) ]) ].
Example C11_cycle_nonvacuous :
  xml_ok C11_example = true
  /\ unnumber (fst (xml_parse true C11_example (-1))) = C11_example_entries
  /\ unnumber (fst (xml_parse true (populate (tag_of C11_example) (Dict (fst (xml_parse true C11_example (-1))))) 999997))
     = C11_example_entries
  /\ keys_nodup (map fst (fst (xml_parse true C11_example (-1)))) = true
  /\ populate (tag_of C11_example) (Dict (fst (xml_parse true C11_example (-1)))) = normalise_root C11_example.
Proof. repeat split; vm_compute; reflexivity. Qed.
