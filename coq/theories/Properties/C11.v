(* placeholder until the proofs are integrated *)
From DictIO Require Import Chars Str Value Scalar.
Theorem C11_placeholder : True. Proof. exact I. Qed.
Print Assumptions C11_placeholder.
