(* C11  XML mapping (element-tree level; text <-> element tree is the XML libraries' business). *)
From Coq Require Import NArith ZArith List Bool.
From DictIO Require Import Chars Str Value Scalar SDict KeyPath Reader Expr Xml TreeSpec LayoutSpec SemProofs.
Import ListNotations.

(* the running node number added on reading is removed again on writing *)
Theorem C11_numbering_removed : forall i tag, (i < 1000000)%N ->
  strip_numbering (pad6 i ++ [c_us] ++ tag) = tag.
Proof. exact numbering_removed. Qed.
Print Assumptions C11_numbering_removed.

(* writing a dict: every scalar leaf under an ordinary key becomes the text of a child element named by that key *)
Theorem C11_write_leaf : forall tag kvs k v, wf (Dict kvs) = true ->
  alookup k kvs = Some (Leaf v) -> special_xml_key (key_text_xml k) = false -> v <> SNone ->
  In (Elem (strip_numbering (key_text_xml k)) [] (Some (py_str v)) []) (elem_children (populate tag (Dict kvs))).
Proof. exact populate_leaf. Qed.
Print Assumptions C11_write_leaf.

(* element order is preserved: children appear in the order of the dict's ordinary keys *)
Theorem C11_write_order : forall tag kvs,
  map (fun e => match e with Elem t _ _ _ => t end) (elem_children (populate tag (Dict kvs))) =
  map (fun kv => strip_numbering (key_text_xml (fst kv))) (filter (fun kv => negb (special_xml_key (key_text_xml (fst kv)))) kvs).
Proof. exact populate_order. Qed.
Print Assumptions C11_write_order.
