(* C11  XML mapping (element-tree level; text <-> element tree is the XML libraries' business). *)
From Coq Require Import String.   (* string literals of the examples; imported first so the list names win *)
From Coq Require Import NArith ZArith List Bool.
From DictIO Require Import Chars Str Value Scalar SDict KeyPath Reader Expr Xml TreeSpec LayoutSpec SemProofs.
Import ListNotations.

(* the running node number added on reading is removed again on writing *)
Theorem C11_numbering_removed : forall i tag, (i < 1000000)%N ->
  strip_numbering (pad6 i ++ [c_us] ++ tag) = tag.
Proof. exact numbering_removed. Qed.
Print Assumptions C11_numbering_removed.

(* non-vacuity: smallest and largest id; a tag that itself starts with digits and an underscore loses only the
   running number *)
Example C11_numbering_removed_nonvacuous :
  (42 < 1000000)%N /\ pad6 42 ++ [c_us] ++ of_string "12_Model" = of_string "000042_12_Model" /\
  strip_numbering (pad6 42 ++ [c_us] ++ of_string "12_Model") = of_string "12_Model" /\
  strip_numbering (pad6 999999 ++ [c_us] ++ of_string "x") = of_string "x".
Proof.
  assert (H : (42 < 1000000)%N) by reflexivity.
  refine (conj H (conj _ (conj (C11_numbering_removed 42 _ H) (C11_numbering_removed 999999 _ _)))); vm_compute; reflexivity.
Qed.

(* writing a dict: every scalar leaf under an ordinary key becomes the text of a child element named by that key *)
Theorem C11_write_leaf : forall tag kvs k v, wf (Dict kvs) = true ->
  alookup k kvs = Some (Leaf v) -> special_xml_key (key_text_xml k) = false -> v <> SNone ->
  In (Elem (strip_numbering (key_text_xml k)) [] (Some (py_str v)) []) (elem_children (populate tag (Dict kvs))).
Proof. exact populate_leaf. Qed.
Print Assumptions C11_write_leaf.

(* non-vacuity: a dict as the XML reader produces it (numbered keys, _attributes, _content) with leaves of several
   types; the leaf under the numbered key 000002_mass becomes the element mass *)
Example C11_write_leaf_nonvacuous :
  let kvs := [(KS (of_string "_attributes"), Dict [(KS (of_string "id"), Leaf (SInt 7))]);
              (KS (of_string "000001_name"), Leaf (SStr (of_string "two words")));
              (KS (of_string "000002_mass"), Leaf (SFloat (of_string "1.5")));
              (KS (of_string "000003_sub"), Dict [(KS (of_string "_content"), Leaf (SBool true))]);
              (KI 4, Leaf SNone)] in
  let k := KS (of_string "000002_mass") in
  wf (Dict kvs) = true /\ alookup k kvs = Some (Leaf (SFloat (of_string "1.5"))) /\
  special_xml_key (key_text_xml k) = false /\ SFloat (of_string "1.5") <> SNone /\
  In (Elem (of_string "mass") [] (Some (of_string "1.5")) []) (elem_children (populate (of_string "root") (Dict kvs))) /\
  populate (of_string "root") (Dict kvs) =
    Elem (of_string "root") [(of_string "id", of_string "7")] None
      [Elem (of_string "name") [] (Some (of_string "two words")) []; Elem (of_string "mass") [] (Some (of_string "1.5")) [];
       Elem (of_string "sub") [] (Some (of_string "True")) []; Elem (of_string "4") [] (Some []) []].
Proof.
  intros kvs k.
  assert (H1 : wf (Dict kvs) = true) by (vm_compute; reflexivity).
  assert (H2 : alookup k kvs = Some (Leaf (SFloat (of_string "1.5")))) by (vm_compute; reflexivity).
  assert (H3 : special_xml_key (key_text_xml k) = false) by (vm_compute; reflexivity).
  assert (H4 : SFloat (of_string "1.5") <> SNone) by discriminate.
  refine (conj H1 (conj H2 (conj H3 (conj H4 (conj (C11_write_leaf (of_string "root") kvs k _ H1 H2 H3 H4) _))))).
  vm_compute. reflexivity.
Qed.

(* element order is preserved: children appear in the order of the dict's ordinary keys *)
Theorem C11_write_order : forall tag kvs,
  map (fun e => match e with Elem t _ _ _ => t end) (elem_children (populate tag (Dict kvs))) =
  map (fun kv => strip_numbering (key_text_xml (fst kv))) (filter (fun kv => negb (special_xml_key (key_text_xml (fst kv)))) kvs).
Proof. exact populate_order. Qed.
Print Assumptions C11_write_order.
