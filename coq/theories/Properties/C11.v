(* C11  XML mapping (element-tree level; text <-> element tree is the XML libraries' business). *)
From Coq Require Import String.   (* string literals of the examples; imported first so the list names win *)
From Coq Require Import NArith ZArith List Bool.
From DictIO Require Import Chars Str Value Scalar SDict KeyPath Reader Expr Xml TreeSpec LayoutSpec SemProofs.
Import ListNotations.

(* the running node number added on reading is removed again on writing *)
Theorem C11_numbering_removed : forall i tag, (i < 1000000)%N ->
  strip_numbering (pad6 i ++ [c_us] ++ tag) = tag.
Proof. exact numbering_removed. Qed.
Print Assumptions C11_numbering_removed.

(* non-vacuity: smallest and largest id; a tag that itself starts with digits and an underscore loses only the
   running number *)
Example C11_numbering_removed_nonvacuous :
  (42 < 1000000)%N /\ pad6 42 ++ [c_us] ++ of_string "12_Model" = of_string "000042_12_Model" /\
  strip_numbering (pad6 42 ++ [c_us] ++ of_string "12_Model") = of_string "12_Model" /\
  strip_numbering (pad6 999999 ++ [c_us] ++ of_string "x") = of_string "x".
Proof.
  assert (H : (42 < 1000000)%N) by reflexivity.
  refine (conj H (conj _ (conj (C11_numbering_removed 42 _ H) (C11_numbering_removed 999999 _ _)))); vm_compute; reflexivity.
Qed.

(* writing a dict: every scalar leaf under an ordinary key becomes the text of a child element named by that key *)
Theorem C11_write_leaf : forall tag kvs k v, wf (Dict kvs) = true ->
  alookup k kvs = Some (Leaf v) -> special_xml_key (key_text_xml k) = false -> v <> SNone ->
  In (Elem (strip_numbering (key_text_xml k)) [] (Some (py_str v)) []) (elem_children (populate tag (Dict kvs))).
Proof. exact populate_leaf. Qed.
Print Assumptions C11_write_leaf.

(* non-vacuity: a dict as the XML reader produces it (numbered keys, _attributes, _content) with leaves of several
   types; the leaf under the numbered key 000002_mass becomes the element mass *)
Example C11_write_leaf_nonvacuous :
  let kvs := [(KS (of_string "_attributes"), Dict [(KS (of_string "id"), Leaf (SInt 7))]);
              (KS (of_string "000001_name"), Leaf (SStr (of_string "two words")));
              (KS (of_string "000002_mass"), Leaf (SFloat (of_string "1.5")));
              (KS (of_string "000003_sub"), Dict [(KS (of_string "_content"), Leaf (SBool true))]);
              (KI 4, Leaf SNone)] in
  let k := KS (of_string "000002_mass") in
  wf (Dict kvs) = true /\ alookup k kvs = Some (Leaf (SFloat (of_string "1.5"))) /\
  special_xml_key (key_text_xml k) = false /\ SFloat (of_string "1.5") <> SNone /\
  In (Elem (of_string "mass") [] (Some (of_string "1.5")) []) (elem_children (populate (of_string "root") (Dict kvs))) /\
  populate (of_string "root") (Dict kvs) =
    Elem (of_string "root") [(of_string "id", of_string "7")] None
      [Elem (of_string "name") [] (Some (of_string "two words")) []; Elem (of_string "mass") [] (Some (of_string "1.5")) [];
       Elem (of_string "sub") [] (Some (of_string "True")) []; Elem (of_string "4") [] (Some []) []].
Proof.
  intros kvs k.
  assert (H1 : wf (Dict kvs) = true) by (vm_compute; reflexivity).
  assert (H2 : alookup k kvs = Some (Leaf (SFloat (of_string "1.5")))) by (vm_compute; reflexivity).
  assert (H3 : special_xml_key (key_text_xml k) = false) by (vm_compute; reflexivity).
  assert (H4 : SFloat (of_string "1.5") <> SNone) by discriminate.
  refine (conj H1 (conj H2 (conj H3 (conj H4 (conj (C11_write_leaf (of_string "root") kvs k _ H1 H2 H3 H4) _))))).
  vm_compute. reflexivity.
Qed.

(* element order is preserved: children appear in the order of the dict's ordinary keys *)
Theorem C11_write_order : forall tag kvs,
  map (fun e => match e with Elem t _ _ _ => t end) (elem_children (populate tag (Dict kvs))) =
  map (fun kv => strip_numbering (key_text_xml (fst kv))) (filter (fun kv => negb (special_xml_key (key_text_xml (fst kv)))) kvs).
Proof. exact populate_order. Qed.
Print Assumptions C11_write_order.

(* ---- the write / read cycle ------------------------------------------------------------------------- *)
From DictIO Require Import MiscSpec XmlProofs.

(* The class of element trees (XmlProofs.xml_ok): every element below the root has
     - a tag without quote characters,
     - attributes with distinct names that do not start with a digit, values that neither begin nor end with a quote
       character, and - if there are attributes at all - at least one non-empty value,
     - text (of elements without children) that, once normalised, neither begins nor end with a quote character,
     - at most 1000000 children (the six-digit counter does not wrap among siblings);
   tag, attributes and text of the root element are not looked at by the reader.
   counter_ok c : -1 <= c <= 999999, the values BorgCounter.theCount can have. *)

(* reading yields the un-numbered entries xml_entries e: one entry per child element, in document order, named by its
   tag, holding the children's entries, then _content (typed, normalised text), then _attributes (typed values) *)
Theorem C11_read_entries : forall e c, xml_ok e = true -> counter_ok c ->
  unnumber (fst (xml_parse true e c)) = xml_entries e.
Proof. exact xml_read_entries. Qed.
Print Assumptions C11_read_entries.

(* element order is kept, and with numbering on no element is lost: the keys, un-numbered, are the children's tags in
   document order (repeated tags included), and the numbered keys are pairwise distinct *)
Theorem C11_read_order : forall e c, xml_ok e = true -> counter_ok c ->
  map unnumber_key (map fst (fst (xml_parse true e c))) = map (fun ch => KS (tag_of ch)) (elem_children e)
  /\ NoDup (map fst (fst (xml_parse true e c))).
Proof. exact xml_read_order. Qed.
Print Assumptions C11_read_order.

(* writing the dict that was read gives the element tree back, up to text normalisation: text normalised and re-spelled
   by the classifier (True / False / None, 5 for +5), attributes with empty value dropped, text next to child elements
   dropped, root attributes and root text dropped *)
Theorem C11_write_inverts_read : forall e c, xml_ok e = true -> counter_ok c ->
  populate (tag_of e) (Dict (fst (xml_parse true e c))) = normalise_root e.
Proof. exact xml_write_inverts_read. Qed.
Print Assumptions C11_write_inverts_read.

(* reading, writing and reading again yields the same entries up to the running node numbers *)
Theorem C11_cycle : forall e c c2, xml_ok e = true -> counter_ok c -> counter_ok c2 ->
  unnumber (fst (xml_parse true (populate (tag_of e) (Dict (fst (xml_parse true e c)))) c2)) =
  unnumber (fst (xml_parse true e c)).
Proof. exact xml_cycle. Qed.
Print Assumptions C11_cycle.

(* a concrete tree in the class: three levels, repeated tags, attributes, typed, multi-line, empty and blank text *)
Definition s_ := of_string.
Definition C11_example : elem :=
  Elem (s_ "root") [(s_ "ra", s_ "'q'")] (Some (s_ " rt "))
    [ Elem (s_ "a") [] (Some (s_ "1.5")) [];
      Elem (s_ "a") [] (Some (s_ " true ")) [];
      Elem (s_ "b") [] (Some (s_ "None")) [];
      Elem (s_ "c") [] (Some ([c_lf; c_sp] ++ s_ "line1  " ++ [c_cr; c_lf; c_tab] ++ s_ "line2 " ++ [c_lf; c_sp])) [];
      Elem (s_ "d") [] (Some []) [];
      Elem (s_ "e") [] None [];
      Elem (s_ "f") [(s_ "x", s_ "1"); (s_ "y", []); (s_ "z", s_ "TRUE")] None [];
      Elem (s_ "g") [(s_ "k", s_ "v")] (Some (s_ "mixed"))
        [ Elem (s_ "h") [] (Some (s_ "+5")) [];
          Elem (s_ "i") [] None
            [ Elem (s_ "j") [] (Some (s_ "007")) []; Elem (s_ "j") [] (Some (s_ "it's")) [] ] ] ].
Definition C11_example_entries : list (key * tree) :=
  [ (KS (s_ "a"), Dict [(k_content, Leaf (SFloat (s_ "1.5")))]);
    (KS (s_ "a"), Dict [(k_content, Leaf (SBool true))]);
    (KS (s_ "b"), Dict [(k_content, Leaf SNone)]);
    (KS (s_ "c"), Dict [(k_content, Leaf (SStr (s_ "line1" ++ [c_lf] ++ s_ "line2")))]);
    (KS (s_ "d"), Dict []);
    (KS (s_ "e"), Dict []);
    (KS (s_ "f"), Dict [(k_attributes, Dict [(KS (s_ "x"), Leaf (SInt 1)); (KS (s_ "z"), Leaf (SBool true))])]);
    (KS (s_ "g"), Dict [ (KS (s_ "h"), Dict [(k_content, Leaf (SInt 5))]);
                         (KS (s_ "i"), Dict [ (KS (s_ "j"), Dict [(k_content, Leaf (SInt 7))]);
                                              (KS (s_ "j"), Dict [(k_content, Leaf (SStr (s_ "it's")))]) ]);
                         (k_attributes, Dict [(KS (s_ "k"), Leaf (SStr (s_ "v")))]) ]) ].
Example C11_cycle_nonvacuous :
  xml_ok C11_example = true
  /\ unnumber (fst (xml_parse true C11_example (-1))) = C11_example_entries
  /\ unnumber (fst (xml_parse true (populate (tag_of C11_example) (Dict (fst (xml_parse true C11_example (-1))))) 999997))
     = C11_example_entries
  /\ keys_nodup (map fst (fst (xml_parse true C11_example (-1)))) = true
  /\ populate (tag_of C11_example) (Dict (fst (xml_parse true C11_example (-1)))) = normalise_root C11_example.
Proof. repeat split; vm_compute; reflexivity. Qed.

(* ================================================================================================== *)
(* added from Properties/C11_add.v (2026-10-01)                                              *)
(* ================================================================================================== *)
(* C11 additions: nested key paths on writing, reading without node numbering, the shape of every entry *)
From Coq Require Import String.   (* string literals of the examples; imported first so the list names win *)
From Coq Require Import NArith ZArith List Bool.
From DictIO Require Import Chars Str Value Scalar SDict KeyPath Reader Expr Xml TreeSpec LayoutSpec MiscSpec SemProofs
     XmlProofs XmlMoreProofs.
Import ListNotations.

(* ---- writing: every scalar leaf is the text of the element addressed by its key path ------------------ *)
(* vocabulary (XmlMoreProofs):
     ordinary_key k      the key makes a child element (it is not _content.., _attrib.., _..Opts, INCLUDE.., a comment key)
     xml_tag_of_key k    the key as text without a running node number
     xml_pos k kvs       number of ordinary entries in front of the entry k: the position of its child element
     xml_pos_path t p    these positions along the key path p
     elem_at e ps        the element reached from e through the child positions ps; tags_at e ps: the tags passed
     leaf_text v         str(v), and the empty text for None *)
Theorem C11_write_leaf_path : forall p k tag kvs v,
  get_dpath (Dict kvs) (k :: p) = Some (Leaf v) -> forallb ordinary_key (k :: p) = true ->
  elem_at (populate tag (Dict kvs)) (xml_pos_path (Dict kvs) (k :: p)) =
    Some (Elem (xml_tag_of_key (last (k :: p) k)) [] (Some (leaf_text v)) [])
  /\ tags_at (populate tag (Dict kvs)) (xml_pos_path (Dict kvs) (k :: p)) = map xml_tag_of_key (k :: p).
Proof. exact populate_leaf_path. Qed.
Print Assumptions C11_write_leaf_path.

(* the same for whole subtrees: the subtree at a key path is written as the element at the corresponding positions *)
Theorem C11_write_subtree_path : forall p k tag kvs c,
  get_dpath (Dict kvs) (k :: p) = Some c -> forallb ordinary_key (k :: p) = true ->
  elem_at (populate tag (Dict kvs)) (xml_pos_path (Dict kvs) (k :: p)) = Some (pop_child (last (k :: p) k, c))
  /\ tags_at (populate tag (Dict kvs)) (xml_pos_path (Dict kvs) (k :: p)) = map xml_tag_of_key (k :: p).
Proof. exact populate_path. Qed.
Print Assumptions C11_write_subtree_path.

(* and for the text of inner elements: the (last) _content entry of the dict at a key path is the text of the element
   addressed by the path *)
Theorem C11_write_content_path : forall p k tag kvs kvs',
  get_dpath (Dict kvs) (k :: p) = Some (Dict kvs') -> forallb ordinary_key (k :: p) = true ->
  exists e, elem_at (populate tag (Dict kvs)) (xml_pos_path (Dict kvs) (k :: p)) = Some e /\
            tag_of e = xml_tag_of_key (last (k :: p) k) /\
            elem_text e = match rev (filter content_key kvs') with
                          | kt :: _ => Some (content_text (snd kt))
                          | [] => None
                          end.
Proof. exact populate_content_path. Qed.
Print Assumptions C11_write_content_path.

(* non-vacuity: three levels, special keys in front (they make no element, so positions and keys differ), numbered
   and repeated tags, a None leaf, a multi-line _content *)
Definition sx := of_string.
Definition C11_path_dict : list (key * tree) :=
  [ (KS (sx "_xmlOpts"), Dict [(KS (sx "_rootTag"), Leaf (SStr (sx "root")))]);
    (KS (sx "000001_a"), Leaf (SInt 1));
    (KS (sx "_attributes"), Dict [(KS (sx "id"), Leaf (SInt 7))]);
    (KS (sx "000002_a"), Dict
       [ (KS (sx "_content"), Leaf (SStr (sx "l1" ++ [c_lf] ++ sx "l2")));
         (KS (sx "b"), Leaf SNone);
         (KS (sx "INCLUDE"), Leaf (SStr (sx "x")));
         (KS (sx "c"), Dict [ (KS (sx "_attributes"), Dict [(KS (sx "u"), Leaf (SBool true))]);
                              (KS (sx "000007_d"), Leaf (SFloat (sx "2.50")));
                              (KS (sx "e"), Leaf (SBool false)) ]) ]) ].
Example C11_write_leaf_path_nonvacuous :
  let p := [KS (sx "000002_a"); KS (sx "c"); KS (sx "000007_d")] in
  let p2 := [KS (sx "000002_a"); KS (sx "b")] in
  get_dpath (Dict C11_path_dict) p = Some (Leaf (SFloat (sx "2.50"))) /\ forallb ordinary_key p = true /\
  xml_pos_path (Dict C11_path_dict) p = [1; 1; 0]%nat /\
  elem_at (populate (sx "root") (Dict C11_path_dict)) [1; 1; 0]%nat = Some (Elem (sx "d") [] (Some (sx "2.50")) []) /\
  tags_at (populate (sx "root") (Dict C11_path_dict)) [1; 1; 0]%nat = [sx "a"; sx "c"; sx "d"] /\
  get_dpath (Dict C11_path_dict) p2 = Some (Leaf SNone) /\
  elem_at (populate (sx "root") (Dict C11_path_dict)) [1; 0]%nat = Some (Elem (sx "b") [] (Some []) []) /\
  (exists e, elem_at (populate (sx "root") (Dict C11_path_dict)) [1]%nat = Some e /\ tag_of e = sx "a" /\
             elem_text e = Some ([c_lf] ++ sx "l1" ++ [c_lf] ++ sx "l2" ++ [c_lf])) /\
  populate (sx "root") (Dict C11_path_dict) =
    Elem (sx "root") [(sx "id", sx "7")] None
      [ Elem (sx "a") [] (Some (sx "1")) [];
        Elem (sx "a") [] (Some ([c_lf] ++ sx "l1" ++ [c_lf] ++ sx "l2" ++ [c_lf]))
          [ Elem (sx "b") [] (Some []) [];
            Elem (sx "c") [(sx "u", sx "true")] None
              [ Elem (sx "d") [] (Some (sx "2.50")) []; Elem (sx "e") [] (Some (sx "False")) [] ] ] ].
Proof.
  intros p p2.
  assert (H1 : get_dpath (Dict C11_path_dict) p = Some (Leaf (SFloat (sx "2.50")))) by (vm_compute; reflexivity).
  assert (H2 : forallb ordinary_key p = true) by (vm_compute; reflexivity).
  assert (H3 : get_dpath (Dict C11_path_dict) p2 = Some (Leaf SNone)) by (vm_compute; reflexivity).
  assert (H4 : forallb ordinary_key p2 = true) by (vm_compute; reflexivity).
  assert (H5 : get_dpath (Dict C11_path_dict) [KS (sx "000002_a")] =
               Some (Dict [ (KS (sx "_content"), Leaf (SStr (sx "l1" ++ [c_lf] ++ sx "l2")));
                            (KS (sx "b"), Leaf SNone);
                            (KS (sx "INCLUDE"), Leaf (SStr (sx "x")));
                            (KS (sx "c"), Dict [ (KS (sx "_attributes"), Dict [(KS (sx "u"), Leaf (SBool true))]);
                                                 (KS (sx "000007_d"), Leaf (SFloat (sx "2.50")));
                                                 (KS (sx "e"), Leaf (SBool false)) ]) ])) by (vm_compute; reflexivity).
  pose proof (C11_write_leaf_path _ _ (sx "root") _ _ H1 H2) as [A1 A2].
  pose proof (C11_write_leaf_path _ _ (sx "root") _ _ H3 H4) as [B1 _].
  pose proof (C11_write_content_path [] _ (sx "root") _ _ H5 eq_refl) as C1.
  split; [exact H1|]. split; [exact H2|]. split; [vm_compute; reflexivity|].
  split; [exact A1|]. split; [exact A2|]. split; [exact H3|]. split; [exact B1|]. split; [exact C1|].
  vm_compute. reflexivity.
Qed.

(* ---- reading without node numbering (XmlParser(add_node_numbering=False)) ----------------------------- *)
(* The class xml_ok_off (XmlMoreProofs) = xml_ok and, at every level below the root,
     - the tags of sibling elements are pairwise distinct,
     - every tag is off_tag: a plain word for parse_key (not true / false / on / off / none / null in any case, which
       Python turns into the keys True / False / None, and no quote at either end), an ordinary key for the writer
       (not _content.., _attrib.., _..Opts, INCLUDE.., BLOCKCOMMENT<n>, LINECOMMENT<n>), and not of the form
       <1-6 digits>_<rest> (the writer would remove such a prefix as a node number).
   Then the keys are the bare tags, in document order, pairwise distinct, and the result is literally xml_entries e. *)
Theorem C11_numbering_off_distinct_tags : forall e c, xml_ok_off e = true -> counter_ok c ->
  fst (xml_parse false e c) = xml_entries e
  /\ map fst (fst (xml_parse false e c)) = map (fun ch => KS (tag_of ch)) (elem_children e)
  /\ NoDup (map fst (fst (xml_parse false e c))).
Proof. exact xml_off_distinct_tags. Qed.
Print Assumptions C11_numbering_off_distinct_tags.

(* writing what was read gives the element tree back up to text normalisation, as with numbering *)
Theorem C11_numbering_off_write_inverts_read : forall e c, xml_ok_off e = true -> counter_ok c ->
  populate (tag_of e) (Dict (fst (xml_parse false e c))) = normalise_root e.
Proof. exact xml_off_write_inverts_read'. Qed.
Print Assumptions C11_numbering_off_write_inverts_read.

(* the cycle holds literally: no "up to the running node numbers" *)
Theorem C11_numbering_off_cycle : forall e c c2, xml_ok_off e = true -> counter_ok c -> counter_ok c2 ->
  fst (xml_parse false (populate (tag_of e) (Dict (fst (xml_parse false e c)))) c2) = fst (xml_parse false e c).
Proof. exact xml_off_cycle'. Qed.
Print Assumptions C11_numbering_off_cycle.

(* and the entries read with numbering are, without the numbers, those read without numbering *)
Theorem C11_numbering_on_off : forall e c c', xml_ok_off e = true -> counter_ok c -> counter_ok c' ->
  unnumber (fst (xml_parse true e c)) = fst (xml_parse false e c').
Proof. exact xml_on_off'. Qed.
Print Assumptions C11_numbering_on_off.

(* non-vacuity: three levels, attributes (one empty), typed, multi-line and missing text; the tag a occurs twice, but
   not among siblings *)
Definition C11_off_example : elem :=
  Elem (sx "root") [(sx "ra", sx "'q'")] (Some (sx " rt "))
    [ Elem (sx "a") [] (Some (sx "1.5")) [];
      Elem (sx "b") [] (Some (sx " true ")) [];
      Elem (sx "c") [] (Some ([c_lf; c_sp] ++ sx "line1  " ++ [c_cr; c_lf; c_tab] ++ sx "line2 " ++ [c_lf; c_sp])) [];
      Elem (sx "d") [] None [];
      Elem (sx "f") [(sx "x", sx "1"); (sx "y", []); (sx "z", sx "TRUE")] None [];
      Elem (sx "g") [(sx "k", sx "v")] (Some (sx "mixed"))
        [ Elem (sx "a") [] (Some (sx "+5")) [];
          Elem (sx "i") [] None
            [ Elem (sx "j") [] (Some (sx "007")) []; Elem (sx "k") [] (Some (sx "it's")) [] ] ] ].
Definition C11_off_example_entries : list (key * tree) :=
  [ (KS (sx "a"), Dict [(k_content, Leaf (SFloat (sx "1.5")))]);
    (KS (sx "b"), Dict [(k_content, Leaf (SBool true))]);
    (KS (sx "c"), Dict [(k_content, Leaf (SStr (sx "line1" ++ [c_lf] ++ sx "line2")))]);
    (KS (sx "d"), Dict []);
    (KS (sx "f"), Dict [(k_attributes, Dict [(KS (sx "x"), Leaf (SInt 1)); (KS (sx "z"), Leaf (SBool true))])]);
    (KS (sx "g"), Dict [ (KS (sx "a"), Dict [(k_content, Leaf (SInt 5))]);
                         (KS (sx "i"), Dict [ (KS (sx "j"), Dict [(k_content, Leaf (SInt 7))]);
                                              (KS (sx "k"), Dict [(k_content, Leaf (SStr (sx "it's")))]) ]);
                         (k_attributes, Dict [(KS (sx "k"), Leaf (SStr (sx "v")))]) ]) ].
Example C11_numbering_off_nonvacuous :
  xml_ok_off C11_off_example = true
  /\ fst (xml_parse false C11_off_example (-1)) = C11_off_example_entries
  /\ xml_entries C11_off_example = C11_off_example_entries
  /\ fst (xml_parse false (populate (tag_of C11_off_example) (Dict (fst (xml_parse false C11_off_example (-1))))) 999997)
     = fst (xml_parse false C11_off_example (-1))
  /\ unnumber (fst (xml_parse true C11_off_example 999997)) = fst (xml_parse false C11_off_example (-1))
  /\ populate (tag_of C11_off_example) (Dict (fst (xml_parse false C11_off_example (-1)))) = normalise_root C11_off_example.
Proof.
  assert (H : xml_ok_off C11_off_example = true) by (vm_compute; reflexivity).
  assert (Hc : counter_ok (-1)) by (unfold counter_ok; split; discriminate).
  assert (Hc2 : counter_ok 999997) by (unfold counter_ok; split; discriminate).
  destruct (C11_numbering_off_distinct_tags _ _ H Hc) as (E1 & _ & _).
  assert (E2 : xml_entries C11_off_example = C11_off_example_entries) by (vm_compute; reflexivity).
  split; [exact H|]. split; [rewrite E1; exact E2|]. split; [exact E2|].
  split; [exact (C11_numbering_off_cycle _ _ _ H Hc Hc2)|].
  split; [exact (C11_numbering_on_off _ _ _ H Hc2 Hc)|].
  exact (C11_numbering_off_write_inverts_read _ _ H Hc).
Qed.

(* FINDING (repeated sibling tags without numbering): the entries collide.  Of several siblings with the same tag only
   the LAST one survives, at the position of the FIRST; text and attributes of the earlier ones are lost (here: 1.5 and
   id="1" of the first a, and the first d).  The real library does the same (dict assignment parsed_dict[key] = ..). *)
Definition C11_off_repeated : elem :=
  Elem (sx "root") [] None
    [ Elem (sx "a") [(sx "id", sx "1")] (Some (sx "1.5")) [];
      Elem (sx "b") [] (Some (sx "x")) [];
      Elem (sx "a") [] (Some (sx "two")) [];
      Elem (sx "c") [] None [ Elem (sx "d") [] (Some (sx "1")) []; Elem (sx "d") [(sx "k", sx "v")] None [] ] ].
Example C11_numbering_off_repeated_tags_finding :
  xml_ok C11_off_repeated = true /\ sib_ok C11_off_repeated = false
  /\ fst (xml_parse false C11_off_repeated (-1)) =
       [ (KS (sx "a"), Dict [(k_content, Leaf (SStr (sx "two")))]);
         (KS (sx "b"), Dict [(k_content, Leaf (SStr (sx "x")))]);
         (KS (sx "c"), Dict [(KS (sx "d"), Dict [(k_attributes, Dict [(KS (sx "k"), Leaf (SStr (sx "v")))])])]) ]
  /\ length (fst (xml_parse false C11_off_repeated (-1))) = 3%nat /\ length (elem_children C11_off_repeated) = 4%nat
  /\ populate (sx "root") (Dict (fst (xml_parse false C11_off_repeated (-1)))) =
       Elem (sx "root") [] None
         [ Elem (sx "a") [] (Some (sx "two")) []; Elem (sx "b") [] (Some (sx "x")) [];
           Elem (sx "c") [] None [ Elem (sx "d") [(sx "k", sx "v")] None [] ] ]
  /\ map unnumber_key (map fst (fst (xml_parse true C11_off_repeated (-1)))) =
       [KS (sx "a"); KS (sx "b"); KS (sx "a"); KS (sx "c")].
Proof. repeat split; vm_compute; reflexivity. Qed.

(* FINDING (a tag that is a special key for the writer, here _content, without numbering): the element is read under
   the key _content, which the writer takes for the text of the parent: the element is not written back, its dict is
   written as the parent's text.  With numbering the key is 000000__content and the element survives.  The real
   library does the same. *)
Definition C11_off_special : elem :=
  Elem (sx "root") [] None [ Elem (sx "_content") [] (Some (sx "4")) []; Elem (sx "x") [] (Some (sx "5")) [] ].
Example C11_numbering_off_special_tag_finding :
  xml_ok C11_off_special = true /\ sib_ok C11_off_special = false
  /\ fst (xml_parse false C11_off_special (-1)) =
       [ (KS (sx "_content"), Dict [(k_content, Leaf (SInt 4))]); (KS (sx "x"), Dict [(k_content, Leaf (SInt 5))]) ]
  /\ populate (sx "root") (Dict (fst (xml_parse false C11_off_special (-1)))) =
       Elem (sx "root") [] (Some (sx "{'_content': 4}")) [ Elem (sx "x") [] (Some (sx "5")) [] ]
  /\ populate (sx "root") (Dict (fst (xml_parse true C11_off_special (-1)))) =
       Elem (sx "root") [] None [ Elem (sx "_content") [] (Some (sx "4")) []; Elem (sx "x") [] (Some (sx "5")) [] ].
Proof. repeat split; vm_compute; reflexivity. Qed.

(* NOTE (tags that parse_key does not keep as strings, without numbering): for the tags true and on the model keeps the
   string keys "true" and "on" (float / bool / None keys are outside the modelled key domain, Scalar.scalar_to_key);
   the real library turns both into the key True, so that the two elements collide ({True: {'_content': 2}}) and are
   written back as one element <True>.  off_tag excludes these tags; this is where model and code differ. *)
Definition C11_off_words : elem :=
  Elem (sx "root") [] None [ Elem (sx "true") [] (Some (sx "1")) []; Elem (sx "on") [] (Some (sx "2")) [] ].
Example C11_numbering_off_word_tag_note :
  xml_ok C11_off_words = true /\ off_tag (sx "true") = false /\ off_tag (sx "on") = false /\ off_tag (sx "None") = false
  /\ off_tag (sx "_content") = false /\ off_tag (sx "12_a") = false /\ off_tag (sx "a12_b") = true /\ off_tag (sx "_") = true
  /\ fst (xml_parse false C11_off_words (-1)) =
       [ (KS (sx "true"), Dict [(k_content, Leaf (SInt 1))]); (KS (sx "on"), Dict [(k_content, Leaf (SInt 2))]) ].
Proof. repeat split; vm_compute; reflexivity. Qed.

(* ---- reading with numbering: the shape of every entry --------------------------------------------------- *)
(* For every element e of the class and every i: the i-th child element <tag attrs>text kids</tag> makes the i-th
   entry (and there are no other entries).  Its key is the tag with a six-digit running number in front
   (C11_numbering_removed takes it off again); its value is ALWAYS a dict (also for an element with text only, or
   with nothing at all), made of
     - for an element without child elements: _content = the typed, normalised text, if the text is not blank
       (content_part);   for an element with child elements: the entries of these, recursively - this very theorem
       applies to them, the child is in the class again and its entries are its own xml_parse result - and NO _content
       (text next to child elements is dropped),
     - then _attributes = the attributes with non-empty value, typed, if the element has attributes at all
       (attrs_part). *)
Theorem C11_entry_shape : forall e c, xml_ok e = true -> counter_ok c ->
  length (fst (xml_parse true e c)) = length (elem_children e) /\
  forall i tag attrs text kids, nth_error (elem_children e) i = Some (Elem tag attrs text kids) ->
  exists n body, (0 <= n < 1000000)%Z /\
    nth_error (fst (xml_parse true e c)) i =
      Some (KS (pad6 (Z.to_N n) ++ [c_us] ++ tag), Dict (body ++ attrs_part attrs)) /\
    match kids with
    | [] => body = content_part text
    | _ => xml_ok (Elem tag attrs text kids) = true /\
           exists c', counter_ok c' /\ body = fst (xml_parse true (Elem tag attrs text kids) c')
    end.
Proof. exact xml_entry_shape. Qed.
Print Assumptions C11_entry_shape.

(* the same by lookups: what is found under _content and _attributes in the i-th entry *)
Theorem C11_entry_lookup : forall e c i tag attrs text kids k v, xml_ok e = true -> counter_ok c ->
  nth_error (elem_children e) i = Some (Elem tag attrs text kids) ->
  nth_error (fst (xml_parse true e c)) i = Some (k, v) ->
  unnumber_key k = KS tag /\
  exists d, v = Dict d /\
    alookup k_content d = match kids with [] => typed_content text | _ => None end /\
    alookup k_attributes d = typed_attributes attrs /\
    match kids with
    | [] => d = content_part text ++ attrs_part attrs
    | _ => exists c', counter_ok c' /\ d = fst (xml_parse true (Elem tag attrs text kids) c') ++ attrs_part attrs
    end.
Proof. exact xml_entry_lookup. Qed.
Print Assumptions C11_entry_lookup.

(* non-vacuity: entry 5 of the example above (element g: attributes, text next to children, two levels of children),
   read with the counter about to wrap; entry 4 (element f: attributes only, one of them empty); entry 3 (element d:
   nothing at all, still a dict) *)
Example C11_entry_shape_nonvacuous :
  let e := C11_off_example in
  let g := Elem (sx "g") [(sx "k", sx "v")] (Some (sx "mixed"))
             [ Elem (sx "a") [] (Some (sx "+5")) [];
               Elem (sx "i") [] None [ Elem (sx "j") [] (Some (sx "007")) []; Elem (sx "k") [] (Some (sx "it's")) [] ] ] in
  xml_ok e = true /\ nth_error (elem_children e) 5 = Some g /\
  (exists n body, (0 <= n < 1000000)%Z /\
     nth_error (fst (xml_parse true e 999997)) 5 =
       Some (KS (pad6 (Z.to_N n) ++ [c_us] ++ sx "g"), Dict (body ++ attrs_part [(sx "k", sx "v")])) /\
     xml_ok g = true /\ exists c', counter_ok c' /\ body = fst (xml_parse true g c')) /\
  nth_error (fst (xml_parse true e 999997)) 5 =
    Some (KS (sx "000003_g"),
          Dict [ (KS (sx "000004_a"), Dict [(k_content, Leaf (SInt 5))]);
                 (KS (sx "000005_i"), Dict [ (KS (sx "000006_j"), Dict [(k_content, Leaf (SInt 7))]);
                                             (KS (sx "000007_k"), Dict [(k_content, Leaf (SStr (sx "it's")))]) ]);
                 (k_attributes, Dict [(KS (sx "k"), Leaf (SStr (sx "v")))]) ]) /\
  nth_error (fst (xml_parse true e 999997)) 4 =
    Some (KS (sx "000002_f"), Dict [(k_attributes, Dict [(KS (sx "x"), Leaf (SInt 1)); (KS (sx "z"), Leaf (SBool true))])]) /\
  nth_error (fst (xml_parse true e 999997)) 3 = Some (KS (sx "000001_d"), Dict []) /\
  nth_error (fst (xml_parse true e 999997)) 0 = Some (KS (sx "999998_a"), Dict [(k_content, Leaf (SFloat (sx "1.5")))]).
Proof.
  intros e g.
  assert (H : xml_ok e = true) by (vm_compute; reflexivity).
  assert (Hc : counter_ok 999997) by (unfold counter_ok; split; discriminate).
  assert (Hi : nth_error (elem_children e) 5 = Some g) by reflexivity.
  destruct (C11_entry_shape e 999997 H Hc) as [_ S].
  split; [exact H|]. split; [exact Hi|]. split; [exact (S 5%nat _ _ _ _ Hi)|].
  repeat split; vm_compute; reflexivity.
Qed.

Example C11_entry_lookup_nonvacuous :
  let e := C11_off_example in
  let k := KS (sx "000002_f") in
  let v := Dict [(k_attributes, Dict [(KS (sx "x"), Leaf (SInt 1)); (KS (sx "z"), Leaf (SBool true))])] in
  xml_ok e = true /\
  nth_error (elem_children e) 4 = Some (Elem (sx "f") [(sx "x", sx "1"); (sx "y", []); (sx "z", sx "TRUE")] None []) /\
  nth_error (fst (xml_parse true e 999997)) 4 = Some (k, v) /\
  unnumber_key k = KS (sx "f") /\
  exists d, v = Dict d /\ alookup k_content d = None /\
            alookup k_attributes d = Some (Dict [(KS (sx "x"), Leaf (SInt 1)); (KS (sx "z"), Leaf (SBool true))]).
Proof.
  intros e k v.
  assert (H : xml_ok e = true) by (vm_compute; reflexivity).
  assert (Hc : counter_ok 999997) by (unfold counter_ok; split; discriminate).
  assert (Hi : nth_error (elem_children e) 4 = Some (Elem (sx "f") [(sx "x", sx "1"); (sx "y", []); (sx "z", sx "TRUE")] None []))
    by reflexivity.
  assert (Hk : nth_error (fst (xml_parse true e 999997)) 4 = Some (k, v)) by (vm_compute; reflexivity).
  destruct (C11_entry_lookup e 999997 4%nat _ _ _ _ k v H Hc Hi Hk) as (U & d & Ev & L1 & L2 & _).
  split; [exact H|]. split; [exact Hi|]. split; [exact Hk|]. split; [exact U|].
  exists d. split; [exact Ev|]. split; [exact L1|]. rewrite L2. vm_compute. reflexivity.
Qed.

(* ================================================================================================== *)
(* non-vacuity examples added after the reviewer's audit (Properties/C11_nv.v, 2026-10-01)         *)
(* ================================================================================================== *)

(* ==== non-vacuity instances obtained BY APPLYING the theorems above (added after review) ================== *)

(* C11_write_order: special keys (_attributes) between the ordinary ones, numbered keys, an int key *)
Example C11_write_order_nonvacuous :
  let kvs := [(KS (of_string "_attributes"), Dict [(KS (of_string "id"), Leaf (SInt 7))]);
              (KS (of_string "000001_name"), Leaf (SStr (of_string "two words")));
              (KS (of_string "_content"), Leaf (SStr (of_string "text")));
              (KS (of_string "000002_mass"), Leaf (SFloat (of_string "1.5")));
              (KS (of_string "000003_name"), Dict [(KS (of_string "_content"), Leaf (SBool true))]);
              (KI 4, Leaf SNone)] in
  map (fun e => match e with Elem t _ _ _ => t end) (elem_children (populate (of_string "root") (Dict kvs))) =
  map (fun kv => strip_numbering (key_text_xml (fst kv))) (filter (fun kv => negb (special_xml_key (key_text_xml (fst kv)))) kvs) /\
  map (fun e => match e with Elem t _ _ _ => t end) (elem_children (populate (of_string "root") (Dict kvs))) =
  [of_string "name"; of_string "mass"; of_string "name"; of_string "4"].
Proof. intros kvs. split; [exact (C11_write_order (of_string "root") kvs) | vm_compute; reflexivity]. Qed.

(* C11_read_entries, C11_read_order, C11_write_inverts_read, C11_cycle on C11_example (three levels, repeated tags,
   attributes, typed, multi-line, empty and blank text), the counter two steps before the wrap-around: the eight
   children of the root are numbered 999998 999999 000000 .. 000005 *)
Lemma C11nv_ok : xml_ok C11_example = true /\ counter_ok 999997 /\ counter_ok (-1).
Proof. split; [vm_compute; reflexivity|]. unfold counter_ok. repeat split; discriminate. Qed.

Example C11_read_entries_nonvacuous :
  xml_ok C11_example = true /\ counter_ok 999997 /\
  unnumber (fst (xml_parse true C11_example 999997)) = xml_entries C11_example /\ xml_entries C11_example = C11_example_entries.
Proof.
  destruct C11nv_ok as (H & Hc & _). refine (conj H (conj Hc (conj (C11_read_entries _ _ H Hc) _))). vm_compute. reflexivity.
Qed.

Example C11_read_order_nonvacuous :
  let e := C11_example in
  (map unnumber_key (map fst (fst (xml_parse true e 999997))) = map (fun ch => KS (tag_of ch)) (elem_children e) /\
   NoDup (map fst (fst (xml_parse true e 999997)))) /\
  map fst (fst (xml_parse true e 999997)) =
    map (fun s => KS (of_string s)) ["999998_a"; "999999_a"; "000000_b"; "000001_c"; "000002_d"; "000003_e"; "000004_f"; "000005_g"]%string /\
  map (fun ch => KS (tag_of ch)) (elem_children e) = map (fun s => KS (of_string s)) ["a"; "a"; "b"; "c"; "d"; "e"; "f"; "g"]%string.
Proof.
  intros e. destruct C11nv_ok as (H & Hc & _). split; [exact (C11_read_order e _ H Hc)|]. split; vm_compute; reflexivity.
Qed.

Example C11_write_inverts_read_nonvacuous :
  let e := C11_example in
  populate (tag_of e) (Dict (fst (xml_parse true e 999997))) = normalise_root e /\
  elem_children (normalise_root e) <> elem_children e /\
  nth_error (elem_children (normalise_root e)) 1 = Some (Elem (s_ "a") [] (Some (s_ "True")) []) /\
  nth_error (elem_children e) 1 = Some (Elem (s_ "a") [] (Some (s_ " true ")) []).
Proof.
  intros e. destruct C11nv_ok as (H & Hc & _). split; [exact (C11_write_inverts_read e _ H Hc)|].
  split; [vm_compute; discriminate|]. split; vm_compute; reflexivity.
Qed.

(* the second read starts from a fresh counter: other node numbers, the same entries *)
Example C11_cycle_applied :
  let e := C11_example in
  unnumber (fst (xml_parse true (populate (tag_of e) (Dict (fst (xml_parse true e 999997)))) (-1))) =
  unnumber (fst (xml_parse true e 999997)) /\
  map fst (fst (xml_parse true (populate (tag_of e) (Dict (fst (xml_parse true e 999997)))) (-1))) <> map fst (fst (xml_parse true e 999997)).
Proof.
  intros e. destruct C11nv_ok as (H & Hc & Hc2). split; [exact (C11_cycle e _ _ H Hc Hc2)|]. vm_compute. discriminate.
Qed.

(* C11_write_subtree_path: a key path of length three through a numbered key, an INT key and a numbered key, with special
   keys and a comment placeholder in front (they make no element, so positions and keys differ); the subtree is a dict
   with attributes, text, a numbered leaf, a list and a dict under an int key *)
Definition C11nv_sub : tree :=
  Dict [ (KS (sx "_attributes"), Dict [(KS (sx "u"), Leaf (SBool true))]);
         (KS (sx "000007_d"), Leaf (SFloat (sx "2.50")));
         (KS (sx "_content"), Leaf (SStr (sx "text of c")));
         (KS (sx "e"), Lst [Leaf (SInt 1); Leaf (SStr (sx "two words"))]);
         (KI 12, Dict [(KS (sx "_content"), Leaf SNone)]) ].
Definition C11nv_dict : list (key * tree) :=
  [ (KS (sx "_xmlOpts"), Dict [(KS (sx "_rootTag"), Leaf (SStr (sx "root")))]);
    (KS (sx "000001_a"), Leaf (SInt 1));
    (KS (sx "_attributes"), Dict [(KS (sx "id"), Leaf (SInt 7))]);
    (KS (sx "000002_a"), Dict
       [ (KS (sx "_content"), Leaf (SStr (sx "l1" ++ [c_lf] ++ sx "l2")));
         (KS (sx "b"), Leaf SNone);
         (KS (sx "INCLUDE"), Leaf (SStr (sx "x")));
         (KI 4, Dict [ (KS (sx "LINECOMMENT000003"), Leaf (SStr (sx "LINECOMMENT000003"))); (KS (sx "000009_c"), C11nv_sub) ]) ]) ].
Example C11_write_subtree_path_nonvacuous :
  let p := [KS (sx "000002_a"); KI 4; KS (sx "000009_c")] in
  get_dpath (Dict C11nv_dict) p = Some C11nv_sub /\ forallb ordinary_key p = true /\
  xml_pos_path (Dict C11nv_dict) p = [1; 1; 0]%nat /\
  (elem_at (populate (sx "root") (Dict C11nv_dict)) (xml_pos_path (Dict C11nv_dict) p) = Some (pop_child (KS (sx "000009_c"), C11nv_sub)) /\
   tags_at (populate (sx "root") (Dict C11nv_dict)) (xml_pos_path (Dict C11nv_dict) p) = map xml_tag_of_key p) /\
  pop_child (KS (sx "000009_c"), C11nv_sub) =
    Elem (sx "c") [(sx "u", sx "true")] (Some (sx "text of c"))
      [Elem (sx "d") [] (Some (sx "2.50")) []; Elem (sx "e") [] (Some (sx "1 two words")) []; Elem (sx "12") [] (Some (sx "None")) []] /\
  map xml_tag_of_key p = [sx "a"; sx "4"; sx "c"].
Proof.
  intros p.
  assert (H1 : get_dpath (Dict C11nv_dict) p = Some C11nv_sub) by (vm_compute; reflexivity).
  assert (H2 : forallb ordinary_key p = true) by (vm_compute; reflexivity).
  refine (conj H1 (conj H2 (conj _ (conj (C11_write_subtree_path _ _ (sx "root") _ _ H1 H2) (conj _ _))))); vm_compute; reflexivity.
Qed.

(* ================================================================================================== *)
(* added from Properties/C11_add.v (2026-10-01)                                              *)
(* ================================================================================================== *)
(* C11 additions, document level: the _xmlOpts entry (root tag, root attributes, namespace declaration) on reading,
   what the writer does with it, and the read / write / read cycle on whole documents *)
From Coq Require Import String.   (* string literals of the examples; imported first so the list names win *)
From Coq Require Import NArith ZArith List Bool.
From DictIO Require Import Chars Str Value Scalar SDict KeyPath Reader Expr Xml TreeSpec LayoutSpec MiscSpec SemProofs
     XmlProofs XmlMoreProofs XmlDocProofs.
Import ListNotations.

(* ---- reading a document (XmlParser.parse_string) ------------------------------------------------------ *)
(* A document as the XML library hands it over: the namespace map ns of the root element (prefix None = the default
   namespace) and the root element with its local tag.  vocabulary (XmlDocProofs):
     attr_names_distinct attrs   the attribute names are pairwise distinct (XML guarantees it)
     doc_root_tag tag            the tag (NOTSPECIFIED for an empty tag, which no XML document has)
     doc_root_attrs attrs        one entry name -> text per attribute, text unchanged (also empty ones), document order
   The reader's result holds, under _xmlOpts, the dict {_nameSpaces, _rootTag, _rootAttributes, _addNodeNumbering};
   every other entry, and the counter, are those of the element level (xml_parse, theorems above). *)
Theorem C11_doc_read_opts : forall numbering ns tag attrs text kids count,
  let root := Elem tag attrs text kids in
  let d := fst (parse_doc numbering ns root count) in
  let nodes := fst (xml_parse numbering root count) in
  alookup k_xmlOpts d = Some (xml_opts numbering ns root)
  /\ snd (parse_doc numbering ns root count) = snd (xml_parse numbering root count)
  /\ adel k_xmlOpts d = adel k_xmlOpts nodes
  /\ (alookup k_xmlOpts nodes = None -> d = nodes ++ [(k_xmlOpts, xml_opts numbering ns root)] /\ adel k_xmlOpts d = nodes)
  /\ (forall k, k <> k_xmlOpts -> alookup k d = alookup k nodes)
  /\ exists o ra, xml_opts numbering ns root = Dict o
       /\ map fst o = [k_nameSpaces; k_rootTag; k_rootAttributes; k_addNodeNumbering]
       /\ alookup k_nameSpaces o = Some (Dict (ns_dict ns))
       /\ alookup k_rootTag o = Some (Leaf (SStr (doc_root_tag tag)))
       /\ alookup k_rootAttributes o = Some (Dict ra)
       /\ alookup k_addNodeNumbering o = Some (Leaf (SBool numbering))
       /\ (attr_names_distinct attrs = true ->
             ra = doc_root_attrs attrs
             /\ forall a v, alookup (KS a) ra = Some (Leaf (SStr v)) <-> In (a, v) attrs).
Proof. exact xml_doc_read_opts. Qed.
Print Assumptions C11_doc_read_opts.

(* with node numbering (documents of the class xml_ok) no element is keyed _xmlOpts - every key starts with six
   digits -, so the entry stands behind the nodes and nothing is overwritten *)
Theorem C11_doc_read_numbered : forall ns root c, xml_ok root = true -> counter_ok c ->
  fst (parse_doc true ns root c) = fst (xml_parse true root c) ++ [(k_xmlOpts, xml_opts true ns root)]
  /\ adel k_xmlOpts (fst (parse_doc true ns root c)) = fst (xml_parse true root c)
  /\ alookup k_xmlOpts (fst (xml_parse true root c)) = None
  /\ counter_ok (snd (parse_doc true ns root c)).
Proof. exact xml_doc_read_numbered. Qed.
Print Assumptions C11_doc_read_numbered.

(* without node numbering, for the class xml_ok_off (no tag is a special key of the writer, _xmlOpts included) *)
Theorem C11_doc_read_unnumbered : forall ns root c, xml_ok_off root = true -> counter_ok c ->
  fst (parse_doc false ns root c) = xml_entries root ++ [(k_xmlOpts, xml_opts false ns root)]
  /\ adel k_xmlOpts (fst (parse_doc false ns root c)) = xml_entries root
  /\ alookup k_xmlOpts (xml_entries root) = None.
Proof. exact xml_doc_read_unnumbered. Qed.
Print Assumptions C11_doc_read_unnumbered.

(* the _nameSpaces table.  vocabulary (XmlDocProofs):
     ns_named ns / ns_default ns  the entries prefix -> uri of the prefixed declarations / None -> uri of the default one
     ns_distinct ns               distinct prefixes, at most one default namespace (ns is a Python dict)
     ns_clash ns                  a default namespace AND a prefix that is literally called None
   No declaration: the table {xs: <XMLSchema uri>}.  Otherwise: the prefixed declarations in document order, then the
   default namespace under the name None. *)
Theorem C11_doc_namespaces :
  ns_dict [] = [(KS (of_string "xs"), Leaf (SStr xs_uri))]
  /\ (forall p u, ns_dict [(Some p, u)] = [(KS p, Leaf (SStr u))])
  /\ (forall u, ns_dict [(None, u)] = [(KS w_None, Leaf (SStr u))])
  /\ (forall ns, ns <> [] -> ns_distinct ns = true ->
        (ns_clash ns = false -> ns_dict ns = ns_named ns ++ ns_default ns)
        /\ (forall u, In (None, u) ns -> alookup (KS w_None) (ns_dict ns) = Some (Leaf (SStr u)))
        /\ (forall p u, In (Some p, u) ns -> str_eqb p w_None && nonempty (ns_default ns) = false ->
                        alookup (KS p) (ns_dict ns) = Some (Leaf (SStr u))))
  /\ (forall ns, forallb ns_entry_ok (ns_dict ns) = true /\ ns_dict ns <> []).
Proof. exact xml_doc_namespaces. Qed.
Print Assumptions C11_doc_namespaces.

(* non-vacuity: <p:r xmlns:p="urn:p" xmlns="urn:d" x="1" y="" z="TRUE"> with three children (a repeated tag, an
   attribute, a nested element) *)
Definition sd := of_string.
Definition C11_doc : elem :=
  Elem (sd "r") [(sd "x", sd "1"); (sd "y", []); (sd "z", sd "TRUE")] (Some (sd " rt "))
    [ Elem (sd "a") [] (Some (sd "1.5")) [];
      Elem (sd "a") [(sd "k", sd "v")] (Some (sd " true ")) [];
      Elem (sd "g") [] None [ Elem (sd "h") [] (Some (sd "+5")) [] ] ].
Definition C11_doc_ns : list (option str * str) := [(Some (sd "p"), sd "urn:p"); (None, sd "urn:d")].
Definition C11_doc_opts (numbering : bool) : tree :=
  Dict [ (KS (sd "_nameSpaces"), Dict [(KS (sd "p"), Leaf (SStr (sd "urn:p"))); (KS (sd "None"), Leaf (SStr (sd "urn:d")))]);
         (KS (sd "_rootTag"), Leaf (SStr (sd "r")));
         (KS (sd "_rootAttributes"), Dict [(KS (sd "x"), Leaf (SStr (sd "1"))); (KS (sd "y"), Leaf (SStr []));
                                           (KS (sd "z"), Leaf (SStr (sd "TRUE")))]);
         (KS (sd "_addNodeNumbering"), Leaf (SBool numbering)) ].
Example C11_doc_read_opts_nonvacuous :
  let d := fst (parse_doc true C11_doc_ns C11_doc 999998) in
  xml_ok C11_doc = true /\ counter_ok 999998 /\ attr_names_distinct [(sd "x", sd "1"); (sd "y", []); (sd "z", sd "TRUE")] = true /\
  alookup k_xmlOpts d = Some (xml_opts true C11_doc_ns C11_doc) /\ xml_opts true C11_doc_ns C11_doc = C11_doc_opts true /\
  (exists o ra, C11_doc_opts true = Dict o /\ alookup k_rootAttributes o = Some (Dict ra) /\
                alookup (KS (sd "z")) ra = Some (Leaf (SStr (sd "TRUE"))) /\ alookup (KS (sd "y")) ra = Some (Leaf (SStr []))) /\
  d = fst (xml_parse true C11_doc 999998) ++ [(k_xmlOpts, xml_opts true C11_doc_ns C11_doc)] /\
  map fst d = map (fun s => KS (sd s)) ["999999_a"; "000000_a"; "000001_g"; "_xmlOpts"]%string /\
  snd (parse_doc true C11_doc_ns C11_doc 999998) = 2%Z.
Proof.
  intros d.
  assert (H : xml_ok C11_doc = true) by (vm_compute; reflexivity).
  assert (Hc : counter_ok 999998) by (unfold counter_ok; split; discriminate).
  assert (Hd : attr_names_distinct [(sd "x", sd "1"); (sd "y", []); (sd "z", sd "TRUE")] = true) by (vm_compute; reflexivity).
  assert (E : xml_opts true C11_doc_ns C11_doc = C11_doc_opts true) by (vm_compute; reflexivity).
  destruct (C11_doc_read_opts true C11_doc_ns (sd "r") [(sd "x", sd "1"); (sd "y", []); (sd "z", sd "TRUE")] (Some (sd " rt "))
              [ Elem (sd "a") [] (Some (sd "1.5")) []; Elem (sd "a") [(sd "k", sd "v")] (Some (sd " true ")) [];
                Elem (sd "g") [] None [ Elem (sd "h") [] (Some (sd "+5")) [] ] ] 999998)
    as (A1 & _ & _ & _ & _ & o & ra & Eo & _ & _ & _ & Lra & _ & Hra).
  destruct (Hra Hd) as [_ Hl].
  destruct (C11_doc_read_numbered C11_doc_ns C11_doc 999998 H Hc) as (B1 & _ & _ & _).
  split; [exact H|]. split; [exact Hc|]. split; [exact Hd|]. split; [exact A1|]. split; [exact E|].
  split.
  { exists o, ra. split; [rewrite <- E; exact Eo|]. split; [exact Lra|]. split; apply Hl; vm_compute; tauto. }
  split; [exact B1|]. split; vm_compute; reflexivity.
Qed.

Example C11_doc_read_unnumbered_nonvacuous :
  let root := Elem (sd "r") [(sd "x", sd "1")] None
                [ Elem (sd "a") [] (Some (sd "1.5")) []; Elem (sd "b") [(sd "k", sd "v")] (Some (sd " true ")) [] ] in
  xml_ok_off root = true /\
  fst (parse_doc false [(None, sd "urn:d")] root (-1)) = xml_entries root ++ [(k_xmlOpts, xml_opts false [(None, sd "urn:d")] root)] /\
  fst (parse_doc false [(None, sd "urn:d")] root (-1)) =
    [ (KS (sd "a"), Dict [(k_content, Leaf (SFloat (sd "1.5")))]);
      (KS (sd "b"), Dict [(k_content, Leaf (SBool true)); (k_attributes, Dict [(KS (sd "k"), Leaf (SStr (sd "v")))])]);
      (k_xmlOpts, Dict [ (k_nameSpaces, Dict [(KS (sd "None"), Leaf (SStr (sd "urn:d")))]); (k_rootTag, Leaf (SStr (sd "r")));
                         (k_rootAttributes, Dict [(KS (sd "x"), Leaf (SStr (sd "1")))]); (k_addNodeNumbering, Leaf (SBool false)) ]) ].
Proof.
  intros root.
  assert (H : xml_ok_off root = true) by (vm_compute; reflexivity).
  assert (Hc : counter_ok (-1)) by (unfold counter_ok; split; discriminate).
  destruct (C11_doc_read_unnumbered [(None, sd "urn:d")] root (-1) H Hc) as (B1 & _ & _).
  split; [exact H|]. split; [exact B1|]. vm_compute. reflexivity.
Qed.

Example C11_doc_namespaces_nonvacuous :
  let ns := [(Some (sd "p"), sd "urn:p"); (None, sd "urn:d"); (Some (sd "q"), sd "urn:q")] in
  ns <> [] /\ ns_distinct ns = true /\ ns_clash ns = false /\
  ns_dict ns = ns_named ns ++ ns_default ns /\
  ns_named ns ++ ns_default ns = [(KS (sd "p"), Leaf (SStr (sd "urn:p"))); (KS (sd "q"), Leaf (SStr (sd "urn:q")));
                                  (KS (sd "None"), Leaf (SStr (sd "urn:d")))] /\
  alookup (KS w_None) (ns_dict ns) = Some (Leaf (SStr (sd "urn:d"))) /\
  alookup (KS (sd "q")) (ns_dict ns) = Some (Leaf (SStr (sd "urn:q"))).
Proof.
  intros ns.
  assert (H1 : ns <> []) by discriminate.
  assert (H2 : ns_distinct ns = true) by (vm_compute; reflexivity).
  assert (H3 : ns_clash ns = false) by (vm_compute; reflexivity).
  destruct C11_doc_namespaces as (_ & _ & _ & G & _). destruct (G ns H1 H2) as (G1 & G2 & G3).
  split; [exact H1|]. split; [exact H2|]. split; [exact H3|]. split; [exact (G1 H3)|]. split; [vm_compute; reflexivity|].
  split; [apply G2; vm_compute; tauto|]. apply G3; [vm_compute; tauto|vm_compute; reflexivity].
Qed.

(* FINDING (a prefix that is literally called None next to a default namespace): <r xmlns="urn:d" xmlns:None="urn:n">.
   The default namespace is entered under the string 'None' and overwrites the declared prefix None: the table is
   {None: urn:d}, the declaration xmlns:None="urn:n" is lost.  The real library does the same
   (XmlParser().parse_string gives '_nameSpaces': {'None': 'urn:d'}). *)
Example C11_doc_namespace_None_prefix_finding :
  let ns := [(None, sd "urn:d"); (Some (sd "None"), sd "urn:n")] in
  ns_distinct ns = true /\ ns_clash ns = true /\ In (Some (sd "None"), sd "urn:n") ns /\
  ns_dict ns = [(KS (sd "None"), Leaf (SStr (sd "urn:d")))] /\
  ns_dict (rev ns) = [(KS (sd "None"), Leaf (SStr (sd "urn:d")))] /\
  alookup (KS (sd "None")) (ns_dict ns) = Some (Leaf (SStr (sd "urn:d"))) /\
  ns_named ns ++ ns_default ns = [(KS (sd "None"), Leaf (SStr (sd "urn:n"))); (KS (sd "None"), Leaf (SStr (sd "urn:d")))].
Proof. intros ns. repeat split; try (vm_compute; reflexivity). vm_compute. tauto. Qed.

(* FINDING (without node numbering, a child element called _xmlOpts): its entry is overwritten by the options, in
   place; with numbering the key is 000000__xmlOpts and both survive. *)
Example C11_doc_child_named_xmlOpts_finding :
  let root := Elem (sd "r") [] None [ Elem (sd "_xmlOpts") [] (Some (sd "4")) []; Elem (sd "x") [] (Some (sd "5")) [] ] in
  xml_ok root = true /\ xml_ok_off root = false /\
  fst (xml_parse false root (-1)) = [ (k_xmlOpts, Dict [(k_content, Leaf (SInt 4))]); (KS (sd "x"), Dict [(k_content, Leaf (SInt 5))]) ] /\
  fst (parse_doc false [] root (-1)) = [ (k_xmlOpts, xml_opts false [] root); (KS (sd "x"), Dict [(k_content, Leaf (SInt 5))]) ] /\
  map fst (fst (parse_doc true [] root (-1))) = [KS (sd "000000__xmlOpts"); KS (sd "000001_x"); k_xmlOpts].
Proof. intros root. repeat split; vm_compute; reflexivity. Qed.

(* ---- writing a document (XmlFormatter.to_string) ------------------------------------------------------ *)
(* format_doc d = Some (namespace (prefix, uri) the tags are put in, root element).  For a dict that carries the
   reader's _xmlOpts entry:
     - the namespace is ns_first ns, the first entry of the recorded table (C11_doc_ns_first: the declared prefix and
       uri for a single prefixed declaration, the prefix None for a single default namespace, xs and the XMLSchema uri
       when nothing was declared),
     - the root tag is the recorded one,
     - the root attributes are the recorded ones with non-empty text, in order, text unchanged
       (filter has_value attrs) - unless the dict has a top-level _attrib.. dict entry, which replaces them,
     - text and children are those of populate (theorems above); the _xmlOpts entry itself makes no element. *)
Theorem C11_doc_write_uses_opts : forall d numbering ns tag attrs text kids,
  alookup k_xmlOpts d = Some (xml_opts numbering ns (Elem tag attrs text kids)) ->
  attr_names_distinct attrs = true ->
  format_doc d =
    Some (ns_first ns,
          Elem (doc_root_tag tag)
               (if existsb is_attrib_entry d then e_attrs (populate (doc_root_tag tag) (Dict d)) else filter has_value attrs)
               (e_text (populate (doc_root_tag tag) (Dict d)))
               (e_kids (populate (doc_root_tag tag) (Dict d)))).
Proof. exact xml_doc_write_uses_opts. Qed.
Print Assumptions C11_doc_write_uses_opts.

Theorem C11_doc_write_plain : forall d numbering ns tag attrs text kids,
  alookup k_xmlOpts d = Some (xml_opts numbering ns (Elem tag attrs text kids)) ->
  nonempty tag = true -> attr_names_distinct attrs = true -> existsb is_attrib_entry d = false ->
  exists pattrs text' kids',
    populate tag (Dict d) = Elem tag pattrs text' kids' /\
    format_doc d = Some (ns_first ns, Elem tag (filter has_value attrs) text' kids').
Proof. exact xml_doc_write_plain. Qed.
Print Assumptions C11_doc_write_plain.

(* the namespace that is used; ns_back (p, u) is the declaration the written document carries (xmlns="u" for the
   prefix None, xmlns:p="u" otherwise): read again it makes the one-entry table with the entry that was used *)
Theorem C11_doc_ns_first :
  ns_first [] = (of_string "xs", xs_uri)
  /\ (forall p u, ns_first [(Some p, u)] = (p, u))
  /\ (forall u, ns_first [(None, u)] = (w_None, u))
  /\ (forall ns, first_ns (ns_dict ns) = Some (ns_first ns))
  /\ (forall ns, ns_dict (ns_back (ns_first ns)) = firstn 1 (ns_dict ns)).
Proof. exact xml_doc_ns_first. Qed.
Print Assumptions C11_doc_ns_first.

Theorem C11_doc_ns_first_prefixed : forall ns p u rest, ns_distinct ns = true -> ns_clash ns = false ->
  ns_named ns = (KS p, Leaf (SStr u)) :: rest -> ns_first ns = (p, u).
Proof. exact ns_first_prefixed. Qed.
Print Assumptions C11_doc_ns_first_prefixed.

(* non-vacuity: a hand-made dict with the reader's _xmlOpts entry of the document above (default namespace), a
   numbered leaf, a _content entry, a nested dict; with and without a top-level _attributes entry *)
Definition C11_doc_dict : list (key * tree) :=
  [ (KS (sd "_attributes"), Dict [(KS (sd "id"), Leaf (SInt 7))]);
    (KS (sd "000001_a"), Leaf (SInt 1));
    (k_xmlOpts, xml_opts false [(None, sd "urn:d")] C11_doc);
    (KS (sd "_content"), Leaf (SStr (sd "text")));
    (KS (sd "b"), Dict [(KS (sd "c"), Leaf (SBool true))]) ].
Example C11_doc_write_uses_opts_nonvacuous :
  let ra := [(sd "x", sd "1"); (sd "y", []); (sd "z", sd "TRUE")] in
  let d2 := adel (KS (sd "_attributes")) C11_doc_dict in
  attr_names_distinct ra = true /\ existsb is_attrib_entry C11_doc_dict = true /\ existsb is_attrib_entry d2 = false /\
  format_doc C11_doc_dict =
    Some (sd "None", sd "urn:d",
          Elem (sd "r") [(sd "id", sd "7")] (Some (sd "text"))
            [Elem (sd "a") [] (Some (sd "1")) []; Elem (sd "b") [] None [Elem (sd "c") [] (Some (sd "True")) []]]) /\
  format_doc d2 =
    Some (sd "None", sd "urn:d",
          Elem (sd "r") [(sd "x", sd "1"); (sd "z", sd "TRUE")] (Some (sd "text"))
            [Elem (sd "a") [] (Some (sd "1")) []; Elem (sd "b") [] None [Elem (sd "c") [] (Some (sd "True")) []]]) /\
  (exists pattrs text' kids', populate (sd "r") (Dict d2) = Elem (sd "r") pattrs text' kids' /\
     format_doc d2 = Some (ns_first [(None, sd "urn:d")], Elem (sd "r") (filter has_value ra) text' kids')).
Proof.
  intros ra d2.
  assert (Hd : attr_names_distinct ra = true) by (vm_compute; reflexivity).
  assert (L1 : alookup k_xmlOpts C11_doc_dict = Some (xml_opts false [(None, sd "urn:d")] C11_doc)) by (vm_compute; reflexivity).
  assert (L2 : alookup k_xmlOpts d2 = Some (xml_opts false [(None, sd "urn:d")] C11_doc)) by (vm_compute; reflexivity).
  assert (Ha : existsb is_attrib_entry d2 = false) by (vm_compute; reflexivity).
  pose proof (C11_doc_write_uses_opts C11_doc_dict false _ (sd "r") ra _ _ L1 Hd) as W1.
  pose proof (C11_doc_write_uses_opts d2 false _ (sd "r") ra _ _ L2 Hd) as W2.
  split; [exact Hd|]. split; [vm_compute; reflexivity|]. split; [exact Ha|].
  split; [rewrite W1; vm_compute; reflexivity|]. split; [rewrite W2; vm_compute; reflexivity|].
  exact (C11_doc_write_plain d2 false _ (sd "r") ra _ _ L2 eq_refl Hd Ha).
Qed.

(* FINDING (a default namespace next to a prefixed one): <r xmlns="urn:d" xmlns:q="urn:q">.  The reader enters the
   default namespace LAST in the table (the key None is deleted and entered again as 'None'), the writer uses the
   FIRST entry: the tags are put into urn:q, the default namespace is not declared any more.  The real library does the
   same: the document is written as <r xmlns:q="urn:q">, read again: '_nameSpaces': {'q': 'urn:q'}. *)
Example C11_doc_default_namespace_lost_finding :
  let ns := [(None, sd "urn:d"); (Some (sd "q"), sd "urn:q")] in
  ns_distinct ns = true /\ ns_clash ns = false /\
  ns_dict ns = [(KS (sd "q"), Leaf (SStr (sd "urn:q"))); (KS (sd "None"), Leaf (SStr (sd "urn:d")))] /\
  ns_first ns = (sd "q", sd "urn:q") /\
  (exists e, format_doc (fst (parse_doc true ns C11_doc (-1))) = Some (sd "q", sd "urn:q", e)) /\
  ns_dict (ns_back (ns_first ns)) = [(KS (sd "q"), Leaf (SStr (sd "urn:q")))].
Proof.
  intros ns.
  assert (H2 : ns_distinct ns = true) by (vm_compute; reflexivity).
  assert (H3 : ns_clash ns = false) by (vm_compute; reflexivity).
  split; [exact H2|]. split; [exact H3|]. split; [vm_compute; reflexivity|].
  split; [exact (C11_doc_ns_first_prefixed ns (sd "q") (sd "urn:q") [] H2 H3 eq_refl)|].
  split; [eexists; vm_compute; reflexivity|]. vm_compute. reflexivity.
Qed.

(* ---- reading, writing and reading again, on whole documents --------------------------------------------- *)
(* For a document (ns, root) of the class xml_ok (nothing is asked of the root's own tag and text; of its attributes
   only that the names are distinct), read with node numbering:
     - the writer produces, in the namespace ns_first ns, the element tree doc_written root: the recorded root tag, the
       root attributes with non-empty text (in order, text unchanged - they are not re-spelled like the attributes of
       inner elements), no root text, and the children normalise_elem of the original ones, as C11_write_inverts_read
       describes them;
     - that document - its namespace declaration is ns_back (ns_first ns) - read again gives the same nodes up to the
       running numbers (C11_cycle), followed by the _xmlOpts entry with: the FIRST entry of the original namespace table,
       the same root tag, the root attributes with non-empty text, the numbering flag;
     - so if the table had one entry (a single declaration, prefixed or default - or none at all: the table {xs: ..}
       is then declared explicitly) and no root attribute is empty, the _xmlOpts entry is the same and the two dicts
       are equal up to the running node numbers. *)
Theorem C11_doc_cycle : forall ns tag attrs text kids c c2,
  xml_ok (Elem tag attrs text kids) = true -> attr_names_distinct attrs = true -> counter_ok c -> counter_ok c2 ->
  let d := fst (parse_doc true ns (Elem tag attrs text kids) c) in
  let d2 := fst (parse_doc true (ns_back (ns_first ns)) (doc_written (Elem tag attrs text kids)) c2) in
  format_doc d = Some (ns_first ns, doc_written (Elem tag attrs text kids))
  /\ d = fst (xml_parse true (Elem tag attrs text kids) c) ++ [(k_xmlOpts, xml_opts true ns (Elem tag attrs text kids))]
  /\ d2 = fst (xml_parse true (doc_written (Elem tag attrs text kids)) c2) ++
          [(k_xmlOpts, xml_opts true (ns_back (ns_first ns)) (doc_written (Elem tag attrs text kids)))]
  /\ unnumber (fst (xml_parse true (doc_written (Elem tag attrs text kids)) c2)) =
     unnumber (fst (xml_parse true (Elem tag attrs text kids) c))
  /\ xml_opts true ns (Elem tag attrs text kids) =
       Dict [(k_nameSpaces, Dict (ns_dict ns)); (k_rootTag, Leaf (SStr (doc_root_tag tag)));
             (k_rootAttributes, Dict (doc_root_attrs attrs)); (k_addNodeNumbering, Leaf (SBool true))]
  /\ xml_opts true (ns_back (ns_first ns)) (doc_written (Elem tag attrs text kids)) =
       Dict [(k_nameSpaces, Dict (firstn 1 (ns_dict ns))); (k_rootTag, Leaf (SStr (doc_root_tag tag)));
             (k_rootAttributes, Dict (doc_root_attrs (filter has_value attrs))); (k_addNodeNumbering, Leaf (SBool true))]
  /\ (length (ns_dict ns) = 1%nat -> forallb has_value attrs = true ->
        alookup k_xmlOpts d2 = alookup k_xmlOpts d /\ unnumber d2 = unnumber d).
Proof. exact xml_doc_cycle. Qed.
Print Assumptions C11_doc_cycle.

(* without node numbering (class xml_ok_off) the cycle holds literally *)
Theorem C11_doc_cycle_numbering_off : forall ns tag attrs text kids c c2,
  xml_ok_off (Elem tag attrs text kids) = true -> attr_names_distinct attrs = true -> counter_ok c -> counter_ok c2 ->
  let d := fst (parse_doc false ns (Elem tag attrs text kids) c) in
  let d2 := fst (parse_doc false (ns_back (ns_first ns)) (doc_written (Elem tag attrs text kids)) c2) in
  format_doc d = Some (ns_first ns, doc_written (Elem tag attrs text kids))
  /\ d = xml_entries (Elem tag attrs text kids) ++ [(k_xmlOpts, xml_opts false ns (Elem tag attrs text kids))]
  /\ d2 = xml_entries (Elem tag attrs text kids) ++
          [(k_xmlOpts, xml_opts false (ns_back (ns_first ns)) (doc_written (Elem tag attrs text kids)))]
  /\ xml_opts false (ns_back (ns_first ns)) (doc_written (Elem tag attrs text kids)) =
       Dict [(k_nameSpaces, Dict (firstn 1 (ns_dict ns))); (k_rootTag, Leaf (SStr (doc_root_tag tag)));
             (k_rootAttributes, Dict (doc_root_attrs (filter has_value attrs))); (k_addNodeNumbering, Leaf (SBool false))]
  /\ (length (ns_dict ns) = 1%nat -> forallb has_value attrs = true -> d2 = d).
Proof. exact xml_doc_cycle_off. Qed.
Print Assumptions C11_doc_cycle_numbering_off.

(* non-vacuity: <p:r xmlns:p="urn:p" x="1" z="TRUE"> with the three children of C11_doc (repeated tag a, attributes,
   a nested element, text that is re-spelled), first read with the counter about to wrap, second read from a fresh one;
   and the same document with a default namespace *)
Definition C11_doc2 : elem :=
  match C11_doc with Elem t _ x kids => Elem t [(sd "x", sd "1"); (sd "z", sd "TRUE")] x kids end.
Example C11_doc_cycle_nonvacuous :
  let ns := [(Some (sd "p"), sd "urn:p")] in
  let d := fst (parse_doc true ns C11_doc2 999998) in
  let w := Elem (sd "r") [(sd "x", sd "1"); (sd "z", sd "TRUE")] None
             [ Elem (sd "a") [] (Some (sd "1.5")) []; Elem (sd "a") [(sd "k", sd "v")] (Some (sd "True")) [];
               Elem (sd "g") [] None [ Elem (sd "h") [] (Some (sd "5")) [] ] ] in
  let d2 := fst (parse_doc true ns w (-1)) in
  xml_ok C11_doc2 = true /\ attr_names_distinct [(sd "x", sd "1"); (sd "z", sd "TRUE")] = true /\
  length (ns_dict ns) = 1%nat /\ forallb has_value [(sd "x", sd "1"); (sd "z", sd "TRUE")] = true /\
  ns_back (ns_first ns) = ns /\ doc_written C11_doc2 = w /\
  format_doc d = Some (sd "p", sd "urn:p", w) /\
  alookup k_xmlOpts d2 = alookup k_xmlOpts d /\ unnumber d2 = unnumber d /\
  map fst d = map (fun s => KS (sd s)) ["999999_a"; "000000_a"; "000001_g"; "_xmlOpts"]%string /\
  map fst d2 = map (fun s => KS (sd s)) ["000000_a"; "000001_a"; "000002_g"; "_xmlOpts"]%string /\
  alookup k_xmlOpts d2 =
    Some (Dict [ (k_nameSpaces, Dict [(KS (sd "p"), Leaf (SStr (sd "urn:p")))]); (k_rootTag, Leaf (SStr (sd "r")));
                 (k_rootAttributes, Dict [(KS (sd "x"), Leaf (SStr (sd "1"))); (KS (sd "z"), Leaf (SStr (sd "TRUE")))]);
                 (k_addNodeNumbering, Leaf (SBool true)) ]).
Proof.
  intros ns d w d2.
  assert (H : xml_ok C11_doc2 = true) by (vm_compute; reflexivity).
  assert (Hd : attr_names_distinct [(sd "x", sd "1"); (sd "z", sd "TRUE")] = true) by (vm_compute; reflexivity).
  assert (Hc : counter_ok 999998) by (unfold counter_ok; split; discriminate).
  assert (Hc2 : counter_ok (-1)) by (unfold counter_ok; split; discriminate).
  assert (Hn : length (ns_dict ns) = 1%nat) by reflexivity.
  assert (Hv : forallb has_value [(sd "x", sd "1"); (sd "z", sd "TRUE")] = true) by reflexivity.
  assert (Eb : ns_back (ns_first ns) = ns) by (vm_compute; reflexivity).
  assert (Ew : doc_written C11_doc2 = w) by (vm_compute; reflexivity).
  destruct (C11_doc_cycle ns (sd "r") [(sd "x", sd "1"); (sd "z", sd "TRUE")] (Some (sd " rt "))
              [ Elem (sd "a") [] (Some (sd "1.5")) []; Elem (sd "a") [(sd "k", sd "v")] (Some (sd " true ")) [];
                Elem (sd "g") [] None [ Elem (sd "h") [] (Some (sd "+5")) [] ] ] 999998 (-1) H Hd Hc Hc2)
    as (F & _ & _ & _ & _ & _ & G).
  destruct (G Hn Hv) as [G1 G2]. change (Elem (sd "r") [(sd "x", sd "1"); (sd "z", sd "TRUE")] (Some (sd " rt ")) _) with C11_doc2 in *.
  rewrite Eb, Ew in G1, G2. rewrite Ew in F.
  split; [exact H|]. split; [exact Hd|]. split; [exact Hn|]. split; [exact Hv|]. split; [exact Eb|]. split; [exact Ew|].
  split; [exact F|]. split; [exact G1|]. split; [exact G2|]. repeat split; vm_compute; reflexivity.
Qed.

Example C11_doc_cycle_default_namespace_nonvacuous :
  let ns := [(None, sd "urn:d")] in
  let d := fst (parse_doc true ns C11_doc2 999998) in
  let d2 := fst (parse_doc true ns (doc_written C11_doc2) (-1)) in
  ns_first ns = (sd "None", sd "urn:d") /\ ns_back (ns_first ns) = ns /\
  format_doc d = Some (sd "None", sd "urn:d", doc_written C11_doc2) /\
  alookup k_xmlOpts d2 = alookup k_xmlOpts d /\ unnumber d2 = unnumber d /\
  (exists o, alookup k_xmlOpts d2 = Some (Dict o) /\
             alookup k_nameSpaces o = Some (Dict [(KS (sd "None"), Leaf (SStr (sd "urn:d")))])).
Proof.
  intros ns d d2.
  assert (H : xml_ok C11_doc2 = true) by (vm_compute; reflexivity).
  assert (Hd : attr_names_distinct [(sd "x", sd "1"); (sd "z", sd "TRUE")] = true) by (vm_compute; reflexivity).
  assert (Hc : counter_ok 999998) by (unfold counter_ok; split; discriminate).
  assert (Hc2 : counter_ok (-1)) by (unfold counter_ok; split; discriminate).
  assert (Eb : ns_back (ns_first ns) = ns) by (vm_compute; reflexivity).
  destruct (C11_doc_cycle ns (sd "r") [(sd "x", sd "1"); (sd "z", sd "TRUE")] (Some (sd " rt "))
              [ Elem (sd "a") [] (Some (sd "1.5")) []; Elem (sd "a") [(sd "k", sd "v")] (Some (sd " true ")) [];
                Elem (sd "g") [] None [ Elem (sd "h") [] (Some (sd "+5")) [] ] ] 999998 (-1) H Hd Hc Hc2)
    as (F & _ & _ & _ & _ & _ & G).
  destruct (G eq_refl eq_refl) as [G1 G2]. change (Elem (sd "r") [(sd "x", sd "1"); (sd "z", sd "TRUE")] (Some (sd " rt ")) _) with C11_doc2 in *.
  rewrite Eb in G1, G2.
  split; [vm_compute; reflexivity|]. split; [exact Eb|]. split; [exact F|]. split; [exact G1|]. split; [exact G2|].
  eexists. split; vm_compute; reflexivity.
Qed.

Example C11_doc_cycle_numbering_off_nonvacuous :
  let ns := [(None, sd "urn:d")] in
  let root := Elem (sd "r") [(sd "x", sd "1")] (Some (sd "rt"))
                [ Elem (sd "a") [] (Some (sd "1.5")) []; Elem (sd "b") [(sd "k", sd "v")] (Some (sd " true ")) [] ] in
  let d := fst (parse_doc false ns root (-1)) in
  xml_ok_off root = true /\ ns_back (ns_first ns) = ns /\
  format_doc d = Some (sd "None", sd "urn:d", Elem (sd "r") [(sd "x", sd "1")] None
                         [ Elem (sd "a") [] (Some (sd "1.5")) []; Elem (sd "b") [(sd "k", sd "v")] (Some (sd "True")) [] ]) /\
  fst (parse_doc false ns (doc_written root) 17) = d.
Proof.
  intros ns root d.
  assert (H : xml_ok_off root = true) by (vm_compute; reflexivity).
  assert (Hd : attr_names_distinct [(sd "x", sd "1")] = true) by (vm_compute; reflexivity).
  assert (Hc : counter_ok (-1)) by (unfold counter_ok; split; discriminate).
  assert (Hc2 : counter_ok 17) by (unfold counter_ok; split; discriminate).
  assert (Eb : ns_back (ns_first ns) = ns) by (vm_compute; reflexivity).
  destruct (C11_doc_cycle_numbering_off ns _ _ _ _ (-1)%Z 17%Z H Hd Hc Hc2) as (F & _ & _ & _ & G).
  specialize (G eq_refl eq_refl). rewrite Eb in G.
  split; [exact H|]. split; [exact Eb|]. split; [unfold d, root; rewrite F; vm_compute; reflexivity|exact G].
Qed.

(* FINDING (a root attribute with empty text): it is recorded on reading (y -> ''), not written, and gone from
   _rootAttributes after the second read.  The real library does the same. *)
Example C11_doc_cycle_empty_root_attribute_finding :
  let ns := [(Some (sd "p"), sd "urn:p")] in
  let d := fst (parse_doc true ns C11_doc (-1)) in
  let d2 := fst (parse_doc true (ns_back (ns_first ns)) (doc_written C11_doc) (-1)) in
  xml_ok C11_doc = true /\ forallb has_value [(sd "x", sd "1"); (sd "y", []); (sd "z", sd "TRUE")] = false /\
  (exists o, alookup k_xmlOpts d = Some (Dict o) /\
     alookup k_rootAttributes o = Some (Dict [(KS (sd "x"), Leaf (SStr (sd "1"))); (KS (sd "y"), Leaf (SStr []));
                                              (KS (sd "z"), Leaf (SStr (sd "TRUE")))])) /\
  (exists o, alookup k_xmlOpts d2 = Some (Dict o) /\
     alookup k_rootAttributes o = Some (Dict [(KS (sd "x"), Leaf (SStr (sd "1"))); (KS (sd "z"), Leaf (SStr (sd "TRUE")))])) /\
  adel k_xmlOpts d2 = adel k_xmlOpts d.
Proof. intros ns d d2. split; [vm_compute; reflexivity|]. split; [reflexivity|]. split; [eexists; split; vm_compute; reflexivity|].
  split; [eexists; split; vm_compute; reflexivity|]. vm_compute. reflexivity. Qed.

(* FINDING (no namespace declared): the reader records the table {xs: <XMLSchema uri>}, the writer declares it: the
   written document carries xmlns:xs="..." although the original had no declaration.  The _xmlOpts entry is the same
   before and after.  The real library does the same. *)
Example C11_doc_cycle_undeclared_namespace_finding :
  let d := fst (parse_doc true [] C11_doc2 (-1)) in
  let d2 := fst (parse_doc true (ns_back (ns_first [])) (doc_written C11_doc2) (-1)) in
  ns_first [] = (sd "xs", xs_uri) /\ ns_back (ns_first []) = [(Some (sd "xs"), xs_uri)] /\ ns_back (ns_first []) <> [] /\
  (exists e, format_doc d = Some (sd "xs", xs_uri, e)) /\ d2 = d.
Proof. intros d d2. split; [reflexivity|]. split; [reflexivity|]. split; [discriminate|].
  split; [eexists; vm_compute; reflexivity|]. vm_compute. reflexivity. Qed.

(* FINDING (root attributes are not re-spelled, the attributes of inner elements are): z="TRUE" on the root is written
   back as TRUE, on an inner element as true *)
Example C11_doc_root_attribute_spelling_note :
  let root := Elem (sd "r") [(sd "z", sd "TRUE")] None [ Elem (sd "a") [(sd "z", sd "TRUE")] None []; Elem (sd "b") [] None [] ] in
  format_doc (fst (parse_doc true [] root (-1))) =
    Some (sd "xs", xs_uri, Elem (sd "r") [(sd "z", sd "TRUE")] None [ Elem (sd "a") [(sd "z", sd "true")] None []; Elem (sd "b") [] None [] ]).
Proof. vm_compute. reflexivity. Qed.

(* whatever changes, changes in the first cycle.  For EVERY namespace map and all root attributes (empty ones, several
   declarations): the written document (doc_written root, declaration ns_back (ns_first ns)), read (d2), written again
   (in the same namespace) and read again (d3), gives the same dict up to the running node numbers, _xmlOpts included. *)
Theorem C11_doc_cycle_stable : forall ns tag attrs text kids c2 c3,
  let root := Elem tag attrs text kids in
  let ns' := ns_back (ns_first ns) in
  xml_ok root = true -> attr_names_distinct attrs = true -> counter_ok c2 -> counter_ok c3 ->
  let d2 := fst (parse_doc true ns' (doc_written root) c2) in
  let d3 := fst (parse_doc true ns' (doc_written (doc_written root)) c3) in
  format_doc d2 = Some (ns_first ns, doc_written (doc_written root))
  /\ alookup k_xmlOpts d3 = alookup k_xmlOpts d2
  /\ unnumber d3 = unnumber d2.
Proof. exact xml_doc_cycle_stable. Qed.
Print Assumptions C11_doc_cycle_stable.

(* non-vacuity: C11_doc (an empty root attribute) with two declarations; the first cycle changes the _xmlOpts entry
   (y and the default namespace go), the second one changes nothing *)
Example C11_doc_cycle_stable_nonvacuous :
  let ns' := ns_back (ns_first C11_doc_ns) in
  let d := fst (parse_doc true C11_doc_ns C11_doc 5) in
  let d2 := fst (parse_doc true ns' (doc_written C11_doc) 999998) in
  let d3 := fst (parse_doc true ns' (doc_written (doc_written C11_doc)) (-1)) in
  xml_ok C11_doc = true /\ ns' = [(Some (sd "p"), sd "urn:p")] /\
  alookup k_xmlOpts d = Some (C11_doc_opts true) /\ alookup k_xmlOpts d2 <> alookup k_xmlOpts d /\
  format_doc d2 = Some (sd "p", sd "urn:p", doc_written (doc_written C11_doc)) /\
  alookup k_xmlOpts d3 = alookup k_xmlOpts d2 /\ unnumber d3 = unnumber d2 /\
  alookup k_xmlOpts d3 =
    Some (Dict [ (k_nameSpaces, Dict [(KS (sd "p"), Leaf (SStr (sd "urn:p")))]); (k_rootTag, Leaf (SStr (sd "r")));
                 (k_rootAttributes, Dict [(KS (sd "x"), Leaf (SStr (sd "1"))); (KS (sd "z"), Leaf (SStr (sd "TRUE")))]);
                 (k_addNodeNumbering, Leaf (SBool true)) ]) /\
  map fst d2 <> map fst d3.
Proof.
  intros ns' d d2 d3.
  assert (H : xml_ok C11_doc = true) by (vm_compute; reflexivity).
  assert (Hd : attr_names_distinct [(sd "x", sd "1"); (sd "y", []); (sd "z", sd "TRUE")] = true) by (vm_compute; reflexivity).
  assert (Hc2 : counter_ok 999998) by (unfold counter_ok; split; discriminate).
  assert (Hc3 : counter_ok (-1)) by (unfold counter_ok; split; discriminate).
  destruct (C11_doc_cycle_stable C11_doc_ns (sd "r") [(sd "x", sd "1"); (sd "y", []); (sd "z", sd "TRUE")] (Some (sd " rt "))
              [ Elem (sd "a") [] (Some (sd "1.5")) []; Elem (sd "a") [(sd "k", sd "v")] (Some (sd " true ")) [];
                Elem (sd "g") [] None [ Elem (sd "h") [] (Some (sd "+5")) [] ] ] 999998 (-1) H Hd Hc2 Hc3) as (F & G1 & G2).
  change (Elem (sd "r") [(sd "x", sd "1"); (sd "y", []); (sd "z", sd "TRUE")] (Some (sd " rt ")) _) with C11_doc in *.
  split; [exact H|]. split; [vm_compute; reflexivity|]. split; [vm_compute; reflexivity|]. split; [vm_compute; discriminate|].
  split; [unfold d2, ns'; rewrite F; vm_compute; reflexivity|]. split; [exact G1|]. split; [exact G2|].
  split; [vm_compute; reflexivity|]. vm_compute. discriminate.
Qed.

(* a dict without an _xmlOpts entry is written with the defaults: namespace xs, root tag NOTSPECIFIED, the root
   attributes those of a top-level _attrib.. entry, if any *)
Theorem C11_doc_write_no_opts : forall d, alookup k_xmlOpts d = None ->
  format_doc d = Some (of_string "xs", xs_uri, populate w_NOTSPECIFIED (Dict d)).
Proof. exact xml_doc_write_no_opts. Qed.
Print Assumptions C11_doc_write_no_opts.

Example C11_doc_write_no_opts_nonvacuous :
  let d := adel k_xmlOpts C11_doc_dict in
  alookup k_xmlOpts d = None /\
  format_doc d = Some (sd "xs", xs_uri,
                       Elem (sd "NOTSPECIFIED") [(sd "id", sd "7")] (Some (sd "text"))
                         [Elem (sd "a") [] (Some (sd "1")) []; Elem (sd "b") [] None [Elem (sd "c") [] (Some (sd "True")) []]]).
Proof.
  intros d. assert (L : alookup k_xmlOpts d = None) by (vm_compute; reflexivity).
  split; [exact L|]. rewrite (C11_doc_write_no_opts d L). vm_compute. reflexivity.
Qed.

(* NOTE (why attr_names_distinct): the element type of the model is a list of pairs, so it can hold what no XML document
   has, two attributes of the same name; the reader's dict keeps the last text at the first position. *)
Example C11_doc_duplicate_attribute_note :
  let root := Elem (sd "r") [(sd "x", sd "1"); (sd "y", sd "2"); (sd "x", sd "3")] None [] in
  attr_names_distinct [(sd "x", sd "1"); (sd "y", sd "2"); (sd "x", sd "3")] = false /\
  (exists o, xml_opts true [] root = Dict o /\
     alookup k_rootAttributes o = Some (Dict [(KS (sd "x"), Leaf (SStr (sd "3"))); (KS (sd "y"), Leaf (SStr (sd "2")))])).
Proof. intros root. split; [vm_compute; reflexivity|]. eexists. split; vm_compute; reflexivity. Qed.

(* NOTE (model and code): for a namespace prefix of the form ns<digits> (xmlns:ns0="..") format_doc answers as above, but
   the real writer raises ValueError('Prefix format reserved for internal use') in xml.etree register_namespace: such
   a document can be read but not written.  The element-tree view cannot see this; see the report. *)
