(* C11  XML mapping (element-tree level; text <-> element tree is the XML libraries' business). *)
From Coq Require Import String.   (* string literals of the examples; imported first so the list names win *)
From Coq Require Import NArith ZArith List Bool.
From DictIO Require Import Chars Str Value Scalar SDict KeyPath Reader Expr Xml TreeSpec LayoutSpec SemProofs.
Import ListNotations.

(* the running node number added on reading is removed again on writing *)
Theorem C11_numbering_removed : forall i tag, (i < 1000000)%N ->
  strip_numbering (pad6 i ++ [c_us] ++ tag) = tag.
Proof. exact numbering_removed. Qed.
Print Assumptions C11_numbering_removed.

(* non-vacuity: smallest and largest id; a tag that itself starts with digits and an underscore loses only the
   running number *)
Example C11_numbering_removed_nonvacuous :
  (42 < 1000000)%N /\ pad6 42 ++ [c_us] ++ of_string "12_Model" = of_string "000042_12_Model" /\
  strip_numbering (pad6 42 ++ [c_us] ++ of_string "12_Model") = of_string "12_Model" /\
  strip_numbering (pad6 999999 ++ [c_us] ++ of_string "x") = of_string "x".
Proof.
  assert (H : (42 < 1000000)%N) by reflexivity.
  refine (conj H (conj _ (conj (C11_numbering_removed 42 _ H) (C11_numbering_removed 999999 _ _)))); vm_compute; reflexivity.
Qed.

(* writing a dict: every scalar leaf under an ordinary key becomes the text of a child element named by that key *)
Theorem C11_write_leaf : forall tag kvs k v, wf (Dict kvs) = true ->
  alookup k kvs = Some (Leaf v) -> special_xml_key (key_text_xml k) = false -> v <> SNone ->
  In (Elem (strip_numbering (key_text_xml k)) [] (Some (py_str v)) []) (elem_children (populate tag (Dict kvs))).
Proof. exact populate_leaf. Qed.
Print Assumptions C11_write_leaf.

(* non-vacuity: a dict as the XML reader produces it (numbered keys, _attributes, _content) with leaves of several
   types; the leaf under the numbered key 000002_mass becomes the element mass *)
Example C11_write_leaf_nonvacuous :
  let kvs := [(KS (of_string "_attributes"), Dict [(KS (of_string "id"), Leaf (SInt 7))]);
              (KS (of_string "000001_name"), Leaf (SStr (of_string "two words")));
              (KS (of_string "000002_mass"), Leaf (SFloat (of_string "1.5")));
              (KS (of_string "000003_sub"), Dict [(KS (of_string "_content"), Leaf (SBool true))]);
              (KI 4, Leaf SNone)] in
  let k := KS (of_string "000002_mass") in
  wf (Dict kvs) = true /\ alookup k kvs = Some (Leaf (SFloat (of_string "1.5"))) /\
  special_xml_key (key_text_xml k) = false /\ SFloat (of_string "1.5") <> SNone /\
  In (Elem (of_string "mass") [] (Some (of_string "1.5")) []) (elem_children (populate (of_string "root") (Dict kvs))) /\
  populate (of_string "root") (Dict kvs) =
    Elem (of_string "root") [(of_string "id", of_string "7")] None
      [Elem (of_string "name") [] (Some (of_string "two words")) []; Elem (of_string "mass") [] (Some (of_string "1.5")) [];
       Elem (of_string "sub") [] (Some (of_string "True")) []; Elem (of_string "4") [] (Some []) []].
Proof.
  intros kvs k.
  assert (H1 : wf (Dict kvs) = true) by (vm_compute; reflexivity).
  assert (H2 : alookup k kvs = Some (Leaf (SFloat (of_string "1.5")))) by (vm_compute; reflexivity).
  assert (H3 : special_xml_key (key_text_xml k) = false) by (vm_compute; reflexivity).
  assert (H4 : SFloat (of_string "1.5") <> SNone) by discriminate.
  refine (conj H1 (conj H2 (conj H3 (conj H4 (conj (C11_write_leaf (of_string "root") kvs k _ H1 H2 H3 H4) _))))).
  vm_compute. reflexivity.
Qed.

(* element order is preserved: children appear in the order of the dict's ordinary keys *)
Theorem C11_write_order : forall tag kvs,
  map (fun e => match e with Elem t _ _ _ => t end) (elem_children (populate tag (Dict kvs))) =
  map (fun kv => strip_numbering (key_text_xml (fst kv))) (filter (fun kv => negb (special_xml_key (key_text_xml (fst kv)))) kvs).
Proof. exact populate_order. Qed.
Print Assumptions C11_write_order.

(* ---- the write / read cycle ------------------------------------------------------------------------- *)
From DictIO Require Import MiscSpec XmlProofs.

(* The class of element trees (XmlProofs.xml_ok): every element below the root has
     - a tag without quote characters,
     - attributes with distinct names that do not start with a digit, values that neither begin nor end with a quote
       character, and - if there are attributes at all - at least one non-empty value,
     - text (of elements without children) that, once normalised, neither begins nor end with a quote character,
     - at most 1000000 children (the six-digit counter does not wrap among siblings);
   tag, attributes and text of the root element are not looked at by the reader.
   counter_ok c : -1 <= c <= 999999, the values BorgCounter.theCount can have. *)

(* reading yields the un-numbered entries xml_entries e: one entry per child element, in document order, named by its
   tag, holding the children's entries, then _content (typed, normalised text), then _attributes (typed values) *)
Theorem C11_read_entries : forall e c, xml_ok e = true -> counter_ok c ->
  unnumber (fst (xml_parse true e c)) = xml_entries e.
Proof. exact xml_read_entries. Qed.
Print Assumptions C11_read_entries.

(* element order is kept, and with numbering on no element is lost: the keys, un-numbered, are the children's tags in
   document order (repeated tags included), and the numbered keys are pairwise distinct *)
Theorem C11_read_order : forall e c, xml_ok e = true -> counter_ok c ->
  map unnumber_key (map fst (fst (xml_parse true e c))) = map (fun ch => KS (tag_of ch)) (elem_children e)
  /\ NoDup (map fst (fst (xml_parse true e c))).
Proof. exact xml_read_order. Qed.
Print Assumptions C11_read_order.

(* writing the dict that was read gives the element tree back, up to text normalisation: text normalised and re-spelled
   by the classifier (True / False / None, 5 for +5), attributes with empty value dropped, text next to child elements
   dropped, root attributes and root text dropped *)
Theorem C11_write_inverts_read : forall e c, xml_ok e = true -> counter_ok c ->
  populate (tag_of e) (Dict (fst (xml_parse true e c))) = normalise_root e.
Proof. exact xml_write_inverts_read. Qed.
Print Assumptions C11_write_inverts_read.

(* reading, writing and reading again yields the same entries up to the running node numbers *)
Theorem C11_cycle : forall e c c2, xml_ok e = true -> counter_ok c -> counter_ok c2 ->
  unnumber (fst (xml_parse true (populate (tag_of e) (Dict (fst (xml_parse true e c)))) c2)) =
  unnumber (fst (xml_parse true e c)).
Proof. exact xml_cycle. Qed.
Print Assumptions C11_cycle.

(* a concrete tree in the class: three levels, repeated tags, attributes, typed, multi-line, empty and blank text *)
Definition s_ := of_string.
Definition C11_example : elem :=
  Elem (s_ "root") [(s_ "ra", s_ "'q'")] (Some (s_ " rt "))
    [ Elem (s_ "a") [] (Some (s_ "1.5")) [];
      Elem (s_ "a") [] (Some (s_ " true ")) [];
      Elem (s_ "b") [] (Some (s_ "None")) [];
      Elem (s_ "c") [] (Some ([c_lf; c_sp] ++ s_ "line1  " ++ [c_cr; c_lf; c_tab] ++ s_ "line2 " ++ [c_lf; c_sp])) [];
      Elem (s_ "d") [] (Some []) [];
      Elem (s_ "e") [] None [];
      Elem (s_ "f") [(s_ "x", s_ "1"); (s_ "y", []); (s_ "z", s_ "TRUE")] None [];
      Elem (s_ "g") [(s_ "k", s_ "v")] (Some (s_ "mixed"))
        [ Elem (s_ "h") [] (Some (s_ "+5")) [];
          Elem (s_ "i") [] None
            [ Elem (s_ "j") [] (Some (s_ "007")) []; Elem (s_ "j") [] (Some (s_ "it's")) [] ] ] ].
Definition C11_example_entries : list (key * tree) :=
  [ (KS (s_ "a"), Dict [(k_content, Leaf (SFloat (s_ "1.5")))]);
    (KS (s_ "a"), Dict [(k_content, Leaf (SBool true))]);
    (KS (s_ "b"), Dict [(k_content, Leaf SNone)]);
    (KS (s_ "c"), Dict [(k_content, Leaf (SStr (s_ "line1" ++ [c_lf] ++ s_ "line2")))]);
    (KS (s_ "d"), Dict []);
    (KS (s_ "e"), Dict []);
    (KS (s_ "f"), Dict [(k_attributes, Dict [(KS (s_ "x"), Leaf (SInt 1)); (KS (s_ "z"), Leaf (SBool true))])]);
    (KS (s_ "g"), Dict [ (KS (s_ "h"), Dict [(k_content, Leaf (SInt 5))]);
                         (KS (s_ "i"), Dict [ (KS (s_ "j"), Dict [(k_content, Leaf (SInt 7))]);
                                              (KS (s_ "j"), Dict [(k_content, Leaf (SStr (s_ "it's")))]) ]);
                         (k_attributes, Dict [(KS (s_ "k"), Leaf (SStr (s_ "v")))]) ]) ].
Example C11_cycle_nonvacuous :
  xml_ok C11_example = true
  /\ unnumber (fst (xml_parse true C11_example (-1))) = C11_example_entries
  /\ unnumber (fst (xml_parse true (populate (tag_of C11_example) (Dict (fst (xml_parse true C11_example (-1))))) 999997))
     = C11_example_entries
  /\ keys_nodup (map fst (fst (xml_parse true C11_example (-1)))) = true
  /\ populate (tag_of C11_example) (Dict (fst (xml_parse true C11_example (-1)))) = normalise_root C11_example.
Proof. repeat split; vm_compute; reflexivity. Qed.

(* ================================================================================================== *)
(* added from Properties/C11_add.v (2026-10-01)                                              *)
(* ================================================================================================== *)
(* C11 additions: nested key paths on writing, reading without node numbering, the shape of every entry *)
From Coq Require Import String.   (* string literals of the examples; imported first so the list names win *)
From Coq Require Import NArith ZArith List Bool.
From DictIO Require Import Chars Str Value Scalar SDict KeyPath Reader Expr Xml TreeSpec LayoutSpec MiscSpec SemProofs
     XmlProofs XmlMoreProofs.
Import ListNotations.

(* ---- writing: every scalar leaf is the text of the element addressed by its key path ------------------ *)
(* vocabulary (XmlMoreProofs):
     ordinary_key k      the key makes a child element (it is not _content.., _attrib.., _..Opts, INCLUDE.., a comment key)
     xml_tag_of_key k    the key as text without a running node number
     xml_pos k kvs       number of ordinary entries in front of the entry k: the position of its child element
     xml_pos_path t p    these positions along the key path p
     elem_at e ps        the element reached from e through the child positions ps; tags_at e ps: the tags passed
     leaf_text v         str(v), and the empty text for None *)
Theorem C11_write_leaf_path : forall p k tag kvs v,
  get_dpath (Dict kvs) (k :: p) = Some (Leaf v) -> forallb ordinary_key (k :: p) = true ->
  elem_at (populate tag (Dict kvs)) (xml_pos_path (Dict kvs) (k :: p)) =
    Some (Elem (xml_tag_of_key (last (k :: p) k)) [] (Some (leaf_text v)) [])
  /\ tags_at (populate tag (Dict kvs)) (xml_pos_path (Dict kvs) (k :: p)) = map xml_tag_of_key (k :: p).
Proof. exact populate_leaf_path. Qed.
Print Assumptions C11_write_leaf_path.

(* the same for whole subtrees: the subtree at a key path is written as the element at the corresponding positions *)
Theorem C11_write_subtree_path : forall p k tag kvs c,
  get_dpath (Dict kvs) (k :: p) = Some c -> forallb ordinary_key (k :: p) = true ->
  elem_at (populate tag (Dict kvs)) (xml_pos_path (Dict kvs) (k :: p)) = Some (pop_child (last (k :: p) k, c))
  /\ tags_at (populate tag (Dict kvs)) (xml_pos_path (Dict kvs) (k :: p)) = map xml_tag_of_key (k :: p).
Proof. exact populate_path. Qed.
Print Assumptions C11_write_subtree_path.

(* and for the text of inner elements: the (last) _content entry of the dict at a key path is the text of the element
   addressed by the path *)
Theorem C11_write_content_path : forall p k tag kvs kvs',
  get_dpath (Dict kvs) (k :: p) = Some (Dict kvs') -> forallb ordinary_key (k :: p) = true ->
  exists e, elem_at (populate tag (Dict kvs)) (xml_pos_path (Dict kvs) (k :: p)) = Some e /\
            tag_of e = xml_tag_of_key (last (k :: p) k) /\
            elem_text e = match rev (filter content_key kvs') with
                          | kt :: _ => Some (content_text (snd kt))
                          | [] => None
                          end.
Proof. exact populate_content_path. Qed.
Print Assumptions C11_write_content_path.

(* non-vacuity: three levels, special keys in front (they make no element, so positions and keys differ), numbered
   and repeated tags, a None leaf, a multi-line _content *)
Definition sx := of_string.
Definition C11_path_dict : list (key * tree) :=
  [ (KS (sx "_xmlOpts"), Dict [(KS (sx "_rootTag"), Leaf (SStr (sx "root")))]);
    (KS (sx "000001_a"), Leaf (SInt 1));
    (KS (sx "_attributes"), Dict [(KS (sx "id"), Leaf (SInt 7))]);
    (KS (sx "000002_a"), Dict
       [ (KS (sx "_content"), Leaf (SStr (sx "l1" ++ [c_lf] ++ sx "l2")));
         (KS (sx "b"), Leaf SNone);
         (KS (sx "INCLUDE"), Leaf (SStr (sx "x")));
         (KS (sx "c"), Dict [ (KS (sx "_attributes"), Dict [(KS (sx "u"), Leaf (SBool true))]);
                              (KS (sx "000007_d"), Leaf (SFloat (sx "2.50")));
                              (KS (sx "e"), Leaf (SBool false)) ]) ]) ].
Example C11_write_leaf_path_nonvacuous :
  let p := [KS (sx "000002_a"); KS (sx "c"); KS (sx "000007_d")] in
  let p2 := [KS (sx "000002_a"); KS (sx "b")] in
  get_dpath (Dict C11_path_dict) p = Some (Leaf (SFloat (sx "2.50"))) /\ forallb ordinary_key p = true /\
  xml_pos_path (Dict C11_path_dict) p = [1; 1; 0]%nat /\
  elem_at (populate (sx "root") (Dict C11_path_dict)) [1; 1; 0]%nat = Some (Elem (sx "d") [] (Some (sx "2.50")) []) /\
  tags_at (populate (sx "root") (Dict C11_path_dict)) [1; 1; 0]%nat = [sx "a"; sx "c"; sx "d"] /\
  get_dpath (Dict C11_path_dict) p2 = Some (Leaf SNone) /\
  elem_at (populate (sx "root") (Dict C11_path_dict)) [1; 0]%nat = Some (Elem (sx "b") [] (Some []) []) /\
  (exists e, elem_at (populate (sx "root") (Dict C11_path_dict)) [1]%nat = Some e /\ tag_of e = sx "a" /\
             elem_text e = Some ([c_lf] ++ sx "l1" ++ [c_lf] ++ sx "l2" ++ [c_lf])) /\
  populate (sx "root") (Dict C11_path_dict) =
    Elem (sx "root") [(sx "id", sx "7")] None
      [ Elem (sx "a") [] (Some (sx "1")) [];
        Elem (sx "a") [] (Some ([c_lf] ++ sx "l1" ++ [c_lf] ++ sx "l2" ++ [c_lf]))
          [ Elem (sx "b") [] (Some []) [];
            Elem (sx "c") [(sx "u", sx "true")] None
              [ Elem (sx "d") [] (Some (sx "2.50")) []; Elem (sx "e") [] (Some (sx "False")) [] ] ] ].
Proof.
  intros p p2.
  assert (H1 : get_dpath (Dict C11_path_dict) p = Some (Leaf (SFloat (sx "2.50")))) by (vm_compute; reflexivity).
  assert (H2 : forallb ordinary_key p = true) by (vm_compute; reflexivity).
  assert (H3 : get_dpath (Dict C11_path_dict) p2 = Some (Leaf SNone)) by (vm_compute; reflexivity).
  assert (H4 : forallb ordinary_key p2 = true) by (vm_compute; reflexivity).
  assert (H5 : get_dpath (Dict C11_path_dict) [KS (sx "000002_a")] =
               Some (Dict [ (KS (sx "_content"), Leaf (SStr (sx "l1" ++ [c_lf] ++ sx "l2")));
                            (KS (sx "b"), Leaf SNone);
                            (KS (sx "INCLUDE"), Leaf (SStr (sx "x")));
                            (KS (sx "c"), Dict [ (KS (sx "_attributes"), Dict [(KS (sx "u"), Leaf (SBool true))]);
                                                 (KS (sx "000007_d"), Leaf (SFloat (sx "2.50")));
                                                 (KS (sx "e"), Leaf (SBool false)) ]) ])) by (vm_compute; reflexivity).
  pose proof (C11_write_leaf_path _ _ (sx "root") _ _ H1 H2) as [A1 A2].
  pose proof (C11_write_leaf_path _ _ (sx "root") _ _ H3 H4) as [B1 _].
  pose proof (C11_write_content_path [] _ (sx "root") _ _ H5 eq_refl) as C1.
  split; [exact H1|]. split; [exact H2|]. split; [vm_compute; reflexivity|].
  split; [exact A1|]. split; [exact A2|]. split; [exact H3|]. split; [exact B1|]. split; [exact C1|].
  vm_compute. reflexivity.
Qed.

(* ---- reading without node numbering (XmlParser(add_node_numbering=False)) ----------------------------- *)
(* The class xml_ok_off (XmlMoreProofs) = xml_ok and, at every level below the root,
     - the tags of sibling elements are pairwise distinct,
     - every tag is off_tag: a plain word for parse_key (not true / false / on / off / none / null in any case, which
       Python turns into the keys True / False / None, and no quote at either end), an ordinary key for the writer
       (not _content.., _attrib.., _..Opts, INCLUDE.., BLOCKCOMMENT<n>, LINECOMMENT<n>), and not of the form
       <1-6 digits>_<rest> (the writer would remove such a prefix as a node number).
   Then the keys are the bare tags, in document order, pairwise distinct, and the result is literally xml_entries e. *)
Theorem C11_numbering_off_distinct_tags : forall e c, xml_ok_off e = true -> counter_ok c ->
  fst (xml_parse false e c) = xml_entries e
  /\ map fst (fst (xml_parse false e c)) = map (fun ch => KS (tag_of ch)) (elem_children e)
  /\ NoDup (map fst (fst (xml_parse false e c))).
Proof. exact xml_off_distinct_tags. Qed.
Print Assumptions C11_numbering_off_distinct_tags.

(* writing what was read gives the element tree back up to text normalisation, as with numbering *)
Theorem C11_numbering_off_write_inverts_read : forall e c, xml_ok_off e = true -> counter_ok c ->
  populate (tag_of e) (Dict (fst (xml_parse false e c))) = normalise_root e.
Proof. exact xml_off_write_inverts_read'. Qed.
Print Assumptions C11_numbering_off_write_inverts_read.

(* the cycle holds literally: no "up to the running node numbers" *)
Theorem C11_numbering_off_cycle : forall e c c2, xml_ok_off e = true -> counter_ok c -> counter_ok c2 ->
  fst (xml_parse false (populate (tag_of e) (Dict (fst (xml_parse false e c)))) c2) = fst (xml_parse false e c).
Proof. exact xml_off_cycle'. Qed.
Print Assumptions C11_numbering_off_cycle.

(* and the entries read with numbering are, without the numbers, those read without numbering *)
Theorem C11_numbering_on_off : forall e c c', xml_ok_off e = true -> counter_ok c -> counter_ok c' ->
  unnumber (fst (xml_parse true e c)) = fst (xml_parse false e c').
Proof. exact xml_on_off'. Qed.
Print Assumptions C11_numbering_on_off.

(* non-vacuity: three levels, attributes (one empty), typed, multi-line and missing text; the tag a occurs twice, but
   not among siblings *)
Definition C11_off_example : elem :=
  Elem (sx "root") [(sx "ra", sx "'q'")] (Some (sx " rt "))
    [ Elem (sx "a") [] (Some (sx "1.5")) [];
      Elem (sx "b") [] (Some (sx " true ")) [];
      Elem (sx "c") [] (Some ([c_lf; c_sp] ++ sx "line1  " ++ [c_cr; c_lf; c_tab] ++ sx "line2 " ++ [c_lf; c_sp])) [];
      Elem (sx "d") [] None [];
      Elem (sx "f") [(sx "x", sx "1"); (sx "y", []); (sx "z", sx "TRUE")] None [];
      Elem (sx "g") [(sx "k", sx "v")] (Some (sx "mixed"))
        [ Elem (sx "a") [] (Some (sx "+5")) [];
          Elem (sx "i") [] None
            [ Elem (sx "j") [] (Some (sx "007")) []; Elem (sx "k") [] (Some (sx "it's")) [] ] ] ].
Definition C11_off_example_entries : list (key * tree) :=
  [ (KS (sx "a"), Dict [(k_content, Leaf (SFloat (sx "1.5")))]);
    (KS (sx "b"), Dict [(k_content, Leaf (SBool true))]);
    (KS (sx "c"), Dict [(k_content, Leaf (SStr (sx "line1" ++ [c_lf] ++ sx "line2")))]);
    (KS (sx "d"), Dict []);
    (KS (sx "f"), Dict [(k_attributes, Dict [(KS (sx "x"), Leaf (SInt 1)); (KS (sx "z"), Leaf (SBool true))])]);
    (KS (sx "g"), Dict [ (KS (sx "a"), Dict [(k_content, Leaf (SInt 5))]);
                         (KS (sx "i"), Dict [ (KS (sx "j"), Dict [(k_content, Leaf (SInt 7))]);
                                              (KS (sx "k"), Dict [(k_content, Leaf (SStr (sx "it's")))]) ]);
                         (k_attributes, Dict [(KS (sx "k"), Leaf (SStr (sx "v")))]) ]) ].
Example C11_numbering_off_nonvacuous :
  xml_ok_off C11_off_example = true
  /\ fst (xml_parse false C11_off_example (-1)) = C11_off_example_entries
  /\ xml_entries C11_off_example = C11_off_example_entries
  /\ fst (xml_parse false (populate (tag_of C11_off_example) (Dict (fst (xml_parse false C11_off_example (-1))))) 999997)
     = fst (xml_parse false C11_off_example (-1))
  /\ unnumber (fst (xml_parse true C11_off_example 999997)) = fst (xml_parse false C11_off_example (-1))
  /\ populate (tag_of C11_off_example) (Dict (fst (xml_parse false C11_off_example (-1)))) = normalise_root C11_off_example.
Proof.
  assert (H : xml_ok_off C11_off_example = true) by (vm_compute; reflexivity).
  assert (Hc : counter_ok (-1)) by (unfold counter_ok; split; discriminate).
  assert (Hc2 : counter_ok 999997) by (unfold counter_ok; split; discriminate).
  destruct (C11_numbering_off_distinct_tags _ _ H Hc) as (E1 & _ & _).
  assert (E2 : xml_entries C11_off_example = C11_off_example_entries) by (vm_compute; reflexivity).
  split; [exact H|]. split; [rewrite E1; exact E2|]. split; [exact E2|].
  split; [exact (C11_numbering_off_cycle _ _ _ H Hc Hc2)|].
  split; [exact (C11_numbering_on_off _ _ _ H Hc2 Hc)|].
  exact (C11_numbering_off_write_inverts_read _ _ H Hc).
Qed.

(* FINDING (repeated sibling tags without numbering): the entries collide.  Of several siblings with the same tag only
   the LAST one survives, at the position of the FIRST; text and attributes of the earlier ones are lost (here: 1.5 and
   id="1" of the first a, and the first d).  The real library does the same (dict assignment parsed_dict[key] = ..). *)
Definition C11_off_repeated : elem :=
  Elem (sx "root") [] None
    [ Elem (sx "a") [(sx "id", sx "1")] (Some (sx "1.5")) [];
      Elem (sx "b") [] (Some (sx "x")) [];
      Elem (sx "a") [] (Some (sx "two")) [];
      Elem (sx "c") [] None [ Elem (sx "d") [] (Some (sx "1")) []; Elem (sx "d") [(sx "k", sx "v")] None [] ] ].
Example C11_numbering_off_repeated_tags_finding :
  xml_ok C11_off_repeated = true /\ sib_ok C11_off_repeated = false
  /\ fst (xml_parse false C11_off_repeated (-1)) =
       [ (KS (sx "a"), Dict [(k_content, Leaf (SStr (sx "two")))]);
         (KS (sx "b"), Dict [(k_content, Leaf (SStr (sx "x")))]);
         (KS (sx "c"), Dict [(KS (sx "d"), Dict [(k_attributes, Dict [(KS (sx "k"), Leaf (SStr (sx "v")))])])]) ]
  /\ length (fst (xml_parse false C11_off_repeated (-1))) = 3%nat /\ length (elem_children C11_off_repeated) = 4%nat
  /\ populate (sx "root") (Dict (fst (xml_parse false C11_off_repeated (-1)))) =
       Elem (sx "root") [] None
         [ Elem (sx "a") [] (Some (sx "two")) []; Elem (sx "b") [] (Some (sx "x")) [];
           Elem (sx "c") [] None [ Elem (sx "d") [(sx "k", sx "v")] None [] ] ]
  /\ map unnumber_key (map fst (fst (xml_parse true C11_off_repeated (-1)))) =
       [KS (sx "a"); KS (sx "b"); KS (sx "a"); KS (sx "c")].
Proof. repeat split; vm_compute; reflexivity. Qed.

(* FINDING (a tag that is a special key for the writer, here _content, without numbering): the element is read under
   the key _content, which the writer takes for the text of the parent: the element is not written back, its dict is
   written as the parent's text.  With numbering the key is 000000__content and the element survives.  The real
   library does the same. *)
Definition C11_off_special : elem :=
  Elem (sx "root") [] None [ Elem (sx "_content") [] (Some (sx "4")) []; Elem (sx "x") [] (Some (sx "5")) [] ].
Example C11_numbering_off_special_tag_finding :
  xml_ok C11_off_special = true /\ sib_ok C11_off_special = false
  /\ fst (xml_parse false C11_off_special (-1)) =
       [ (KS (sx "_content"), Dict [(k_content, Leaf (SInt 4))]); (KS (sx "x"), Dict [(k_content, Leaf (SInt 5))]) ]
  /\ populate (sx "root") (Dict (fst (xml_parse false C11_off_special (-1)))) =
       Elem (sx "root") [] (Some (sx "{'_content': 4}")) [ Elem (sx "x") [] (Some (sx "5")) [] ]
  /\ populate (sx "root") (Dict (fst (xml_parse true C11_off_special (-1)))) =
       Elem (sx "root") [] None [ Elem (sx "_content") [] (Some (sx "4")) []; Elem (sx "x") [] (Some (sx "5")) [] ].
Proof. repeat split; vm_compute; reflexivity. Qed.

(* NOTE (tags that parse_key does not keep as strings, without numbering): for the tags true and on the model keeps the
   string keys "true" and "on" (float / bool / None keys are outside the modelled key domain, Scalar.scalar_to_key);
   the real library turns both into the key True, so that the two elements collide ({True: {'_content': 2}}) and are
   written back as one element <True>.  off_tag excludes these tags; this is where model and code differ. *)
Definition C11_off_words : elem :=
  Elem (sx "root") [] None [ Elem (sx "true") [] (Some (sx "1")) []; Elem (sx "on") [] (Some (sx "2")) [] ].
Example C11_numbering_off_word_tag_note :
  xml_ok C11_off_words = true /\ off_tag (sx "true") = false /\ off_tag (sx "on") = false /\ off_tag (sx "None") = false
  /\ off_tag (sx "_content") = false /\ off_tag (sx "12_a") = false /\ off_tag (sx "a12_b") = true /\ off_tag (sx "_") = true
  /\ fst (xml_parse false C11_off_words (-1)) =
       [ (KS (sx "true"), Dict [(k_content, Leaf (SInt 1))]); (KS (sx "on"), Dict [(k_content, Leaf (SInt 2))]) ].
Proof. repeat split; vm_compute; reflexivity. Qed.

(* ---- reading with numbering: the shape of every entry --------------------------------------------------- *)
(* For every element e of the class and every i: the i-th child element <tag attrs>text kids</tag> makes the i-th
   entry (and there are no other entries).  Its key is the tag with a six-digit running number in front
   (C11_numbering_removed takes it off again); its value is ALWAYS a dict (also for an element with text only, or
   with nothing at all), made of
     - for an element without child elements: _content = the typed, normalised text, if the text is not blank
       (content_part);   for an element with child elements: the entries of these, recursively - this very theorem
       applies to them, the child is in the class again and its entries are its own xml_parse result - and NO _content
       (text next to child elements is dropped),
     - then _attributes = the attributes with non-empty value, typed, if the element has attributes at all
       (attrs_part). *)
Theorem C11_entry_shape : forall e c, xml_ok e = true -> counter_ok c ->
  length (fst (xml_parse true e c)) = length (elem_children e) /\
  forall i tag attrs text kids, nth_error (elem_children e) i = Some (Elem tag attrs text kids) ->
  exists n body, (0 <= n < 1000000)%Z /\
    nth_error (fst (xml_parse true e c)) i =
      Some (KS (pad6 (Z.to_N n) ++ [c_us] ++ tag), Dict (body ++ attrs_part attrs)) /\
    match kids with
    | [] => body = content_part text
    | _ => xml_ok (Elem tag attrs text kids) = true /\
           exists c', counter_ok c' /\ body = fst (xml_parse true (Elem tag attrs text kids) c')
    end.
Proof. exact xml_entry_shape. Qed.
Print Assumptions C11_entry_shape.

(* the same by lookups: what is found under _content and _attributes in the i-th entry *)
Theorem C11_entry_lookup : forall e c i tag attrs text kids k v, xml_ok e = true -> counter_ok c ->
  nth_error (elem_children e) i = Some (Elem tag attrs text kids) ->
  nth_error (fst (xml_parse true e c)) i = Some (k, v) ->
  unnumber_key k = KS tag /\
  exists d, v = Dict d /\
    alookup k_content d = match kids with [] => typed_content text | _ => None end /\
    alookup k_attributes d = typed_attributes attrs /\
    match kids with
    | [] => d = content_part text ++ attrs_part attrs
    | _ => exists c', counter_ok c' /\ d = fst (xml_parse true (Elem tag attrs text kids) c') ++ attrs_part attrs
    end.
Proof. exact xml_entry_lookup. Qed.
Print Assumptions C11_entry_lookup.

(* non-vacuity: entry 5 of the example above (element g: attributes, text next to children, two levels of children),
   read with the counter about to wrap; entry 4 (element f: attributes only, one of them empty); entry 3 (element d:
   nothing at all, still a dict) *)
Example C11_entry_shape_nonvacuous :
  let e := C11_off_example in
  let g := Elem (sx "g") [(sx "k", sx "v")] (Some (sx "mixed"))
             [ Elem (sx "a") [] (Some (sx "+5")) [];
               Elem (sx "i") [] None [ Elem (sx "j") [] (Some (sx "007")) []; Elem (sx "k") [] (Some (sx "it's")) [] ] ] in
  xml_ok e = true /\ nth_error (elem_children e) 5 = Some g /\
  (exists n body, (0 <= n < 1000000)%Z /\
     nth_error (fst (xml_parse true e 999997)) 5 =
       Some (KS (pad6 (Z.to_N n) ++ [c_us] ++ sx "g"), Dict (body ++ attrs_part [(sx "k", sx "v")])) /\
     xml_ok g = true /\ exists c', counter_ok c' /\ body = fst (xml_parse true g c')) /\
  nth_error (fst (xml_parse true e 999997)) 5 =
    Some (KS (sx "000003_g"),
          Dict [ (KS (sx "000004_a"), Dict [(k_content, Leaf (SInt 5))]);
                 (KS (sx "000005_i"), Dict [ (KS (sx "000006_j"), Dict [(k_content, Leaf (SInt 7))]);
                                             (KS (sx "000007_k"), Dict [(k_content, Leaf (SStr (sx "it's")))]) ]);
                 (k_attributes, Dict [(KS (sx "k"), Leaf (SStr (sx "v")))]) ]) /\
  nth_error (fst (xml_parse true e 999997)) 4 =
    Some (KS (sx "000002_f"), Dict [(k_attributes, Dict [(KS (sx "x"), Leaf (SInt 1)); (KS (sx "z"), Leaf (SBool true))])]) /\
  nth_error (fst (xml_parse true e 999997)) 3 = Some (KS (sx "000001_d"), Dict []) /\
  nth_error (fst (xml_parse true e 999997)) 0 = Some (KS (sx "999998_a"), Dict [(k_content, Leaf (SFloat (sx "1.5")))]).
Proof.
  intros e g.
  assert (H : xml_ok e = true) by (vm_compute; reflexivity).
  assert (Hc : counter_ok 999997) by (unfold counter_ok; split; discriminate).
  assert (Hi : nth_error (elem_children e) 5 = Some g) by reflexivity.
  destruct (C11_entry_shape e 999997 H Hc) as [_ S].
  split; [exact H|]. split; [exact Hi|]. split; [exact (S 5%nat _ _ _ _ Hi)|].
  repeat split; vm_compute; reflexivity.
Qed.

Example C11_entry_lookup_nonvacuous :
  let e := C11_off_example in
  let k := KS (sx "000002_f") in
  let v := Dict [(k_attributes, Dict [(KS (sx "x"), Leaf (SInt 1)); (KS (sx "z"), Leaf (SBool true))])] in
  xml_ok e = true /\
  nth_error (elem_children e) 4 = Some (Elem (sx "f") [(sx "x", sx "1"); (sx "y", []); (sx "z", sx "TRUE")] None []) /\
  nth_error (fst (xml_parse true e 999997)) 4 = Some (k, v) /\
  unnumber_key k = KS (sx "f") /\
  exists d, v = Dict d /\ alookup k_content d = None /\
            alookup k_attributes d = Some (Dict [(KS (sx "x"), Leaf (SInt 1)); (KS (sx "z"), Leaf (SBool true))]).
Proof.
  intros e k v.
  assert (H : xml_ok e = true) by (vm_compute; reflexivity).
  assert (Hc : counter_ok 999997) by (unfold counter_ok; split; discriminate).
  assert (Hi : nth_error (elem_children e) 4 = Some (Elem (sx "f") [(sx "x", sx "1"); (sx "y", []); (sx "z", sx "TRUE")] None []))
    by reflexivity.
  assert (Hk : nth_error (fst (xml_parse true e 999997)) 4 = Some (k, v)) by (vm_compute; reflexivity).
  destruct (C11_entry_lookup e 999997 4%nat _ _ _ _ k v H Hc Hi Hk) as (U & d & Ev & L1 & L2 & _).
  split; [exact H|]. split; [exact Hi|]. split; [exact Hk|]. split; [exact U|].
  exists d. split; [exact Ev|]. split; [exact L1|]. rewrite L2. vm_compute. reflexivity.
Qed.

(* ================================================================================================== *)
(* non-vacuity examples added after the reviewer's audit (Properties/C11_nv.v, 2026-10-01)         *)
(* ================================================================================================== *)

(* ==== non-vacuity instances obtained BY APPLYING the theorems above (added after review) ================== *)

(* C11_write_order: special keys (_attributes) between the ordinary ones, numbered keys, an int key *)
Example C11_write_order_nonvacuous :
  let kvs := [(KS (of_string "_attributes"), Dict [(KS (of_string "id"), Leaf (SInt 7))]);
              (KS (of_string "000001_name"), Leaf (SStr (of_string "two words")));
              (KS (of_string "_content"), Leaf (SStr (of_string "text")));
              (KS (of_string "000002_mass"), Leaf (SFloat (of_string "1.5")));
              (KS (of_string "000003_name"), Dict [(KS (of_string "_content"), Leaf (SBool true))]);
              (KI 4, Leaf SNone)] in
  map (fun e => match e with Elem t _ _ _ => t end) (elem_children (populate (of_string "root") (Dict kvs))) =
  map (fun kv => strip_numbering (key_text_xml (fst kv))) (filter (fun kv => negb (special_xml_key (key_text_xml (fst kv)))) kvs) /\
  map (fun e => match e with Elem t _ _ _ => t end) (elem_children (populate (of_string "root") (Dict kvs))) =
  [of_string "name"; of_string "mass"; of_string "name"; of_string "4"].
Proof. intros kvs. split; [exact (C11_write_order (of_string "root") kvs) | vm_compute; reflexivity]. Qed.

(* C11_read_entries, C11_read_order, C11_write_inverts_read, C11_cycle on C11_example (three levels, repeated tags,
   attributes, typed, multi-line, empty and blank text), the counter two steps before the wrap-around: the eight
   children of the root are numbered 999998 999999 000000 .. 000005 *)
Lemma C11nv_ok : xml_ok C11_example = true /\ counter_ok 999997 /\ counter_ok (-1).
Proof. split; [vm_compute; reflexivity|]. unfold counter_ok. repeat split; discriminate. Qed.

Example C11_read_entries_nonvacuous :
  xml_ok C11_example = true /\ counter_ok 999997 /\
  unnumber (fst (xml_parse true C11_example 999997)) = xml_entries C11_example /\ xml_entries C11_example = C11_example_entries.
Proof.
  destruct C11nv_ok as (H & Hc & _). refine (conj H (conj Hc (conj (C11_read_entries _ _ H Hc) _))). vm_compute. reflexivity.
Qed.

Example C11_read_order_nonvacuous :
  let e := C11_example in
  (map unnumber_key (map fst (fst (xml_parse true e 999997))) = map (fun ch => KS (tag_of ch)) (elem_children e) /\
   NoDup (map fst (fst (xml_parse true e 999997)))) /\
  map fst (fst (xml_parse true e 999997)) =
    map (fun s => KS (of_string s)) ["999998_a"; "999999_a"; "000000_b"; "000001_c"; "000002_d"; "000003_e"; "000004_f"; "000005_g"]%string /\
  map (fun ch => KS (tag_of ch)) (elem_children e) = map (fun s => KS (of_string s)) ["a"; "a"; "b"; "c"; "d"; "e"; "f"; "g"]%string.
Proof.
  intros e. destruct C11nv_ok as (H & Hc & _). split; [exact (C11_read_order e _ H Hc)|]. split; vm_compute; reflexivity.
Qed.

Example C11_write_inverts_read_nonvacuous :
  let e := C11_example in
  populate (tag_of e) (Dict (fst (xml_parse true e 999997))) = normalise_root e /\
  elem_children (normalise_root e) <> elem_children e /\
  nth_error (elem_children (normalise_root e)) 1 = Some (Elem (s_ "a") [] (Some (s_ "True")) []) /\
  nth_error (elem_children e) 1 = Some (Elem (s_ "a") [] (Some (s_ " true ")) []).
Proof.
  intros e. destruct C11nv_ok as (H & Hc & _). split; [exact (C11_write_inverts_read e _ H Hc)|].
  split; [vm_compute; discriminate|]. split; vm_compute; reflexivity.
Qed.

(* the second read starts from a fresh counter: other node numbers, the same entries *)
Example C11_cycle_applied :
  let e := C11_example in
  unnumber (fst (xml_parse true (populate (tag_of e) (Dict (fst (xml_parse true e 999997)))) (-1))) =
  unnumber (fst (xml_parse true e 999997)) /\
  map fst (fst (xml_parse true (populate (tag_of e) (Dict (fst (xml_parse true e 999997)))) (-1))) <> map fst (fst (xml_parse true e 999997)).
Proof.
  intros e. destruct C11nv_ok as (H & Hc & Hc2). split; [exact (C11_cycle e _ _ H Hc Hc2)|]. vm_compute. discriminate.
Qed.

(* C11_write_subtree_path: a key path of length three through a numbered key, an INT key and a numbered key, with special
   keys and a comment placeholder in front (they make no element, so positions and keys differ); the subtree is a dict
   with attributes, text, a numbered leaf, a list and a dict under an int key *)
Definition C11nv_sub : tree :=
  Dict [ (KS (sx "_attributes"), Dict [(KS (sx "u"), Leaf (SBool true))]);
         (KS (sx "000007_d"), Leaf (SFloat (sx "2.50")));
         (KS (sx "_content"), Leaf (SStr (sx "text of c")));
         (KS (sx "e"), Lst [Leaf (SInt 1); Leaf (SStr (sx "two words"))]);
         (KI 12, Dict [(KS (sx "_content"), Leaf SNone)]) ].
Definition C11nv_dict : list (key * tree) :=
  [ (KS (sx "_xmlOpts"), Dict [(KS (sx "_rootTag"), Leaf (SStr (sx "root")))]);
    (KS (sx "000001_a"), Leaf (SInt 1));
    (KS (sx "_attributes"), Dict [(KS (sx "id"), Leaf (SInt 7))]);
    (KS (sx "000002_a"), Dict
       [ (KS (sx "_content"), Leaf (SStr (sx "l1" ++ [c_lf] ++ sx "l2")));
         (KS (sx "b"), Leaf SNone);
         (KS (sx "INCLUDE"), Leaf (SStr (sx "x")));
         (KI 4, Dict [ (KS (sx "LINECOMMENT000003"), Leaf (SStr (sx "LINECOMMENT000003"))); (KS (sx "000009_c"), C11nv_sub) ]) ]) ].
Example C11_write_subtree_path_nonvacuous :
  let p := [KS (sx "000002_a"); KI 4; KS (sx "000009_c")] in
  get_dpath (Dict C11nv_dict) p = Some C11nv_sub /\ forallb ordinary_key p = true /\
  xml_pos_path (Dict C11nv_dict) p = [1; 1; 0]%nat /\
  (elem_at (populate (sx "root") (Dict C11nv_dict)) (xml_pos_path (Dict C11nv_dict) p) = Some (pop_child (KS (sx "000009_c"), C11nv_sub)) /\
   tags_at (populate (sx "root") (Dict C11nv_dict)) (xml_pos_path (Dict C11nv_dict) p) = map xml_tag_of_key p) /\
  pop_child (KS (sx "000009_c"), C11nv_sub) =
    Elem (sx "c") [(sx "u", sx "true")] (Some (sx "text of c"))
      [Elem (sx "d") [] (Some (sx "2.50")) []; Elem (sx "e") [] (Some (sx "1 two words")) []; Elem (sx "12") [] (Some (sx "None")) []] /\
  map xml_tag_of_key p = [sx "a"; sx "4"; sx "c"].
Proof.
  intros p.
  assert (H1 : get_dpath (Dict C11nv_dict) p = Some C11nv_sub) by (vm_compute; reflexivity).
  assert (H2 : forallb ordinary_key p = true) by (vm_compute; reflexivity).
  refine (conj H1 (conj H2 (conj _ (conj (C11_write_subtree_path _ _ (sx "root") _ _ H1 H2) (conj _ _))))); vm_compute; reflexivity.
Qed.
