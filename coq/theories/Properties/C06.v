(* C06  Include merging (logic part; completeness / precedence over whole graphs is established per run by the
   check against an independent closure fold, see DESIGN.md). *)
From Coq Require Import String.   (* string literals of the examples; imported first so the list names win *)
From Coq Require Import NArith ZArith List Bool.
From DictIO Require Import Chars Str Value Scalar SDict Lexer TokParser Reader TreeSpec LayoutSpec SemProofs.
Import ListNotations.

(* with include processing switched off no include entry is returned *)
Theorem C06_off_no_include_entry : forall fs root com c s c',
  read_plain fs root false com c = Ok (s, c') ->
  forallb (fun kv => match fst kv with KS k => negb (has_include_mark k) | KI _ => true end) (sd_data s) = true.
Proof. exact read_off_no_include. Qed.
Print Assumptions C06_off_no_include_entry.

(* non-vacuity: a two-file tree whose root has an include directive (the files include each other); with include
   processing off the read succeeds, and the result has the root's own entries and no include placeholder *)
Module C06_nonvacuous.
  Definition file_a := of_string "#include 'sub/b'
x 1;
d { y 2; }
".
  Definition file_b := of_string "#include '../a'
x 9;
z 3;
d { y 8; w 4; }
".
  Definition fs : fsys := [(of_string "/r/a", FNative file_a); (of_string "/r/sub/b", FNative file_b)].
End C06_nonvacuous.
Example C06_off_no_include_entry_nonvacuous :
  exists s c', read_plain C06_nonvacuous.fs (of_string "/r/a") false true 0 = Ok (s, c') /\
    sd_data s = [(KS (of_string "x"), Leaf (SInt 1)); (KS (of_string "d"), Dict [(KS (of_string "y"), Leaf (SInt 2))])] /\
    forallb (fun kv => match fst kv with KS k => negb (has_include_mark k) | KI _ => true end) (sd_data s) = true.
Proof.
  destruct (read_plain C06_nonvacuous.fs (of_string "/r/a") false true 0) as [[s c']|e] eqn:E; [|vm_compute in E; discriminate E].
  exists s, c'. split; [reflexivity|]. split; [vm_compute in E; injection E as <- _; reflexivity|].
  exact (C06_off_no_include_entry _ _ _ _ _ _ E).
Qed.
(* the same tree with include processing on: the cyclic graph is read without running out of fuel, existing entries win
   (x stays 1, d.y stays 2), new ones are added (z, d.w) *)
Example C06_cyclic_graph_example :
  exists s c', read_plain C06_nonvacuous.fs (of_string "/r/a") true true 0 = Ok (s, c') /\
    remove_include_keys (sd_data s) =
      [(KS (of_string "x"), Leaf (SInt 1));
       (KS (of_string "d"), Dict [(KS (of_string "y"), Leaf (SInt 2)); (KS (of_string "w"), Leaf (SInt 4))]);
       (KS (of_string "z"), Leaf (SInt 3))].
Proof. eexists. eexists. split; [vm_compute; reflexivity|]. vm_compute. reflexivity. Qed.

(* a file that is already on the current include chain is never parsed again: the recursion is cut there *)
Theorem C06_chain_cut : forall p chain, in_chain p (chain ++ [p]) = true.
Proof. exact chain_cut. Qed.
Print Assumptions C06_chain_cut.

(* include paths are anchored at the directory of the file that contains the directive *)
Theorem C06_anchor : forall dirc name, name <> [] -> (match name with c :: _ => (c =? c_slash)%N = false | [] => True end) ->
  path_join dirc name = dirc ++ [c_slash] ++ name.
Proof. exact include_anchor. Qed.
Print Assumptions C06_anchor.

Example C06_anchor_nonvacuous :
  let dirc := of_string "/r/sub" in let name := of_string "../a" in
  name <> [] /\ (match name with c :: _ => (c =? c_slash)%N = false | [] => True end) /\
  path_join dirc name = of_string "/r/sub/../a".
Proof.
  intros dirc name. assert (H1 : name <> []) by discriminate.
  assert (H2 : match name with c :: _ => (c =? c_slash)%N = false | [] => True end) by reflexivity.
  exact (conj H1 (conj H2 (C06_anchor dirc name H1 H2))).
Qed.

(* path normalisation used to recognise a file that is reached twice is idempotent *)
Theorem C06_norm_idem : forall p, norm_path (norm_path p) = norm_path p.
Proof. exact norm_path_idem. Qed.
Print Assumptions C06_norm_idem.
