(* C06  Include merging: small facts about the guard and path resolution first, then termination, precedence,
   completeness and include order over whole include graphs (proofs in Proofs/IncludeProofs.v; top level keys;
   the merge algebra on nested ordinary data is C07). *)
From Coq Require Import String.   (* string literals of the examples; imported first so the list names win *)
From Coq Require Import NArith ZArith List Bool.
From DictIO Require Import Chars Str Value Scalar SDict Lexer TokParser Reader TreeSpec LayoutSpec SemProofs
     IncludeProofs.
Import ListNotations.

(* with include processing switched off no include entry is returned *)
Theorem C06_off_no_include_entry : forall fs root com c s c',
  read_plain fs root false com c = Ok (s, c') ->
  forallb (fun kv => match fst kv with KS k => negb (has_include_mark k) | KI _ => true end) (sd_data s) = true.
Proof. exact read_off_no_include. Qed.
Print Assumptions C06_off_no_include_entry.

(* non-vacuity: a two-file tree whose root has an include directive (the files include each other); with include
   processing off the read succeeds, and the result has the root's own entries and no include placeholder *)
Module C06_nonvacuous.
  Definition file_a := of_string "#include 'sub/b'
x 1;
d { y 2; }
".
  Definition file_b := of_string "#include '../a'
x 9;
z 3;
d { y 8; w 4; }
".
  Definition fs : fsys := [(of_string "/r/a", FNative file_a); (of_string "/r/sub/b", FNative file_b)].
End C06_nonvacuous.
Example C06_off_no_include_entry_nonvacuous :
  exists s c', read_plain C06_nonvacuous.fs (of_string "/r/a") false true 0 = Ok (s, c') /\
    sd_data s = [(KS (of_string "x"), Leaf (SInt 1)); (KS (of_string "d"), Dict [(KS (of_string "y"), Leaf (SInt 2))])] /\
    forallb (fun kv => match fst kv with KS k => negb (has_include_mark k) | KI _ => true end) (sd_data s) = true.
Proof.
  destruct (read_plain C06_nonvacuous.fs (of_string "/r/a") false true 0) as [[s c']|e] eqn:E; [|vm_compute in E; discriminate E].
  exists s, c'. split; [reflexivity|]. split; [vm_compute in E; injection E as <- _; reflexivity|].
  exact (C06_off_no_include_entry _ _ _ _ _ _ E).
Qed.
(* the same tree with include processing on: the cyclic graph is read without running out of fuel, existing entries win
   (x stays 1, d.y stays 2), new ones are added (z, d.w) *)
Example C06_cyclic_graph_example :
  exists s c', read_plain C06_nonvacuous.fs (of_string "/r/a") true true 0 = Ok (s, c') /\
    remove_include_keys (sd_data s) =
      [(KS (of_string "x"), Leaf (SInt 1));
       (KS (of_string "d"), Dict [(KS (of_string "y"), Leaf (SInt 2)); (KS (of_string "w"), Leaf (SInt 4))]);
       (KS (of_string "z"), Leaf (SInt 3))].
Proof. eexists. eexists. split; [vm_compute; reflexivity|]. vm_compute. reflexivity. Qed.

(* a file that is already on the current include chain is never parsed again: the recursion is cut there *)
Theorem C06_chain_cut : forall p chain, in_chain p (chain ++ [p]) = true.
Proof. exact chain_cut. Qed.
Print Assumptions C06_chain_cut.

(* include paths are anchored at the directory of the file that contains the directive *)
Theorem C06_anchor : forall dirc name, name <> [] -> (match name with c :: _ => (c =? c_slash)%N = false | [] => True end) ->
  path_join dirc name = dirc ++ [c_slash] ++ name.
Proof. exact include_anchor. Qed.
Print Assumptions C06_anchor.

Example C06_anchor_nonvacuous :
  let dirc := of_string "/r/sub" in let name := of_string "../a" in
  name <> [] /\ (match name with c :: _ => (c =? c_slash)%N = false | [] => True end) /\
  path_join dirc name = of_string "/r/sub/../a".
Proof.
  intros dirc name. assert (H1 : name <> []) by discriminate.
  assert (H2 : match name with c :: _ => (c =? c_slash)%N = false | [] => True end) by reflexivity.
  exact (conj H1 (conj H2 (C06_anchor dirc name H1 H2))).
Qed.

(* path normalisation used to recognise a file that is reached twice is idempotent *)
Theorem C06_norm_idem : forall p, norm_path (norm_path p) = norm_path p.
Proof. exact norm_path_idem. Qed.
Print Assumptions C06_norm_idem.

(* ================================================================================================== *)
(* Include merging over whole include graphs (proofs: Proofs/IncludeProofs.v)                          *)
(* ================================================================================================== *)

(* ---- the example file system of the non-vacuity checks ---------------------------------------------
     /a.json      includes b.json and c.json                                   (root)
     /b.json      includes d.json
     /c.json      includes d.json (shared include), missing.json (dangling), sub/b.json
     /d.json      includes a.json                                              (cycle a -> b -> d -> a)
     /sub/b.json  includes b.json, which resolves to /sub/b.json itself        (equally named file in
                                                                                another directory, self cycle) *)
Definition C06_s (s : string) : str := of_string s.
Definition C06_inc (k f : string) : key * tree := (KS (C06_s k), Leaf (SStr (C06_s f))).
Definition C06_kv (k : string) (n : Z) : key * tree := (KS (C06_s k), Leaf (SInt n)).
Definition C06_fs : fsys :=
  [ (C06_s "/a.json", FJson [C06_inc "#include" "b.json"; C06_kv "k" 1; C06_inc "#include 2" "c.json"; C06_kv "a" 10;
                             (KS (C06_s "n"), Dict [C06_kv "x" 1])]);
    (C06_s "/b.json", FJson [C06_kv "k" 2; C06_kv "b" 20; C06_inc "#include" "d.json";
                             (KS (C06_s "n"), Dict [C06_kv "x" 2; C06_kv "y" 2])]);
    (C06_s "/c.json", FJson [C06_kv "k" 3; C06_kv "b" 30; C06_kv "c" 30; C06_inc "#include" "d.json";
                             C06_inc "#include 2" "missing.json"; C06_inc "#include 3" "sub/b.json"]);
    (C06_s "/d.json", FJson [C06_kv "d" 40; C06_kv "k" 4; C06_inc "#include" "a.json"]);
    (C06_s "/sub/b.json", FJson [C06_kv "e" 50; C06_kv "b" 60; C06_inc "#include" "b.json"]) ].
Definition C06_root : str := C06_s "/a.json".
Definition C06_dummy : parsed := mkParsed sd_empty 0%Z.
(* the unit at [path] parsed with the counter at [c] *)
Definition C06_parse_in (fs : fsys) (path : str) (c : Z) : parsed :=
  match fs_lookup (norm_path path) fs with
  | Some u => match parse_unit true path c u with Ok pr => pr | Raise _ => C06_dummy end
  | None => C06_dummy
  end.
Definition C06_parse : str -> Z -> parsed := C06_parse_in C06_fs.
Definition C06_pr0 : parsed := C06_parse C06_root (-1)%Z.
Definition C06_value (k : string) : option tree :=
  match read_plain C06_fs C06_root true true (-1)%Z with
  | Ok (s, _) => alookup (KS (C06_s k)) (sd_data s)
  | Raise _ => None
  end.
(* what the model returns on it: the root wins for k, b.json (earlier) beats c.json and sub/b.json for b,
   n is merged key by key, every file contributes its own keys *)
Example C06_example_result :
  (exists s c', read_plain C06_fs C06_root true true (-1)%Z = Ok (s, c')) /\
  C06_value "k" = Some (Leaf (SInt 1)) /\ C06_value "a" = Some (Leaf (SInt 10)) /\
  C06_value "b" = Some (Leaf (SInt 20)) /\ C06_value "c" = Some (Leaf (SInt 30)) /\
  C06_value "d" = Some (Leaf (SInt 40)) /\ C06_value "e" = Some (Leaf (SInt 50)) /\
  C06_value "n" = Some (Dict [C06_kv "x" 1; C06_kv "y" 2]).
Proof. split; [do 2 eexists; vm_compute; reflexivity | vm_compute; repeat split; reflexivity]. Qed.

(* conjuncts are checked from left to right, so that an existential witness is fixed by the first equation
   that mentions it before vm_compute sees the later ones *)
Ltac C06_check :=
  cbv zeta;
  repeat match goal with
         | |- _ /\ _ => split; [solve [vm_compute; first [reflexivity | discriminate]] | ]
         end;
  vm_compute; repeat match goal with |- _ /\ _ => split end; first [reflexivity | discriminate].
(* a witness of IncludeProofs.direct_include: the entry after the first [k] entries of the parent's table *)
Ltac C06_direct k :=
  match goal with
  | |- direct_include _ _ _ _ ?parent _ _ _ =>
      let pre := eval vm_compute in (firstn k (sd_inc parent)) in
      exists pre; do 7 eexists; C06_check
  end.

(* ---- 1. TERMINATION -------------------------------------------------------------------------------- *)
(* The recursion guard keeps pairwise distinct resolved paths of existing files on the chain, so the chain
   is never longer than the file system (pigeonhole) and the fuel S (length fs) of merge_includes is never
   used up by the recursion: any larger fuel gives the same result, on every include graph.  No hypothesis. *)
Theorem C06_fuel_irrelevant : forall fs com parent count n, (S (length fs) <= n)%nat ->
  merge_includes_rec n fs com [] parent count = merge_includes_rec (S (length fs)) fs com [] parent count.
Proof. exact include_fuel_irrelevant. Qed.
Print Assumptions C06_fuel_irrelevant.
Example C06_fuel_irrelevant_nonvacuous :
  (S (length C06_fs) <= 1000)%nat /\
  exists s c, merge_includes_rec (S (length C06_fs)) C06_fs true [] (pr_sd C06_pr0) (pr_count C06_pr0) = Ok (s, c).
Proof. split; [vm_compute; repeat constructor | do 2 eexists; vm_compute; reflexivity]. Qed.

(* The parser of a native unit has a fuel of its own (the model's E_Fuel is never a Python outcome); the
   hypothesis excludes that a unit of fs exhausts THAT fuel, which is a property of the parser and not of the
   include graph (C01/C02 territory).  It is needed: a Raise of parse_unit is passed on unchanged. *)
Theorem C06_include_recursion_terminates : forall fs com parent count,
  (forall p u path c, fs_lookup p fs = Some u -> parse_unit com path c u <> Raise E_Fuel) ->
  merge_includes fs com parent count <> Raise E_Fuel.
Proof. exact include_recursion_terminates. Qed.
Print Assumptions C06_include_recursion_terminates.

Theorem C06_read_terminates : forall fs root inc com c,
  (forall p u path c, fs_lookup p fs = Some u -> parse_unit com path c u <> Raise E_Fuel) ->
  read_plain fs root inc com c <> Raise E_Fuel.
Proof. exact read_terminates. Qed.
Print Assumptions C06_read_terminates.
(* (hypothesis of this and the previous theorem: C06_include_recursion_terminates_nonvacuous below) *)

(* a boolean sufficient condition for the hypothesis: JSON units arrive parsed *)
Theorem C06_json_units_never_out_of_fuel : forall fs com,
  forallb (fun pu => match snd pu with FJson _ => true | FNative _ => false end) fs = true ->
  forall p u path c, fs_lookup p fs = Some u -> parse_unit com path c u <> Raise E_Fuel.
Proof. exact all_json_parse_ok. Qed.
Print Assumptions C06_json_units_never_out_of_fuel.
Example C06_include_recursion_terminates_nonvacuous :
  forallb (fun pu => match snd pu with FJson _ => true | FNative _ => false end) C06_fs = true /\
  merge_includes C06_fs true (pr_sd C06_pr0) (pr_count C06_pr0) <> Raise E_Fuel /\
  read_plain C06_fs C06_root true true (-1)%Z <> Raise E_Fuel.
Proof.
  assert (H : forallb (fun pu => match snd pu with FJson _ => true | FNative _ => false end) C06_fs = true)
    by (vm_compute; reflexivity).
  split; [exact H|]. split.
  - apply C06_include_recursion_terminates. apply C06_json_units_never_out_of_fuel. exact H.
  - apply C06_read_terminates. apply C06_json_units_never_out_of_fuel. exact H.
Qed.

(* ---- 2. PRECEDENCE: the including file wins ----------------------------------------------------------- *)
(* ordinary_key k: k is not a placeholder key (INCLUDE / COMMENT entries name themselves and are filled or
   deleted as doublettes by design).  ordinary_leaf v: v has no dollar sign and names no EXPRESSION
   placeholder, i.e. it is not the self-reference placeholder "$k" of the informal statement, which the
   include does fill (C06_self_reference_is_filled below).  Unique keys of the parsed dict need no
   hypothesis: IncludeProofs.parse_unit_nodup proves them for every unit. *)
Theorem C06_including_file_wins : forall fs root com c u pr s c' k v,
  fs_lookup (norm_path root) fs = Some u -> parse_unit com root c u = Ok pr ->
  read_plain fs root true com c = Ok (s, c') ->
  ordinary_key k = true -> ordinary_leaf v = true ->
  alookup k (sd_data (pr_sd pr)) = Some (Leaf v) ->
  alookup k (sd_data s) = Some (Leaf v).
Proof. exact including_file_wins. Qed.
Print Assumptions C06_including_file_wins.
Example C06_including_file_wins_nonvacuous :
  exists u pr s c',
    fs_lookup (norm_path C06_root) C06_fs = Some u /\ parse_unit true C06_root (-1)%Z u = Ok pr /\
    read_plain C06_fs C06_root true true (-1)%Z = Ok (s, c') /\
    ordinary_key (KS (C06_s "k")) = true /\ ordinary_leaf (SInt 1) = true /\
    alookup (KS (C06_s "k")) (sd_data (pr_sd pr)) = Some (Leaf (SInt 1)) /\
    (* although b.json, c.json and d.json all define k *)
    alookup (KS (C06_s "k")) (sd_data (pr_sd (C06_parse (C06_s "/b.json") 1%Z))) = Some (Leaf (SInt 2)).
Proof. do 4 eexists. C06_check. Qed.

(* the same at every level of the recursion (any chain, any fuel): the parent of a sub-run wins over
   everything that sub-run merges in; unique keys are a boolean hypothesis here because [parent] is arbitrary *)
Theorem C06_including_file_wins_rec : forall f fs com chain parent count s c' k v,
  merge_includes_rec f fs com chain parent count = Ok (s, c') ->
  keys_nodup (map fst (sd_data parent)) = true ->
  ordinary_key k = true -> ordinary_leaf v = true ->
  alookup k (sd_data parent) = Some (Leaf v) ->
  alookup k (sd_data s) = Some (Leaf v).
Proof. exact including_file_wins_rec. Qed.
Print Assumptions C06_including_file_wins_rec.
Example C06_including_file_wins_rec_nonvacuous :
  (* b.json as the parent of the sub-run below the root: its k = 2 beats d.json's k = 4 *)
  let parent := pr_sd (C06_parse (C06_s "/b.json") 1%Z) in
  exists s c',
    merge_includes_rec 5 C06_fs true [C06_s "/b.json"] parent 2%Z = Ok (s, c') /\
    keys_nodup (map fst (sd_data parent)) = true /\
    ordinary_key (KS (C06_s "k")) = true /\ ordinary_leaf (SInt 2) = true /\
    alookup (KS (C06_s "k")) (sd_data parent) = Some (Leaf (SInt 2)).
Proof. do 2 eexists. C06_check. Qed.

(* why ordinary_leaf is there: an entry that refers to its own key is the placeholder the include fills *)
Example C06_self_reference_is_filled :
  let fs := [ (C06_s "/a.json", FJson [C06_inc "#include" "b.json"; (KS (C06_s "x"), Leaf (SStr (C06_s "$x")))]);
              (C06_s "/b.json", FJson [C06_kv "x" 5]) ] in
  ordinary_key (KS (C06_s "x")) = true /\ ordinary_leaf (SStr (C06_s "$x")) = false /\
  match read_plain fs (C06_s "/a.json") true true (-1)%Z with
  | Ok (s, _) => alookup (KS (C06_s "x")) (sd_data s) = Some (Leaf (SInt 5))
  | Raise _ => False
  end.
Proof. C06_check. Qed.

(* ---- 3. COMPLETENESS ------------------------------------------------------------------------------- *)
(* Direct includes.  The root's chain is empty, so no entry is cut there; the entry only has to name an
   existing file.  The counter value c1 at which the file is parsed is the one the run has reached (it only
   numbers placeholders, but a parse result is a function of it), hence existential.  ordinary_key: a
   placeholder key of an included file can be deleted as a doublette (C06_placeholder_key_can_vanish). *)
Theorem C06_direct_include_complete : forall fs root com c s c' u0 pr0 i d n path u,
  read_plain fs root true com c = Ok (s, c') ->
  fs_lookup (norm_path root) fs = Some u0 -> parse_unit com root c u0 = Ok pr0 ->
  In (i, (d, n, path)) (sd_inc (pr_sd pr0)) -> fs_lookup (norm_path path) fs = Some u ->
  exists c1 pr, parse_unit com path c1 u = Ok pr /\
    forall k, ordinary_key k = true -> alookup k (sd_data (pr_sd pr)) <> None -> alookup k (sd_data s) <> None.
Proof. exact direct_include_complete. Qed.
Print Assumptions C06_direct_include_complete.
Example C06_direct_include_complete_nonvacuous :
  exists s c' u0 pr0 i d n u,
    read_plain C06_fs C06_root true true (-1)%Z = Ok (s, c') /\
    fs_lookup (norm_path C06_root) C06_fs = Some u0 /\ parse_unit true C06_root (-1)%Z u0 = Ok pr0 /\
    In (i, (d, n, C06_s "/c.json")) (sd_inc (pr_sd pr0)) /\
    fs_lookup (norm_path (C06_s "/c.json")) C06_fs = Some u.
Proof.
  do 8 eexists. split; [vm_compute; reflexivity|]. split; [vm_compute; reflexivity|].
  split; [vm_compute; reflexivity|]. split; [vm_compute; right; left; reflexivity | vm_compute; reflexivity].
Qed.

(* the same at any level, with the next level exposed (two-level case and the induction step of the general
   case): an include entry whose file exists and is not on the chain is parsed, its keys arrive, and if it
   has includes of its own its sub-run succeeded and everything that sub-run produced arrives *)
Theorem C06_include_complete_rec : forall f fs com chain parent count s c' i d n path u,
  merge_includes_rec (S f) fs com chain parent count = Ok (s, c') ->
  keys_nodup (map fst (sd_data parent)) = true ->
  In (i, (d, n, path)) (sd_inc parent) ->
  in_chain (norm_path path) chain = false -> fs_lookup (norm_path path) fs = Some u ->
  exists c1 pr, parse_unit com path c1 u = Ok pr /\
    (forall k, ordinary_key k = true -> alookup k (sd_data (pr_sd pr)) <> None -> alookup k (sd_data s) <> None) /\
    (sd_inc (pr_sd pr) <> [] ->
     exists s1 c2, merge_includes_rec f fs com (chain ++ [norm_path path]) (pr_sd pr) (pr_count pr) = Ok (s1, c2) /\
       forall k, ordinary_key k = true -> alookup k (sd_data s1) <> None -> alookup k (sd_data s) <> None).
Proof. exact rec_direct_include_complete. Qed.
Print Assumptions C06_include_complete_rec.
Example C06_include_complete_rec_nonvacuous :
  exists s c' i d n u,
    merge_includes_rec (S (length C06_fs)) C06_fs true [] (pr_sd C06_pr0) (pr_count C06_pr0) = Ok (s, c') /\
    keys_nodup (map fst (sd_data (pr_sd C06_pr0))) = true /\
    In (i, (d, n, C06_s "/b.json")) (sd_inc (pr_sd C06_pr0)) /\
    in_chain (norm_path (C06_s "/b.json")) [] = false /\
    fs_lookup (norm_path (C06_s "/b.json")) C06_fs = Some u.
Proof.
  do 6 eexists. split; [vm_compute; reflexivity|]. split; [vm_compute; reflexivity|].
  split; [vm_compute; left; reflexivity|]. split; [vm_compute; reflexivity|]. vm_compute; reflexivity.
Qed.

(* Transitive.  IncludeProofs.run_reach fs com f chain parent count f' chain' path pr  is the inductive
   reachability relation: [path] is reached from [parent] through include entries each of which names an
   existing file that is not on the chain at that point (chain' = chain followed by the resolved paths walked,
   so no file repeats on it), and [pr] is what the file parses to at the counter value the run has there
   (IncludeProofs.direct_include fixes that value as the one the model's own loop leaves after the earlier
   entries).  Every ordinary key of every file so reached is a key of the result. *)
Theorem C06_reachable_file_complete : forall fs root com c s c' u0 pr0 f' chain' path pr k,
  read_plain fs root true com c = Ok (s, c') ->
  fs_lookup (norm_path root) fs = Some u0 -> parse_unit com root c u0 = Ok pr0 ->
  run_reach fs com (S (length fs)) [] (pr_sd pr0) (pr_count pr0) f' chain' path pr ->
  ordinary_key k = true -> alookup k (sd_data (pr_sd pr)) <> None ->
  alookup k (sd_data s) <> None.
Proof. exact reachable_file_complete. Qed.
Print Assumptions C06_reachable_file_complete.

(* ... and the relation is not thin: it holds of every include entry of the root that names an existing file,
   and it is closed under every include entry of a reached file that names an existing file not on the chain
   there.  Nothing (cycle, shared file, missing file, other includes) suppresses such an entry. *)
Theorem C06_root_includes_reached : forall fs root com c s c' u0 pr0 i d n path u,
  read_plain fs root true com c = Ok (s, c') ->
  fs_lookup (norm_path root) fs = Some u0 -> parse_unit com root c u0 = Ok pr0 ->
  In (i, (d, n, path)) (sd_inc (pr_sd pr0)) -> fs_lookup (norm_path path) fs = Some u ->
  exists pr, run_reach fs com (S (length fs)) [] (pr_sd pr0) (pr_count pr0) (length fs) [norm_path path] path pr.
Proof. exact root_includes_reached. Qed.
Print Assumptions C06_root_includes_reached.

Theorem C06_reachable_files_closed : forall fs root com c s c' u0 pr0 f' chain' path pr i d n path' u',
  read_plain fs root true com c = Ok (s, c') ->
  fs_lookup (norm_path root) fs = Some u0 -> parse_unit com root c u0 = Ok pr0 ->
  run_reach fs com (S (length fs)) [] (pr_sd pr0) (pr_count pr0) f' chain' path pr ->
  In (i, (d, n, path')) (sd_inc (pr_sd pr)) ->
  in_chain (norm_path path') chain' = false -> fs_lookup (norm_path path') fs = Some u' ->
  exists f'' pr',
    run_reach fs com (S (length fs)) [] (pr_sd pr0) (pr_count pr0) f'' (chain' ++ [norm_path path']) path' pr'.
Proof. exact reachable_files_closed. Qed.
Print Assumptions C06_reachable_files_closed.
Example C06_root_includes_reached_nonvacuous :
  exists s c' u0 i d n u,
    read_plain C06_fs C06_root true true (-1)%Z = Ok (s, c') /\
    fs_lookup (norm_path C06_root) C06_fs = Some u0 /\ parse_unit true C06_root (-1)%Z u0 = Ok C06_pr0 /\
    In (i, (d, n, C06_s "/b.json")) (sd_inc (pr_sd C06_pr0)) /\
    fs_lookup (norm_path (C06_s "/b.json")) C06_fs = Some u.
Proof.
  do 7 eexists. split; [vm_compute; reflexivity|]. split; [vm_compute; reflexivity|].
  split; [vm_compute; reflexivity|]. split; [vm_compute; left; reflexivity | vm_compute; reflexivity].
Qed.
(* c.json is reached directly; its entry for sub/b.json names an existing file that is not on the chain [c] *)
Example C06_reachable_files_closed_nonvacuous :
  exists s c' u0 f' chain' pr i d n u',
    read_plain C06_fs C06_root true true (-1)%Z = Ok (s, c') /\
    fs_lookup (norm_path C06_root) C06_fs = Some u0 /\ parse_unit true C06_root (-1)%Z u0 = Ok C06_pr0 /\
    run_reach C06_fs true (S (length C06_fs)) [] (pr_sd C06_pr0) (pr_count C06_pr0) f' chain' (C06_s "/c.json") pr /\
    In (i, (d, n, C06_s "/sub/b.json")) (sd_inc (pr_sd pr)) /\
    in_chain (norm_path (C06_s "/sub/b.json")) chain' = false /\
    fs_lookup (norm_path (C06_s "/sub/b.json")) C06_fs = Some u'.
Proof.
  do 10 eexists. split; [vm_compute; reflexivity|]. split; [vm_compute; reflexivity|].
  split; [vm_compute; reflexivity|]. split; [apply RR_direct; C06_direct 1%nat|].
  split; [vm_compute; right; right; left; reflexivity|]. split; [vm_compute; reflexivity | vm_compute; reflexivity].
Qed.

(* /sub/b.json is reached through c.json, the second include of the root (so the loop has processed b.json and
   everything below it before: the witness of direct_include carries that state); its own entry b.json
   resolves to /sub/b.json, which is on the chain there and cut *)
Example C06_reachable_file_complete_nonvacuous :
  exists s c' u0 f' chain' pr,
    read_plain C06_fs C06_root true true (-1)%Z = Ok (s, c') /\
    fs_lookup (norm_path C06_root) C06_fs = Some u0 /\ parse_unit true C06_root (-1)%Z u0 = Ok C06_pr0 /\
    run_reach C06_fs true (S (length C06_fs)) [] (pr_sd C06_pr0) (pr_count C06_pr0) f' chain' (C06_s "/sub/b.json") pr /\
    chain' = [C06_s "/c.json"; C06_s "/sub/b.json"] /\
    ordinary_key (KS (C06_s "e")) = true /\ alookup (KS (C06_s "e")) (sd_data (pr_sd pr)) <> None /\
    (* the self include of /sub/b.json is cut by the chain *)
    in_chain (norm_path (C06_s "/sub/b.json")) chain' = true.
Proof.
  do 6 eexists. split; [vm_compute; reflexivity|]. split; [vm_compute; reflexivity|].
  split; [vm_compute; reflexivity|]. split.
  - eapply RR_trans; [C06_direct 1%nat|]. apply RR_direct. C06_direct 2%nat.
  - C06_check.
Qed.

Example C06_reachable_shared_and_cycle :
  (* d.json is reached through b.json; its include of a.json closes the cycle a -> b -> d -> a.  The root is
     not on its own chain (merge_includes starts with the empty chain), so a.json is parsed once more as an
     include and only then cut: a second copy of the root's keys is merged in, which changes nothing *)
  exists f' chain' pr f'' chain'' pr',
    run_reach C06_fs true (S (length C06_fs)) [] (pr_sd C06_pr0) (pr_count C06_pr0) f' chain' (C06_s "/d.json") pr /\
    chain' = [C06_s "/b.json"; C06_s "/d.json"] /\
    run_reach C06_fs true (S (length C06_fs)) [] (pr_sd C06_pr0) (pr_count C06_pr0) f'' chain'' (C06_s "/a.json") pr' /\
    chain'' = [C06_s "/b.json"; C06_s "/d.json"; C06_s "/a.json"] /\
    (* the include entries of that second copy of a.json (b.json, c.json): b.json is on the chain and cut *)
    in_chain (C06_s "/b.json") chain'' = true.
Proof.
  do 6 eexists. split.
  - eapply RR_trans; [C06_direct 0%nat|]. apply RR_direct. C06_direct 0%nat.
  - split; [vm_compute; reflexivity|]. split.
    + eapply RR_trans; [C06_direct 0%nat|]. eapply RR_trans; [C06_direct 0%nat|]. apply RR_direct. C06_direct 0%nat.
    + C06_check.
Qed.

(* why ordinary_key is there: c.json and b.json both include d.json; the placeholder entry of c.json's
   directive carries the same (directive, name, path) as b.json's, and the clean-up after the merge
   (sd_clean / clean_kind with inc_eqb) deletes it as a doublette.  The key is in the parsed file, not in
   the result. *)
Example C06_placeholder_key_can_vanish :
  let fs := [ (C06_s "/a.json", FJson [C06_inc "#include" "b.json"; C06_inc "#include 2" "c.json"]);
              (C06_s "/b.json", FJson [C06_inc "#include" "d.json"; C06_kv "b" 1]);
              (C06_s "/c.json", FJson [C06_inc "#include" "d.json"; C06_kv "c" 1]);
              (C06_s "/d.json", FJson [C06_kv "d" 1]) ] in
  let k := KS (C06_s "INCLUDE000003") in
  (* c.json is parsed with the counter at 2 in this run *)
  match parse_unit true (C06_s "/c.json") 2%Z (FJson [C06_inc "#include" "d.json"; C06_kv "c" 1]) with
  | Ok pr => alookup k (sd_data (pr_sd pr)) <> None
  | Raise _ => False
  end /\
  ordinary_key k = false /\
  match read_plain fs (C06_s "/a.json") true true (-1)%Z with
  | Ok (s, _) => alookup k (sd_data s) = None /\ alookup (KS (C06_s "c")) (sd_data s) = Some (Leaf (SInt 1))
  | Raise _ => False
  end.
Proof. C06_check. Qed.

(* ---- 4. INCLUDE ORDER: an earlier include wins over every later one ---------------------------------- *)
(* [pre] are the entries before the one in question, [temp] / [c1] what the model's loop has built from them
   (inc_step is the loop body of merge_includes_rec, IncludeProofs.merge_includes_rec_S).  The including file
   must not define k (else it wins, theorem 2) and no earlier include may have brought k (else that one wins,
   this theorem); the entries after it ([suf]) are arbitrary: whatever they define for k is ignored. *)
Theorem C06_earlier_include_wins : forall fs root com c s c' u0 pr0 pre i d n path suf temp c1 u pr k v,
  read_plain fs root true com c = Ok (s, c') ->
  fs_lookup (norm_path root) fs = Some u0 -> parse_unit com root c u0 = Ok pr0 ->
  sd_inc (pr_sd pr0) = pre ++ (i, (d, n, path)) :: suf ->
  fold_left (inc_step (merge_includes_rec (length fs) fs com) fs com []) pre (Ok (sd_empty, pr_count pr0)) = Ok (temp, c1) ->
  fs_lookup (norm_path path) fs = Some u -> parse_unit com path c1 u = Ok pr ->
  ordinary_key k = true -> ordinary_leaf v = true ->
  alookup k (sd_data (pr_sd pr0)) = None -> alookup k (sd_data temp) = None ->
  alookup k (sd_data (pr_sd pr)) = Some (Leaf v) ->
  alookup k (sd_data s) = Some (Leaf v).
Proof. exact earlier_include_wins. Qed.
Print Assumptions C06_earlier_include_wins.
(* In C06_fs the cycle a -> b -> d -> a re-reads the root inside the first include (the root is not on its
   own chain), so there the first include already brings every key.  A second file system, without a cycle
   through the root:  a includes b, c, d;  c includes b (shared) and d;  d includes c (cycle c <-> d). *)
Definition C06_fs2 : fsys :=
  [ (C06_s "/a.json", FJson [C06_inc "#include" "b.json"; C06_inc "#include 2" "c.json"; C06_inc "#include 3" "d.json";
                             C06_kv "a" 1]);
    (C06_s "/b.json", FJson [C06_kv "b" 1]);
    (C06_s "/c.json", FJson [C06_kv "c" 2; C06_kv "b" 3; C06_inc "#include" "b.json"; C06_inc "#include 2" "d.json"]);
    (C06_s "/d.json", FJson [C06_kv "c" 4; C06_kv "d" 5; C06_inc "#include" "c.json"]) ].
Example C06_earlier_include_wins_nonvacuous :
  (* c.json is the second include and defines c = 2; b.json (before it) has no c; d.json (after it) has c = 4 *)
  exists s c' u0 pr0 pre i d n suf temp c1 u pr,
    read_plain C06_fs2 C06_root true true (-1)%Z = Ok (s, c') /\
    fs_lookup (norm_path C06_root) C06_fs2 = Some u0 /\ parse_unit true C06_root (-1)%Z u0 = Ok pr0 /\
    pre = firstn 1 (sd_inc (pr_sd pr0)) /\
    sd_inc (pr_sd pr0) = pre ++ (i, (d, n, C06_s "/c.json")) :: suf /\
    fold_left (inc_step (merge_includes_rec (length C06_fs2) C06_fs2 true) C06_fs2 true []) pre
              (Ok (sd_empty, pr_count pr0)) = Ok (temp, c1) /\
    fs_lookup (norm_path (C06_s "/c.json")) C06_fs2 = Some u /\ parse_unit true (C06_s "/c.json") c1 u = Ok pr /\
    ordinary_key (KS (C06_s "c")) = true /\ ordinary_leaf (SInt 2) = true /\
    alookup (KS (C06_s "c")) (sd_data (pr_sd pr0)) = None /\ alookup (KS (C06_s "c")) (sd_data temp) = None /\
    alookup (KS (C06_s "c")) (sd_data (pr_sd pr)) = Some (Leaf (SInt 2)) /\
    alookup (KS (C06_s "c")) (sd_data (pr_sd (C06_parse_in C06_fs2 (C06_s "/d.json") 1%Z))) = Some (Leaf (SInt 4)) /\
    alookup (KS (C06_s "c")) (sd_data s) = Some (Leaf (SInt 2)).
Proof. do 13 eexists. C06_check. Qed.

(* the first include of the root: nothing is earlier, the counter is the one the root's parse left *)
Theorem C06_first_include_wins : forall fs root com c s c' u0 pr0 i d n path suf u pr k v,
  read_plain fs root true com c = Ok (s, c') ->
  fs_lookup (norm_path root) fs = Some u0 -> parse_unit com root c u0 = Ok pr0 ->
  sd_inc (pr_sd pr0) = (i, (d, n, path)) :: suf ->
  fs_lookup (norm_path path) fs = Some u -> parse_unit com path (pr_count pr0) u = Ok pr ->
  ordinary_key k = true -> ordinary_leaf v = true ->
  alookup k (sd_data (pr_sd pr0)) = None ->
  alookup k (sd_data (pr_sd pr)) = Some (Leaf v) ->
  alookup k (sd_data s) = Some (Leaf v).
Proof. exact first_include_wins. Qed.
Print Assumptions C06_first_include_wins.
Example C06_first_include_wins_nonvacuous :
  (* b: 20 in b.json (first include), 30 in c.json and 60 in /sub/b.json (later); the root has no b *)
  exists s c' u0 i d n suf u pr,
    read_plain C06_fs C06_root true true (-1)%Z = Ok (s, c') /\
    fs_lookup (norm_path C06_root) C06_fs = Some u0 /\ parse_unit true C06_root (-1)%Z u0 = Ok C06_pr0 /\
    sd_inc (pr_sd C06_pr0) = (i, (d, n, C06_s "/b.json")) :: suf /\
    fs_lookup (norm_path (C06_s "/b.json")) C06_fs = Some u /\
    parse_unit true (C06_s "/b.json") (pr_count C06_pr0) u = Ok pr /\
    ordinary_key (KS (C06_s "b")) = true /\ ordinary_leaf (SInt 20) = true /\
    alookup (KS (C06_s "b")) (sd_data (pr_sd C06_pr0)) = None /\
    alookup (KS (C06_s "b")) (sd_data (pr_sd pr)) = Some (Leaf (SInt 20)) /\
    C06_value "b" = Some (Leaf (SInt 20)).
Proof. do 9 eexists. C06_check. Qed.

