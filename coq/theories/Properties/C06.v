(* C06  Include merging (logic part; completeness / precedence over whole graphs is established per run by the
   check against an independent closure fold, see DESIGN.md). *)
From Coq Require Import NArith ZArith List Bool.
From DictIO Require Import Chars Str Value Scalar SDict Lexer TokParser Reader TreeSpec LayoutSpec SemProofs.
Import ListNotations.

(* with include processing switched off no include entry is returned *)
Theorem C06_off_no_include_entry : forall fs root com c s c',
  read_plain fs root false com c = Ok (s, c') ->
  forallb (fun kv => match fst kv with KS k => negb (has_include_mark k) | KI _ => true end) (sd_data s) = true.
Proof. exact read_off_no_include. Qed.
Print Assumptions C06_off_no_include_entry.

(* a file that is already on the current include chain is never parsed again: the recursion is cut there *)
Theorem C06_chain_cut : forall p chain, in_chain p (chain ++ [p]) = true.
Proof. exact chain_cut. Qed.
Print Assumptions C06_chain_cut.

(* include paths are anchored at the directory of the file that contains the directive *)
Theorem C06_anchor : forall dirc name, name <> [] -> (match name with c :: _ => (c =? c_slash)%N = false | [] => True end) ->
  path_join dirc name = dirc ++ [c_slash] ++ name.
Proof. exact include_anchor. Qed.
Print Assumptions C06_anchor.

(* path normalisation used to recognise a file that is reached twice is idempotent *)
Theorem C06_norm_idem : forall p, norm_path (norm_path p) = norm_path p.
Proof. exact norm_path_idem. Qed.
Print Assumptions C06_norm_idem.
