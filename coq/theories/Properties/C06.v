(* C06  Include merging: small facts about the guard and path resolution first, then termination, precedence,
   completeness and include order over whole include graphs (proofs in Proofs/IncludeProofs.v; top level keys;
   the merge algebra on nested ordinary data is C07). *)
From Coq Require Import String.   (* string literals of the examples; imported first so the list names win *)
From Coq Require Import NArith ZArith List Bool.
From DictIO Require Import Chars Str Value Scalar SDict Lexer TokParser Reader TreeSpec LayoutSpec SemProofs
     IncludeProofs.
Import ListNotations.

(* with include processing switched off no include entry is returned *)
Theorem C06_off_no_include_entry : forall fs root com c s c',
  read_plain fs root false com c = Ok (s, c') ->
  forallb (fun kv => match fst kv with KS k => negb (has_include_mark k) | KI _ => true end) (sd_data s) = true.
Proof. exact read_off_no_include. Qed.
Print Assumptions C06_off_no_include_entry.

(* non-vacuity: a two-file tree whose root has an include directive (the files include each other); with include
   processing off the read succeeds, and the result has the root's own entries and no include placeholder *)
Module C06_nonvacuous.
  Definition file_a := of_string "#include 'sub/b'
x 1;
d { y 2; }
".
  Definition file_b := of_string "#include '../a'
x 9;
z 3;
d { y 8; w 4; }
".
  Definition fs : fsys := [(of_string "/r/a", FNative file_a); (of_string "/r/sub/b", FNative file_b)].
End C06_nonvacuous.
Example C06_off_no_include_entry_nonvacuous :
  exists s c', read_plain C06_nonvacuous.fs (of_string "/r/a") false true 0 = Ok (s, c') /\
    sd_data s = [(KS (of_string "x"), Leaf (SInt 1)); (KS (of_string "d"), Dict [(KS (of_string "y"), Leaf (SInt 2))])] /\
    forallb (fun kv => match fst kv with KS k => negb (has_include_mark k) | KI _ => true end) (sd_data s) = true.
Proof.
  destruct (read_plain C06_nonvacuous.fs (of_string "/r/a") false true 0) as [[s c']|e] eqn:E; [|vm_compute in E; discriminate E].
  exists s, c'. split; [reflexivity|]. split; [vm_compute in E; injection E as <- _; reflexivity|].
  exact (C06_off_no_include_entry _ _ _ _ _ _ E).
Qed.
(* the same tree with include processing on: the cyclic graph is read without running out of fuel, existing entries win
   (x stays 1, d.y stays 2), new ones are added (z, d.w) *)
Example C06_cyclic_graph_example :
  exists s c', read_plain C06_nonvacuous.fs (of_string "/r/a") true true 0 = Ok (s, c') /\
    remove_include_keys (sd_data s) =
      [(KS (of_string "x"), Leaf (SInt 1));
       (KS (of_string "d"), Dict [(KS (of_string "y"), Leaf (SInt 2)); (KS (of_string "w"), Leaf (SInt 4))]);
       (KS (of_string "z"), Leaf (SInt 3))].
Proof. eexists. eexists. split; [vm_compute; reflexivity|]. vm_compute. reflexivity. Qed.

(* a file that is already on the current include chain is never parsed again: the recursion is cut there *)
Theorem C06_chain_cut : forall p chain, in_chain p (chain ++ [p]) = true.
Proof. exact chain_cut. Qed.
Print Assumptions C06_chain_cut.

(* include paths are anchored at the directory of the file that contains the directive *)
Theorem C06_anchor : forall dirc name, name <> [] -> (match name with c :: _ => (c =? c_slash)%N = false | [] => True end) ->
  path_join dirc name = dirc ++ [c_slash] ++ name.
Proof. exact include_anchor. Qed.
Print Assumptions C06_anchor.

Example C06_anchor_nonvacuous :
  let dirc := of_string "/r/sub" in let name := of_string "../a" in
  name <> [] /\ (match name with c :: _ => (c =? c_slash)%N = false | [] => True end) /\
  path_join dirc name = of_string "/r/sub/../a".
Proof.
  intros dirc name. assert (H1 : name <> []) by discriminate.
  assert (H2 : match name with c :: _ => (c =? c_slash)%N = false | [] => True end) by reflexivity.
  exact (conj H1 (conj H2 (C06_anchor dirc name H1 H2))).
Qed.

(* path normalisation used to recognise a file that is reached twice is idempotent *)
Theorem C06_norm_idem : forall p, norm_path (norm_path p) = norm_path p.
Proof. exact norm_path_idem. Qed.
Print Assumptions C06_norm_idem.

(* ================================================================================================== *)
(* Include merging over whole include graphs (proofs: Proofs/IncludeProofs.v)                          *)
(* ================================================================================================== *)

(* ---- the example file system of the non-vacuity checks ---------------------------------------------
     /a.json      includes b.json and c.json                                   (root)
     /b.json      includes d.json
     /c.json      includes d.json (shared include), missing.json (dangling), sub/b.json
     /d.json      includes a.json                                              (cycle a -> b -> d -> a)
     /sub/b.json  includes b.json, which resolves to /sub/b.json itself        (equally named file in
                                                                                another directory, self cycle) *)
Definition C06_s (s : string) : str := of_string s.
Definition C06_inc (k f : string) : key * tree := (KS (C06_s k), Leaf (SStr (C06_s f))).
Definition C06_kv (k : string) (n : Z) : key * tree := (KS (C06_s k), Leaf (SInt n)).
Definition C06_fs : fsys :=
  [ (C06_s "/a.json", FJson [C06_inc "#include" "b.json"; C06_kv "k" 1; C06_inc "#include 2" "c.json"; C06_kv "a" 10;
                             (KS (C06_s "n"), Dict [C06_kv "x" 1])]);
    (C06_s "/b.json", FJson [C06_kv "k" 2; C06_kv "b" 20; C06_inc "#include" "d.json";
                             (KS (C06_s "n"), Dict [C06_kv "x" 2; C06_kv "y" 2])]);
    (C06_s "/c.json", FJson [C06_kv "k" 3; C06_kv "b" 30; C06_kv "c" 30; C06_inc "#include" "d.json";
                             C06_inc "#include 2" "missing.json"; C06_inc "#include 3" "sub/b.json"]);
    (C06_s "/d.json", FJson [C06_kv "d" 40; C06_kv "k" 4; C06_inc "#include" "a.json"]);
    (C06_s "/sub/b.json", FJson [C06_kv "e" 50; C06_kv "b" 60; C06_inc "#include" "b.json"]) ].
Definition C06_root : str := C06_s "/a.json".
Definition C06_dummy : parsed := mkParsed sd_empty 0%Z.
(* the unit at [path] parsed with the counter at [c] *)
Definition C06_parse_in (fs : fsys) (path : str) (c : Z) : parsed :=
  match fs_lookup (norm_path path) fs with
  | Some u => match parse_unit true path c u with Ok pr => pr | Raise _ => C06_dummy end
  | None => C06_dummy
  end.
Definition C06_parse : str -> Z -> parsed := C06_parse_in C06_fs.
Definition C06_pr0 : parsed := C06_parse C06_root (-1)%Z.
Definition C06_value (k : string) : option tree :=
  match read_plain C06_fs C06_root true true (-1)%Z with
  | Ok (s, _) => alookup (KS (C06_s k)) (sd_data s)
  | Raise _ => None
  end.
(* what the model returns on it: the root wins for k, b.json (earlier) beats c.json and sub/b.json for b,
   n is merged key by key, every file contributes its own keys *)
Example C06_example_result :
  (exists s c', read_plain C06_fs C06_root true true (-1)%Z = Ok (s, c')) /\
  C06_value "k" = Some (Leaf (SInt 1)) /\ C06_value "a" = Some (Leaf (SInt 10)) /\
  C06_value "b" = Some (Leaf (SInt 20)) /\ C06_value "c" = Some (Leaf (SInt 30)) /\
  C06_value "d" = Some (Leaf (SInt 40)) /\ C06_value "e" = Some (Leaf (SInt 50)) /\
  C06_value "n" = Some (Dict [C06_kv "x" 1; C06_kv "y" 2]).
Proof. split; [do 2 eexists; vm_compute; reflexivity | vm_compute; repeat split; reflexivity]. Qed.

(* conjuncts are checked from left to right, so that an existential witness is fixed by the first equation
   that mentions it before vm_compute sees the later ones *)
Ltac C06_check :=
  cbv zeta;
  repeat match goal with
         | |- _ /\ _ => split; [solve [vm_compute; first [reflexivity | discriminate]] | ]
         end;
  vm_compute; repeat match goal with |- _ /\ _ => split end; first [reflexivity | discriminate].
(* a witness of IncludeProofs.direct_include: the entry after the first [k] entries of the parent's table *)
Ltac C06_direct k :=
  match goal with
  | |- direct_include _ _ _ _ ?parent _ _ _ =>
      let pre := eval vm_compute in (firstn k (sd_inc parent)) in
      exists pre; do 7 eexists; C06_check
  end.

(* ---- 1. TERMINATION -------------------------------------------------------------------------------- *)
(* The recursion guard keeps pairwise distinct resolved paths of existing files on the chain, so the chain
   is never longer than the file system (pigeonhole) and the fuel S (length fs) of merge_includes is never
   used up by the recursion: any larger fuel gives the same result, on every include graph.  No hypothesis. *)
Theorem C06_fuel_irrelevant : forall fs com parent count n, (S (length fs) <= n)%nat ->
  merge_includes_rec n fs com [] parent count = merge_includes_rec (S (length fs)) fs com [] parent count.
Proof. exact include_fuel_irrelevant. Qed.
Print Assumptions C06_fuel_irrelevant.
Example C06_fuel_irrelevant_nonvacuous :
  (S (length C06_fs) <= 1000)%nat /\
  exists s c, merge_includes_rec (S (length C06_fs)) C06_fs true [] (pr_sd C06_pr0) (pr_count C06_pr0) = Ok (s, c).
Proof. split; [vm_compute; repeat constructor | do 2 eexists; vm_compute; reflexivity]. Qed.

(* The parser of a native unit has a fuel of its own (the model's E_Fuel is never a Python outcome); the
   hypothesis excludes that a unit of fs exhausts THAT fuel, which is a property of the parser and not of the
   include graph (C01/C02 territory).  It is needed: a Raise of parse_unit is passed on unchanged. *)
Theorem C06_include_recursion_terminates : forall fs com parent count,
  (forall p u path c, fs_lookup p fs = Some u -> parse_unit com path c u <> Raise E_Fuel) ->
  merge_includes fs com parent count <> Raise E_Fuel.
Proof. exact include_recursion_terminates. Qed.
Print Assumptions C06_include_recursion_terminates.

Theorem C06_read_terminates : forall fs root inc com c,
  (forall p u path c, fs_lookup p fs = Some u -> parse_unit com path c u <> Raise E_Fuel) ->
  read_plain fs root inc com c <> Raise E_Fuel.
Proof. exact read_terminates. Qed.
Print Assumptions C06_read_terminates.
(* (hypothesis of this and the previous theorem: C06_include_recursion_terminates_nonvacuous below) *)

(* a boolean sufficient condition for the hypothesis: JSON units arrive parsed *)
Theorem C06_json_units_never_out_of_fuel : forall fs com,
  forallb (fun pu => match snd pu with FJson _ => true | FNative _ => false end) fs = true ->
  forall p u path c, fs_lookup p fs = Some u -> parse_unit com path c u <> Raise E_Fuel.
Proof. exact all_json_parse_ok. Qed.
Print Assumptions C06_json_units_never_out_of_fuel.
Example C06_include_recursion_terminates_nonvacuous :
  forallb (fun pu => match snd pu with FJson _ => true | FNative _ => false end) C06_fs = true /\
  merge_includes C06_fs true (pr_sd C06_pr0) (pr_count C06_pr0) <> Raise E_Fuel /\
  read_plain C06_fs C06_root true true (-1)%Z <> Raise E_Fuel.
Proof.
  assert (H : forallb (fun pu => match snd pu with FJson _ => true | FNative _ => false end) C06_fs = true)
    by (vm_compute; reflexivity).
  split; [exact H|]. split.
  - apply C06_include_recursion_terminates. apply C06_json_units_never_out_of_fuel. exact H.
  - apply C06_read_terminates. apply C06_json_units_never_out_of_fuel. exact H.
Qed.

(* ---- 2. PRECEDENCE: the including file wins ----------------------------------------------------------- *)
(* ordinary_key k: k is not a placeholder key (INCLUDE / COMMENT entries name themselves and are filled or
   deleted as doublettes by design).  ordinary_leaf v: v has no dollar sign and names no EXPRESSION
   placeholder, i.e. it is not the self-reference placeholder "$k" of the informal statement, which the
   include does fill (C06_self_reference_is_filled below).  Unique keys of the parsed dict need no
   hypothesis: IncludeProofs.parse_unit_nodup proves them for every unit. *)
Theorem C06_including_file_wins : forall fs root com c u pr s c' k v,
  fs_lookup (norm_path root) fs = Some u -> parse_unit com root c u = Ok pr ->
  read_plain fs root true com c = Ok (s, c') ->
  ordinary_key k = true -> ordinary_leaf v = true ->
  alookup k (sd_data (pr_sd pr)) = Some (Leaf v) ->
  alookup k (sd_data s) = Some (Leaf v).
Proof. exact including_file_wins. Qed.
Print Assumptions C06_including_file_wins.
Example C06_including_file_wins_nonvacuous :
  exists u pr s c',
    fs_lookup (norm_path C06_root) C06_fs = Some u /\ parse_unit true C06_root (-1)%Z u = Ok pr /\
    read_plain C06_fs C06_root true true (-1)%Z = Ok (s, c') /\
    ordinary_key (KS (C06_s "k")) = true /\ ordinary_leaf (SInt 1) = true /\
    alookup (KS (C06_s "k")) (sd_data (pr_sd pr)) = Some (Leaf (SInt 1)) /\
    (* although b.json, c.json and d.json all define k *)
    alookup (KS (C06_s "k")) (sd_data (pr_sd (C06_parse (C06_s "/b.json") 1%Z))) = Some (Leaf (SInt 2)).
Proof. do 4 eexists. C06_check. Qed.

(* the same at every level of the recursion (any chain, any fuel): the parent of a sub-run wins over
   everything that sub-run merges in; unique keys are a boolean hypothesis here because [parent] is arbitrary *)
Theorem C06_including_file_wins_rec : forall f fs com chain parent count s c' k v,
  merge_includes_rec f fs com chain parent count = Ok (s, c') ->
  keys_nodup (map fst (sd_data parent)) = true ->
  ordinary_key k = true -> ordinary_leaf v = true ->
  alookup k (sd_data parent) = Some (Leaf v) ->
  alookup k (sd_data s) = Some (Leaf v).
Proof. exact including_file_wins_rec. Qed.
Print Assumptions C06_including_file_wins_rec.
Example C06_including_file_wins_rec_nonvacuous :
  (* b.json as the parent of the sub-run below the root: its k = 2 beats d.json's k = 4 *)
  let parent := pr_sd (C06_parse (C06_s "/b.json") 1%Z) in
  exists s c',
    merge_includes_rec 5 C06_fs true [C06_s "/b.json"] parent 2%Z = Ok (s, c') /\
    keys_nodup (map fst (sd_data parent)) = true /\
    ordinary_key (KS (C06_s "k")) = true /\ ordinary_leaf (SInt 2) = true /\
    alookup (KS (C06_s "k")) (sd_data parent) = Some (Leaf (SInt 2)).
Proof. do 2 eexists. C06_check. Qed.

(* why ordinary_leaf is there: an entry that refers to its own key is the placeholder the include fills *)
Example C06_self_reference_is_filled :
  let fs := [ (C06_s "/a.json", FJson [C06_inc "#include" "b.json"; (KS (C06_s "x"), Leaf (SStr (C06_s "$x")))]);
              (C06_s "/b.json", FJson [C06_kv "x" 5]) ] in
  ordinary_key (KS (C06_s "x")) = true /\ ordinary_leaf (SStr (C06_s "$x")) = false /\
  match read_plain fs (C06_s "/a.json") true true (-1)%Z with
  | Ok (s, _) => alookup (KS (C06_s "x")) (sd_data s) = Some (Leaf (SInt 5))
  | Raise _ => False
  end.
Proof. C06_check. Qed.

(* ---- 3. COMPLETENESS ------------------------------------------------------------------------------- *)
(* Direct includes.  The root's chain is empty, so no entry is cut there; the entry only has to name an
   existing file.  The counter value c1 at which the file is parsed is the one the run has reached (it only
   numbers placeholders, but a parse result is a function of it), hence existential.  ordinary_key: a
   placeholder key of an included file can be deleted as a doublette (C06_placeholder_key_can_vanish). *)
Theorem C06_direct_include_complete : forall fs root com c s c' u0 pr0 i d n path u,
  read_plain fs root true com c = Ok (s, c') ->
  fs_lookup (norm_path root) fs = Some u0 -> parse_unit com root c u0 = Ok pr0 ->
  In (i, (d, n, path)) (sd_inc (pr_sd pr0)) -> fs_lookup (norm_path path) fs = Some u ->
  exists c1 pr, parse_unit com path c1 u = Ok pr /\
    forall k, ordinary_key k = true -> alookup k (sd_data (pr_sd pr)) <> None -> alookup k (sd_data s) <> None.
Proof. exact direct_include_complete. Qed.
Print Assumptions C06_direct_include_complete.
Example C06_direct_include_complete_nonvacuous :
  exists s c' u0 pr0 i d n u,
    read_plain C06_fs C06_root true true (-1)%Z = Ok (s, c') /\
    fs_lookup (norm_path C06_root) C06_fs = Some u0 /\ parse_unit true C06_root (-1)%Z u0 = Ok pr0 /\
    In (i, (d, n, C06_s "/c.json")) (sd_inc (pr_sd pr0)) /\
    fs_lookup (norm_path (C06_s "/c.json")) C06_fs = Some u.
Proof.
  do 8 eexists. split; [vm_compute; reflexivity|]. split; [vm_compute; reflexivity|].
  split; [vm_compute; reflexivity|]. split; [vm_compute; right; left; reflexivity | vm_compute; reflexivity].
Qed.

(* the same at any level, with the next level exposed (two-level case and the induction step of the general
   case): an include entry whose file exists and is not on the chain is parsed, its keys arrive, and if it
   has includes of its own its sub-run succeeded and everything that sub-run produced arrives *)
Theorem C06_include_complete_rec : forall f fs com chain parent count s c' i d n path u,
  merge_includes_rec (S f) fs com chain parent count = Ok (s, c') ->
  keys_nodup (map fst (sd_data parent)) = true ->
  In (i, (d, n, path)) (sd_inc parent) ->
  in_chain (norm_path path) chain = false -> fs_lookup (norm_path path) fs = Some u ->
  exists c1 pr, parse_unit com path c1 u = Ok pr /\
    (forall k, ordinary_key k = true -> alookup k (sd_data (pr_sd pr)) <> None -> alookup k (sd_data s) <> None) /\
    (sd_inc (pr_sd pr) <> [] ->
     exists s1 c2, merge_includes_rec f fs com (chain ++ [norm_path path]) (pr_sd pr) (pr_count pr) = Ok (s1, c2) /\
       forall k, ordinary_key k = true -> alookup k (sd_data s1) <> None -> alookup k (sd_data s) <> None).
Proof. exact rec_direct_include_complete. Qed.
Print Assumptions C06_include_complete_rec.
Example C06_include_complete_rec_nonvacuous :
  exists s c' i d n u,
    merge_includes_rec (S (length C06_fs)) C06_fs true [] (pr_sd C06_pr0) (pr_count C06_pr0) = Ok (s, c') /\
    keys_nodup (map fst (sd_data (pr_sd C06_pr0))) = true /\
    In (i, (d, n, C06_s "/b.json")) (sd_inc (pr_sd C06_pr0)) /\
    in_chain (norm_path (C06_s "/b.json")) [] = false /\
    fs_lookup (norm_path (C06_s "/b.json")) C06_fs = Some u.
Proof.
  do 6 eexists. split; [vm_compute; reflexivity|]. split; [vm_compute; reflexivity|].
  split; [vm_compute; left; reflexivity|]. split; [vm_compute; reflexivity|]. vm_compute; reflexivity.
Qed.

(* Transitive.  IncludeProofs.run_reach fs com f chain parent count f' chain' path pr  is the inductive
   reachability relation: [path] is reached from [parent] through include entries each of which names an
   existing file that is not on the chain at that point (chain' = chain followed by the resolved paths walked,
   so no file repeats on it), and [pr] is what the file parses to at the counter value the run has there
   (IncludeProofs.direct_include fixes that value as the one the model's own loop leaves after the earlier
   entries).  Every ordinary key of every file so reached is a key of the result. *)
Theorem C06_reachable_file_complete : forall fs root com c s c' u0 pr0 f' chain' path pr k,
  read_plain fs root true com c = Ok (s, c') ->
  fs_lookup (norm_path root) fs = Some u0 -> parse_unit com root c u0 = Ok pr0 ->
  run_reach fs com (S (length fs)) [] (pr_sd pr0) (pr_count pr0) f' chain' path pr ->
  ordinary_key k = true -> alookup k (sd_data (pr_sd pr)) <> None ->
  alookup k (sd_data s) <> None.
Proof. exact reachable_file_complete. Qed.
Print Assumptions C06_reachable_file_complete.

(* ... and the relation is not thin: it holds of every include entry of the root that names an existing file,
   and it is closed under every include entry of a reached file that names an existing file not on the chain
   there.  Nothing (cycle, shared file, missing file, other includes) suppresses such an entry. *)
Theorem C06_root_includes_reached : forall fs root com c s c' u0 pr0 i d n path u,
  read_plain fs root true com c = Ok (s, c') ->
  fs_lookup (norm_path root) fs = Some u0 -> parse_unit com root c u0 = Ok pr0 ->
  In (i, (d, n, path)) (sd_inc (pr_sd pr0)) -> fs_lookup (norm_path path) fs = Some u ->
  exists pr, run_reach fs com (S (length fs)) [] (pr_sd pr0) (pr_count pr0) (length fs) [norm_path path] path pr.
Proof. exact root_includes_reached. Qed.
Print Assumptions C06_root_includes_reached.

Theorem C06_reachable_files_closed : forall fs root com c s c' u0 pr0 f' chain' path pr i d n path' u',
  read_plain fs root true com c = Ok (s, c') ->
  fs_lookup (norm_path root) fs = Some u0 -> parse_unit com root c u0 = Ok pr0 ->
  run_reach fs com (S (length fs)) [] (pr_sd pr0) (pr_count pr0) f' chain' path pr ->
  In (i, (d, n, path')) (sd_inc (pr_sd pr)) ->
  in_chain (norm_path path') chain' = false -> fs_lookup (norm_path path') fs = Some u' ->
  exists f'' pr',
    run_reach fs com (S (length fs)) [] (pr_sd pr0) (pr_count pr0) f'' (chain' ++ [norm_path path']) path' pr'.
Proof. exact reachable_files_closed. Qed.
Print Assumptions C06_reachable_files_closed.
Example C06_root_includes_reached_nonvacuous :
  exists s c' u0 i d n u,
    read_plain C06_fs C06_root true true (-1)%Z = Ok (s, c') /\
    fs_lookup (norm_path C06_root) C06_fs = Some u0 /\ parse_unit true C06_root (-1)%Z u0 = Ok C06_pr0 /\
    In (i, (d, n, C06_s "/b.json")) (sd_inc (pr_sd C06_pr0)) /\
    fs_lookup (norm_path (C06_s "/b.json")) C06_fs = Some u.
Proof.
  do 7 eexists. split; [vm_compute; reflexivity|]. split; [vm_compute; reflexivity|].
  split; [vm_compute; reflexivity|]. split; [vm_compute; left; reflexivity | vm_compute; reflexivity].
Qed.
(* c.json is reached directly; its entry for sub/b.json names an existing file that is not on the chain [c] *)
Example C06_reachable_files_closed_nonvacuous :
  exists s c' u0 f' chain' pr i d n u',
    read_plain C06_fs C06_root true true (-1)%Z = Ok (s, c') /\
    fs_lookup (norm_path C06_root) C06_fs = Some u0 /\ parse_unit true C06_root (-1)%Z u0 = Ok C06_pr0 /\
    run_reach C06_fs true (S (length C06_fs)) [] (pr_sd C06_pr0) (pr_count C06_pr0) f' chain' (C06_s "/c.json") pr /\
    In (i, (d, n, C06_s "/sub/b.json")) (sd_inc (pr_sd pr)) /\
    in_chain (norm_path (C06_s "/sub/b.json")) chain' = false /\
    fs_lookup (norm_path (C06_s "/sub/b.json")) C06_fs = Some u'.
Proof.
  do 10 eexists. split; [vm_compute; reflexivity|]. split; [vm_compute; reflexivity|].
  split; [vm_compute; reflexivity|]. split; [apply RR_direct; C06_direct 1%nat|].
  split; [vm_compute; right; right; left; reflexivity|]. split; [vm_compute; reflexivity | vm_compute; reflexivity].
Qed.

(* /sub/b.json is reached through c.json, the second include of the root (so the loop has processed b.json and
   everything below it before: the witness of direct_include carries that state); its own entry b.json
   resolves to /sub/b.json, which is on the chain there and cut *)
Example C06_reachable_file_complete_nonvacuous :
  exists s c' u0 f' chain' pr,
    read_plain C06_fs C06_root true true (-1)%Z = Ok (s, c') /\
    fs_lookup (norm_path C06_root) C06_fs = Some u0 /\ parse_unit true C06_root (-1)%Z u0 = Ok C06_pr0 /\
    run_reach C06_fs true (S (length C06_fs)) [] (pr_sd C06_pr0) (pr_count C06_pr0) f' chain' (C06_s "/sub/b.json") pr /\
    chain' = [C06_s "/c.json"; C06_s "/sub/b.json"] /\
    ordinary_key (KS (C06_s "e")) = true /\ alookup (KS (C06_s "e")) (sd_data (pr_sd pr)) <> None /\
    (* the self include of /sub/b.json is cut by the chain *)
    in_chain (norm_path (C06_s "/sub/b.json")) chain' = true.
Proof.
  do 6 eexists. split; [vm_compute; reflexivity|]. split; [vm_compute; reflexivity|].
  split; [vm_compute; reflexivity|]. split.
  - eapply RR_trans; [C06_direct 1%nat|]. apply RR_direct. C06_direct 2%nat.
  - C06_check.
Qed.

Example C06_reachable_shared_and_cycle :
  (* d.json is reached through b.json; its include of a.json closes the cycle a -> b -> d -> a.  The root is
     not on its own chain (merge_includes starts with the empty chain), so a.json is parsed once more as an
     include and only then cut: a second copy of the root's keys is merged in, which changes nothing *)
  exists f' chain' pr f'' chain'' pr',
    run_reach C06_fs true (S (length C06_fs)) [] (pr_sd C06_pr0) (pr_count C06_pr0) f' chain' (C06_s "/d.json") pr /\
    chain' = [C06_s "/b.json"; C06_s "/d.json"] /\
    run_reach C06_fs true (S (length C06_fs)) [] (pr_sd C06_pr0) (pr_count C06_pr0) f'' chain'' (C06_s "/a.json") pr' /\
    chain'' = [C06_s "/b.json"; C06_s "/d.json"; C06_s "/a.json"] /\
    (* the include entries of that second copy of a.json (b.json, c.json): b.json is on the chain and cut *)
    in_chain (C06_s "/b.json") chain'' = true.
Proof.
  do 6 eexists. split.
  - eapply RR_trans; [C06_direct 0%nat|]. apply RR_direct. C06_direct 0%nat.
  - split; [vm_compute; reflexivity|]. split.
    + eapply RR_trans; [C06_direct 0%nat|]. eapply RR_trans; [C06_direct 0%nat|]. apply RR_direct. C06_direct 0%nat.
    + C06_check.
Qed.

(* why ordinary_key is there: c.json and b.json both include d.json; the placeholder entry of c.json's
   directive carries the same (directive, name, path) as b.json's, and the clean-up after the merge
   (sd_clean / clean_kind with inc_eqb) deletes it as a doublette.  The key is in the parsed file, not in
   the result. *)
Example C06_placeholder_key_can_vanish :
  let fs := [ (C06_s "/a.json", FJson [C06_inc "#include" "b.json"; C06_inc "#include 2" "c.json"]);
              (C06_s "/b.json", FJson [C06_inc "#include" "d.json"; C06_kv "b" 1]);
              (C06_s "/c.json", FJson [C06_inc "#include" "d.json"; C06_kv "c" 1]);
              (C06_s "/d.json", FJson [C06_kv "d" 1]) ] in
  let k := KS (C06_s "INCLUDE000003") in
  (* c.json is parsed with the counter at 2 in this run *)
  match parse_unit true (C06_s "/c.json") 2%Z (FJson [C06_inc "#include" "d.json"; C06_kv "c" 1]) with
  | Ok pr => alookup k (sd_data (pr_sd pr)) <> None
  | Raise _ => False
  end /\
  ordinary_key k = false /\
  match read_plain fs (C06_s "/a.json") true true (-1)%Z with
  | Ok (s, _) => alookup k (sd_data s) = None /\ alookup (KS (C06_s "c")) (sd_data s) = Some (Leaf (SInt 1))
  | Raise _ => False
  end.
Proof. C06_check. Qed.

(* ---- 4. INCLUDE ORDER: an earlier include wins over every later one ---------------------------------- *)
(* [pre] are the entries before the one in question, [temp] / [c1] what the model's loop has built from them
   (inc_step is the loop body of merge_includes_rec, IncludeProofs.merge_includes_rec_S).  The including file
   must not define k (else it wins, theorem 2) and no earlier include may have brought k (else that one wins,
   this theorem); the entries after it ([suf]) are arbitrary: whatever they define for k is ignored. *)
Theorem C06_earlier_include_wins : forall fs root com c s c' u0 pr0 pre i d n path suf temp c1 u pr k v,
  read_plain fs root true com c = Ok (s, c') ->
  fs_lookup (norm_path root) fs = Some u0 -> parse_unit com root c u0 = Ok pr0 ->
  sd_inc (pr_sd pr0) = pre ++ (i, (d, n, path)) :: suf ->
  fold_left (inc_step (merge_includes_rec (length fs) fs com) fs com []) pre (Ok (sd_empty, pr_count pr0)) = Ok (temp, c1) ->
  fs_lookup (norm_path path) fs = Some u -> parse_unit com path c1 u = Ok pr ->
  ordinary_key k = true -> ordinary_leaf v = true ->
  alookup k (sd_data (pr_sd pr0)) = None -> alookup k (sd_data temp) = None ->
  alookup k (sd_data (pr_sd pr)) = Some (Leaf v) ->
  alookup k (sd_data s) = Some (Leaf v).
Proof. exact earlier_include_wins. Qed.
Print Assumptions C06_earlier_include_wins.
(* In C06_fs the cycle a -> b -> d -> a re-reads the root inside the first include (the root is not on its
   own chain), so there the first include already brings every key.  A second file system, without a cycle
   through the root:  a includes b, c, d;  c includes b (shared) and d;  d includes c (cycle c <-> d). *)
Definition C06_fs2 : fsys :=
  [ (C06_s "/a.json", FJson [C06_inc "#include" "b.json"; C06_inc "#include 2" "c.json"; C06_inc "#include 3" "d.json";
                             C06_kv "a" 1]);
    (C06_s "/b.json", FJson [C06_kv "b" 1]);
    (C06_s "/c.json", FJson [C06_kv "c" 2; C06_kv "b" 3; C06_inc "#include" "b.json"; C06_inc "#include 2" "d.json"]);
    (C06_s "/d.json", FJson [C06_kv "c" 4; C06_kv "d" 5; C06_inc "#include" "c.json"]) ].
Example C06_earlier_include_wins_nonvacuous :
  (* c.json is the second include and defines c = 2; b.json (before it) has no c; d.json (after it) has c = 4 *)
  exists s c' u0 pr0 pre i d n suf temp c1 u pr,
    read_plain C06_fs2 C06_root true true (-1)%Z = Ok (s, c') /\
    fs_lookup (norm_path C06_root) C06_fs2 = Some u0 /\ parse_unit true C06_root (-1)%Z u0 = Ok pr0 /\
    pre = firstn 1 (sd_inc (pr_sd pr0)) /\
    sd_inc (pr_sd pr0) = pre ++ (i, (d, n, C06_s "/c.json")) :: suf /\
    fold_left (inc_step (merge_includes_rec (length C06_fs2) C06_fs2 true) C06_fs2 true []) pre
              (Ok (sd_empty, pr_count pr0)) = Ok (temp, c1) /\
    fs_lookup (norm_path (C06_s "/c.json")) C06_fs2 = Some u /\ parse_unit true (C06_s "/c.json") c1 u = Ok pr /\
    ordinary_key (KS (C06_s "c")) = true /\ ordinary_leaf (SInt 2) = true /\
    alookup (KS (C06_s "c")) (sd_data (pr_sd pr0)) = None /\ alookup (KS (C06_s "c")) (sd_data temp) = None /\
    alookup (KS (C06_s "c")) (sd_data (pr_sd pr)) = Some (Leaf (SInt 2)) /\
    alookup (KS (C06_s "c")) (sd_data (pr_sd (C06_parse_in C06_fs2 (C06_s "/d.json") 1%Z))) = Some (Leaf (SInt 4)) /\
    alookup (KS (C06_s "c")) (sd_data s) = Some (Leaf (SInt 2)).
Proof. do 13 eexists. C06_check. Qed.

(* the first include of the root: nothing is earlier, the counter is the one the root's parse left *)
Theorem C06_first_include_wins : forall fs root com c s c' u0 pr0 i d n path suf u pr k v,
  read_plain fs root true com c = Ok (s, c') ->
  fs_lookup (norm_path root) fs = Some u0 -> parse_unit com root c u0 = Ok pr0 ->
  sd_inc (pr_sd pr0) = (i, (d, n, path)) :: suf ->
  fs_lookup (norm_path path) fs = Some u -> parse_unit com path (pr_count pr0) u = Ok pr ->
  ordinary_key k = true -> ordinary_leaf v = true ->
  alookup k (sd_data (pr_sd pr0)) = None ->
  alookup k (sd_data (pr_sd pr)) = Some (Leaf v) ->
  alookup k (sd_data s) = Some (Leaf v).
Proof. exact first_include_wins. Qed.
Print Assumptions C06_first_include_wins.
Example C06_first_include_wins_nonvacuous :
  (* b: 20 in b.json (first include), 30 in c.json and 60 in /sub/b.json (later); the root has no b *)
  exists s c' u0 i d n suf u pr,
    read_plain C06_fs C06_root true true (-1)%Z = Ok (s, c') /\
    fs_lookup (norm_path C06_root) C06_fs = Some u0 /\ parse_unit true C06_root (-1)%Z u0 = Ok C06_pr0 /\
    sd_inc (pr_sd C06_pr0) = (i, (d, n, C06_s "/b.json")) :: suf /\
    fs_lookup (norm_path (C06_s "/b.json")) C06_fs = Some u /\
    parse_unit true (C06_s "/b.json") (pr_count C06_pr0) u = Ok pr /\
    ordinary_key (KS (C06_s "b")) = true /\ ordinary_leaf (SInt 20) = true /\
    alookup (KS (C06_s "b")) (sd_data (pr_sd C06_pr0)) = None /\
    alookup (KS (C06_s "b")) (sd_data (pr_sd pr)) = Some (Leaf (SInt 20)) /\
    C06_value "b" = Some (Leaf (SInt 20)).
Proof. do 9 eexists. C06_check. Qed.


(* ================================================================================================== *)
(* added from Properties/C06_add.v (2026-10-01)                                              *)
(* ================================================================================================== *)
(* C06 (continued)  Include merging on KEY PATHS: precedence, completeness and include order of C06.v (top level
   keys) composed with the path algebra of merge and clean-up (C07), for ordinary key paths at every depth of
   nesting (proofs: Proofs/IncludeNested.v).

   Vocabulary (Proofs/IncludeNested.v), for a tree t and a key path p walked through dicts (get_dpath):
     clear_above t p   no leaf or list is met before the end of p (the walk may fall off a dict)
     clear_upto t p    ... and t holds nothing or a dict at p itself
     falls_off t p     ... and t holds nothing at p
     leaf_ok p v       a TOP LEVEL leaf (p = [k]) is ordinary_leaf (not the self reference "$k" that a merge fills,
                       C06_self_reference_is_filled); a nested leaf is arbitrary (C06_nested_self_reference_is_kept)
     fs_wf fs          the tree of every JSON unit of fs has unique keys at every level (what json.loads returns
                       is a Python dict; the model takes an association list).  Native units need nothing:
                       WriteProofs.parse_string_wf.
     reach_where fs com N ..  IncludeProofs.run_reach where at every level walked the two TARGETS the content of
                       the reached file is merged into on its way up -- the including file's own parse [parent]
                       and the state [temp] the loop has built from the earlier includes of that file -- satisfy N
                       (direct_include_t = IncludeProofs.direct_include with [temp] exposed). *)
From Coq Require Import String.   (* string literals of the examples; imported first so the list names win *)
From Coq Require Import NArith ZArith List Bool.
From DictIO Require Import Chars Str Value Scalar SDict Lexer TokParser Reader TreeSpec LayoutSpec SemProofs
     IncludeProofs IncludeNested.
Import ListNotations.

(* ---- the example file system of the non-vacuity checks ---------------------------------------------
     /r.dict (native)  includes a.json, b.json, d.json                       (root)
     /a.json           includes c.dict
     /c.dict (native), /b.json, /d.json   no includes
   every file has a nested dict  sub { .. deep { .. } }  with keys shared two and three levels deep;
   precedence order (including file, then its includes in directive order, depth first):  r  a  c  b  d *)
Definition C06n_s (s : string) : str := of_string s.
Definition C06n_inc (k f : string) : key * tree := (KS (C06n_s k), Leaf (SStr (C06n_s f))).
Definition C06n_kv (k : string) (n : Z) : key * tree := (KS (C06n_s k), Leaf (SInt n)).
Definition C06n_kd (k : string) (d : list (key * tree)) : key * tree := (KS (C06n_s k), Dict d).
Definition C06n_p1 (a : string) : list key := [KS (C06n_s a)].
Definition C06n_p2 (a b : string) : list key := [KS (C06n_s a); KS (C06n_s b)].
Definition C06n_p3 (a b c : string) : list key := [KS (C06n_s a); KS (C06n_s b); KS (C06n_s c)].
Definition C06n_fs : fsys :=
  [ (C06n_s "/r.dict", FNative (C06n_s "#include 'a.json'
#include 'b.json'
#include 'd.json'
sub { x 1; deep { p 1; } }
"));
    (C06n_s "/a.json", FJson [C06n_inc "#include" "c.dict";
                              C06n_kd "sub" [C06n_kv "x" 2; C06n_kv "y" 2; C06n_kd "deep" [C06n_kv "p" 2; C06n_kv "q" 2]];
                              C06n_kv "blk" 7]);
    (C06n_s "/b.json", FJson [C06n_kd "sub" [C06n_kv "y" 3; C06n_kv "z" 3;
                                             C06n_kd "deep" [C06n_kv "q" 3; C06n_kv "r" 3; C06n_kv "t" 3]];
                              C06n_kd "blk" [C06n_kv "m" 3]]);
    (C06n_s "/c.dict", FNative (C06n_s "sub { z 4; w 4; deep { q 4; r 4; s 4; } only { u 4; } }
blk { m 4; }
"));
    (C06n_s "/d.json", FJson [C06n_kd "sub" [C06n_kd "deep" [C06n_kv "t" 9; C06n_kv "p" 9]]]) ].
Definition C06n_root : str := C06n_s "/r.dict".
Definition C06n_dummy : parsed := mkParsed sd_empty 0%Z.
Definition C06n_parse (path : string) (c : Z) : parsed :=
  match fs_lookup (norm_path (C06n_s path)) C06n_fs with
  | Some u => match parse_unit true (C06n_s path) c u with Ok pr => pr | Raise _ => C06n_dummy end
  | None => C06n_dummy
  end.
Definition C06n_pr0 : parsed := C06n_parse "/r.dict" (-1)%Z.
Definition C06n_at (p : list key) : option tree :=
  match read_plain C06n_fs C06n_root true true (-1)%Z with
  | Ok (s, _) => get_dpath (Dict (sd_data s)) p
  | Raise _ => None
  end.
(* what the model returns on it *)
Example C06n_example_result :
  fs_wf C06n_fs = true /\
  (exists s c', read_plain C06n_fs C06n_root true true (-1)%Z = Ok (s, c') /\
     remove_include_keys (sd_data s) =
       [C06n_kd "sub" [C06n_kv "x" 1;
                       C06n_kd "deep" [C06n_kv "p" 1; C06n_kv "q" 2; C06n_kv "r" 4; C06n_kv "s" 4; C06n_kv "t" 3];
                       C06n_kv "y" 2; C06n_kv "z" 4; C06n_kv "w" 4; C06n_kd "only" [C06n_kv "u" 4]];
        C06n_kv "blk" 7]).
Proof. split; [vm_compute; reflexivity|]. do 2 eexists. split; vm_compute; reflexivity. Qed.

(* conjuncts are checked from left to right (an existential witness is fixed by the first equation that mentions
   it); [C06n_keep] keeps each checked conjunct as a hypothesis, for the application of the theorem at the end *)
Ltac C06n_check :=
  cbv zeta;
  repeat match goal with
         | |- _ /\ _ => split; [solve [vm_compute; first [reflexivity | discriminate]] | ]
         end;
  vm_compute; repeat match goal with |- _ /\ _ => split end; first [reflexivity | discriminate].
Ltac C06n_direct k :=
  match goal with
  | |- direct_include_t _ _ _ _ ?parent _ _ _ _ =>
      let pre := eval vm_compute in (firstn k (sd_inc parent)) in
      exists pre; do 6 eexists; C06n_check
  end.
Ltac C06n_keep tac :=
  match goal with
  | |- ?A /\ _ => let H := fresh "Hyp" in assert (H : A) by tac; split; [exact H|]
  end.
Ltac C06n_vm := solve [vm_compute; first [reflexivity | discriminate]].

(* ---- 1. PRECEDENCE on key paths: the including file wins ------------------------------------------- *)
Theorem C06_including_file_wins_deep : forall fs root com c u pr s c' p v,
  fs_wf fs = true ->
  fs_lookup (norm_path root) fs = Some u -> parse_unit com root c u = Ok pr ->
  read_plain fs root true com c = Ok (s, c') ->
  forallb ordinary_key p = true -> leaf_ok p v = true ->
  get_dpath (Dict (sd_data (pr_sd pr))) p = Some (Leaf v) ->
  get_dpath (Dict (sd_data s)) p = Some (Leaf v).
Proof. exact including_file_wins_deep. Qed.
Print Assumptions C06_including_file_wins_deep.
Example C06_including_file_wins_deep_nonvacuous :
  (* sub.deep.p is 1 in the root, 2 in a.json, 9 in d.json *)
  let p := C06n_p3 "sub" "deep" "p" in
  exists u pr s c',
    fs_wf C06n_fs = true /\
    fs_lookup (norm_path C06n_root) C06n_fs = Some u /\ parse_unit true C06n_root (-1)%Z u = Ok pr /\
    read_plain C06n_fs C06n_root true true (-1)%Z = Ok (s, c') /\
    forallb ordinary_key p = true /\ leaf_ok p (SInt 1) = true /\
    get_dpath (Dict (sd_data (pr_sd pr))) p = Some (Leaf (SInt 1)) /\
    get_dpath (Dict (sd_data (pr_sd (C06n_parse "/a.json" 2%Z)))) p = Some (Leaf (SInt 2)) /\
    get_dpath (Dict (sd_data s)) p = Some (Leaf (SInt 1)).
Proof.
  intro p. do 4 eexists. do 8 C06n_keep C06n_vm.
  eapply C06_including_file_wins_deep; eassumption.
Qed.

(* at every level of the recursion (any chain, any fuel); only the parent has to have unique keys *)
Theorem C06_including_file_wins_rec_deep : forall f fs com chain parent count s c' p v,
  merge_includes_rec f fs com chain parent count = Ok (s, c') ->
  wf (Dict (sd_data parent)) = true ->
  forallb ordinary_key p = true -> leaf_ok p v = true ->
  get_dpath (Dict (sd_data parent)) p = Some (Leaf v) ->
  get_dpath (Dict (sd_data s)) p = Some (Leaf v).
Proof. exact including_file_wins_rec_deep. Qed.
Print Assumptions C06_including_file_wins_rec_deep.
Example C06_including_file_wins_rec_deep_nonvacuous :
  (* a.json as the parent of the sub-run below the root: its sub.deep.q = 2 beats c.dict's sub.deep.q = 4 *)
  let p := C06n_p3 "sub" "deep" "q" in
  let parent := pr_sd (C06n_parse "/a.json" 2%Z) in
  exists s c',
    merge_includes_rec 5 C06n_fs true [C06n_s "/a.json"] parent 3%Z = Ok (s, c') /\
    wf (Dict (sd_data parent)) = true /\
    forallb ordinary_key p = true /\ leaf_ok p (SInt 2) = true /\
    get_dpath (Dict (sd_data parent)) p = Some (Leaf (SInt 2)) /\
    get_dpath (Dict (sd_data (pr_sd (C06n_parse "/c.dict" 3%Z)))) p = Some (Leaf (SInt 4)) /\
    get_dpath (Dict (sd_data s)) p = Some (Leaf (SInt 2)).
Proof.
  intros p parent. do 2 eexists. do 6 C06n_keep C06n_vm.
  eapply C06_including_file_wins_rec_deep; eassumption.
Qed.

(* leaf_ok asks nothing of a nested leaf: the self reference test of the merge looks at top level entries only
   (at the top level the entry is filled: C06_self_reference_is_filled) *)
Example C06_nested_self_reference_is_kept :
  let fs := [ (C06n_s "/a.json", FJson [C06n_inc "#include" "b.json";
                                        C06n_kd "d" [(KS (C06n_s "x"), Leaf (SStr (C06n_s "$x")))]]);
              (C06n_s "/b.json", FJson [C06n_kd "d" [C06n_kv "x" 5]]) ] in
  let p := C06n_p2 "d" "x" in
  (* what the JSON front end makes of "$x": the placeholder of the expression table entry 1 -> "$x" *)
  let v := SStr (C06n_s "EXPRESSION000001") in
  exists u pr s c',
    fs_wf fs = true /\
    fs_lookup (norm_path (C06n_s "/a.json")) fs = Some u /\ parse_unit true (C06n_s "/a.json") (-1)%Z u = Ok pr /\
    read_plain fs (C06n_s "/a.json") true true (-1)%Z = Ok (s, c') /\
    forallb ordinary_key p = true /\ leaf_ok p v = true /\ ordinary_leaf v = false /\
    sd_expr (pr_sd pr) = [(1%N, (C06n_s "$x", C06n_s "EXPRESSION000001"))] /\
    get_dpath (Dict (sd_data (pr_sd pr))) p = Some (Leaf v) /\
    get_dpath (Dict (sd_data s)) p = Some (Leaf v).
Proof.
  intros fs p v. do 4 eexists. do 9 C06n_keep C06n_vm.
  eapply C06_including_file_wins_deep; eassumption.
Qed.

(* whatever the including file holds at a path (leaf, list or dict) leads to something in the result, and a dict
   to a dict: its keys are merged with those of the includes, theorems 2 and 3 *)
Theorem C06_including_file_paths_kept : forall fs root com c u pr s c' p x,
  fs_wf fs = true ->
  fs_lookup (norm_path root) fs = Some u -> parse_unit com root c u = Ok pr ->
  read_plain fs root true com c = Ok (s, c') ->
  forallb ordinary_key p = true ->
  get_dpath (Dict (sd_data (pr_sd pr))) p = Some x ->
  exists x', get_dpath (Dict (sd_data s)) p = Some x' /\ (forall kvs, x = Dict kvs -> exists kvs', x' = Dict kvs').
Proof. exact including_file_paths_kept. Qed.
Print Assumptions C06_including_file_paths_kept.
Example C06_including_file_paths_kept_nonvacuous :
  (* the root's sub.deep = { p 1 } is a dict; in the result it is a dict with the keys of a, b and c merged in *)
  let p := C06n_p2 "sub" "deep" in
  exists u pr s c',
    fs_wf C06n_fs = true /\
    fs_lookup (norm_path C06n_root) C06n_fs = Some u /\ parse_unit true C06n_root (-1)%Z u = Ok pr /\
    read_plain C06n_fs C06n_root true true (-1)%Z = Ok (s, c') /\
    forallb ordinary_key p = true /\
    get_dpath (Dict (sd_data (pr_sd pr))) p = Some (Dict [C06n_kv "p" 1]) /\
    exists kvs', get_dpath (Dict (sd_data s)) p = Some (Dict kvs').
Proof.
  intro p. do 4 eexists. do 6 C06n_keep C06n_vm.
  destruct (C06_including_file_paths_kept _ _ _ _ _ _ _ _ _ _ Hyp Hyp0 Hyp1 Hyp2 Hyp3 Hyp4) as [x' [Hx Hd]].
  destruct (Hd _ eq_refl) as [kvs' E]. exists kvs'. rewrite Hx, E. reflexivity.
Qed.

(* ---- 2. COMPLETENESS on key paths -------------------------------------------------------------------- *)
(* Every ordinary key path that leads to anything (leaf, list, dict) in the own parse of a reached file leads to
   something in the result, PROVIDED no target on the way up holds a leaf or a list above the path.  The
   condition cannot be dropped and cannot be read off the result: C06_blocked_path_finding below. *)
Theorem C06_reachable_file_complete_deep : forall fs root com c s c' u0 pr0 f' chain' path pr p,
  fs_wf fs = true ->
  read_plain fs root true com c = Ok (s, c') ->
  fs_lookup (norm_path root) fs = Some u0 -> parse_unit com root c u0 = Ok pr0 ->
  forallb ordinary_key p = true ->
  reach_where fs com (fun d => clear_above (Dict d) p = true)
              (S (length fs)) [] (pr_sd pr0) (pr_count pr0) f' chain' path pr ->
  get_dpath (Dict (sd_data (pr_sd pr))) p <> None ->
  get_dpath (Dict (sd_data s)) p <> None.
Proof. exact reachable_file_complete_deep. Qed.
Print Assumptions C06_reachable_file_complete_deep.
Example C06_reachable_file_complete_deep_nonvacuous :
  (* c.dict is reached through a.json; only c.dict has sub.only.u *)
  let p := C06n_p3 "sub" "only" "u" in
  exists s c' u0 f' chain' pr,
    fs_wf C06n_fs = true /\
    read_plain C06n_fs C06n_root true true (-1)%Z = Ok (s, c') /\
    fs_lookup (norm_path C06n_root) C06n_fs = Some u0 /\ parse_unit true C06n_root (-1)%Z u0 = Ok C06n_pr0 /\
    forallb ordinary_key p = true /\
    reach_where C06n_fs true (fun d => clear_above (Dict d) p = true)
                (S (length C06n_fs)) [] (pr_sd C06n_pr0) (pr_count C06n_pr0) f' chain' (C06n_s "/c.dict") pr /\
    chain' = [C06n_s "/a.json"; C06n_s "/c.dict"] /\
    get_dpath (Dict (sd_data (pr_sd pr))) p <> None /\
    get_dpath (Dict (sd_data s)) p <> None.
Proof.
  intro p. do 6 eexists. do 5 C06n_keep C06n_vm.
  C06n_keep ltac:(eapply RW_trans; [C06n_direct 0%nat | C06n_vm | C06n_vm |
                                    eapply RW_direct; [C06n_direct 0%nat | C06n_vm | C06n_vm]]).
  do 2 C06n_keep C06n_vm.
  eapply C06_reachable_file_complete_deep; eassumption.
Qed.

(* ... and to a dict where the reached file has a dict, provided no target holds a leaf or a list at the path
   itself either (such a target wins: theorem 1 / 3) *)
Theorem C06_reachable_file_dict_deep : forall fs root com c s c' u0 pr0 f' chain' path pr p kvs,
  fs_wf fs = true ->
  read_plain fs root true com c = Ok (s, c') ->
  fs_lookup (norm_path root) fs = Some u0 -> parse_unit com root c u0 = Ok pr0 ->
  forallb ordinary_key p = true ->
  reach_where fs com (fun d => clear_upto (Dict d) p = true)
              (S (length fs)) [] (pr_sd pr0) (pr_count pr0) f' chain' path pr ->
  get_dpath (Dict (sd_data (pr_sd pr))) p = Some (Dict kvs) ->
  exists kvs', get_dpath (Dict (sd_data s)) p = Some (Dict kvs').
Proof. exact reachable_file_dict_deep. Qed.
Print Assumptions C06_reachable_file_dict_deep.
Example C06_reachable_file_dict_deep_nonvacuous :
  (* b.json is the second include of the root; its sub.deep is a dict, as is the root's and the one the loop
     has built from a.json and c.dict before *)
  let p := C06n_p2 "sub" "deep" in
  exists s c' u0 f' chain' pr kvs,
    fs_wf C06n_fs = true /\
    read_plain C06n_fs C06n_root true true (-1)%Z = Ok (s, c') /\
    fs_lookup (norm_path C06n_root) C06n_fs = Some u0 /\ parse_unit true C06n_root (-1)%Z u0 = Ok C06n_pr0 /\
    forallb ordinary_key p = true /\
    reach_where C06n_fs true (fun d => clear_upto (Dict d) p = true)
                (S (length C06n_fs)) [] (pr_sd C06n_pr0) (pr_count C06n_pr0) f' chain' (C06n_s "/b.json") pr /\
    get_dpath (Dict (sd_data (pr_sd pr))) p = Some (Dict kvs) /\
    exists kvs', get_dpath (Dict (sd_data s)) p = Some (Dict kvs').
Proof.
  intro p. do 7 eexists. do 5 C06n_keep C06n_vm.
  C06n_keep ltac:(eapply RW_direct; [C06n_direct 1%nat | C06n_vm | C06n_vm]).
  C06n_keep C06n_vm.
  eapply C06_reachable_file_dict_deep; eassumption.
Qed.

(* FINDING (the informal "every key of every reachable file is present; nested dicts are merged key by key" is
   false of the model and of the library).  x.json holds the leaf  a 7  and includes f.json, which holds
   a { c 5; }: merged into x.json the dict loses against the leaf, so a.c is gone; then x.json's leaf loses
   against the dict  a { b 1; }  of the root.  f.json is reached, [a; c] is an ordinary key path of it, the
   result holds nothing there -- and shows no leaf above it either: the blocker is the intermediate file.
   DictReader.read of the library returns the same  {a: {b: 1}}  (checked on the real code, JSON and native). *)
Example C06_blocked_path_finding :
  let fs := [ (C06n_s "/r.json", FJson [C06n_inc "#include" "x.json"; C06n_kd "a" [C06n_kv "b" 1]]);
              (C06n_s "/x.json", FJson [C06n_inc "#include" "f.json"; C06n_kv "a" 7]);
              (C06n_s "/f.json", FJson [C06n_kd "a" [C06n_kv "c" 5]]) ] in
  let p := C06n_p2 "a" "c" in
  let pr0 := json_parse (C06n_s "") (-1)%Z [C06n_inc "#include" "x.json"; C06n_kd "a" [C06n_kv "b" 1]] in
  fs_wf fs = true /\ forallb ordinary_key p = true /\
  (exists f' chain' pr,
     run_reach fs true (S (length fs)) [] (pr_sd pr0) (pr_count pr0) f' chain' (C06n_s "/f.json") pr /\
     get_dpath (Dict (sd_data (pr_sd pr))) p = Some (Leaf (SInt 5))) /\
  (* the including file x.json is the target that is not clear above the path *)
  clear_above (Dict (sd_data (pr_sd (json_parse (C06n_s "") 0%Z [C06n_inc "#include" "f.json"; C06n_kv "a" 7])))) p = false /\
  match read_plain fs (C06n_s "/r.json") true true (-1)%Z with
  | Ok (s, _) => get_dpath (Dict (sd_data s)) p = None /\
                 get_dpath (Dict (sd_data s)) (C06n_p1 "a") = Some (Dict [C06n_kv "b" 1])
  | Raise _ => False
  end.
Proof.
  intros fs p pr0. split; [vm_compute; reflexivity|]. split; [vm_compute; reflexivity|]. split.
  - do 3 eexists. split.
    + eapply RR_trans.
      * exists []. do 7 eexists. C06n_check.
      * apply RR_direct. exists []. do 7 eexists. C06n_check.
    + vm_compute. reflexivity.
  - split; [vm_compute; reflexivity|]. vm_compute. split; reflexivity.
Qed.

(* ---- 3. INCLUDE ORDER on key paths ------------------------------------------------------------------- *)
(* A leaf of a reached file is the leaf of the result when every target on the way up falls off at the path
   (holds nothing there and no leaf or list above it): the file is then the first one in precedence order --
   including file, then its includes in directive order, depth first -- that holds anything at or above the
   path; whatever later files hold there is ignored. *)
Theorem C06_first_holder_wins_deep : forall fs root com c s c' u0 pr0 f' chain' path pr p v,
  fs_wf fs = true ->
  read_plain fs root true com c = Ok (s, c') ->
  fs_lookup (norm_path root) fs = Some u0 -> parse_unit com root c u0 = Ok pr0 ->
  forallb ordinary_key p = true -> leaf_ok p v = true ->
  reach_where fs com (fun d => falls_off (Dict d) p = true)
              (S (length fs)) [] (pr_sd pr0) (pr_count pr0) f' chain' path pr ->
  get_dpath (Dict (sd_data (pr_sd pr))) p = Some (Leaf v) ->
  get_dpath (Dict (sd_data s)) p = Some (Leaf v).
Proof. exact first_holder_wins_deep. Qed.
Print Assumptions C06_first_holder_wins_deep.
Example C06_first_holder_wins_deep_nonvacuous :
  (* sub.deep.r: not in the root, not in a.json; 4 in c.dict (reached through a.json, so before b.json),
     3 in b.json *)
  let p := C06n_p3 "sub" "deep" "r" in
  exists s c' u0 f' chain' pr,
    fs_wf C06n_fs = true /\
    read_plain C06n_fs C06n_root true true (-1)%Z = Ok (s, c') /\
    fs_lookup (norm_path C06n_root) C06n_fs = Some u0 /\ parse_unit true C06n_root (-1)%Z u0 = Ok C06n_pr0 /\
    forallb ordinary_key p = true /\ leaf_ok p (SInt 4) = true /\
    reach_where C06n_fs true (fun d => falls_off (Dict d) p = true)
                (S (length C06n_fs)) [] (pr_sd C06n_pr0) (pr_count C06n_pr0) f' chain' (C06n_s "/c.dict") pr /\
    get_dpath (Dict (sd_data (pr_sd pr))) p = Some (Leaf (SInt 4)) /\
    get_dpath (Dict (sd_data (pr_sd (C06n_parse "/b.json" 3%Z)))) p = Some (Leaf (SInt 3)) /\
    get_dpath (Dict (sd_data s)) p = Some (Leaf (SInt 4)).
Proof.
  intro p. do 6 eexists. do 6 C06n_keep C06n_vm.
  C06n_keep ltac:(eapply RW_trans; [C06n_direct 0%nat | C06n_vm | C06n_vm |
                                    eapply RW_direct; [C06n_direct 0%nat | C06n_vm | C06n_vm]]).
  do 2 C06n_keep C06n_vm.
  eapply C06_first_holder_wins_deep; eassumption.
Qed.

(* the form of C06_earlier_include_wins: a direct include of the root, with the entries before it ([pre]) and
   what the loop has built from them ([temp]) named *)
Theorem C06_earlier_include_wins_deep : forall fs root com c s c' u0 pr0 pre i d n path suf temp c1 u pr p v,
  fs_wf fs = true ->
  read_plain fs root true com c = Ok (s, c') ->
  fs_lookup (norm_path root) fs = Some u0 -> parse_unit com root c u0 = Ok pr0 ->
  sd_inc (pr_sd pr0) = pre ++ (i, (d, n, path)) :: suf ->
  fold_left (inc_step (merge_includes_rec (length fs) fs com) fs com []) pre (Ok (sd_empty, pr_count pr0)) = Ok (temp, c1) ->
  fs_lookup (norm_path path) fs = Some u -> parse_unit com path c1 u = Ok pr ->
  forallb ordinary_key p = true -> leaf_ok p v = true ->
  falls_off (Dict (sd_data (pr_sd pr0))) p = true -> falls_off (Dict (sd_data temp)) p = true ->
  get_dpath (Dict (sd_data (pr_sd pr))) p = Some (Leaf v) ->
  get_dpath (Dict (sd_data s)) p = Some (Leaf v).
Proof. exact earlier_include_wins_deep. Qed.
Print Assumptions C06_earlier_include_wins_deep.
Example C06_earlier_include_wins_deep_nonvacuous :
  (* b.json is the second include: sub.deep.t = 3; the root, a.json and c.dict (before it) have no sub.deep.t,
     d.json (after it) has sub.deep.t = 9 *)
  let p := C06n_p3 "sub" "deep" "t" in
  exists s c' u0 pr0 pre i d n suf temp c1 u pr,
    fs_wf C06n_fs = true /\
    read_plain C06n_fs C06n_root true true (-1)%Z = Ok (s, c') /\
    fs_lookup (norm_path C06n_root) C06n_fs = Some u0 /\ parse_unit true C06n_root (-1)%Z u0 = Ok pr0 /\
    pre = firstn 1 (sd_inc (pr_sd pr0)) /\
    sd_inc (pr_sd pr0) = pre ++ (i, (d, n, C06n_s "/b.json")) :: suf /\
    fold_left (inc_step (merge_includes_rec (length C06n_fs) C06n_fs true) C06n_fs true []) pre
              (Ok (sd_empty, pr_count pr0)) = Ok (temp, c1) /\
    fs_lookup (norm_path (C06n_s "/b.json")) C06n_fs = Some u /\ parse_unit true (C06n_s "/b.json") c1 u = Ok pr /\
    forallb ordinary_key p = true /\ leaf_ok p (SInt 3) = true /\
    falls_off (Dict (sd_data (pr_sd pr0))) p = true /\ falls_off (Dict (sd_data temp)) p = true /\
    get_dpath (Dict (sd_data (pr_sd pr))) p = Some (Leaf (SInt 3)) /\
    get_dpath (Dict (sd_data (pr_sd (C06n_parse "/d.json" 3%Z)))) p = Some (Leaf (SInt 9)) /\
    get_dpath (Dict (sd_data s)) p = Some (Leaf (SInt 3)).
Proof.
  intro p. do 13 eexists. do 15 C06n_keep C06n_vm.
  eapply C06_earlier_include_wins_deep; eassumption.
Qed.

(* the first include of the root: nothing is earlier *)
Theorem C06_first_include_wins_deep : forall fs root com c s c' u0 pr0 i d n path suf u pr p v,
  fs_wf fs = true ->
  read_plain fs root true com c = Ok (s, c') ->
  fs_lookup (norm_path root) fs = Some u0 -> parse_unit com root c u0 = Ok pr0 ->
  sd_inc (pr_sd pr0) = (i, (d, n, path)) :: suf ->
  fs_lookup (norm_path path) fs = Some u -> parse_unit com path (pr_count pr0) u = Ok pr ->
  forallb ordinary_key p = true -> leaf_ok p v = true ->
  falls_off (Dict (sd_data (pr_sd pr0))) p = true ->
  get_dpath (Dict (sd_data (pr_sd pr))) p = Some (Leaf v) ->
  get_dpath (Dict (sd_data s)) p = Some (Leaf v).
Proof. exact first_include_wins_deep. Qed.
Print Assumptions C06_first_include_wins_deep.
Example C06_first_include_wins_deep_nonvacuous :
  (* sub.y: 2 in a.json (first include), 3 in b.json (later); the root's sub has no y *)
  let p := C06n_p2 "sub" "y" in
  exists s c' u0 i d n suf u pr,
    fs_wf C06n_fs = true /\
    read_plain C06n_fs C06n_root true true (-1)%Z = Ok (s, c') /\
    fs_lookup (norm_path C06n_root) C06n_fs = Some u0 /\ parse_unit true C06n_root (-1)%Z u0 = Ok C06n_pr0 /\
    sd_inc (pr_sd C06n_pr0) = (i, (d, n, C06n_s "/a.json")) :: suf /\
    fs_lookup (norm_path (C06n_s "/a.json")) C06n_fs = Some u /\
    parse_unit true (C06n_s "/a.json") (pr_count C06n_pr0) u = Ok pr /\
    forallb ordinary_key p = true /\ leaf_ok p (SInt 2) = true /\
    falls_off (Dict (sd_data (pr_sd C06n_pr0))) p = true /\
    get_dpath (Dict (sd_data (pr_sd pr))) p = Some (Leaf (SInt 2)) /\
    get_dpath (Dict (sd_data (pr_sd (C06n_parse "/b.json" 3%Z)))) p = Some (Leaf (SInt 3)) /\
    get_dpath (Dict (sd_data s)) p = Some (Leaf (SInt 2)).
Proof.
  intro p. do 9 eexists. do 12 C06n_keep C06n_vm.
  eapply C06_first_include_wins_deep; eassumption.
Qed.

(* why the targets must fall off ABOVE the path too (a leaf above it blocks, theorem 2's finding) and AT it
   (a holder of higher precedence wins): in C06n_fs the leaf  blk 7  of a.json blocks the path blk.m of c.dict
   (included by a.json) and of b.json (a later include of the root) *)
Example C06_leaf_above_blocks :
  let p := C06n_p2 "blk" "m" in
  get_dpath (Dict (sd_data (pr_sd (C06n_parse "/c.dict" 3%Z)))) p = Some (Leaf (SInt 4)) /\
  get_dpath (Dict (sd_data (pr_sd (C06n_parse "/b.json" 3%Z)))) p = Some (Leaf (SInt 3)) /\
  falls_off (Dict (sd_data (pr_sd (C06n_parse "/a.json" 2%Z)))) p = false /\
  clear_above (Dict (sd_data (pr_sd (C06n_parse "/a.json" 2%Z)))) p = false /\
  C06n_at (C06n_p2 "blk" "m") = None /\ C06n_at (C06n_p1 "blk") = Some (Leaf (SInt 7)).
Proof. C06n_check. Qed.

(* why EVERY key of the path must be ordinary: a.dict's comment inside sub has the text of the root's comment
   inside sub, so after the merge the clean-up of that level deletes a.dict's placeholder entry as a doublette
   (the nested analogue of C06_placeholder_key_can_vanish).  The targets are clear above the path, the path
   leads to a leaf in a.dict's own parse, and to nothing in the result. *)
Example C06_nested_placeholder_key_can_vanish :
  let fs := [ (C06n_s "/r.dict", FNative (C06n_s "#include 'a.dict'
sub
{
    // note
    x 1;
}
"));
              (C06n_s "/a.dict", FNative (C06n_s "sub
{
    // note
    y 2;
}
")) ] in
  let p := C06n_p2 "sub" "LINECOMMENT000002" in
  forallb ordinary_key p = false /\ ordinary_key (KS (C06n_s "sub")) = true /\
  (* a.dict is parsed with the counter at 1 in this run *)
  match parse_unit true (C06n_s "/a.dict") 1%Z (FNative (C06n_s "sub
{
    // note
    y 2;
}
")) with
  | Ok pr => get_dpath (Dict (sd_data (pr_sd pr))) p <> None
  | Raise _ => False
  end /\
  match fs_lookup (C06n_s "/r.dict") fs with
  | Some u => match parse_unit true (C06n_s "/r.dict") (-1)%Z u with
              | Ok pr0 => clear_above (Dict (sd_data (pr_sd pr0))) p = true
              | Raise _ => False
              end
  | None => False
  end /\
  match read_plain fs (C06n_s "/r.dict") true true (-1)%Z with
  | Ok (s, _) => get_dpath (Dict (sd_data s)) p = None /\
                 get_dpath (Dict (sd_data s)) (C06n_p2 "sub" "y") = Some (Leaf (SInt 2))
  | Raise _ => False
  end.
Proof. C06n_check. Qed.

(* reach_where is run_reach with the targets constrained: it implies run_reach (so the closure theorems
   C06_root_includes_reached / C06_reachable_files_closed say which files there are), and with the trivial
   constraint it IS run_reach *)
Theorem C06_reach_where_is_reached : forall fs com N f chain parent count f' chain' path pr,
  reach_where fs com N f chain parent count f' chain' path pr ->
  run_reach fs com f chain parent count f' chain' path pr.
Proof. exact reach_where_run_reach. Qed.
Print Assumptions C06_reach_where_is_reached.
Theorem C06_reached_is_reach_where : forall fs com f chain parent count f' chain' path pr,
  run_reach fs com f chain parent count f' chain' path pr ->
  reach_where fs com (fun _ => True) f chain parent count f' chain' path pr.
Proof. exact run_reach_reach_where. Qed.
Print Assumptions C06_reached_is_reach_where.
Example C06_reach_where_is_reached_nonvacuous :
  let p := C06n_p3 "sub" "deep" "r" in
  exists f' chain' pr,
    reach_where C06n_fs true (fun d => falls_off (Dict d) p = true)
                (S (length C06n_fs)) [] (pr_sd C06n_pr0) (pr_count C06n_pr0) f' chain' (C06n_s "/c.dict") pr /\
    run_reach C06n_fs true (S (length C06n_fs)) [] (pr_sd C06n_pr0) (pr_count C06n_pr0) f' chain' (C06n_s "/c.dict") pr /\
    reach_where C06n_fs true (fun _ => True)
                (S (length C06n_fs)) [] (pr_sd C06n_pr0) (pr_count C06n_pr0) f' chain' (C06n_s "/c.dict") pr.
Proof.
  intro p. do 3 eexists.
  C06n_keep ltac:(eapply RW_trans; [C06n_direct 0%nat | C06n_vm | C06n_vm |
                                    eapply RW_direct; [C06n_direct 0%nat | C06n_vm | C06n_vm]]).
  pose proof (C06_reach_where_is_reached _ _ _ _ _ _ _ _ _ _ _ Hyp) as Hr.
  split; [exact Hr | exact (C06_reached_is_reach_where _ _ _ _ _ _ _ _ _ _ Hr)].
Qed.

(* fs_wf is a condition on JSON units only: a file system of native units satisfies it *)
Theorem C06_native_fs_wf : forall fs,
  forallb (fun pu => match snd pu with FNative _ => true | FJson _ => false end) fs = true -> fs_wf fs = true.
Proof. exact fs_wf_native. Qed.
Print Assumptions C06_native_fs_wf.
Example C06_native_fs_wf_nonvacuous :
  let fs := [ (C06n_s "/r.dict", FNative (C06n_s "#include 'a.dict'
sub { x 1; }
")); (C06n_s "/a.dict", FNative (C06n_s "sub { x 2; y 2; }
")) ] in
  forallb (fun pu => match snd pu with FNative _ => true | FJson _ => false end) fs = true /\ fs_wf fs = true.
Proof.
  intro fs. C06n_keep C06n_vm. exact (C06_native_fs_wf fs Hyp).
Qed.

(* ================================================================================================== *)
(* non-vacuity examples added after the reviewer's audit (Properties/C06_nv.v, 2026-10-01)         *)
(* ================================================================================================== *)

(* ==== non-vacuity instances obtained BY APPLYING the theorems above (added after review) ==================
   The examples C06_.._nonvacuous above establish, by computation, witnesses that satisfy ALL hypotheses of their
   theorems; here those witnesses are fed to the theorems. *)

(* C06_chain_cut: /sub/b.json reached through c.json: its own include of itself finds it on the chain *)
Example C06_chain_cut_nonvacuous :
  let p := C06_s "/sub/b.json" in let chain := [C06_s "/c.json"; C06_s "/d.json"] in
  in_chain p (chain ++ [p]) = true /\ in_chain p chain = false.
Proof. intros p chain. split; [exact (C06_chain_cut p chain) | vm_compute; reflexivity]. Qed.

(* C06_norm_idem: a path with .., ., a doubled and a trailing slash *)
Example C06_norm_idem_nonvacuous :
  let p := of_string "/r/sub/../a/./x//y/" in
  norm_path (norm_path p) = norm_path p /\ norm_path p = of_string "/r/a/x/y" /\ norm_path p <> p.
Proof. intros p. split; [exact (C06_norm_idem p)|]. split; [vm_compute; reflexivity | vm_compute; discriminate]. Qed.

(* C06_fuel_irrelevant on the five-file graph with its two cycles: fuel 1000 gives what fuel 6 gives *)
Example C06_fuel_irrelevant_applied :
  exists s c, merge_includes_rec 1000 C06_fs true [] (pr_sd C06_pr0) (pr_count C06_pr0) = Ok (s, c) /\
              merge_includes_rec (S (length C06_fs)) C06_fs true [] (pr_sd C06_pr0) (pr_count C06_pr0) = Ok (s, c).
Proof.
  destruct C06_fuel_irrelevant_nonvacuous as (Hle & s & c & H). exists s, c. split; [|exact H].
  rewrite (C06_fuel_irrelevant C06_fs true (pr_sd C06_pr0) (pr_count C06_pr0) 1000 Hle). exact H.
Qed.

(* C06_including_file_wins: k = 1 in the root, 2 / 3 / 4 in b.json / c.json / d.json *)
Example C06_including_file_wins_applied :
  exists s c', read_plain C06_fs C06_root true true (-1)%Z = Ok (s, c') /\
    alookup (KS (C06_s "k")) (sd_data s) = Some (Leaf (SInt 1)).
Proof.
  destruct C06_including_file_wins_nonvacuous as (u & pr & s & c' & H1 & H2 & H3 & H4 & H5 & H6 & _).
  exists s, c'. split; [exact H3|]. exact (C06_including_file_wins _ _ _ _ _ _ _ _ _ _ H1 H2 H3 H4 H5 H6).
Qed.

(* C06_including_file_wins_rec: the sub-run below b.json (chain [b.json], counter 2): b.json's k = 2 beats d.json's 4 *)
Example C06_including_file_wins_rec_applied :
  let parent := pr_sd (C06_parse (C06_s "/b.json") 1%Z) in
  exists s c', merge_includes_rec 5 C06_fs true [C06_s "/b.json"] parent 2%Z = Ok (s, c') /\
    alookup (KS (C06_s "k")) (sd_data s) = Some (Leaf (SInt 2)) /\
    alookup (KS (C06_s "k")) (sd_data (pr_sd (C06_parse (C06_s "/d.json") 2%Z))) = Some (Leaf (SInt 4)).
Proof.
  intros parent. destruct C06_including_file_wins_rec_nonvacuous as (s & c' & H1 & H2 & H3 & H4 & H5).
  exists s, c'. split; [exact H1|]. split; [|vm_compute; reflexivity].
  exact (C06_including_file_wins_rec _ _ _ _ _ _ _ _ _ _ H1 H2 H3 H4 H5).
Qed.

(* C06_direct_include_complete for c.json, the second include of the root *)
Example C06_direct_include_complete_applied :
  exists s c' u, read_plain C06_fs C06_root true true (-1)%Z = Ok (s, c') /\
    fs_lookup (norm_path (C06_s "/c.json")) C06_fs = Some u /\
    exists c1 pr, parse_unit true (C06_s "/c.json") c1 u = Ok pr /\
      forall k, ordinary_key k = true -> alookup k (sd_data (pr_sd pr)) <> None -> alookup k (sd_data s) <> None.
Proof.
  destruct C06_direct_include_complete_nonvacuous as (s & c' & u0 & pr0 & i & d & n & u & H1 & H2 & H3 & H4 & H5).
  exists s, c', u. split; [exact H1|]. split; [exact H5|].
  exact (C06_direct_include_complete _ _ _ _ _ _ _ _ _ _ _ _ _ H1 H2 H3 H4 H5).
Qed.

(* C06_include_complete_rec for b.json, the first include of the root; b.json includes d.json, so the second part (the
   sub-run below b.json succeeded and all it produced arrives) is not empty either *)
Example C06_include_complete_rec_applied :
  exists s c' u, merge_includes_rec (S (length C06_fs)) C06_fs true [] (pr_sd C06_pr0) (pr_count C06_pr0) = Ok (s, c') /\
    fs_lookup (norm_path (C06_s "/b.json")) C06_fs = Some u /\
    exists c1 pr, parse_unit true (C06_s "/b.json") c1 u = Ok pr /\
      (forall k, ordinary_key k = true -> alookup k (sd_data (pr_sd pr)) <> None -> alookup k (sd_data s) <> None) /\
      (sd_inc (pr_sd pr) <> [] ->
       exists s1 c2, merge_includes_rec (length C06_fs) C06_fs true ([] ++ [norm_path (C06_s "/b.json")]) (pr_sd pr) (pr_count pr) = Ok (s1, c2) /\
         forall k, ordinary_key k = true -> alookup k (sd_data s1) <> None -> alookup k (sd_data s) <> None).
Proof.
  destruct C06_include_complete_rec_nonvacuous as (s & c' & i & d & n & u & H1 & H2 & H3 & H4 & H5).
  exists s, c', u. split; [exact H1|]. split; [exact H5|].
  exact (C06_include_complete_rec _ _ _ _ _ _ _ _ _ _ _ _ _ H1 H2 H3 H4 H5).
Qed.

(* C06_reachable_file_complete: e is defined only in /sub/b.json, which is reached through c.json (chain [c; sub/b]) *)
Example C06_reachable_file_complete_applied :
  exists s c', read_plain C06_fs C06_root true true (-1)%Z = Ok (s, c') /\ alookup (KS (C06_s "e")) (sd_data s) <> None /\
    C06_value "e" = Some (Leaf (SInt 50)).
Proof.
  destruct C06_reachable_file_complete_nonvacuous as (s & c' & u0 & f' & chain' & pr & H1 & H2 & H3 & H4 & _ & H6 & H7 & _).
  exists s, c'. split; [exact H1|]. split; [|vm_compute; reflexivity].
  exact (C06_reachable_file_complete _ _ _ _ _ _ _ _ _ _ _ _ _ H1 H2 H3 H4 H6 H7).
Qed.

(* C06_root_includes_reached for b.json *)
Example C06_root_includes_reached_applied :
  exists pr, run_reach C06_fs true (S (length C06_fs)) [] (pr_sd C06_pr0) (pr_count C06_pr0) (length C06_fs)
                       [norm_path (C06_s "/b.json")] (C06_s "/b.json") pr.
Proof.
  destruct C06_root_includes_reached_nonvacuous as (s & c' & u0 & i & d & n & u & H1 & H2 & H3 & H4 & H5).
  exact (C06_root_includes_reached _ _ _ _ _ _ _ _ _ _ _ _ _ H1 H2 H3 H4 H5).
Qed.

(* C06_reachable_files_closed: from c.json (reached directly) on to /sub/b.json *)
Example C06_reachable_files_closed_applied :
  exists chain' f'' pr',
    run_reach C06_fs true (S (length C06_fs)) [] (pr_sd C06_pr0) (pr_count C06_pr0) f''
              (chain' ++ [norm_path (C06_s "/sub/b.json")]) (C06_s "/sub/b.json") pr'.
Proof.
  destruct C06_reachable_files_closed_nonvacuous as (s & c' & u0 & f' & chain' & pr & i & d & n & u' & H1 & H2 & H3 & H4 & H5 & H6 & H7).
  exists chain'. exact (C06_reachable_files_closed _ _ _ _ _ _ _ _ _ _ _ _ _ _ _ _ _ H1 H2 H3 H4 H5 H6 H7).
Qed.

(* C06_earlier_include_wins: c = 2 in c.json (second include) beats c = 4 in d.json (third include) *)
Example C06_earlier_include_wins_applied :
  exists s c', read_plain C06_fs2 C06_root true true (-1)%Z = Ok (s, c') /\
    alookup (KS (C06_s "c")) (sd_data s) = Some (Leaf (SInt 2)).
Proof.
  destruct C06_earlier_include_wins_nonvacuous
    as (s & c' & u0 & pr0 & pre & i & d & n & suf & temp & c1 & u & pr & H1 & H2 & H3 & _ & H4 & H5 & H6 & H7 & H8 & H9 & H10 & H11 & H12 & _).
  exists s, c'. split; [exact H1|].
  exact (C06_earlier_include_wins _ _ _ _ _ _ _ _ _ _ _ _ _ _ _ _ _ _ _ _ H1 H2 H3 H4 H5 H6 H7 H8 H9 H10 H11 H12).
Qed.

(* C06_first_include_wins: b = 20 in b.json (first include) beats 30 in c.json and 60 in /sub/b.json *)
Example C06_first_include_wins_applied :
  exists s c', read_plain C06_fs C06_root true true (-1)%Z = Ok (s, c') /\
    alookup (KS (C06_s "b")) (sd_data s) = Some (Leaf (SInt 20)).
Proof.
  destruct C06_first_include_wins_nonvacuous as (s & c' & u0 & i & d & n & suf & u & pr & H1 & H2 & H3 & H4 & H5 & H6 & H7 & H8 & H9 & H10 & _).
  exists s, c'. split; [exact H1|].
  exact (C06_first_include_wins _ _ _ _ _ _ _ _ _ _ _ _ _ _ _ _ _ H1 H2 H3 H4 H5 H6 H7 H8 H9 H10).
Qed.

(* ================================================================================================== *)
(* added from Properties/C06_add.v (2026-10-01)                                              *)
(* ================================================================================================== *)
(* C06 (continued)  Include merging stated on the FILES (proofs: Proofs/IncludeFiles.v).

   The deep theorems above (C06_reachable_file_complete_deep, C06_reachable_file_dict_deep,
   C06_first_holder_wins_deep) ask, through reach_where, a condition of the intermediate fold states [temp] of the
   include loop, which can only be discharged by running the merge.  Here the condition is on the files:

     visit_parses fs com root c   (computable; runs the parser only, never a merge)  the files DictReader.read
                        parses, in PRECEDENCE order -- the root, then for each include directive in order the
                        included file followed (depth first) by what it includes; entries whose file is on the
                        current chain or missing are skipped -- each with its own parse.  A file included twice is
                        listed twice.  The parse of each file is taken at the counter the run has reached (the
                        counter only numbers the placeholders; the ordinary data of a parse do not depend on it,
                        C08_ordinary_data_equal, but that composition is not made here: the condition is stated on
                        the parses as the run performs them).
     visit_order        the normalised paths of that list.

   [(q, pr)] is an entry of the list and [l1] the entries BEFORE it: the condition is a forallb over l1 of
   clear_above / clear_upto / falls_off (Proofs/IncludeNested.v) on the file's own parse.
   (When this fragment is appended to C06.v, drop C06 from the import list.) *)
From Coq Require Import String.   (* string literals of the examples; imported first so the list names win *)
From Coq Require Import NArith ZArith List Bool.
From DictIO Require Import Chars Str Value Scalar SDict Lexer TokParser Reader TreeSpec LayoutSpec SemProofs
     IncludeProofs IncludeNested IncludeFiles.
From DictIO Require MiscSpec CounterBase CounterProofs IncludeFilesCounter.
Import ListNotations.

(* the reach_where hypothesis of the deep theorems, for ANY condition N that merges keep (merge_closed: N [] and
   N target -> N merged-in -> N (merge)), follows from N on the own parse of every file visited earlier *)
Theorem C06_files_reach_where : forall fs root com c s c' l1 q pr l2 (N : list (key * tree) -> Prop) x1 l1',
  fs_wf fs = true -> merge_closed N ->
  read_plain fs root true com c = Ok (s, c') ->
  visit_parses fs com root c = Ok (l1 ++ (q, pr) :: l2) -> l1 = x1 :: l1' ->
  Forall (Nfile N) l1 ->
  exists u0 pr0 f' chain',
    fs_lookup (norm_path root) fs = Some u0 /\ parse_unit com root c u0 = Ok pr0 /\
    reach_where fs com N (S (length fs)) [] (pr_sd pr0) (pr_count pr0) f' chain' q pr.
Proof. exact files_reach_where. Qed.
Print Assumptions C06_files_reach_where.

Theorem C06_conditions_merge_closed : forall p, forallb ordinary_key p = true ->
  merge_closed (fun d => clear_above (Dict d) p = true) /\
  merge_closed (fun d => clear_upto (Dict d) p = true) /\
  (p <> [] -> merge_closed (fun d => falls_off (Dict d) p = true)).
Proof.
  intros p Hp. split; [exact (clear_above_closed p Hp)|]. split; [exact (clear_upto_closed p Hp) | exact (falls_off_closed p Hp)].
Qed.
Print Assumptions C06_conditions_merge_closed.

(* a successful read has a visit list *)
Theorem C06_read_has_visit_list : forall fs root com c s c',
  read_plain fs root true com c = Ok (s, c') -> exists l, visit_parses fs com root c = Ok l.
Proof. exact read_visit_parses. Qed.
Print Assumptions C06_read_has_visit_list.

(* ---- COMPLETENESS on the files ----------------------------------------------------------------------- *)
(* every ordinary key path of every visited file leads to something in the read result, unless a file visited
   EARLIER holds a leaf or a list at a proper prefix of it *)
Theorem C06_complete_files : forall fs root com c s c' l1 q pr l2 p,
  fs_wf fs = true ->
  read_plain fs root true com c = Ok (s, c') ->
  visit_parses fs com root c = Ok (l1 ++ (q, pr) :: l2) ->
  forallb ordinary_key p = true ->
  forallb (fun e : str * parsed => clear_above (Dict (sd_data (pr_sd (snd e)))) p) l1 = true ->
  get_dpath (Dict (sd_data (pr_sd pr))) p <> None ->
  get_dpath (Dict (sd_data s)) p <> None.
Proof. exact complete_files. Qed.
Print Assumptions C06_complete_files.

(* ... and to a dict where the file has a dict, unless an earlier file holds a leaf or a list at the path or above *)
Theorem C06_dict_files : forall fs root com c s c' l1 q pr l2 p kvs,
  fs_wf fs = true ->
  read_plain fs root true com c = Ok (s, c') ->
  visit_parses fs com root c = Ok (l1 ++ (q, pr) :: l2) ->
  forallb ordinary_key p = true ->
  forallb (fun e : str * parsed => clear_upto (Dict (sd_data (pr_sd (snd e)))) p) l1 = true ->
  get_dpath (Dict (sd_data (pr_sd pr))) p = Some (Dict kvs) ->
  exists kvs', get_dpath (Dict (sd_data s)) p = Some (Dict kvs').
Proof. exact dict_files. Qed.
Print Assumptions C06_dict_files.

(* ---- INCLUDE ORDER on the files ----------------------------------------------------------------------- *)
(* the leaf at kp in the result is the leaf of the FIRST file in visit order that holds anything at kp or above *)
Theorem C06_first_holder_files : forall fs root com c s c' l1 q pr l2 p v,
  fs_wf fs = true ->
  read_plain fs root true com c = Ok (s, c') ->
  visit_parses fs com root c = Ok (l1 ++ (q, pr) :: l2) ->
  forallb ordinary_key p = true -> leaf_ok p v = true ->
  forallb (fun e : str * parsed => falls_off (Dict (sd_data (pr_sd (snd e)))) p) l1 = true ->
  get_dpath (Dict (sd_data (pr_sd pr))) p = Some (Leaf v) ->
  get_dpath (Dict (sd_data s)) p = Some (Leaf v).
Proof. exact first_holder_files. Qed.
Print Assumptions C06_first_holder_files.

(* ---- non-vacuity on the five files of C06n_fs ---------------------------------------------------------- *)
Definition C06f_list : list (str * parsed) :=
  match visit_parses C06n_fs true C06n_root (-1)%Z with Ok l => l | Raise _ => [] end.
Ltac C06f_split k :=
  let l1 := eval vm_compute in (firstn k C06f_list) in
  let pr := eval vm_compute in (snd (nth k C06f_list (C06n_s "", C06n_dummy))) in
  let l2 := eval vm_compute in (skipn (S k) C06f_list) in
  exists l1, pr, l2.
Definition C06f_own (e : str * parsed) : list (key * tree) := remove_include_keys (sd_data (pr_sd (snd e))).

(* the visit order is  r a c b d,  and the read result is the union of the files' own data taken in that order
   (merge_spec: the target wins, dicts are merged key by key) *)
Example C06_visit_order_example :
  visit_order C06n_fs true C06n_root (-1)%Z =
    [C06n_s "/r.dict"; C06n_s "/a.json"; C06n_s "/c.dict"; C06n_s "/b.json"; C06n_s "/d.json"] /\
  map (fun e => pr_count (snd e)) C06f_list = [2; 3; 3; 3; 3]%Z /\
  (exists s c', read_plain C06n_fs C06n_root true true (-1)%Z = Ok (s, c') /\
     remove_include_keys (sd_data s) = fold_left (fun acc e => merge_spec acc (C06f_own e)) C06f_list []).
Proof. split; [vm_compute; reflexivity|]. split; [vm_compute; reflexivity|]. do 2 eexists. split; vm_compute; reflexivity. Qed.

Example C06_complete_files_nonvacuous :
  (* c.dict is the third file visited; only c.dict has sub.only.u; r.dict and a.json hold dicts at sub *)
  let p := C06n_p3 "sub" "only" "u" in
  exists s c' l1 pr l2,
    fs_wf C06n_fs = true /\
    read_plain C06n_fs C06n_root true true (-1)%Z = Ok (s, c') /\
    visit_parses C06n_fs true C06n_root (-1)%Z = Ok (l1 ++ (C06n_s "/c.dict", pr) :: l2) /\
    map fst l1 = [C06n_s "/r.dict"; C06n_s "/a.json"] /\
    forallb ordinary_key p = true /\
    forallb (fun e : str * parsed => clear_above (Dict (sd_data (pr_sd (snd e)))) p) l1 = true /\
    get_dpath (Dict (sd_data (pr_sd pr))) p <> None /\
    get_dpath (Dict (sd_data s)) p <> None.
Proof.
  intro p.
  do 2 eexists. C06f_split 2%nat.
  do 7 C06n_keep C06n_vm.
  eapply C06_complete_files; eassumption.
Qed.

Example C06_dict_files_nonvacuous :
  (* b.json is the fourth file visited; its sub.deep is a dict, as in r, a and c before it *)
  let p := C06n_p2 "sub" "deep" in
  exists s c' l1 pr l2 kvs,
    fs_wf C06n_fs = true /\
    read_plain C06n_fs C06n_root true true (-1)%Z = Ok (s, c') /\
    visit_parses C06n_fs true C06n_root (-1)%Z = Ok (l1 ++ (C06n_s "/b.json", pr) :: l2) /\
    length l1 = 3%nat /\
    forallb ordinary_key p = true /\
    forallb (fun e : str * parsed => clear_upto (Dict (sd_data (pr_sd (snd e)))) p) l1 = true /\
    get_dpath (Dict (sd_data (pr_sd pr))) p = Some (Dict kvs) /\
    exists kvs', get_dpath (Dict (sd_data s)) p = Some (Dict kvs').
Proof.
  intro p.
  do 2 eexists. C06f_split 3%nat. eexists.
  do 7 C06n_keep C06n_vm.
  eapply C06_dict_files; eassumption.
Qed.

Example C06_first_holder_files_nonvacuous :
  (* sub.deep.r: nothing in r.dict and a.json; 4 in c.dict (visited third); 3 in b.json (visited fourth) *)
  let p := C06n_p3 "sub" "deep" "r" in
  exists s c' l1 pr l2,
    fs_wf C06n_fs = true /\
    read_plain C06n_fs C06n_root true true (-1)%Z = Ok (s, c') /\
    visit_parses C06n_fs true C06n_root (-1)%Z = Ok (l1 ++ (C06n_s "/c.dict", pr) :: l2) /\
    forallb ordinary_key p = true /\ leaf_ok p (SInt 4) = true /\
    forallb (fun e : str * parsed => falls_off (Dict (sd_data (pr_sd (snd e)))) p) l1 = true /\
    get_dpath (Dict (sd_data (pr_sd pr))) p = Some (Leaf (SInt 4)) /\
    get_dpath (Dict (sd_data (pr_sd (snd (hd (C06n_s "", C06n_dummy) l2))))) p = Some (Leaf (SInt 3)) /\
    get_dpath (Dict (sd_data s)) p = Some (Leaf (SInt 4)).
Proof.
  intro p.
  do 2 eexists. C06f_split 2%nat.
  do 8 C06n_keep C06n_vm.
  eapply C06_first_holder_files; eassumption.
Qed.

(* the reach_where hypothesis of C06_first_holder_wins_deep obtained from the files, then the deep theorem applied *)
Example C06_files_reach_where_nonvacuous :
  let p := C06n_p3 "sub" "deep" "r" in
  let N := fun d => falls_off (Dict d) p = true in
  exists s c' l1 pr l2,
    read_plain C06n_fs C06n_root true true (-1)%Z = Ok (s, c') /\
    visit_parses C06n_fs true C06n_root (-1)%Z = Ok (l1 ++ (C06n_s "/c.dict", pr) :: l2) /\
    length l1 = 2%nat /\ Forall (Nfile N) l1 /\
    (exists u0 pr0 f' chain',
       fs_lookup (norm_path C06n_root) C06n_fs = Some u0 /\ parse_unit true C06n_root (-1)%Z u0 = Ok pr0 /\
       reach_where C06n_fs true N (S (length C06n_fs)) [] (pr_sd pr0) (pr_count pr0) f' chain' (C06n_s "/c.dict") pr) /\
    get_dpath (Dict (sd_data s)) p = Some (Leaf (SInt 4)).
Proof.
  intros p N.
  do 2 eexists. C06f_split 2%nat.
  do 3 C06n_keep C06n_vm.
  match goal with |- Forall _ ?l1 /\ _ => assert (HF : Forall (Nfile N) l1) end.
  { apply (forallb_Nfile (fun d => falls_off (Dict d) p)). vm_compute. reflexivity. }
  split; [exact HF|].
  assert (Hfs : fs_wf C06n_fs = true) by (vm_compute; reflexivity).
  assert (Hp : forallb ordinary_key p = true) by (vm_compute; reflexivity).
  assert (Hcl : merge_closed N).
  { apply (proj2 (proj2 (C06_conditions_merge_closed p Hp))). discriminate. }
  destruct (C06_files_reach_where _ _ _ _ _ _ _ _ _ _ N _ _ Hfs Hcl Hyp Hyp0 eq_refl HF) as [u0 [pr0 [f' [chain' [Hl [Hp0 Hr]]]]]].
  split; [exists u0, pr0, f', chain'; repeat split; assumption|].
  eapply (C06_first_holder_wins_deep C06n_fs C06n_root true (-1)%Z _ _ u0 pr0 f' chain' _ _ p (SInt 4) Hfs Hyp Hl Hp0 Hp);
    [vm_compute; reflexivity | exact Hr | vm_compute; reflexivity].
Qed.

(* the condition cannot be dropped (the file level reading of C06_blocked_path_finding): r.json, x.json, f.json are
   visited in this order; f.json holds a.c; x.json, visited earlier, holds the leaf  a 7  above it; the result
   holds nothing at a.c *)
Example C06_complete_files_condition_finding :
  let fs := [ (C06n_s "/r.json", FJson [C06n_inc "#include" "x.json"; C06n_kd "a" [C06n_kv "b" 1]]);
              (C06n_s "/x.json", FJson [C06n_inc "#include" "f.json"; C06n_kv "a" 7]);
              (C06n_s "/f.json", FJson [C06n_kd "a" [C06n_kv "c" 5]]) ] in
  let p := C06n_p2 "a" "c" in
  visit_order fs true (C06n_s "/r.json") (-1)%Z = [C06n_s "/r.json"; C06n_s "/x.json"; C06n_s "/f.json"] /\
  match visit_parses fs true (C06n_s "/r.json") (-1)%Z, read_plain fs (C06n_s "/r.json") true true (-1)%Z with
  | Ok [r; x; f], Ok (s, _) =>
      map (fun e : str * parsed => clear_above (Dict (sd_data (pr_sd (snd e)))) p) [r; x] = [true; false] /\
      get_dpath (Dict (sd_data (pr_sd (snd f)))) p = Some (Leaf (SInt 5)) /\
      get_dpath (Dict (sd_data s)) p = None
  | _, _ => False
  end.
Proof. split; vm_compute; repeat split; reflexivity. Qed.

(* ---- the visit list holds exactly the reached files ----------------------------------------------------- *)
Theorem C06_visit_is_reached : forall fs root com c s c' l u0 pr0 q pr,
  fs_wf fs = true ->
  read_plain fs root true com c = Ok (s, c') ->
  visit_parses fs com root c = Ok l ->
  fs_lookup (norm_path root) fs = Some u0 -> parse_unit com root c u0 = Ok pr0 ->
  hd_error l = Some (root, pr0) /\
  (In (q, pr) (tl l) <->
   exists f' chain', run_reach fs com (S (length fs)) [] (pr_sd pr0) (pr_count pr0) f' chain' q pr).
Proof. exact visit_is_reached. Qed.
Print Assumptions C06_visit_is_reached.

Example C06_visit_is_reached_nonvacuous :
  (* c.dict, the third entry of the list, is reached (through a.json) *)
  exists s c' l u0 pr,
    fs_wf C06n_fs = true /\
    read_plain C06n_fs C06n_root true true (-1)%Z = Ok (s, c') /\
    visit_parses C06n_fs true C06n_root (-1)%Z = Ok l /\
    fs_lookup (norm_path C06n_root) C06n_fs = Some u0 /\ parse_unit true C06n_root (-1)%Z u0 = Ok C06n_pr0 /\
    nth_error (tl l) 1 = Some (C06n_s "/c.dict", pr) /\
    exists f' chain', run_reach C06n_fs true (S (length C06n_fs)) [] (pr_sd C06n_pr0) (pr_count C06n_pr0) f' chain'
                                (C06n_s "/c.dict") pr.
Proof.
  do 5 eexists. do 6 C06n_keep C06n_vm.
  apply (proj2 (C06_visit_is_reached _ _ _ _ _ _ _ _ _ _ _ Hyp Hyp0 Hyp1 Hyp2 Hyp3)).
  eapply nth_error_In. exact Hyp4.
Qed.

(* ---- graphs without conflicts: the property in its own words ---------------------------------------------- *)
(* no_conflict l (computable): for every file of the visit list and every file visited after it, wherever both
   hold something along ordinary keys they hold the same kind (a dict / not a dict): compat *)
Theorem C06_complete_no_conflict : forall fs root com c s c' l q pr p,
  fs_wf fs = true ->
  read_plain fs root true com c = Ok (s, c') ->
  visit_parses fs com root c = Ok l -> no_conflict l = true ->
  In (q, pr) l ->
  forallb ordinary_key p = true ->
  get_dpath (Dict (sd_data (pr_sd pr))) p <> None ->
  get_dpath (Dict (sd_data s)) p <> None.
Proof. exact complete_no_conflict. Qed.
Print Assumptions C06_complete_no_conflict.

Theorem C06_reachable_complete_no_conflict : forall fs root com c s c' l u0 pr0 f' chain' q pr p,
  fs_wf fs = true ->
  read_plain fs root true com c = Ok (s, c') ->
  visit_parses fs com root c = Ok l -> no_conflict l = true ->
  fs_lookup (norm_path root) fs = Some u0 -> parse_unit com root c u0 = Ok pr0 ->
  run_reach fs com (S (length fs)) [] (pr_sd pr0) (pr_count pr0) f' chain' q pr ->
  forallb ordinary_key p = true ->
  get_dpath (Dict (sd_data (pr_sd pr))) p <> None ->
  get_dpath (Dict (sd_data s)) p <> None.
Proof. exact reachable_complete_no_conflict. Qed.
Print Assumptions C06_reachable_complete_no_conflict.

(* C06n_fs with the leaf  blk 7  of a.json replaced by a dict: no conflicts *)
Definition C06f_fs : fsys :=
  [ (C06n_s "/r.dict", FNative (C06n_s "#include 'a.json'
#include 'b.json'
#include 'd.json'
sub { x 1; deep { p 1; } }
"));
    (C06n_s "/a.json", FJson [C06n_inc "#include" "c.dict";
                              C06n_kd "sub" [C06n_kv "x" 2; C06n_kv "y" 2; C06n_kd "deep" [C06n_kv "p" 2; C06n_kv "q" 2]];
                              C06n_kd "blk" [C06n_kv "k" 7]]);
    (C06n_s "/b.json", FJson [C06n_kd "sub" [C06n_kv "y" 3; C06n_kv "z" 3;
                                             C06n_kd "deep" [C06n_kv "q" 3; C06n_kv "r" 3; C06n_kv "t" 3]];
                              C06n_kd "blk" [C06n_kv "m" 3]]);
    (C06n_s "/c.dict", FNative (C06n_s "sub { z 4; w 4; deep { q 4; r 4; s 4; } only { u 4; } }
blk { m 4; }
"));
    (C06n_s "/d.json", FJson [C06n_kd "sub" [C06n_kd "deep" [C06n_kv "t" 9; C06n_kv "p" 9]]]) ].

Example C06_complete_no_conflict_nonvacuous :
  (* blk.m is held by c.dict (third) and b.json (fourth) only *)
  let p := C06n_p2 "blk" "m" in
  exists s c' l pr,
    fs_wf C06f_fs = true /\
    read_plain C06f_fs C06n_root true true (-1)%Z = Ok (s, c') /\
    visit_parses C06f_fs true C06n_root (-1)%Z = Ok l /\ no_conflict l = true /\ length l = 5%nat /\
    nth_error l 3 = Some (C06n_s "/b.json", pr) /\
    forallb ordinary_key p = true /\
    get_dpath (Dict (sd_data (pr_sd pr))) p <> None /\
    get_dpath (Dict (sd_data s)) p <> None.
Proof.
  intro p. do 4 eexists. do 8 C06n_keep C06n_vm.
  eapply C06_complete_no_conflict; try eassumption. eapply nth_error_In. exact Hyp4.
Qed.

(* the hypothesis cannot be dropped: in C06n_fs a.json holds the leaf  blk 7,  b.json and c.dict hold dicts at
   blk; no_conflict is false, and blk.m of b.json is not in the result *)
Example C06_no_conflict_needed_finding :
  let p := C06n_p2 "blk" "m" in
  no_conflict C06f_list = false /\
  (exists pr, nth_error C06f_list 3 = Some (C06n_s "/b.json", pr) /\
              get_dpath (Dict (sd_data (pr_sd pr))) p = Some (Leaf (SInt 3))) /\
  C06n_at p = None /\ C06n_at (C06n_p1 "blk") = Some (Leaf (SInt 7)).
Proof.
  intro p. split; [vm_compute; reflexivity|]. split; [eexists; split; vm_compute; reflexivity|].
  split; vm_compute; reflexivity.
Qed.

(* ---- bridge to C08: the conditions can be evaluated on a NATIVE file parsed on its own, at any counter ---------- *)
(* (for key paths of placeholder-free keys, plain_key; side conditions of C08_parse_counter_independent.  The
   visit list gives each file's parse at the counter of the run; this says the three conditions do not depend on
   it.  Not composed with the theorems above, and not available for JSON units.) *)
Theorem C06_native_conditions_counter_free : forall c1 c2 dir text pr1 pr2 p,
  MiscSpec.counter_ok c1 -> MiscSpec.counter_ok c2 -> CounterBase.cleanb text = true -> CounterBase.cleanb dir = true ->
  CounterProofs.parse_side (lex true dir c1 text) = true ->
  parse_string true dir c1 text = Ok pr1 -> parse_string true dir c2 text = Ok pr2 ->
  forallb CounterProofs.plain_key p = true ->
  clear_above (Dict (sd_data (pr_sd pr2))) p = clear_above (Dict (sd_data (pr_sd pr1))) p /\
  clear_upto (Dict (sd_data (pr_sd pr2))) p = clear_upto (Dict (sd_data (pr_sd pr1))) p /\
  falls_off (Dict (sd_data (pr_sd pr2))) p = falls_off (Dict (sd_data (pr_sd pr1))) p.
Proof. exact IncludeFilesCounter.native_conditions_counter_free. Qed.
Print Assumptions C06_native_conditions_counter_free.

Example C06_native_conditions_counter_free_nonvacuous :
  (* r.dict: parsed at -1 by the run (three include placeholders); on its own at 500000 the placeholders differ *)
  let text := match fs_lookup C06n_root C06n_fs with Some (FNative t) => t | _ => [] end in
  let p := C06n_p3 "sub" "deep" "r" in
  exists pr1 pr2,
    CounterBase.cleanb text = true /\ CounterBase.cleanb (dir_of C06n_root) = true /\
    CounterProofs.parse_side (lex true (dir_of C06n_root) (-1)%Z text) = true /\
    parse_string true (dir_of C06n_root) (-1)%Z text = Ok pr1 /\
    parse_string true (dir_of C06n_root) 500000%Z text = Ok pr2 /\
    forallb CounterProofs.plain_key p = true /\
    sd_data (pr_sd pr1) <> sd_data (pr_sd pr2) /\
    falls_off (Dict (sd_data (pr_sd pr1))) p = true /\
    falls_off (Dict (sd_data (pr_sd pr2))) p = falls_off (Dict (sd_data (pr_sd pr1))) p.
Proof.
  intros text p. do 2 eexists. do 8 C06n_keep C06n_vm.
  assert (H1 : MiscSpec.counter_ok (-1)%Z) by (split; discriminate).
  assert (H2 : MiscSpec.counter_ok 500000%Z) by (split; discriminate).
  exact (proj2 (proj2 (C06_native_conditions_counter_free _ _ _ _ _ _ _ H1 H2 Hyp Hyp0 Hyp1 Hyp2 Hyp3 Hyp4))).
Qed.

(* ================================================================================================== *)
(* added from Properties/C06_add.v, job pj_fix (2026-10-01)                                   *)
(* ================================================================================================== *)
(* C06 (addition): non-vacuity examples for C06_conditions_merge_closed, C06_read_has_visit_list and
   C06_reachable_complete_no_conflict.  To be appended to Properties/C06.v. *)
From Coq Require Import String.   (* string literals of the examples; imported first so the list names win *)
From Coq Require Import NArith ZArith List Bool.
From DictIO Require Import Chars Str Value Scalar SDict Lexer TokParser Reader TreeSpec LayoutSpec SemProofs
     IncludeProofs IncludeNested IncludeFiles.
Import ListNotations.

(* C06_read_has_visit_list on the five files of C06n_fs (two native, three JSON; r includes a, b, d; a includes c):
   the read succeeds, so the theorem gives a visit list; it is the list of five parses computed by visit_parses *)
Example C06_read_has_visit_list_nonvacuous :
  exists s c',
    read_plain C06n_fs C06n_root true true (-1)%Z = Ok (s, c') /\
    sd_data s <> [] /\
    exists l, visit_parses C06n_fs true C06n_root (-1)%Z = Ok l.
Proof.
  do 2 eexists. do 2 C06n_keep C06n_vm.
  exact (C06_read_has_visit_list _ _ _ _ _ _ Hyp).
Qed.
(* ... and the list the theorem speaks of is not a trivial one *)
Example C06_read_has_visit_list_nonvacuous_list :
  forall l, visit_parses C06n_fs true C06n_root (-1)%Z = Ok l ->
    map fst l = [C06n_s "/r.dict"; C06n_s "/a.json"; C06n_s "/c.dict"; C06n_s "/b.json"; C06n_s "/d.json"].
Proof.
  intros l H. assert (E : l = C06f_list) by (unfold C06f_list; rewrite H; reflexivity).
  rewrite E. vm_compute. reflexivity.
Qed.

(* C06_conditions_merge_closed at the path sub.deep.r: the three conditions, instantiated with the data of a.json
   (target) and of c.dict (merged in; it holds 4 at sub.deep.r, a.json holds nothing there), survive the merge the
   reader performs (the conclusion is obtained by unfolding merge_closed on the theorem's three conjuncts) *)
Example C06_conditions_merge_closed_nonvacuous :
  let p := C06n_p3 "sub" "deep" "r" in
  let a := remove_include_keys (sd_data (pr_sd (C06n_parse "/a.json" 2%Z))) in
  let b := sd_data (pr_sd (C06n_parse "/c.dict" 3%Z)) in
  forallb ordinary_key p = true /\ p <> [] /\
  a <> [] /\ b <> [] /\ get_dpath (Dict b) p = Some (Leaf (SInt 4)) /\ get_dpath (Dict a) p = None /\
  clear_above (Dict a) p = true /\ clear_above (Dict b) p = true /\
  clear_upto (Dict a) p = true /\ clear_upto (Dict b) p = false /\
  falls_off (Dict a) p = true /\ falls_off (Dict b) p = false /\
  merge_closed (fun d => clear_above (Dict d) p = true) /\
  merge_closed (fun d => clear_upto (Dict d) p = true) /\
  merge_closed (fun d => falls_off (Dict d) p = true).
Proof.
  intros p a b. do 12 C06n_keep C06n_vm.
  destruct (C06_conditions_merge_closed p Hyp) as [H1 [H2 H3]].
  split; [exact H1|]. split; [exact H2|]. exact (H3 Hyp0).
Qed.

(* C06_reachable_complete_no_conflict on the conflict-free five files C06f_fs: b.json (fourth in visit order) is
   reached from the root (C06_visit_is_reached gives the run_reach witness); its blk.m is in the result *)
Example C06_reachable_complete_no_conflict_nonvacuous :
  let p := C06n_p2 "blk" "m" in
  exists s c' l u0 pr0 pr,
    fs_wf C06f_fs = true /\
    read_plain C06f_fs C06n_root true true (-1)%Z = Ok (s, c') /\
    visit_parses C06f_fs true C06n_root (-1)%Z = Ok l /\ no_conflict l = true /\ length l = 5%nat /\
    fs_lookup (norm_path C06n_root) C06f_fs = Some u0 /\ parse_unit true C06n_root (-1)%Z u0 = Ok pr0 /\
    nth_error (tl l) 2 = Some (C06n_s "/b.json", pr) /\
    forallb ordinary_key p = true /\
    get_dpath (Dict (sd_data (pr_sd pr))) p = Some (Leaf (SInt 3)) /\
    (exists f' chain', run_reach C06f_fs true (S (length C06f_fs)) [] (pr_sd pr0) (pr_count pr0) f' chain'
                                 (C06n_s "/b.json") pr) /\
    get_dpath (Dict (sd_data s)) p <> None.
Proof.
  intro p. do 6 eexists. do 10 C06n_keep C06n_vm.
  match goal with |- ?A /\ _ => assert (Hr : A) end.
  { apply (proj2 (C06_visit_is_reached _ _ _ _ _ _ _ _ _ _ _ Hyp Hyp0 Hyp1 Hyp4 Hyp5)).
    eapply nth_error_In. exact Hyp6. }
  split; [exact Hr|]. destruct Hr as [f' [chain' Hr]].
  eapply (C06_reachable_complete_no_conflict _ _ _ _ _ _ _ _ _ _ _ _ _ p Hyp Hyp0 Hyp1 Hyp2 Hyp4 Hyp5 Hr Hyp7).
  rewrite Hyp8. discriminate.
Qed.
