(* C12  Comments survive read -> write (extraction and literal re-insertion), header, comments off. *)
From Coq Require Import String.   (* string literals of the examples; imported first so the list names win *)
From Coq Require Import NArith ZArith List Bool.
From DictIO Require Import Chars Str Value Scalar SDict Layout Lexer LayoutSpec LayoutProofs.
Import ListNotations.

(* a line comment is lifted out with its exact text, whatever characters it contains (quotes, braces, dollar,
   backslashes ...), and replaced by one placeholder; the rest of the line is untouched *)
Theorem C12_extract_line_comment : forall before rest nl count,
  no_slash before -> no_colon_end before -> no_lf rest -> no_lf before -> line_end nl ->
  let cmt := c_slash :: c_slash :: rest in
  let k := counter_next count in
  extract_line_comment true count (before ++ cmt ++ nl) =
    (before ++ placeholder w_LINECOMMENT (Z.to_N k) ++ nl, k, Some (Z.to_N k, cmt)).
Proof. exact extract_line_comment_spec. Qed.
Print Assumptions C12_extract_line_comment.

(* non-vacuity: code with a colon (not at its end) in front of a comment that contains quotes, braces, a dollar, a
   backslash, a URL and a second pair of slashes; counter just before the wrap-around *)
Example C12_extract_line_comment_nonvacuous :
  let before := of_string "key: 'v' 1.5;  " in
  let rest := of_string " it's {a} ""$b"" \ http://x.y // again" in
  let nl := [c_lf] in
  no_slash before /\ no_colon_end before /\ no_lf rest /\ no_lf before /\ line_end nl /\
  extract_line_comment true 999999 (before ++ c_slash :: c_slash :: rest ++ nl) =
    (of_string "key: 'v' 1.5;  LINECOMMENT000000" ++ nl, 0%Z, Some (0%N, c_slash :: c_slash :: rest)).
Proof.
  intros before rest nl.
  assert (H1 : no_slash before) by (vm_compute; reflexivity).
  assert (H2 : no_colon_end before) by (vm_compute; reflexivity).
  assert (H3 : no_lf rest) by (vm_compute; reflexivity).
  assert (H4 : no_lf before) by (vm_compute; reflexivity).
  assert (H5 : line_end nl) by (right; reflexivity).
  exact (conj H1 (conj H2 (conj H3 (conj H4 (conj H5 (C12_extract_line_comment before rest nl 999999 H1 H2 H3 H4 H5)))))).
Qed.

(* with comments switched off nothing of the comment remains in the line *)
Theorem C12_comments_off : forall before rest nl count,
  no_slash before -> no_colon_end before -> no_lf rest -> no_lf before -> line_end nl ->
  fst (fst (extract_line_comment false count (before ++ c_slash :: c_slash :: rest ++ nl))) = before ++ nl.
Proof. exact extract_line_comment_off. Qed.
Print Assumptions C12_comments_off.

Example C12_comments_off_nonvacuous :
  let before := of_string "key: 'v' 1.5;  " in
  let rest := of_string " it's {a} ""$b"" \ http://x.y // again" in
  let nl := [c_lf] in
  no_slash before /\ no_colon_end before /\ no_lf rest /\ no_lf before /\ line_end nl /\
  fst (fst (extract_line_comment false 41 (before ++ c_slash :: c_slash :: rest ++ nl))) = of_string "key: 'v' 1.5;  " ++ nl.
Proof.
  intros before rest nl.
  assert (H1 : no_slash before) by (vm_compute; reflexivity).
  assert (H2 : no_colon_end before) by (vm_compute; reflexivity).
  assert (H3 : no_lf rest) by (vm_compute; reflexivity).
  assert (H4 : no_lf before) by (vm_compute; reflexivity).
  assert (H5 : line_end nl) by (right; reflexivity).
  exact (conj H1 (conj H2 (conj H3 (conj H4 (conj H5 (C12_comments_off before rest nl 41 H1 H2 H3 H4 H5)))))).
Qed.

(* re-insertion is literal: the placeholder pair is replaced by the comment text as it is (no template
   interpretation), the surrounding text is kept *)
Theorem C12_insert_literal : forall ph repl pre post ws fuel,
  (match ph with c :: _ => has_char c pre = false | [] => False end) ->
  (forall c, In c ph -> is_space c = false) -> (forall c, In c ws -> is_space c = true) -> ws <> [] ->
  (length (pre ++ ph ++ ws ++ ph ++ [c_semi] ++ post) < fuel)%nat ->
  exists post', fst (sub_ph_pair fuel ph repl (pre ++ ph ++ ws ++ ph ++ [c_semi] ++ post)) = pre ++ repl ++ post'.
Proof. exact sub_ph_pair_literal. Qed.
Print Assumptions C12_insert_literal.

(* non-vacuity: the placeholder pair as the writer lays it out (30-column padding between key and value), a comment
   text full of characters that a regex replacement template would interpret, fuel as insert_line_comments uses it;
   the last part evaluates the substitution: here the rest of the text is kept, too *)
Example C12_insert_literal_nonvacuous :
  let ph := placeholder w_LINECOMMENT 7 in
  let repl := of_string "// \1 \g<0> it's ""x"" $y {z} \n" in
  let pre := of_string "a 1;" ++ [c_lf] in let post := c_lf :: of_string "b 2;" ++ [c_lf] in
  let ws := repeat c_sp 13 in
  let txt := pre ++ ph ++ ws ++ ph ++ [c_semi] ++ post in
  let fuel := S (length txt) in
  (match ph with c :: _ => has_char c pre = false | [] => False end) /\
  (forall c, In c ph -> is_space c = false) /\ (forall c, In c ws -> is_space c = true) /\ ws <> [] /\
  (length txt < fuel)%nat /\
  (exists post', fst (sub_ph_pair fuel ph repl txt) = pre ++ repl ++ post') /\
  fst (sub_ph_pair fuel ph repl txt) = pre ++ repl ++ post.
Proof.
  intros ph repl pre post ws txt fuel.
  assert (H1 : match ph with c :: _ => has_char c pre = false | [] => False end) by (vm_compute; reflexivity).
  assert (H2 : forall c, In c ph -> is_space c = false).
  { intros c Hc. assert (E : forallb (fun c => negb (is_space c)) ph = true) by (vm_compute; reflexivity).
    apply negb_true_iff. exact (proj1 (forallb_forall _ _) E c Hc). }
  assert (H3 : forall c, In c ws -> is_space c = true).
  { intros c Hc. assert (E : forallb is_space ws = true) by (vm_compute; reflexivity).
    exact (proj1 (forallb_forall _ _) E c Hc). }
  assert (H4 : ws <> []) by discriminate.
  assert (H5 : (length txt < fuel)%nat) by (apply PeanoNat.Nat.ltb_lt; vm_compute; reflexivity).
  refine (conj H1 (conj H2 (conj H3 (conj H4 (conj H5 (conj (C12_insert_literal ph repl pre post ws fuel H1 H2 H3 H4 H5) _)))))).
  vm_compute. reflexivity.
Qed.

(* the default header is added exactly once *)
Theorem C12_header_once : forall bc,
  make_default_block_comment (make_default_block_comment bc) = make_default_block_comment bc /\
  has_cpp_mark (make_default_block_comment bc) = true.
Proof. exact default_header_once. Qed.
Print Assumptions C12_header_once.
