(* C12  Comments survive read -> write (extraction and literal re-insertion), header, comments off. *)
From Coq Require Import String.   (* string literals of the examples; imported first so the list names win *)
From Coq Require Import NArith ZArith List Bool.
From DictIO Require Import Chars Str Value Scalar SDict Layout Lexer LayoutSpec LayoutProofs.
Import ListNotations.

(* a line comment is lifted out with its exact text, whatever characters it contains (quotes, braces, dollar,
   backslashes ...), and replaced by one placeholder; the rest of the line is untouched *)
Theorem C12_extract_line_comment : forall before rest nl count,
  no_slash before -> no_colon_end before -> no_lf rest -> no_lf before -> line_end nl ->
  let cmt := c_slash :: c_slash :: rest in
  let k := counter_next count in
  extract_line_comment true count (before ++ cmt ++ nl) =
    (before ++ placeholder w_LINECOMMENT (Z.to_N k) ++ nl, k, Some (Z.to_N k, cmt)).
Proof. exact extract_line_comment_spec. Qed.
Print Assumptions C12_extract_line_comment.

(* non-vacuity: code with a colon (not at its end) in front of a comment that contains quotes, braces, a dollar, a
   backslash, a URL and a second pair of slashes; counter just before the wrap-around *)
Example C12_extract_line_comment_nonvacuous :
  let before := of_string "key: 'v' 1.5;  " in
  let rest := of_string " it's {a} ""$b"" \ http://x.y // again" in
  let nl := [c_lf] in
  no_slash before /\ no_colon_end before /\ no_lf rest /\ no_lf before /\ line_end nl /\
  extract_line_comment true 999999 (before ++ c_slash :: c_slash :: rest ++ nl) =
    (of_string "key: 'v' 1.5;  LINECOMMENT000000" ++ nl, 0%Z, Some (0%N, c_slash :: c_slash :: rest)).
Proof.
  intros before rest nl.
  assert (H1 : no_slash before) by (vm_compute; reflexivity).
  assert (H2 : no_colon_end before) by (vm_compute; reflexivity).
  assert (H3 : no_lf rest) by (vm_compute; reflexivity).
  assert (H4 : no_lf before) by (vm_compute; reflexivity).
  assert (H5 : line_end nl) by (right; reflexivity).
  exact (conj H1 (conj H2 (conj H3 (conj H4 (conj H5 (C12_extract_line_comment before rest nl 999999 H1 H2 H3 H4 H5)))))).
Qed.

(* with comments switched off nothing of the comment remains in the line *)
Theorem C12_comments_off : forall before rest nl count,
  no_slash before -> no_colon_end before -> no_lf rest -> no_lf before -> line_end nl ->
  fst (fst (extract_line_comment false count (before ++ c_slash :: c_slash :: rest ++ nl))) = before ++ nl.
Proof. exact extract_line_comment_off. Qed.
Print Assumptions C12_comments_off.

Example C12_comments_off_nonvacuous :
  let before := of_string "key: 'v' 1.5;  " in
  let rest := of_string " it's {a} ""$b"" \ http://x.y // again" in
  let nl := [c_lf] in
  no_slash before /\ no_colon_end before /\ no_lf rest /\ no_lf before /\ line_end nl /\
  fst (fst (extract_line_comment false 41 (before ++ c_slash :: c_slash :: rest ++ nl))) = of_string "key: 'v' 1.5;  " ++ nl.
Proof.
  intros before rest nl.
  assert (H1 : no_slash before) by (vm_compute; reflexivity).
  assert (H2 : no_colon_end before) by (vm_compute; reflexivity).
  assert (H3 : no_lf rest) by (vm_compute; reflexivity).
  assert (H4 : no_lf before) by (vm_compute; reflexivity).
  assert (H5 : line_end nl) by (right; reflexivity).
  exact (conj H1 (conj H2 (conj H3 (conj H4 (conj H5 (C12_comments_off before rest nl 41 H1 H2 H3 H4 H5)))))).
Qed.

(* re-insertion is literal: the placeholder pair is replaced by the comment text as it is (no template
   interpretation), the surrounding text is kept *)
Theorem C12_insert_literal : forall ph repl pre post ws fuel,
  (match ph with c :: _ => has_char c pre = false | [] => False end) ->
  (forall c, In c ph -> is_space c = false) -> (forall c, In c ws -> is_space c = true) -> ws <> [] ->
  (length (pre ++ ph ++ ws ++ ph ++ [c_semi] ++ post) < fuel)%nat ->
  exists post', fst (sub_ph_pair fuel ph repl (pre ++ ph ++ ws ++ ph ++ [c_semi] ++ post)) = pre ++ repl ++ post'.
Proof. exact sub_ph_pair_literal. Qed.
Print Assumptions C12_insert_literal.

(* non-vacuity: the placeholder pair as the writer lays it out (30-column padding between key and value), a comment
   text full of characters that a regex replacement template would interpret, fuel as insert_line_comments uses it;
   the last part evaluates the substitution: here the rest of the text is kept, too *)
Example C12_insert_literal_nonvacuous :
  let ph := placeholder w_LINECOMMENT 7 in
  let repl := of_string "// \1 \g<0> it's ""x"" $y {z} \n" in
  let pre := of_string "a 1;" ++ [c_lf] in let post := c_lf :: of_string "b 2;" ++ [c_lf] in
  let ws := repeat c_sp 13 in
  let txt := pre ++ ph ++ ws ++ ph ++ [c_semi] ++ post in
  let fuel := S (length txt) in
  (match ph with c :: _ => has_char c pre = false | [] => False end) /\
  (forall c, In c ph -> is_space c = false) /\ (forall c, In c ws -> is_space c = true) /\ ws <> [] /\
  (length txt < fuel)%nat /\
  (exists post', fst (sub_ph_pair fuel ph repl txt) = pre ++ repl ++ post') /\
  fst (sub_ph_pair fuel ph repl txt) = pre ++ repl ++ post.
Proof.
  intros ph repl pre post ws txt fuel.
  assert (H1 : match ph with c :: _ => has_char c pre = false | [] => False end) by (vm_compute; reflexivity).
  assert (H2 : forall c, In c ph -> is_space c = false).
  { intros c Hc. assert (E : forallb (fun c => negb (is_space c)) ph = true) by (vm_compute; reflexivity).
    apply negb_true_iff. exact (proj1 (forallb_forall _ _) E c Hc). }
  assert (H3 : forall c, In c ws -> is_space c = true).
  { intros c Hc. assert (E : forallb is_space ws = true) by (vm_compute; reflexivity).
    exact (proj1 (forallb_forall _ _) E c Hc). }
  assert (H4 : ws <> []) by discriminate.
  assert (H5 : (length txt < fuel)%nat) by (apply PeanoNat.Nat.ltb_lt; vm_compute; reflexivity).
  refine (conj H1 (conj H2 (conj H3 (conj H4 (conj H5 (conj (C12_insert_literal ph repl pre post ws fuel H1 H2 H3 H4 H5) _)))))).
  vm_compute. reflexivity.
Qed.

(* the default header is added exactly once *)
Theorem C12_header_once : forall bc,
  make_default_block_comment (make_default_block_comment bc) = make_default_block_comment bc /\
  has_cpp_mark (make_default_block_comment bc) = true.
Proof. exact default_header_once. Qed.
Print Assumptions C12_header_once.

(* ================================================================================================ *)
(* Document level: comments survive write -> read                                                    *)
(* ================================================================================================ *)
From DictIO Require Import Value Scalar KeyPath TokParser TreeSpec NativeSpec E2ESpec.
From DictIO Require Import E2EProofs E2EHoles E2EKeyTok E2EFullProofs.
From DictIO Require Import RereadPlain RereadStr RereadTree RereadWrite RereadLex RereadNum RereadProofs RereadFix RereadOff.
From Coq Require Import Lia.
Open Scope N_scope.

(* The vocabulary (RereadTree, RereadProofs):
     canon s        the data of s with every comment placeholder entry replaced by an id-free entry
                    (KS LINECOMMENT / KS BLOCKCOMMENT, Leaf (SStr text)) that carries the comment text;
     hdr c          top-level block comments first (sort_top), and the default header entry in front unless the first of
                    them carries the C++ mark;  written_doc s = hdr (canon s);
     events 0 (Dict c), cat cm_line    the statements of a document in text order and their text: an ordinary entry as the
                    formatter lays it out, a comment entry as the line  indentation ++ text;
     cwv c          c with every ordinary leaf replaced by what the classifier reads from its written form;
     number count c the SDict with the placeholders numbered in text order (line comments by the counter, block comments
                    from zero) and the tables filled accordingly;
     rereadable s   the class (see C03.v and RereadTree.v). *)

(* The written text: every comment of the SDict appears on a line of its own, at the indentation of its dict level,
   with its exact text, the header first *)
Theorem C12_written_text : forall s, rereadable s = true ->
  to_string_sd s = remove_trailing_spaces (cat cm_line (events 0 (Dict (written_doc s)))).
Proof. exact writer_canon. Qed.
Print Assumptions C12_written_text.

(* The output always begins with a header block comment that carries the C++ mark: the SDict's own first top-level block
   comment if it is marked, otherwise the default header, followed by the SDict's block comments *)
Theorem C12_header_first : forall s,
  has_header (written_doc s) = true /\
  (has_header (csort (canon s)) = true -> written_doc s = csort (canon s)) /\
  (has_header (csort (canon s)) = false -> written_doc s = (KS w_BLOCKCOMMENT, Leaf (SStr nh_txt)) :: csort (canon s)) /\
  nh_txt ++ [c_lf] = native_header.
Proof. exact header_first. Qed.
Print Assumptions C12_header_first.

(* WANTED: for every SDict the reader returns for a commented native source.  PROVED for the class rereadable (see the
   account in C03.v: no comment entries inside lists, comment texts pairwise distinct, SDicts rather than source texts).
   Reading the written text back: (a) the ordinary data at the same key paths in the same order, every leaf as the
   classifier reads its written form; (b), (c) the same canonical form -- every line comment and block comment with its
   exact text at its place among the entries of its dict level, in the same order, top-level block comments first, the
   header in front; (d) the placeholder ids consecutive in text order: line comments from the counter on, block comments
   from zero *)
Theorem C12_comments_survive_partial : forall s dir count, rereadable s = true -> (-1 <= count)%Z ->
  (Z.of_nat (length (lc_list (written_doc s))) <= 1000000)%Z -> (Z.of_nat (length (bc_list (written_doc s))) <= 1000000)%Z ->
  (Z.of_nat (length (lit_list (written_doc s))) <= 1000000)%Z ->
  exists s' count',
    parse_string true dir count (to_string_sd s) = Ok (mkParsed s' count') /\
    cstrip (Dict (sd_data s')) = map_leaves written_value (cstrip (Dict (sd_data s))) /\
    canon s' = cwv (written_doc s) /\
    sd_lc s' = combine (ids count (length (lc_list (written_doc s)))) (lc_list (written_doc s)) /\
    sd_bc s' = number_from 0 (bc_list (written_doc s)) /\
    sd_inc s' = [] /\ sd_expr s' = [].
Proof. exact comments_survive. Qed.
Print Assumptions C12_comments_survive_partial.

Definition ex12_ph (w : str) (i : N) : key * tree := (KS (placeholder w i), Leaf (SStr (placeholder w i))).
(* a marked header of its own, a line comment in front of it in the data (the writer moves the header to the top), a
   nested dict with both kinds of comments, a quoted string *)
Definition ex12_sd : sdict :=
  mkSD [ ex12_ph w_LINECOMMENT 7;
         (KS (of_string "a"), Leaf (SStr (of_string "two words")));
         ex12_ph w_BLOCKCOMMENT 3;
         (KS (of_string "sub"), Dict [ex12_ph w_LINECOMMENT 2; (KS (of_string "b"), Leaf (SInt 5)); ex12_ph w_BLOCKCOMMENT 5]);
         ex12_ph w_LINECOMMENT 4 ]
       [(2, of_string "// two: it's {here}"); (4, of_string "// four"); (7, of_string "// seven")]
       [(3, of_string "/* my own C++ header */"); (5, of_string "/* five
   more */")] [] [].

Example C12_written_text_nonvacuous :
  rereadable ex12_sd = true /\
  to_string_sd ex12_sd = of_string
"/* my own C++ header */
// seven
a                             'two words';
sub
{
    // two: it's {here}
    b                         5;
    /* five
   more */
}
// four
" /\
  to_string_sd ex12_sd = remove_trailing_spaces (cat cm_line (events 0 (Dict (written_doc ex12_sd)))) /\
  has_header (written_doc ex12_sd) = true /\ written_doc ex12_sd = csort (canon ex12_sd).
Proof.
  assert (H0 : rereadable ex12_sd = true) by (vm_compute; reflexivity).
  refine (conj H0 (conj _ (conj (C12_written_text ex12_sd H0) (conj (proj1 (C12_header_first ex12_sd)) _)))).
  - vm_compute. reflexivity.
  - apply (proj1 (proj2 (C12_header_first ex12_sd))). vm_compute. reflexivity.
Qed.

(* an SDict without a block comment of its own gets the default header *)
Example C12_header_first_nonvacuous :
  let s := mkSD [(KS (of_string "a"), Leaf (SInt 1)); ex12_ph w_LINECOMMENT 1] [(1, of_string "// one")] [] [] [] in
  rereadable s = true /\ has_header (csort (canon s)) = false /\ has_header (written_doc s) = true /\
  written_doc s = (KS w_BLOCKCOMMENT, Leaf (SStr nh_txt)) :: csort (canon s) /\
  to_string_sd s = native_header ++ of_string "a                             1;
// one
".
Proof.
  intros s. assert (H0 : rereadable s = true) by (vm_compute; reflexivity).
  assert (H1 : has_header (csort (canon s)) = false) by (vm_compute; reflexivity).
  destruct (C12_header_first s) as (A & _ & B & _).
  refine (conj H0 (conj H1 (conj A (conj (B H1) _)))). vm_compute. reflexivity.
Qed.

Example C12_comments_survive_partial_nonvacuous :
  rereadable ex12_sd = true /\
  (Z.of_nat (length (lc_list (written_doc ex12_sd))) <= 1000000)%Z /\ (Z.of_nat (length (bc_list (written_doc ex12_sd))) <= 1000000)%Z /\
  (Z.of_nat (length (lit_list (written_doc ex12_sd))) <= 1000000)%Z /\
  (exists s' count',
     parse_string true [] 9 (to_string_sd ex12_sd) = Ok (mkParsed s' count') /\
     cstrip (Dict (sd_data s')) = map_leaves written_value (cstrip (Dict (sd_data ex12_sd))) /\
     canon s' = cwv (written_doc ex12_sd) /\
     sd_lc s' = combine (ids 9 (length (lc_list (written_doc ex12_sd)))) (lc_list (written_doc ex12_sd)) /\
     sd_bc s' = number_from 0 (bc_list (written_doc ex12_sd)) /\ sd_inc s' = [] /\ sd_expr s' = []) /\
  (* the tables and the canonical form, evaluated *)
  combine (ids 9 (length (lc_list (written_doc ex12_sd)))) (lc_list (written_doc ex12_sd)) =
    [(10, of_string "// seven"); (11, of_string "// two: it's {here}"); (12, of_string "// four")] /\
  number_from 0 (bc_list (written_doc ex12_sd)) = [(0, of_string "/* my own C++ header */"); (1, of_string "/* five
   more */")] /\
  cwv (written_doc ex12_sd) =
    [(KS w_BLOCKCOMMENT, Leaf (SStr (of_string "/* my own C++ header */")));
     (KS w_LINECOMMENT, Leaf (SStr (of_string "// seven")));
     (KS (of_string "a"), Leaf (SStr (of_string "two words")));
     (KS (of_string "sub"), Dict [(KS w_LINECOMMENT, Leaf (SStr (of_string "// two: it's {here}"))); (KS (of_string "b"), Leaf (SInt 5));
                                  (KS w_BLOCKCOMMENT, Leaf (SStr (of_string "/* five
   more */")))]);
     (KS w_LINECOMMENT, Leaf (SStr (of_string "// four")))].
Proof.
  assert (H0 : rereadable ex12_sd = true) by (vm_compute; reflexivity).
  assert (H1 : (Z.of_nat (length (lc_list (written_doc ex12_sd))) <= 1000000)%Z) by (vm_compute; discriminate).
  assert (H2 : (Z.of_nat (length (bc_list (written_doc ex12_sd))) <= 1000000)%Z) by (vm_compute; discriminate).
  assert (H3 : (Z.of_nat (length (lit_list (written_doc ex12_sd))) <= 1000000)%Z) by (vm_compute; discriminate).
  refine (conj H0 (conj H1 (conj H2 (conj H3 (conj (C12_comments_survive_partial ex12_sd [] 9%Z H0 ltac:(lia) H1 H2 H3) _))))).
  vm_compute. repeat split; reflexivity.
Qed.

(* ---- the stages ------------------------------------------------------------------------------------- *)
(* _extract_line_comments on the written text (given as its events): every line comment is lifted out with its exact
   text, in text order, and replaced by the placeholder of the next counter value (by nothing with comments off);
   everything else, block comment lines included, is left as it is *)
Theorem C12_extract_line_comments_text : forall cm es c, Forall ev_src es ->
  extract_line_comments cm c (splitlines (catR es)) =
  (splitlines (catR (relab cm (ids c (length (lcx es))) es)), cafter c (length (lcx es)),
   ins (combine (ids c (length (lcx es))) (lcx es)) []).
Proof. exact extract_line_comments_text. Qed.
Print Assumptions C12_extract_line_comments_text.

(* _extract_block_comments on the text left by the line comment pass: exactly the block comments of the document are
   found, in text order, numbered from zero, and each is replaced by its placeholder *)
Theorem C12_extract_block_comments_text : forall cm es, Forall ev_mid es -> NoDup (bcx es) ->
  extract_block_comments cm (catR es) = (catR (map (numB cm (number_from 0 (bcx es))) es), number_from 0 (bcx es)).
Proof. exact extract_blocks_events. Qed.
Print Assumptions C12_extract_block_comments_text.

Example C12_extract_stages_nonvacuous :
  let es := events 0 (Dict (written_doc ex12_sd)) in
  Forall ev_src es /\ lcx es = [of_string "// seven"; of_string "// two: it's {here}"; of_string "// four"] /\
  extract_line_comments true 9 (splitlines (catR es)) =
    (splitlines (catR (relab true (ids 9 3) es)), 12%Z, ins (combine (ids 9 3) (lcx es)) []) /\
  let es1 := relab true (ids 9 3) es in
  Forall ev_mid es1 /\ NoDup (bcx es1) /\
  extract_block_comments true (catR es1) = (catR (map (numB true (number_from 0 (bcx es1))) es1), number_from 0 (bcx es1)) /\
  catR (map (numB true (number_from 0 (bcx es1))) es1) = of_string
"BLOCKCOMMENT000000
LINECOMMENT000010
a                             'two words';
sub
{
    LINECOMMENT000011
    b                         5;
    BLOCKCOMMENT000001
}
LINECOMMENT000012
".
Proof.
  intros es.
  assert (Hd : cdoc_ok (written_doc ex12_sd) = true) by (vm_compute; reflexivity).
  destruct (cdoc_ok_inv _ Hd) as (Hs & _ & _ & Hcm & _ & Hb).
  assert (Hsrc : Forall ev_src es) by (apply cms_of_events_src; [apply cshape_events; exact Hs|exact Hcm]).
  assert (El : lcx es = [of_string "// seven"; of_string "// two: it's {here}"; of_string "// four"]) by (vm_compute; reflexivity).
  pose proof (C12_extract_line_comments_text true es 9%Z Hsrc) as E1. rewrite El in E1. cbn [length] in E1.
  assert (Ec : cafter 9 3 = 12%Z) by (vm_compute; reflexivity). rewrite Ec in E1. rewrite <- El in E1.
  refine (conj Hsrc (conj El (conj E1 _))). intros es1.
  assert (Hmid : Forall ev_mid es1) by (apply relab_mid; [exact Hsrc|rewrite El; reflexivity]).
  assert (Hnd : NoDup (bcx es1)) by (unfold es1; rewrite relab_bcx; exact Hb).
  refine (conj Hmid (conj Hnd (conj (C12_extract_block_comments_text true es1 Hmid Hnd) _))). vm_compute. reflexivity.
Qed.

(* ---- comments off ----------------------------------------------------------------------------------- *)
(* With comments disabled on reading no comment entry is returned at any level, and the ordinary data is the same as with
   comments on.  FINDING (model): the tables line_comments / block_comments are filled all the same, and the placeholder
   counter advances for the line comments as with comments on -- "empty sd_lc / sd_bc" is false for the model. *)
Theorem C12_comments_off_partial : forall s dir count, rereadable s = true -> (-1 <= count)%Z ->
  (Z.of_nat (length (lc_list (written_doc s))) <= 1000000)%Z -> (Z.of_nat (length (bc_list (written_doc s))) <= 1000000)%Z ->
  (Z.of_nat (length (lit_list (written_doc s))) <= 1000000)%Z ->
  let s_on := number count (written_doc s) in let s_off := number_off count (written_doc s) in
  parse_string true dir count (to_string_sd s) = Ok (mkParsed s_on (count_after count (written_doc s))) /\
  parse_string false dir count (to_string_sd s) = Ok (mkParsed s_off (count_after count (written_doc s))) /\
  cms (Dict (sd_data s_off)) = [] /\
  Dict (sd_data s_off) = cstrip (Dict (sd_data s_on)) /\
  Dict (sd_data s_off) = map_leaves written_value (cstrip (Dict (sd_data s))) /\
  sd_lc s_off = sd_lc s_on /\ sd_bc s_off = sd_bc s_on.
Proof. exact comments_off_doc. Qed.
Print Assumptions C12_comments_off_partial.

Example C12_comments_off_partial_nonvacuous :
  rereadable ex12_sd = true /\
  (exists s_off, parse_string false [] 9 (to_string_sd ex12_sd) = Ok (mkParsed s_off 13) /\
     cms (Dict (sd_data s_off)) = [] /\
     sd_data s_off = [(KS (of_string "a"), Leaf (SStr (of_string "two words"))); (KS (of_string "sub"), Dict [(KS (of_string "b"), Leaf (SInt 5))])] /\
     (* the tables are filled although no comment entry is returned *)
     sd_lc s_off = [(10, of_string "// seven"); (11, of_string "// two: it's {here}"); (12, of_string "// four")] /\
     map fst (sd_bc s_off) = [0; 1]).
Proof.
  assert (H0 : rereadable ex12_sd = true) by (vm_compute; reflexivity).
  assert (H1 : (Z.of_nat (length (lc_list (written_doc ex12_sd))) <= 1000000)%Z) by (vm_compute; discriminate).
  assert (H2 : (Z.of_nat (length (bc_list (written_doc ex12_sd))) <= 1000000)%Z) by (vm_compute; discriminate).
  assert (H3 : (Z.of_nat (length (lit_list (written_doc ex12_sd))) <= 1000000)%Z) by (vm_compute; discriminate).
  destruct (C12_comments_off_partial ex12_sd [] 9%Z H0 ltac:(lia) H1 H2 H3) as (_ & B & C & _).
  assert (Hc : count_after 9 (written_doc ex12_sd) = 13%Z) by (vm_compute; reflexivity). rewrite Hc in B.
  split; [exact H0|]. exists (number_off 9 (written_doc ex12_sd)). split; [exact B|]. split; [exact C|]. vm_compute. repeat split; reflexivity.
Qed.

(* ---- findings: why the side conditions of the class are there (each evaluated on the model) --------------------- *)
Definition f_names (p : parsed) : list str := map (fun kv => match fst kv with KS s => s | KI _ => [] end) (sd_data (pr_sd p)).

(* 1. lc_ok, no trailing white space: the writer strips trailing white space of every line, so a line comment that ends
      with blanks comes back without them (its text is NOT exact) *)
Example C12_finding_trailing_space :
  let s := mkSD [ex12_ph w_BLOCKCOMMENT 0; ex12_ph w_LINECOMMENT 1; (KS (of_string "a"), Leaf (SInt 1))]
                [(1, of_string "// four  ")] [(0, nh_txt)] [] [] in
  rereadable s = false /\
  match parse_string true [] 5 (to_string_sd s) with Ok p => map snd (sd_lc (pr_sd p)) = [of_string "// four"] | Raise _ => False end.
Proof. vm_compute. split; reflexivity. Qed.

(* 2. distinct line comment texts: of two equal line comments in one dict the reader (SDict._clean) keeps the first only *)
Example C12_finding_equal_line_comments :
  match parse_string true [] (-1) (of_string "// x
a 1;
// x
b 2;
") with
  | Ok p => f_names p = [of_string "LINECOMMENT000000"; of_string "a"; of_string "b"] /\ sd_lc (pr_sd p) = [(0, of_string "// x")]
  | Raise _ => False
  end.
Proof. vm_compute. split; reflexivity. Qed.

(* 3. bcgood, slash-star only at the beginning: a block comment that contains the text of an earlier one is garbled by the
      reader (str.replace of the earlier text hits inside it; no placeholder entry for it is returned) *)
Example C12_finding_nested_opener :
  match parse_string true [] (-1) (of_string "/*x*/
a 1;
/* y /*x*/
") with
  | Ok p => f_names p = [of_string "BLOCKCOMMENT000000"; of_string "a"] /\ map fst (sd_bc (pr_sd p)) = [0; 1]
  | Raise _ => False
  end.
Proof. vm_compute. split; reflexivity. Qed.

(* 4. bc_ok, no double slash: line comments are lifted out first, so a double slash inside a block comment tears it apart *)
Example C12_finding_slashes_in_block_comment :
  match parse_string true [] (-1) (of_string "/* a // b */
a 1;
") with
  | Ok p => sd_lc (pr_sd p) = [(0, of_string "// b */")] /\ sd_bc (pr_sd p) = []
  | Raise _ => False
  end.
Proof. vm_compute. split; reflexivity. Qed.

(* 5. distinct block comment texts: the writer leaves out a block comment whose text was inserted before *)
Example C12_finding_equal_block_comments :
  let s := mkSD [ex12_ph w_BLOCKCOMMENT 0; (KS (of_string "a"), Dict [ex12_ph w_BLOCKCOMMENT 2; (KS (of_string "b"), Leaf (SInt 1))])]
                [] [(0, nh_txt); (2, nh_txt)] [] [] in
  rereadable s = false /\
  to_string_sd s = native_header ++ of_string "a
{

    b                         1;
}
".
Proof. vm_compute. split; reflexivity. Qed.

(* 6. phfree: a comment text that spells the placeholder pair of a comment inserted later is changed by the writer *)
Example C12_finding_placeholder_in_comment :
  let s := mkSD [ex12_ph w_BLOCKCOMMENT 0; ex12_ph w_LINECOMMENT 1; ex12_ph w_LINECOMMENT 2]
                [(1, of_string "// LINECOMMENT000002 LINECOMMENT000002;"); (2, of_string "// two")] [(0, nh_txt)] [] [] in
  rereadable s = false /\ to_string_sd s = native_header ++ of_string "// // two
// two
".
Proof. vm_compute. split; reflexivity. Qed.
