(* C12  Comments survive read -> write (extraction and literal re-insertion), header, comments off. *)
From Coq Require Import String.   (* string literals of the examples; imported first so the list names win *)
From Coq Require Import NArith ZArith List Bool.
From DictIO Require Import Chars Str Value Scalar SDict Layout Lexer LayoutSpec LayoutProofs.
Import ListNotations.

(* a line comment is lifted out with its exact text, whatever characters it contains (quotes, braces, dollar,
   backslashes ...), and replaced by one placeholder; the rest of the line is untouched *)
Theorem C12_extract_line_comment : forall before rest nl count,
  no_slash before -> no_colon_end before -> no_lf rest -> no_lf before -> line_end nl ->
  let cmt := c_slash :: c_slash :: rest in
  let k := counter_next count in
  extract_line_comment true count (before ++ cmt ++ nl) =
    (before ++ placeholder w_LINECOMMENT (Z.to_N k) ++ nl, k, Some (Z.to_N k, cmt)).
Proof. exact extract_line_comment_spec. Qed.
Print Assumptions C12_extract_line_comment.

(* non-vacuity: code with a colon (not at its end) in front of a comment that contains quotes, braces, a dollar, a
   backslash, a URL and a second pair of slashes; counter just before the wrap-around *)
Example C12_extract_line_comment_nonvacuous :
  let before := of_string "key: 'v' 1.5;  " in
  let rest := of_string " it's {a} ""$b"" \ http://x.y // again" in
  let nl := [c_lf] in
  no_slash before /\ no_colon_end before /\ no_lf rest /\ no_lf before /\ line_end nl /\
  extract_line_comment true 999999 (before ++ c_slash :: c_slash :: rest ++ nl) =
    (of_string "key: 'v' 1.5;  LINECOMMENT000000" ++ nl, 0%Z, Some (0%N, c_slash :: c_slash :: rest)).
Proof.
  intros before rest nl.
  assert (H1 : no_slash before) by (vm_compute; reflexivity).
  assert (H2 : no_colon_end before) by (vm_compute; reflexivity).
  assert (H3 : no_lf rest) by (vm_compute; reflexivity).
  assert (H4 : no_lf before) by (vm_compute; reflexivity).
  assert (H5 : line_end nl) by (right; reflexivity).
  exact (conj H1 (conj H2 (conj H3 (conj H4 (conj H5 (C12_extract_line_comment before rest nl 999999 H1 H2 H3 H4 H5)))))).
Qed.

(* with comments switched off nothing of the comment remains in the line *)
Theorem C12_comments_off : forall before rest nl count,
  no_slash before -> no_colon_end before -> no_lf rest -> no_lf before -> line_end nl ->
  fst (fst (extract_line_comment false count (before ++ c_slash :: c_slash :: rest ++ nl))) = before ++ nl.
Proof. exact extract_line_comment_off. Qed.
Print Assumptions C12_comments_off.

Example C12_comments_off_nonvacuous :
  let before := of_string "key: 'v' 1.5;  " in
  let rest := of_string " it's {a} ""$b"" \ http://x.y // again" in
  let nl := [c_lf] in
  no_slash before /\ no_colon_end before /\ no_lf rest /\ no_lf before /\ line_end nl /\
  fst (fst (extract_line_comment false 41 (before ++ c_slash :: c_slash :: rest ++ nl))) = of_string "key: 'v' 1.5;  " ++ nl.
Proof.
  intros before rest nl.
  assert (H1 : no_slash before) by (vm_compute; reflexivity).
  assert (H2 : no_colon_end before) by (vm_compute; reflexivity).
  assert (H3 : no_lf rest) by (vm_compute; reflexivity).
  assert (H4 : no_lf before) by (vm_compute; reflexivity).
  assert (H5 : line_end nl) by (right; reflexivity).
  exact (conj H1 (conj H2 (conj H3 (conj H4 (conj H5 (C12_comments_off before rest nl 41 H1 H2 H3 H4 H5)))))).
Qed.

(* re-insertion is literal: the placeholder pair is replaced by the comment text as it is (no template
   interpretation), the surrounding text is kept *)
Theorem C12_insert_literal : forall ph repl pre post ws fuel,
  (match ph with c :: _ => has_char c pre = false | [] => False end) ->
  (forall c, In c ph -> is_space c = false) -> (forall c, In c ws -> is_space c = true) -> ws <> [] ->
  (length (pre ++ ph ++ ws ++ ph ++ [c_semi] ++ post) < fuel)%nat ->
  exists post', fst (sub_ph_pair fuel ph repl (pre ++ ph ++ ws ++ ph ++ [c_semi] ++ post)) = pre ++ repl ++ post'.
Proof. exact sub_ph_pair_literal. Qed.
Print Assumptions C12_insert_literal.

(* non-vacuity: the placeholder pair as the writer lays it out (30-column padding between key and value), a comment
   text full of characters that a regex replacement template would interpret, fuel as insert_line_comments uses it;
   the last part evaluates the substitution: here the rest of the text is kept, too *)
Example C12_insert_literal_nonvacuous :
  let ph := placeholder w_LINECOMMENT 7 in
  let repl := of_string "// \1 \g<0> it's ""x"" $y {z} \n" in
  let pre := of_string "a 1;" ++ [c_lf] in let post := c_lf :: of_string "b 2;" ++ [c_lf] in
  let ws := repeat c_sp 13 in
  let txt := pre ++ ph ++ ws ++ ph ++ [c_semi] ++ post in
  let fuel := S (length txt) in
  (match ph with c :: _ => has_char c pre = false | [] => False end) /\
  (forall c, In c ph -> is_space c = false) /\ (forall c, In c ws -> is_space c = true) /\ ws <> [] /\
  (length txt < fuel)%nat /\
  (exists post', fst (sub_ph_pair fuel ph repl txt) = pre ++ repl ++ post') /\
  fst (sub_ph_pair fuel ph repl txt) = pre ++ repl ++ post.
Proof.
  intros ph repl pre post ws txt fuel.
  assert (H1 : match ph with c :: _ => has_char c pre = false | [] => False end) by (vm_compute; reflexivity).
  assert (H2 : forall c, In c ph -> is_space c = false).
  { intros c Hc. assert (E : forallb (fun c => negb (is_space c)) ph = true) by (vm_compute; reflexivity).
    apply negb_true_iff. exact (proj1 (forallb_forall _ _) E c Hc). }
  assert (H3 : forall c, In c ws -> is_space c = true).
  { intros c Hc. assert (E : forallb is_space ws = true) by (vm_compute; reflexivity).
    exact (proj1 (forallb_forall _ _) E c Hc). }
  assert (H4 : ws <> []) by discriminate.
  assert (H5 : (length txt < fuel)%nat) by (apply PeanoNat.Nat.ltb_lt; vm_compute; reflexivity).
  refine (conj H1 (conj H2 (conj H3 (conj H4 (conj H5 (conj (C12_insert_literal ph repl pre post ws fuel H1 H2 H3 H4 H5) _)))))).
  vm_compute. reflexivity.
Qed.

(* the default header is added exactly once *)
Theorem C12_header_once : forall bc,
  make_default_block_comment (make_default_block_comment bc) = make_default_block_comment bc /\
  has_cpp_mark (make_default_block_comment bc) = true.
Proof. exact default_header_once. Qed.
Print Assumptions C12_header_once.

(* ================================================================================================ *)
(* Document level: comments survive write -> read                                                    *)
(* ================================================================================================ *)
From DictIO Require Import Value Scalar KeyPath TokParser TreeSpec NativeSpec E2ESpec.
From DictIO Require Import E2EProofs E2EHoles E2EKeyTok E2EFullProofs.
From DictIO Require Import RereadPlain RereadStr RereadTree RereadWrite RereadLex RereadNum RereadProofs RereadFix RereadOff.
From Coq Require Import Lia.
Open Scope N_scope.

(* The vocabulary (RereadTree, RereadProofs):
     canon s        the data of s with every comment placeholder entry replaced by an id-free entry
                    (KS LINECOMMENT / KS BLOCKCOMMENT, Leaf (SStr text)) that carries the comment text;
     hdr c          top-level block comments first (sort_top), and the default header entry in front unless the first of
                    them carries the C++ mark;  written_doc s = hdr (canon s);
     events 0 (Dict c), cat cm_line    the statements of a document in text order and their text: an ordinary entry as the
                    formatter lays it out, a comment entry as the line  indentation ++ text;
     cwv c          c with every ordinary leaf replaced by what the classifier reads from its written form;
     number count c the SDict with the placeholders numbered in text order (line comments by the counter, block comments
                    from zero) and the tables filled accordingly;
     rereadable s   the class (see C03.v and RereadTree.v). *)

(* The written text: every comment of the SDict appears on a line of its own, at the indentation of its dict level,
   with its exact text, the header first *)
Theorem C12_written_text : forall s, rereadable s = true ->
  to_string_sd s = remove_trailing_spaces (cat cm_line (events 0 (Dict (written_doc s)))).
Proof. exact writer_canon. Qed.
Print Assumptions C12_written_text.

(* The output always begins with a header block comment that carries the C++ mark: the SDict's own first top-level block
   comment if it is marked, otherwise the default header, followed by the SDict's block comments *)
Theorem C12_header_first : forall s,
  has_header (written_doc s) = true /\
  (has_header (csort (canon s)) = true -> written_doc s = csort (canon s)) /\
  (has_header (csort (canon s)) = false -> written_doc s = (KS w_BLOCKCOMMENT, Leaf (SStr nh_txt)) :: csort (canon s)) /\
  nh_txt ++ [c_lf] = native_header.
Proof. exact header_first. Qed.
Print Assumptions C12_header_first.

(* WANTED: for every SDict the reader returns for a commented native source.  PROVED for the class rereadable (see the
   account in C03.v: no comment entries inside lists, comment texts pairwise distinct, SDicts rather than source texts).
   Reading the written text back: (a) the ordinary data at the same key paths in the same order, every leaf as the
   classifier reads its written form; (b), (c) the same canonical form -- every line comment and block comment with its
   exact text at its place among the entries of its dict level, in the same order, top-level block comments first, the
   header in front; (d) the placeholder ids consecutive in text order: line comments from the counter on, block comments
   from zero *)
Theorem C12_comments_survive_partial : forall s dir count, rereadable s = true -> (-1 <= count)%Z ->
  (Z.of_nat (length (lc_list (written_doc s))) <= 1000000)%Z -> (Z.of_nat (length (bc_list (written_doc s))) <= 1000000)%Z ->
  (Z.of_nat (length (lit_list (written_doc s))) <= 1000000)%Z ->
  exists s' count',
    parse_string true dir count (to_string_sd s) = Ok (mkParsed s' count') /\
    cstrip (Dict (sd_data s')) = map_leaves written_value (cstrip (Dict (sd_data s))) /\
    canon s' = cwv (written_doc s) /\
    sd_lc s' = combine (ids count (length (lc_list (written_doc s)))) (lc_list (written_doc s)) /\
    sd_bc s' = number_from 0 (bc_list (written_doc s)) /\
    sd_inc s' = [] /\ sd_expr s' = [].
Proof. exact comments_survive. Qed.
Print Assumptions C12_comments_survive_partial.

Definition ex12_ph (w : str) (i : N) : key * tree := (KS (placeholder w i), Leaf (SStr (placeholder w i))).
(* a marked header of its own, a line comment in front of it in the data (the writer moves the header to the top), a
   nested dict with both kinds of comments, a quoted string *)
Definition ex12_sd : sdict :=
  mkSD [ ex12_ph w_LINECOMMENT 7;
         (KS (of_string "a"), Leaf (SStr (of_string "two words")));
         ex12_ph w_BLOCKCOMMENT 3;
         (KS (of_string "sub"), Dict [ex12_ph w_LINECOMMENT 2; (KS (of_string "b"), Leaf (SInt 5)); ex12_ph w_BLOCKCOMMENT 5]);
         ex12_ph w_LINECOMMENT 4 ]
       [(2, of_string "// two: it's {here}"); (4, of_string "// four"); (7, of_string "// seven")]
       [(3, of_string "/* my own C++ header */"); (5, of_string "/* five
   more */")] [] [].

Example C12_written_text_nonvacuous :
  rereadable ex12_sd = true /\
  to_string_sd ex12_sd = of_string
"/* my own C++ header */
// seven
a                             'two words';
sub
{
    // two: it's {here}
    b                         5;
    /* five
   more */
}
// four
" /\
  to_string_sd ex12_sd = remove_trailing_spaces (cat cm_line (events 0 (Dict (written_doc ex12_sd)))) /\
  has_header (written_doc ex12_sd) = true /\ written_doc ex12_sd = csort (canon ex12_sd).
Proof.
  assert (H0 : rereadable ex12_sd = true) by (vm_compute; reflexivity).
  refine (conj H0 (conj _ (conj (C12_written_text ex12_sd H0) (conj (proj1 (C12_header_first ex12_sd)) _)))).
  - vm_compute. reflexivity.
  - apply (proj1 (proj2 (C12_header_first ex12_sd))). vm_compute. reflexivity.
Qed.

(* an SDict without a block comment of its own gets the default header *)
Example C12_header_first_nonvacuous :
  let s := mkSD [(KS (of_string "a"), Leaf (SInt 1)); ex12_ph w_LINECOMMENT 1] [(1, of_string "// one")] [] [] [] in
  rereadable s = true /\ has_header (csort (canon s)) = false /\ has_header (written_doc s) = true /\
  written_doc s = (KS w_BLOCKCOMMENT, Leaf (SStr nh_txt)) :: csort (canon s) /\
  to_string_sd s = native_header ++ of_string "a                             1;
// one
".
Proof.
  intros s. assert (H0 : rereadable s = true) by (vm_compute; reflexivity).
  assert (H1 : has_header (csort (canon s)) = false) by (vm_compute; reflexivity).
  destruct (C12_header_first s) as (A & _ & B & _).
  refine (conj H0 (conj H1 (conj A (conj (B H1) _)))). vm_compute. reflexivity.
Qed.

Example C12_comments_survive_partial_nonvacuous :
  rereadable ex12_sd = true /\
  (Z.of_nat (length (lc_list (written_doc ex12_sd))) <= 1000000)%Z /\ (Z.of_nat (length (bc_list (written_doc ex12_sd))) <= 1000000)%Z /\
  (Z.of_nat (length (lit_list (written_doc ex12_sd))) <= 1000000)%Z /\
  (exists s' count',
     parse_string true [] 9 (to_string_sd ex12_sd) = Ok (mkParsed s' count') /\
     cstrip (Dict (sd_data s')) = map_leaves written_value (cstrip (Dict (sd_data ex12_sd))) /\
     canon s' = cwv (written_doc ex12_sd) /\
     sd_lc s' = combine (ids 9 (length (lc_list (written_doc ex12_sd)))) (lc_list (written_doc ex12_sd)) /\
     sd_bc s' = number_from 0 (bc_list (written_doc ex12_sd)) /\ sd_inc s' = [] /\ sd_expr s' = []) /\
  (* the tables and the canonical form, evaluated *)
  combine (ids 9 (length (lc_list (written_doc ex12_sd)))) (lc_list (written_doc ex12_sd)) =
    [(10, of_string "// seven"); (11, of_string "// two: it's {here}"); (12, of_string "// four")] /\
  number_from 0 (bc_list (written_doc ex12_sd)) = [(0, of_string "/* my own C++ header */"); (1, of_string "/* five
   more */")] /\
  cwv (written_doc ex12_sd) =
    [(KS w_BLOCKCOMMENT, Leaf (SStr (of_string "/* my own C++ header */")));
     (KS w_LINECOMMENT, Leaf (SStr (of_string "// seven")));
     (KS (of_string "a"), Leaf (SStr (of_string "two words")));
     (KS (of_string "sub"), Dict [(KS w_LINECOMMENT, Leaf (SStr (of_string "// two: it's {here}"))); (KS (of_string "b"), Leaf (SInt 5));
                                  (KS w_BLOCKCOMMENT, Leaf (SStr (of_string "/* five
   more */")))]);
     (KS w_LINECOMMENT, Leaf (SStr (of_string "// four")))].
Proof.
  assert (H0 : rereadable ex12_sd = true) by (vm_compute; reflexivity).
  assert (H1 : (Z.of_nat (length (lc_list (written_doc ex12_sd))) <= 1000000)%Z) by (vm_compute; discriminate).
  assert (H2 : (Z.of_nat (length (bc_list (written_doc ex12_sd))) <= 1000000)%Z) by (vm_compute; discriminate).
  assert (H3 : (Z.of_nat (length (lit_list (written_doc ex12_sd))) <= 1000000)%Z) by (vm_compute; discriminate).
  refine (conj H0 (conj H1 (conj H2 (conj H3 (conj (C12_comments_survive_partial ex12_sd [] 9%Z H0 ltac:(lia) H1 H2 H3) _))))).
  vm_compute. repeat split; reflexivity.
Qed.

(* ---- the stages ------------------------------------------------------------------------------------- *)
(* _extract_line_comments on the written text (given as its events): every line comment is lifted out with its exact
   text, in text order, and replaced by the placeholder of the next counter value (by nothing with comments off);
   everything else, block comment lines included, is left as it is *)
Theorem C12_extract_line_comments_text : forall cm es c, Forall ev_src es ->
  extract_line_comments cm c (splitlines (catR es)) =
  (splitlines (catR (relab cm (ids c (length (lcx es))) es)), cafter c (length (lcx es)),
   ins (combine (ids c (length (lcx es))) (lcx es)) []).
Proof. exact extract_line_comments_text. Qed.
Print Assumptions C12_extract_line_comments_text.

(* _extract_block_comments on the text left by the line comment pass: exactly the block comments of the document are
   found, in text order, numbered from zero, and each is replaced by its placeholder *)
Theorem C12_extract_block_comments_text : forall cm es, Forall ev_mid es -> NoDup (bcx es) ->
  extract_block_comments cm (catR es) = (catR (map (numB cm (number_from 0 (bcx es))) es), number_from 0 (bcx es)).
Proof. exact extract_blocks_events. Qed.
Print Assumptions C12_extract_block_comments_text.

Example C12_extract_stages_nonvacuous :
  let es := events 0 (Dict (written_doc ex12_sd)) in
  Forall ev_src es /\ lcx es = [of_string "// seven"; of_string "// two: it's {here}"; of_string "// four"] /\
  extract_line_comments true 9 (splitlines (catR es)) =
    (splitlines (catR (relab true (ids 9 3) es)), 12%Z, ins (combine (ids 9 3) (lcx es)) []) /\
  let es1 := relab true (ids 9 3) es in
  Forall ev_mid es1 /\ NoDup (bcx es1) /\
  extract_block_comments true (catR es1) = (catR (map (numB true (number_from 0 (bcx es1))) es1), number_from 0 (bcx es1)) /\
  catR (map (numB true (number_from 0 (bcx es1))) es1) = of_string
"BLOCKCOMMENT000000
LINECOMMENT000010
a                             'two words';
sub
{
    LINECOMMENT000011
    b                         5;
    BLOCKCOMMENT000001
}
LINECOMMENT000012
".
Proof.
  intros es.
  assert (Hd : cdoc_ok (written_doc ex12_sd) = true) by (vm_compute; reflexivity).
  destruct (cdoc_ok_inv _ Hd) as (Hs & _ & _ & Hcm & _ & Hb).
  assert (Hsrc : Forall ev_src es) by (apply cms_of_events_src; [apply cshape_events; exact Hs|exact Hcm]).
  assert (El : lcx es = [of_string "// seven"; of_string "// two: it's {here}"; of_string "// four"]) by (vm_compute; reflexivity).
  pose proof (C12_extract_line_comments_text true es 9%Z Hsrc) as E1. rewrite El in E1. cbn [length] in E1.
  assert (Ec : cafter 9 3 = 12%Z) by (vm_compute; reflexivity). rewrite Ec in E1. rewrite <- El in E1.
  refine (conj Hsrc (conj El (conj E1 _))). intros es1.
  assert (Hmid : Forall ev_mid es1) by (apply relab_mid; [exact Hsrc|rewrite El; reflexivity]).
  assert (Hnd : NoDup (bcx es1)) by (unfold es1; rewrite relab_bcx; exact Hb).
  refine (conj Hmid (conj Hnd (conj (C12_extract_block_comments_text true es1 Hmid Hnd) _))). vm_compute. reflexivity.
Qed.

(* ---- comments off ----------------------------------------------------------------------------------- *)
(* With comments disabled on reading no comment entry is returned at any level, and the ordinary data is the same as with
   comments on.  FINDING (model): the tables line_comments / block_comments are filled all the same, and the placeholder
   counter advances for the line comments as with comments on -- "empty sd_lc / sd_bc" is false for the model. *)
Theorem C12_comments_off_partial : forall s dir count, rereadable s = true -> (-1 <= count)%Z ->
  (Z.of_nat (length (lc_list (written_doc s))) <= 1000000)%Z -> (Z.of_nat (length (bc_list (written_doc s))) <= 1000000)%Z ->
  (Z.of_nat (length (lit_list (written_doc s))) <= 1000000)%Z ->
  let s_on := number count (written_doc s) in let s_off := number_off count (written_doc s) in
  parse_string true dir count (to_string_sd s) = Ok (mkParsed s_on (count_after count (written_doc s))) /\
  parse_string false dir count (to_string_sd s) = Ok (mkParsed s_off (count_after count (written_doc s))) /\
  cms (Dict (sd_data s_off)) = [] /\
  Dict (sd_data s_off) = cstrip (Dict (sd_data s_on)) /\
  Dict (sd_data s_off) = map_leaves written_value (cstrip (Dict (sd_data s))) /\
  sd_lc s_off = sd_lc s_on /\ sd_bc s_off = sd_bc s_on.
Proof. exact comments_off_doc. Qed.
Print Assumptions C12_comments_off_partial.

Example C12_comments_off_partial_nonvacuous :
  rereadable ex12_sd = true /\
  (exists s_off, parse_string false [] 9 (to_string_sd ex12_sd) = Ok (mkParsed s_off 13) /\
     cms (Dict (sd_data s_off)) = [] /\
     sd_data s_off = [(KS (of_string "a"), Leaf (SStr (of_string "two words"))); (KS (of_string "sub"), Dict [(KS (of_string "b"), Leaf (SInt 5))])] /\
     (* the tables are filled although no comment entry is returned *)
     sd_lc s_off = [(10, of_string "// seven"); (11, of_string "// two: it's {here}"); (12, of_string "// four")] /\
     map fst (sd_bc s_off) = [0; 1]).
Proof.
  assert (H0 : rereadable ex12_sd = true) by (vm_compute; reflexivity).
  assert (H1 : (Z.of_nat (length (lc_list (written_doc ex12_sd))) <= 1000000)%Z) by (vm_compute; discriminate).
  assert (H2 : (Z.of_nat (length (bc_list (written_doc ex12_sd))) <= 1000000)%Z) by (vm_compute; discriminate).
  assert (H3 : (Z.of_nat (length (lit_list (written_doc ex12_sd))) <= 1000000)%Z) by (vm_compute; discriminate).
  destruct (C12_comments_off_partial ex12_sd [] 9%Z H0 ltac:(lia) H1 H2 H3) as (_ & B & C & _).
  assert (Hc : count_after 9 (written_doc ex12_sd) = 13%Z) by (vm_compute; reflexivity). rewrite Hc in B.
  split; [exact H0|]. exists (number_off 9 (written_doc ex12_sd)). split; [exact B|]. split; [exact C|]. vm_compute. repeat split; reflexivity.
Qed.

(* ---- findings: why the side conditions of the class are there (each evaluated on the model) --------------------- *)
Definition f_names (p : parsed) : list str := map (fun kv => match fst kv with KS s => s | KI _ => [] end) (sd_data (pr_sd p)).

(* 1. lc_ok, no trailing white space: the writer strips trailing white space of every line, so a line comment that ends
      with blanks comes back without them (its text is NOT exact) *)
Example C12_finding_trailing_space :
  let s := mkSD [ex12_ph w_BLOCKCOMMENT 0; ex12_ph w_LINECOMMENT 1; (KS (of_string "a"), Leaf (SInt 1))]
                [(1, of_string "// four  ")] [(0, nh_txt)] [] [] in
  rereadable s = false /\
  match parse_string true [] 5 (to_string_sd s) with Ok p => map snd (sd_lc (pr_sd p)) = [of_string "// four"] | Raise _ => False end.
Proof. vm_compute. split; reflexivity. Qed.

(* 2. distinct line comment texts: of two equal line comments in one dict the reader (SDict._clean) keeps the first only *)
Example C12_finding_equal_line_comments :
  match parse_string true [] (-1) (of_string "// x
a 1;
// x
b 2;
") with
  | Ok p => f_names p = [of_string "LINECOMMENT000000"; of_string "a"; of_string "b"] /\ sd_lc (pr_sd p) = [(0, of_string "// x")]
  | Raise _ => False
  end.
Proof. vm_compute. split; reflexivity. Qed.

(* 3. bcgood, slash-star only at the beginning: a block comment that contains the text of an earlier one is garbled by the
      reader (str.replace of the earlier text hits inside it; no placeholder entry for it is returned) *)
Example C12_finding_nested_opener :
  match parse_string true [] (-1) (of_string "/*x*/
a 1;
/* y /*x*/
") with
  | Ok p => f_names p = [of_string "BLOCKCOMMENT000000"; of_string "a"] /\ map fst (sd_bc (pr_sd p)) = [0; 1]
  | Raise _ => False
  end.
Proof. vm_compute. split; reflexivity. Qed.

(* 4. bc_ok, no double slash: line comments are lifted out first, so a double slash inside a block comment tears it apart *)
Example C12_finding_slashes_in_block_comment :
  match parse_string true [] (-1) (of_string "/* a // b */
a 1;
") with
  | Ok p => sd_lc (pr_sd p) = [(0, of_string "// b */")] /\ sd_bc (pr_sd p) = []
  | Raise _ => False
  end.
Proof. vm_compute. split; reflexivity. Qed.

(* 5. distinct block comment texts: the writer leaves out a block comment whose text was inserted before *)
Example C12_finding_equal_block_comments :
  let s := mkSD [ex12_ph w_BLOCKCOMMENT 0; (KS (of_string "a"), Dict [ex12_ph w_BLOCKCOMMENT 2; (KS (of_string "b"), Leaf (SInt 1))])]
                [] [(0, nh_txt); (2, nh_txt)] [] [] in
  rereadable s = false /\
  to_string_sd s = native_header ++ of_string "a
{

    b                         1;
}
".
Proof. vm_compute. split; reflexivity. Qed.

(* 6. phfree: a comment text that spells the placeholder pair of a comment inserted later is changed by the writer *)
Example C12_finding_placeholder_in_comment :
  let s := mkSD [ex12_ph w_BLOCKCOMMENT 0; ex12_ph w_LINECOMMENT 1; ex12_ph w_LINECOMMENT 2]
                [(1, of_string "// LINECOMMENT000002 LINECOMMENT000002;"); (2, of_string "// two")] [(0, nh_txt)] [] [] in
  rereadable s = false /\ to_string_sd s = native_header ++ of_string "// // two
// two
".
Proof. vm_compute. split; reflexivity. Qed.

(* ================================================================================================== *)
(* added from Properties/C12_add.v (2026-10-01)                                              *)
(* ================================================================================================== *)
(* C12 (addition)  Include directives survive read -> write -> read: every #include directive is written again and names
   the same file. *)
From Coq Require Import String.   (* string literals of the examples; imported first so the list names win *)
From Coq Require Import NArith ZArith List Bool Lia.
From DictIO Require Import Chars Str Value Scalar KeyPath SDict Layout Lexer TokParser TreeSpec NativeSpec LayoutSpec E2ESpec.
From DictIO Require Import E2EProofs E2EHoles E2EKeyTok E2EFullProofs LayoutProofs.
From DictIO Require Import RereadPlain RereadStr RereadTree RereadWrite RereadLex RereadNum RereadProofs RereadFix RereadOff.
From DictIO Require Import RereadIncStage RereadIncLex RereadIncParse RereadIncRead RereadIncWrite RereadIncProofs.
Import ListNotations.
Open Scope N_scope.

(* The vocabulary (RereadIncStage, RereadIncLex, RereadIncRead, RereadIncWrite):
     iph i               the include placeholder INCLUDE + six digits;
     inc_directive name  the directive the formatter writes:  #include  + blank + format_string name  (the name bare, or in
                         single / double quotes, as the formatter's string quoting decides);
     name_ok name        no line break of any kind (LF CR VT FF FS GS RS NEL LS PS): the class of the stage theorems;
     inc_name_ok name    name_ok, and the line comment pass finds nothing in the directive (no double slash, unless a colon
                         stands in front of it): the class of the lexer on whole texts;
     name_cond name      inc_name_ok, and no comment placeholder and no include placeholder inside the name (the insertion
                         passes of the WRITER would replace it): the class of the whole cycle;
     strip_inc s         the SDict without its include entries;   inc_names s  the file names of its include entries in
                         data order;   rereadable_inc s  the class of the document theorems (below). *)

(* ================================================================================================ *)
(* Stage 1: one directive                                                                            *)
(* ================================================================================================ *)

(* _extract_includes on a line that carries the directive as the formatter spells it (indented or not, any white space
   around keyword and name): the line is replaced by ONE placeholder of the next counter value, and the include table gets
   (the line without its line feed, the name, the path of the name relative to the folder dir of the file) *)
Theorem C12_extract_include : forall dir count (ind sp1 sp2 name nl : str) ls, name_ok name = true ->
  (forall c, In c ind -> is_space c = true) -> (forall c, In c sp1 -> is_space c = true) ->
  (forall c, In c sp2 -> is_space c = true) -> has_char c_lf (ind ++ sp1 ++ sp2) = false -> line_end nl ->
  let l := ind ++ c_hash :: sp1 ++ w_include ++ sp2 ++ format_string name in
  let k := counter_next count in
  extract_includes dir count ((l ++ nl) :: ls) =
  let '(r, c2, tab) := extract_includes dir k ls in
  ((iph (Z.to_N k) ++ [c_lf]) :: r, c2, tupdate [(Z.to_N k, (l, name, path_join dir name))] tab).
Proof. exact extract_include_written. Qed.
Print Assumptions C12_extract_include.

(* non-vacuity: an indented directive with a tab after the hash sign, a name in a sub-directory with a blank and an
   apostrophe (so the formatter wraps it in double quotes), counter just before the wrap-around *)
Example C12_extract_include_nonvacuous :
  let dir := of_string "/proj/case" in let name := of_string "sub dir/it's.dict" in
  let ind := of_string "    " in let sp1 := [c_tab] in let sp2 := of_string "  " in let nl := [c_lf] in
  let l := ind ++ c_hash :: sp1 ++ w_include ++ sp2 ++ format_string name in
  name_ok name = true /\ format_string name = of_string """sub dir/it's.dict""" /\
  extract_includes dir 999999 ((l ++ nl) :: [of_string "a 1;"]) =
    ([of_string "INCLUDE000000" ++ [c_lf]; of_string "a 1;"], 0%Z, [(0, (l, name, of_string "/proj/case/sub dir/it's.dict"))]).
Proof.
  intros dir name ind sp1 sp2 nl l.
  assert (H0 : name_ok name = true) by (vm_compute; reflexivity).
  split; [exact H0|]. split; [vm_compute; reflexivity|].
  pose proof (C12_extract_include dir 999999%Z ind sp1 sp2 name nl [of_string "a 1;"] H0) as H. cbv zeta in H. fold l in H.
  rewrite H; [vm_compute; reflexivity| | | | |].
  - intros c Hc. apply (proj1 (forallb_forall is_space ind)); [vm_compute; reflexivity|exact Hc].
  - intros c [<-|[]]. reflexivity.
  - intros c Hc. apply (proj1 (forallb_forall is_space sp2)); [vm_compute; reflexivity|exact Hc].
  - vm_compute. reflexivity.
  - right. reflexivity.
Qed.

(* insert_includes on the placeholder pair of an entry, as the formatter lays it out (at any indentation), between texts in
   which that placeholder does not begin anywhere (Gc of RereadStr): the pair is replaced by the directive and NOTHING ELSE
   changes.  The name is written with the formatter's string quoting; a backslash in it comes out as it is. *)
Theorem C12_insert_include : forall lvl i (d name p : str) (X Z : str), Gc (iph i) X -> Gc (iph i) Z ->
  insert_includes format_string [(i, (d, name, p))] (X ++ inc_pair lvl i ++ Z) = X ++ line lvl (inc_directive name) true ++ Z.
Proof. exact insert_include_one. Qed.
Print Assumptions C12_insert_include.

Example C12_insert_include_nonvacuous :
  let X := of_string "a                             1;
" in let Z := of_string "b                             2;
" in
  Gc (iph 3) X /\ Gc (iph 3) Z /\
  inc_pair 0 3 = of_string "INCLUDE000003                 INCLUDE000003;
" /\
  insert_includes format_string [(3, ([], of_string "sub\inc file.dict", []))] (X ++ inc_pair 0 3 ++ Z) =
  of_string "a                             1;
#include 'sub\inc file.dict'
b                             2;
".
Proof.
  intros X Z.
  assert (G : forall Y : str, contains (iph 3) Y = false -> Gc (iph 3) (Y ++ [c_lf])).
  { intros Y HY. apply (Gc_term (iph 3) Y c_lf (iph_chars 3) (iph_ne 3) HY). reflexivity. }
  assert (H1 : Gc (iph 3) X) by (apply (G (of_string "a                             1;")); vm_compute; reflexivity).
  assert (H2 : Gc (iph 3) Z) by (apply (G (of_string "b                             2;")); vm_compute; reflexivity).
  split; [exact H1|]. split; [exact H2|]. split; [vm_compute; reflexivity|].
  etransitivity; [exact (C12_insert_include 0 3 [] (of_string "sub\inc file.dict") [] X Z H1 H2)|vm_compute; reflexivity].
Qed.

(* "names the same file": the line insert_includes writes for an entry with file name `name`, read again from a file in
   folder dir', puts the SAME NAME into the include table, with the path of that name relative to dir' -- the same file
   when the text is read from the folder the entry came from.  For every name without a line break. *)
Theorem C12_include_roundtrip : forall dir' count lvl (name : str) ls, name_ok name = true ->
  let k := counter_next count in
  extract_includes dir' count (line lvl (inc_directive name) true :: ls) =
  let '(r, c2, tab) := extract_includes dir' k ls in
  ((iph (Z.to_N k) ++ [c_lf]) :: r, c2,
   tupdate [(Z.to_N k, (indent_of lvl ++ inc_directive name, name, path_join dir' name))] tab).
Proof. exact include_roundtrip. Qed.
Print Assumptions C12_include_roundtrip.

(* non-vacuity: names with a blank, both kinds of quote characters, a backslash, a dollar, sub-directories, dot-dot, an
   absolute path, and the empty name; each is read back as it was, with the path re-anchored (absolute names stay) *)
Example C12_include_roundtrip_nonvacuous :
  let names := [of_string "top.dict"; of_string "sub/inc.dict"; of_string "../up/my file.dict"; of_string "a'b""c"; of_string "win\dir\f.dict";
                of_string "$ref"; of_string "/abs/inc.dict"; []] in
  forallb name_ok names = true /\
  map (fun nm => extract_includes (of_string "/e") 41 [line 1 (inc_directive nm) true]) names =
  map (fun nm => ([of_string "INCLUDE000042" ++ [c_lf]], 42%Z, [(42, (indent_of 1 ++ inc_directive nm, nm, path_join (of_string "/e") nm))])) names /\
  map inc_directive names =
    [of_string "#include top.dict"; of_string "#include 'sub/inc.dict'"; of_string "#include '../up/my file.dict'"; of_string "#include 'a'b""c'";
     of_string "#include 'win\dir\f.dict'"; of_string "#include $ref"; of_string "#include '/abs/inc.dict'"; of_string "#include ''"] /\
  map (path_join (of_string "/e")) names =
    [of_string "/e/top.dict"; of_string "/e/sub/inc.dict"; of_string "/e/../up/my file.dict"; of_string "/e/a'b""c"; of_string "/e/win\dir\f.dict";
     of_string "/e/$ref"; of_string "/abs/inc.dict"; of_string "/e"].
Proof.
  intros names. assert (H0 : forallb name_ok names = true) by (vm_compute; reflexivity). split; [exact H0|]. split; [|vm_compute; split; reflexivity].
  apply map_ext_in. intros nm Hin. rewrite (C12_include_roundtrip (of_string "/e") 41%Z 1 nm [] (proj1 (forallb_forall _ _) H0 nm Hin)). reflexivity.
Qed.

(* ---- findings: names outside the classes (each evaluated on the model; 1-4 and 6 checked against the library) -------- *)
Definition ex12i_ph (w : str) (i : N) : key * tree := (KS (placeholder w i), Leaf (SStr (placeholder w i))).
Definition ex12i_inc (name : str) : include_entry := ([], name, []).
Definition ex12i_names (r : res parsed) : list str := match r with Ok p => map (fun e => snd (fst (snd e))) (sd_inc (pr_sd p)) | Raise _ => [] end.
Definition ex12i_keys (r : res parsed) : list str :=
  match r with Ok p => map (fun kv => match fst kv with KS s => s | KI _ => [] end) (sd_data (pr_sd p)) | Raise _ => [] end.

(* 1. name_ok: a line break of another kind than LF inside the name (here VT) tears the directive line apart; the name comes
      back cut, and the entry behind the directive is lost *)
Example C12_finding_include_linebreak :
  let s := mkSD [ex12i_ph w_INCLUDE 3; (KS (of_string "a"), Leaf (SInt 1))] [] [] [(3, ex12i_inc (of_string "a" ++ [c_vt] ++ of_string "b"))] [] in
  name_ok (of_string "a" ++ [c_vt] ++ of_string "b") = false /\
  ex12i_names (parse_string true [] 41 (to_string_sd s)) = [of_string "a"] /\
  ex12i_keys (parse_string true [] 41 (to_string_sd s)) = [of_string "BLOCKCOMMENT000000"; of_string "INCLUDE000042"].
Proof. vm_compute. repeat split; reflexivity. Qed.

(* 2. inc_name_ok: line comments are lifted out BEFORE the include directives, so a double slash in the name (not behind a
      colon) is taken for a comment and the name is garbled; a URL-like name (colon in front of the slashes) is kept *)
Example C12_finding_include_double_slash :
  let s nm := mkSD [ex12i_ph w_INCLUDE 3; (KS (of_string "a"), Leaf (SInt 1))] [] [] [(3, ex12i_inc nm)] [] in
  inc_name_ok (of_string "a//b.dict") = false /\ name_ok (of_string "a//b.dict") = true /\
  ex12i_names (parse_string true [] 41 (to_string_sd (s (of_string "a//b.dict")))) = [of_string "aLINECOMMENT000042"] /\
  inc_name_ok (of_string "http://h/b.dict") = true /\
  ex12i_names (parse_string true [] 41 (to_string_sd (s (of_string "http://h/b.dict")))) = [of_string "http://h/b.dict"].
Proof. vm_compute. repeat split; reflexivity. Qed.

(* 3. name_cond (incfree): a name that spells the placeholder pair of an include inserted later is changed by the writer *)
Example C12_finding_include_placeholder_in_name :
  let s := mkSD [ex12i_ph w_INCLUDE 7; ex12i_ph w_INCLUDE 3; (KS (of_string "a"), Leaf (SInt 1))] [] []
                [(7, ex12i_inc (of_string "x INCLUDE000003 INCLUDE000003; y")); (3, ex12i_inc (of_string "b.dict"))] [] in
  rereadable_inc s = false /\
  to_string_sd s = native_header ++ of_string "#include 'x #include b.dict y'
#include b.dict
a                             1;
".
Proof. vm_compute. split; reflexivity. Qed.

(* 4. name_cond (phfree): a name that spells the placeholder pair of a line comment is changed by the writer, whose line
      comment pass comes after the include pass *)
Example C12_finding_comment_placeholder_in_name :
  let s := mkSD [ex12i_ph w_INCLUDE 3; ex12i_ph w_LINECOMMENT 1; (KS (of_string "a"), Leaf (SInt 1))] [(1, of_string "// one")] []
                [(3, ex12i_inc (of_string "LINECOMMENT000001 LINECOMMENT000001;"))] [] in
  rereadable_inc s = false /\
  to_string_sd s = native_header ++ of_string "#include '// one'
// one
a                             1;
".
Proof. vm_compute. split; reflexivity. Qed.

(* 5. distinct names: of two directives that name the same file the reader keeps one (SDict._clean drops an include entry
      equal to an earlier one) *)
Example C12_finding_equal_includes :
  let s := mkSD [ex12i_ph w_INCLUDE 7; ex12i_ph w_INCLUDE 3; (KS (of_string "a"), Leaf (SInt 1))] [] []
                [(7, ex12i_inc (of_string "b.dict")); (3, ex12i_inc (of_string "b.dict"))] [] in
  rereadable_inc s = false /\
  ex12i_names (parse_string true [] 41 (to_string_sd s)) = [of_string "b.dict"] /\
  ex12i_keys (parse_string true [] 41 (to_string_sd s)) = [of_string "BLOCKCOMMENT000000"; of_string "INCLUDE000042"; of_string "a"].
Proof. vm_compute. repeat split; reflexivity. Qed.

(* 6. incfree block comments: the include pass of the writer comes after the block comment pass, so a block comment that
      spells the placeholder pair of an include entry is changed *)
Example C12_finding_include_placeholder_in_block_comment :
  let s := mkSD [ex12i_ph w_BLOCKCOMMENT 0; ex12i_ph w_INCLUDE 3; (KS (of_string "a"), Leaf (SInt 1))] []
                [(0, of_string "/* C++ INCLUDE000003 INCLUDE000003; */")] [(3, ex12i_inc (of_string "b.dict"))] [] in
  rereadable_inc s = false /\
  to_string_sd s = of_string "/* C++ #include b.dict */
#include b.dict
a                             1;
".
Proof. vm_compute. split; reflexivity. Qed.

(* ================================================================================================ *)
(* Stage 2: documents                                                                                *)
(* ================================================================================================ *)

(* The lexer on a written text with directive lines ANYWHERE (any indentation, also inside nested dicts), given as its list
   of statements es (RereadTree.ev; a directive is ECm lvl INCLUDECOMMENT (inc_directive name)).  The real order of the
   stages: the counter serves the line comments first (in text order), then the directives (in text order), then the quoted
   literals; the include table gets (indented directive, name, path relative to dir) for every directive in text order;
   the token list is that of the text in which every comment and every directive is ONE placeholder token. *)
Theorem C12_lex_includes_text : forall cm dir count es, Forall ev_srcI es -> first_nc es -> NoDup (bcx es) ->
  NoDup (ids count (length (lcx es))) -> NoDup (ids (cafter count (length (lcx es))) (length (icx es))) ->
  let nl := length (lcx es) in let c1 := cafter count nl in let ni := length (icx es) in let c2 := cafter c1 ni in
  let nq := length (lits es) in
  let btab := number_from 0 (bcx es) in
  let E2 := map (numB cm btab) (relabI (ids c1 ni) (relab cm (ids count nl) es)) in
  exists tl, (tl = [] \/ tl = [[]]) /\
  lex cm dir count (catR es) =
  mkLexed (evs_tokL (ids c2 nq) E2 ++ tl) (cafter c2 nq) (combine (ids count nl) (lcx es)) btab
          (combine (ids c1 ni) (map (inc_entry dir) (icx es))) []
          (tupdate [] (combine (ids c2 nq) (lits es))).
Proof. exact lex_events_inc. Qed.
Print Assumptions C12_lex_includes_text.

(* non-vacuity: a directive at top level, a line comment, a nested dict with a directive of its own (indented), a quoted
   literal; the ids: line comment 42, directives 43 and 44, literal 45 *)
Example C12_lex_includes_text_nonvacuous :
  let es := [ECm 0 w_INCTAG (inc_directive (of_string "top.dict")); ECm 0 w_LINECOMMENT (of_string "// nine");
             ELeaf 0 (KS (of_string "a")) (SInt 1); EOpen 0 (KS (of_string "sub"));
             ECm 1 w_INCTAG (inc_directive (of_string "sub/n.dict")); ELeaf 1 (KS (of_string "c")) (SStr (of_string "x y")); EClose 0] in
  catR es = of_string "#include top.dict
// nine
a                             1;
sub
{
    #include 'sub/n.dict'
    c                         'x y';
}
" /\
  Forall ev_srcI es /\ first_nc es /\ NoDup (bcx es) /\
  lxd_inc (lex true (of_string "/e") 41 (catR es)) =
    [(43, (of_string "#include top.dict", of_string "top.dict", of_string "/e/top.dict"));
     (44, (of_string "    #include 'sub/n.dict'", of_string "sub/n.dict", of_string "/e/sub/n.dict"))] /\
  lxd_lc (lex true (of_string "/e") 41 (catR es)) = [(42, of_string "// nine")] /\
  lxd_lit (lex true (of_string "/e") 41 (catR es)) = [(45, of_string "x y")] /\
  lxd_tokens (lex true (of_string "/e") 41 (catR es)) =
    [of_string "INCLUDE000043"; of_string "LINECOMMENT000042"; of_string "a"; of_string "1"; of_string ";"; of_string "sub"; of_string "{";
     of_string "INCLUDE000044"; of_string "c"; of_string "STRINGLITERAL000045"; of_string ";"; of_string "}"; []].
Proof.
  intros es. split; [vm_compute; reflexivity|].
  assert (Hd : forall nm, inc_name_ok nm = true -> is_inc_dir (inc_directive nm)) by (intros nm H; exists nm; split; [reflexivity|exact H]).
  assert (H1 : Forall ev_srcI es).
  { apply Forall_cons; [right; right; split; [reflexivity|apply Hd; vm_compute; reflexivity]|].
    apply Forall_cons; [left; split; [reflexivity|vm_compute; reflexivity]|].
    apply Forall_cons; [split; vm_compute; reflexivity|].
    apply Forall_cons; [vm_compute; reflexivity|].
    apply Forall_cons; [right; right; split; [reflexivity|apply Hd; vm_compute; reflexivity]|].
    apply Forall_cons; [split; vm_compute; reflexivity|].
    apply Forall_cons; [exact I|constructor]. }
  assert (H2 : first_nc es) by exact I.
  assert (H3 : NoDup (bcx es)) by constructor.
  split; [exact H1|]. split; [exact H2|]. split; [exact H3|].
  assert (H4 : NoDup (ids 41 (length (lcx es)))) by (vm_compute; apply NoDup_cons; [intros []|constructor]).
  assert (H5 : NoDup (ids (cafter 41 (length (lcx es))) (length (icx es)))).
  { vm_compute. apply NoDup_cons; [intros [H|[]]; discriminate H|apply NoDup_cons; [intros []|constructor]]. }
  destruct (C12_lex_includes_text true (of_string "/e") 41%Z es H1 H2 H3 H4 H5) as (tl & Htl & E).
  clear E. split; [vm_compute; reflexivity|]. split; [vm_compute; reflexivity|]. split; vm_compute; reflexivity.
Qed.

(* The class (RereadIncWrite.rereadable_inc): without its include entries the SDict is re-readable (the class of
   C12_comments_survive_partial: line and block comments at any dict level); the include entries sit at TOP LEVEL, are
   placeholder entries (key and value spell the same include placeholder) whose ids are in the include table, with pairwise
   distinct keys; table ids pairwise distinct and below one million; the names of the entries satisfy name_cond and are
   pairwise distinct; no block comment text contains an include placeholder; no expressions. *)

(* The written text: the canonical document of the SDict without its include entries -- the top-level block comments first
   (the header in front), every comment on a line of its own -- with one directive line  #include <name>  per include
   entry, in data order, behind the top-level block comments (sort_top moves them there).  Side condition: fewer than a
   million entries in the line comment table (the proof needs one unused line comment id). *)
Theorem C12_includes_written_text : forall s, rereadable_inc s = true -> (Z.of_nat (length (sd_lc s)) < 1000000)%Z ->
  to_string_sd s = remove_trailing_spaces (cat cm_line (inc_events (written_doc (strip_inc s)) (inc_names s))).
Proof. exact writer_canon_inc_all. Qed.
Print Assumptions C12_includes_written_text.

(* The reader on such a text, for ANY canonical comment document c (cdoc_ok, top-level block comments first) and any list of
   names: the numbered comment document (RereadProofs.number) with one include placeholder entry per directive spliced in
   behind the top-level block comments, the include ids following those of the line comments, the include table
   (directive, name, path_join dir name) in text order. *)
Theorem C12_read_includes_text : forall c names dir count, cdoc_ok c = true -> csort c = c ->
  forallb inc_name_ok names = true -> NoDup names -> (-1 <= count)%Z ->
  (Z.of_nat (length (lc_list c)) <= 1000000)%Z -> (Z.of_nat (length (bc_list c)) <= 1000000)%Z ->
  (Z.of_nat (length (lit_list c)) <= 1000000)%Z -> (Z.of_nat (length names) <= 1000000)%Z ->
  parse_string true dir count (remove_trailing_spaces (cat cm_line (inc_events c names))) =
  Ok (mkParsed (number_inc dir count c names) (count_after_inc count c names)).
Proof. exact reader_text_inc. Qed.
Print Assumptions C12_read_includes_text.

(* WANTED: for every SDict the reader returns for a native source with comments and include directives.
   PROVED for the class rereadable_inc.  What the class leaves out, besides what C12_comments_survive_partial leaves out:
   include entries inside nested dicts (the library and the model handle them, see the lexer theorem above and
   C12_finding_nested_include; the token parser theorem RereadIncParse.TRI covers them, the writer proof and the splice of
   the reader proof do not); SDicts with a million line comment table entries.
   Reading the written text back gives an SDict s' with: (a) without its include entries, s' is the re-read comment document
   of C12_comments_survive_partial (same ordinary data, every comment with its exact text at its place, header first);
   (b) one include entry per directive, behind the top-level block comments, in text order, ids = the counter values that
   follow those of the line comments; (c) the include table: for each id the directive as written, the SAME NAME as the
   entry it was written for, and the path of that name relative to the folder dir of the file that is read. *)
Theorem C12_includes_survive_partial : forall s dir count, rereadable_inc s = true -> (Z.of_nat (length (sd_lc s)) < 1000000)%Z -> (-1 <= count)%Z ->
  (Z.of_nat (length (lc_list (written_doc_inc s))) <= 1000000)%Z -> (Z.of_nat (length (bc_list (written_doc_inc s))) <= 1000000)%Z ->
  (Z.of_nat (length (lit_list (written_doc_inc s))) <= 1000000)%Z -> (Z.of_nat (length (inc_names s)) <= 1000000)%Z ->
  let c := written_doc_inc s in let names := inc_names s in
  let ks := ids (cafter count (length (lc_list c))) (length names) in
  exists s' count',
    parse_string true dir count (to_string_sd s) = Ok (mkParsed s' count') /\
    strip_inc s' = number count c /\
    canon (strip_inc s') = cwv c /\
    cstrip (Dict (sd_data (strip_inc s'))) = map_leaves written_value (cstrip (Dict (sd_data (strip_inc s)))) /\
    filter is_inc_entry (sd_data s') = map inc_ph_entry ks /\
    sd_data s' = firstn (length (bpart c)) (sd_data (strip_inc s')) ++ map inc_ph_entry ks ++ skipn (length (bpart c)) (sd_data (strip_inc s')) /\
    sd_inc s' = combine ks (map (fun nm => (inc_directive nm, nm, path_join dir nm)) names) /\
    map (fun e => snd (fst (snd e))) (sd_inc s') = names /\
    sd_lc s' = sd_lc (number count c) /\ sd_bc s' = sd_bc (number count c) /\ sd_expr s' = [].
Proof. exact includes_survive. Qed.
Print Assumptions C12_includes_survive_partial.

(* the example SDict: two include entries (one names a file in a sub-directory) between ordinary entries, in another order
   than their ids, a marked header of its own further down, a line comment, a nested dict with a block comment, a quoted
   string; the entries were read from folder /d *)
Definition ex12i_sd : sdict :=
  mkSD [ ex12i_ph w_LINECOMMENT 9; (KS (of_string "a"), Leaf (SInt 1)); ex12i_ph w_INCLUDE 7;
         (KS (of_string "b"), Leaf (SStr (of_string "x y"))); ex12i_ph w_INCLUDE 3; ex12i_ph w_BLOCKCOMMENT 2;
         (KS (of_string "sub"), Dict [ex12i_ph w_BLOCKCOMMENT 5; (KS (of_string "c"), Leaf (SInt 2))]) ]
       [(9, of_string "// nine")] [(2, of_string "/* my C++ header */"); (5, of_string "/* five */")]
       [(3, (of_string "#include 'sub/inc.dict'", of_string "sub/inc.dict", of_string "/d/sub/inc.dict"));
        (7, (of_string "#include 'top.dict'", of_string "top.dict", of_string "/d/top.dict"))] [].

Example C12_includes_written_text_nonvacuous :
  rereadable_inc ex12i_sd = true /\ (Z.of_nat (length (sd_lc ex12i_sd)) < 1000000)%Z /\
  inc_names ex12i_sd = [of_string "top.dict"; of_string "sub/inc.dict"] /\
  to_string_sd ex12i_sd = of_string
"/* my C++ header */
#include top.dict
#include 'sub/inc.dict'
// nine
a                             1;
b                             'x y';
sub
{
    /* five */
    c                         2;
}
" /\
  to_string_sd ex12i_sd = remove_trailing_spaces (cat cm_line (inc_events (written_doc (strip_inc ex12i_sd)) (inc_names ex12i_sd))).
Proof.
  assert (H0 : rereadable_inc ex12i_sd = true) by (vm_compute; reflexivity).
  assert (H1 : (Z.of_nat (length (sd_lc ex12i_sd)) < 1000000)%Z) by (vm_compute; reflexivity).
  refine (conj H0 (conj H1 (conj _ (conj _ (C12_includes_written_text ex12i_sd H0 H1))))); vm_compute; reflexivity.
Qed.

Example C12_includes_survive_partial_nonvacuous :
  let c := written_doc_inc ex12i_sd in
  rereadable_inc ex12i_sd = true /\
  (exists s' count',
     parse_string true (of_string "/e") 41 (to_string_sd ex12i_sd) = Ok (mkParsed s' count') /\
     strip_inc s' = number 41 c /\ canon (strip_inc s') = cwv c /\
     filter is_inc_entry (sd_data s') = map inc_ph_entry [43; 44] /\
     (* the names are the same, in text order; the paths are those of the names relative to the folder read from *)
     sd_inc s' = [(43, (of_string "#include top.dict", of_string "top.dict", of_string "/e/top.dict"));
                  (44, (of_string "#include 'sub/inc.dict'", of_string "sub/inc.dict", of_string "/e/sub/inc.dict"))] /\
     map (fun e => snd (fst (snd e))) (sd_inc s') = inc_names ex12i_sd /\
     map fst (sd_data s') =
       [KS (of_string "BLOCKCOMMENT000000"); KS (of_string "INCLUDE000043"); KS (of_string "INCLUDE000044"); KS (of_string "LINECOMMENT000042");
        KS (of_string "a"); KS (of_string "b"); KS (of_string "sub")] /\
     sd_lc s' = [(42, of_string "// nine")] /\ map fst (sd_bc s') = [0; 1]) /\
  (* read from the folder the entries came from, the paths are the same as before: the same files *)
  (match parse_string true (of_string "/d") 41 (to_string_sd ex12i_sd) with
   | Ok p => map (fun e => snd (snd e)) (sd_inc (pr_sd p)) = [of_string "/d/top.dict"; of_string "/d/sub/inc.dict"]
   | Raise _ => False end).
Proof.
  intros c.
  assert (H0 : rereadable_inc ex12i_sd = true) by (vm_compute; reflexivity).
  assert (H1 : (Z.of_nat (length (sd_lc ex12i_sd)) < 1000000)%Z) by (vm_compute; reflexivity).
  assert (H2 : (Z.of_nat (length (lc_list (written_doc_inc ex12i_sd))) <= 1000000)%Z) by (vm_compute; discriminate).
  assert (H3 : (Z.of_nat (length (bc_list (written_doc_inc ex12i_sd))) <= 1000000)%Z) by (vm_compute; discriminate).
  assert (H4 : (Z.of_nat (length (lit_list (written_doc_inc ex12i_sd))) <= 1000000)%Z) by (vm_compute; discriminate).
  assert (H5 : (Z.of_nat (length (inc_names ex12i_sd)) <= 1000000)%Z) by (vm_compute; discriminate).
  split; [exact H0|]. split; [|vm_compute; reflexivity].
  destruct (C12_includes_survive_partial ex12i_sd (of_string "/e") 41%Z H0 H1 ltac:(lia) H2 H3 H4 H5) as (s' & count' & P & A & B & _ & D & E & F & G & L & Bc & _).
  exists s', count'. split; [exact P|]. split; [exact A|]. split; [exact B|].
  assert (Eks : ids (cafter 41 (length (lc_list (written_doc_inc ex12i_sd)))) (length (inc_names ex12i_sd)) = [43; 44]) by (vm_compute; reflexivity).
  rewrite Eks in D, F, E. split; [exact D|]. split; [rewrite F; vm_compute; reflexivity|]. split; [exact G|].
  split; [rewrite E, A; vm_compute; reflexivity|]. rewrite L, Bc. vm_compute. split; reflexivity.
Qed.

(* the reader theorem on a canonical document that is not the written form of an SDict at hand: a header, a top-level line
   comment, a nested line comment, three directives *)
Example C12_read_includes_text_nonvacuous :
  let c := [(KS w_BLOCKCOMMENT, Leaf (SStr nh_txt)); (KS w_LINECOMMENT, Leaf (SStr (of_string "// first")));
            (KS (of_string "k"), Dict [(KS w_LINECOMMENT, Leaf (SStr (of_string "// inner"))); (KS (of_string "v"), Leaf (SStr (of_string "two words")))])] in
  let names := [of_string "a.dict"; of_string "b c.dict"; of_string "http://host/x.dict"] in
  cdoc_ok c = true /\ csort c = c /\ forallb inc_name_ok names = true /\ NoDup names /\
  parse_string true (of_string "/e") 7 (remove_trailing_spaces (cat cm_line (inc_events c names))) =
    Ok (mkParsed (number_inc (of_string "/e") 7 c names) (count_after_inc 7 c names)) /\
  remove_trailing_spaces (cat cm_line (inc_events c names)) = native_header ++ of_string
"#include a.dict
#include 'b c.dict'
#include 'http://host/x.dict'
// first
k
{
    // inner
    v                         'two words';
}
" /\
  map fst (sd_inc (number_inc (of_string "/e") 7 c names)) = [10; 11; 12] /\ count_after_inc 7 c names = 13%Z.
Proof.
  intros c names.
  assert (H0 : cdoc_ok c = true) by (vm_compute; reflexivity).
  assert (H1 : csort c = c) by (vm_compute; reflexivity).
  assert (H2 : forallb inc_name_ok names = true) by (vm_compute; reflexivity).
  assert (H3 : NoDup names) by (apply nodupb_NoDup; vm_compute; reflexivity).
  refine (conj H0 (conj H1 (conj H2 (conj H3 (conj _ _))))).
  - apply (C12_read_includes_text c names (of_string "/e") 7%Z H0 H1 H2 H3); [lia|vm_compute; discriminate..].
  - vm_compute. repeat split; reflexivity.
Qed.

(* 7. outside the class, not a defect: an include entry inside a nested dict is written at its place (indented) and read
      back with the same name; the directive text in the table carries the indentation *)
Example C12_finding_nested_include :
  let s := mkSD [(KS (of_string "sub"), Dict [ex12i_ph w_INCLUDE 3; (KS (of_string "c"), Leaf (SInt 2))])] [] [] [(3, ex12i_inc (of_string "n.dict"))] [] in
  rereadable_inc s = false /\
  to_string_sd s = native_header ++ of_string "sub
{
    #include n.dict
    c                         2;
}
" /\
  match parse_string true (of_string "/e") 41 (to_string_sd s) with
  | Ok p => sd_inc (pr_sd p) = [(42, (of_string "    #include n.dict", of_string "n.dict", of_string "/e/n.dict"))] /\
            sd_data (pr_sd p) = [ex12i_ph w_BLOCKCOMMENT 0; (KS (of_string "sub"), Dict [ex12i_ph w_INCLUDE 42; (KS (of_string "c"), Leaf (SInt 2))])]
  | Raise _ => False
  end.
Proof. vm_compute. repeat split; reflexivity. Qed.

(* ================================================================================================== *)
(* added from Properties/C12_add.v (2026-10-01, pj_c02c)  *)
(* ================================================================================================== *)
(* C12 (addition): in either mode the non-comment data is identical -- arbitrary layouts, comments at statement boundaries. *)
From Coq Require Import String.   (* string literals of the examples; imported first so the list names win *)
From Coq Require Import NArith ZArith List Bool.
From DictIO Require Import Chars Str Value Scalar KeyPath SDict Lexer TokParser TreeSpec NativeSpec LayoutSpec E2ESpec LayoutProofs.
From DictIO Require Import E2EHoles E2EFullProofs AnyLayoutProofs AnyLayoutComments.
From DictIO Require Import RereadTree RereadLex RereadNum RereadProofs AnyLayoutCommentsOn.
Import ListNotations.

(* One text Tc, read twice.  Vocabulary as in C02_parse_commented_on (comments = true: the document c with its comments
   at statement boundaries, T1 = flat all_kept p0 cps the text with the line comment placeholders, flatD (bc_tab c) p0 cps
   a layout of the placeholder document's tokens) and in C02_parse_commented (comments = false: flat all_kept p0' cps' the
   text without its line comments, flat none_kept p0' cps' a layout of the tree's tokens).  Then both readings succeed, the
   reading with comments off returns no comment entry at any depth, and the ordinary data of the reading with comments on
   (every entry whose key is a comment placeholder dropped, at every depth) IS the data of the reading with comments off:
   the tree, leaves as the classifier reads them. *)
Theorem C12_data_same_in_either_mode : forall c kvs fs txt w1 w2 Tc p0 cps txt' w1' w2' p0' cps' dirc count,
  cdoc_any c = true -> cstrip (Dict c) = Dict kvs -> Forall2 spelling fs (qstrs (Dict kvs)) -> (-1 <= count)%Z ->
  (Z.of_nat (length (lc_list c)) <= 1000000)%Z -> (Z.of_nat (length (bc_list c)) <= 1000000)%Z ->
  (Z.of_nat (nq (Dict kvs)) <= 1000000)%Z ->
  (* comments on *)
  lcn true (ids count (length (lc_list c))) (lc_list c) Tc (flat all_kept p0 cps) ->
  nopair c_slash c_slash (flat all_kept p0 cps) = true -> hash_safe false (flat all_kept p0 cps) = true ->
  plain_in p0 = true -> forallb seg_ok cps = true ->
  map (fun cp => bcomment (fst cp)) cps = bc_list c ->
  flatD (bc_tab c) p0 cps = w1 ++ txt ++ w2 ->
  rendering (cdoc_toks fs (ph_doc count c)) txt -> ws_run w1 -> ws_run w2 ->
  (* comments off *)
  lcm true Tc (flat all_kept p0' cps') ->
  nopair c_slash c_slash (flat all_kept p0' cps') = true -> hash_safe false (flat all_kept p0' cps') = true ->
  plain_in p0' = true -> forallb seg_ok cps' = true ->
  flat none_kept p0' cps' = w1' ++ txt' ++ w2' ->
  rendering (doc_toks fs kvs) txt' -> ws_run w1' -> ws_run w2' ->
  exists p_on p_off,
    parse_string true dirc count Tc = Ok p_on /\ parse_string false dirc count Tc = Ok p_off /\
    cstrip (Dict (sd_data (pr_sd p_on))) = Dict (sd_data (pr_sd p_off)) /\
    cms (Dict (sd_data (pr_sd p_off))) = [] /\
    Dict (sd_data (pr_sd p_off)) = map_leaves written_value (Dict kvs).
Proof. exact data_same_in_either_mode. Qed.
Print Assumptions C12_data_same_in_either_mode.

(* non-vacuity: the commented document of C02_parse_commented_on_nonvacuous (AnyLayoutCommentsOn, section E: nested dicts,
   a list, line comments on a line of their own and at line ends -- one in front of a CR LF --, block comments before a
   statement, behind a closing brace, inside a nested dict), both sets of hypotheses, counter 5 *)
Example C12_data_same_in_either_mode_nonvacuous :
  cdoc_any ex_on_doc = true /\ cstrip (Dict ex_on_doc) = Dict ex_on_tree /\
  lcn true (ids 5 (length (lc_list ex_on_doc))) (lc_list ex_on_doc) ex_on_Tc (flat all_kept ex_on_p0 ex_on_cps) /\
  rendering (cdoc_toks ex_on_fs (ph_doc 5 ex_on_doc)) ex_on_txt /\
  lcm true ex_on_Tc (flat all_kept ex_on_p0 ex_off_cps) /\ rendering (doc_toks ex_on_fs ex_on_tree) ex_off_txt /\
  exists p_on p_off,
    parse_string true [] 5 ex_on_Tc = Ok p_on /\ parse_string false [] 5 ex_on_Tc = Ok p_off /\
    cstrip (Dict (sd_data (pr_sd p_on))) = Dict (sd_data (pr_sd p_off)) /\
    cms (Dict (sd_data (pr_sd p_off))) = [] /\ sd_data (pr_sd p_off) = ex_on_tree.
Proof.
  destruct ex_on_facts as (Hc & Ek & Hsp & HL & Hnp & Hhs & Hp0 & Hcps & Hbc & HT & HR).
  destruct ex_off_facts as (HL' & Hnp' & Hhs' & Hcps' & HT' & HR').
  assert (H1 : ws_run [c_lf]) by (repeat (constructor; [reflexivity|]); constructor).
  assert (H3 : ws_run [c_lf; c_lf; c_lf]) by (repeat (constructor; [reflexivity|]); constructor).
  assert (H4 : ws_run [c_sp; c_lf]) by (repeat (constructor; [reflexivity|]); constructor).
  assert (N1 : (Z.of_nat (length (lc_list ex_on_doc)) <= 1000000)%Z) by (vm_compute; discriminate).
  assert (N2 : (Z.of_nat (length (bc_list ex_on_doc)) <= 1000000)%Z) by (vm_compute; discriminate).
  assert (N4 : (Z.of_nat (nq (Dict ex_on_tree)) <= 1000000)%Z) by (vm_compute; discriminate).
  refine (conj Hc (conj Ek (conj HL (conj HR (conj HL' (conj HR' _)))))).
  destruct (C12_data_same_in_either_mode ex_on_doc ex_on_tree ex_on_fs ex_on_txt _ _ ex_on_Tc ex_on_p0 ex_on_cps ex_off_txt _ _
              ex_on_p0 ex_off_cps [] 5%Z Hc Ek Hsp ltac:(discriminate) N1 N2 N4 HL Hnp Hhs Hp0 Hcps Hbc HT HR H1 H1
              HL' Hnp' Hhs' Hp0 Hcps' HT' HR' H3 H4) as (p_on & p_off & A & B & C & D & E).
  exists p_on, p_off. refine (conj A (conj B (conj C (conj D _)))).
  assert (Ew : map_leaves written_value (Dict ex_on_tree) = Dict ex_on_tree) by (vm_compute; reflexivity).
  rewrite Ew in E. injection E as E. exact E.
Qed.

(* the class cannot be widened to comments between a key and its value: there the two modes disagree -- with comments on
   the entry is lost (confirmed on the library: NativeParser().parse_string("a /* c */ 1; b 2;", SDict(), comments=True)
   returns {BLOCKCOMMENT000000: ..., b: 2}, with comments=False {a: 1, b: 2}) *)
Example C12_modes_differ_finding :
  match parse_string true [] 0 (of_string "a /* c */ 1; b 2;"), parse_string false [] 0 (of_string "a /* c */ 1; b 2;") with
  | Ok p, Ok q => cstrip (Dict (sd_data (pr_sd p))) = Dict [kv_b2] /\ sd_data (pr_sd q) = [kv_a1; kv_b2]
  | _, _ => False
  end.
Proof. vm_compute. split; reflexivity. Qed.

(* ================================================================================================== *)
(* non-vacuity examples added after the reviewer's audit (Properties/C12_nv.v, 2026-10-01)         *)
(* ================================================================================================== *)

(* ==== non-vacuity instance obtained BY APPLYING the theorem above (added after review) ================== *)

(* C12_header_once: a block comment without the C++ mark gets the default header in front (once); one that carries the
   mark -- here a boxed comment with star runs -- is left alone *)
Example C12_header_once_nonvacuous :
  let bc := of_string "/* two * stars ** inside */" in
  let own := of_string "/*---*- C++ -*---*\ my own header \*---*/" in
  (make_default_block_comment (make_default_block_comment bc) = make_default_block_comment bc /\
   has_cpp_mark (make_default_block_comment bc) = true) /\
  (make_default_block_comment (make_default_block_comment own) = make_default_block_comment own /\
   has_cpp_mark (make_default_block_comment own) = true) /\
  has_cpp_mark bc = false /\ make_default_block_comment bc = native_header ++ bc /\ make_default_block_comment own = own.
Proof.
  intros bc own. refine (conj (C12_header_once bc) (conj (C12_header_once own) _)). repeat split; vm_compute; reflexivity.
Qed.

(* ================================================================================================== *)
(* added from Properties/C12_add.v (2026-10-01)                                              *)
(* ================================================================================================== *)
(* C12 (addition)  Comments inside dicts that are LIST ITEMS survive write -> read. *)
From Coq Require Import String.   (* string literals of the examples; imported first so the list names win *)
From Coq Require Import NArith ZArith List Bool Lia.
From DictIO Require Import Chars Str Value Scalar KeyPath SDict Layout Lexer TokParser TreeSpec NativeSpec LayoutSpec E2ESpec.
From DictIO Require Import E2EHoles RereadList.
Import ListNotations.
Open Scope N_scope.

(* The class  rereadable  of C03 / C12 excludes comment entries inside dicts that are list items, e.g.
       cases ( { // first case \n k 1; } );
   (the proofs there treat a list as one statement).  The library handles such files: the parser turns the comment
   tokens of a list dict into placeholder entries of that dict, the writer prints the dict's entries two levels below
   the list and re-inserts the comment texts by text substitution.  Proofs/RereadList*.v replay the development with an
   event stream that ENTERS lists (at any nesting: dict in list in dict, dict in list in list, scalar items mixed in).
   The vocabulary (Proofs/RereadList.v) carries the suffix _l:  rereadable_l  is  rereadable  word for word with the
   shape condition cshape_l (comment entries allowed at every dict level, also in list dicts) and the comment list,
   canonical form, numbering and stripping entering lists.  All other conditions of the class are kept. *)

(* The written text: every comment of the SDict -- also those of list dicts -- appears on a line of its own, at the
   indentation of its dict level (two levels below its list), with its exact text; the header first *)
Theorem C12_written_text_list : forall s, rereadable_l s = true ->
  to_string_sd s = remove_trailing_spaces (cat_l cm_line_l (events_l 0 (Dict (written_doc_l s)))).
Proof. exact written_text_l. Qed.
Print Assumptions C12_written_text_list.

(* WANTED: as C12_comments_survive_partial, for every SDict the reader returns.  PROVED for the class rereadable_l, which
   now contains the comment entries of list dicts at any nesting.  Reading the written text back: (a) the ordinary data at
   the same key paths / list positions in the same order, every leaf as the classifier reads its written form; (b), (c) the
   same canonical form: every line comment and block comment with its exact text at its place among the entries of its
   dict -- also inside list dicts --, in the same order; (d) the placeholder ids consecutive in text order (lists
   entered): line comments from the counter on, block comments from zero.
   Still excluded (as for C12_comments_survive_partial): equal comment texts anywhere in the document (the numbering is
   keyed by the text; the library itself keeps equal line comments of two list dicts, see the finding below), comments
   placed DIRECTLY between list items (finding below: lost), include directives inside nested dicts, expressions. *)
Theorem C12_comments_survive_list_partial : forall s dir count, rereadable_l s = true -> (-1 <= count)%Z ->
  (Z.of_nat (length (lc_list_l (written_doc_l s))) <= 1000000)%Z -> (Z.of_nat (length (bc_list_l (written_doc_l s))) <= 1000000)%Z ->
  (Z.of_nat (length (lit_list_l (written_doc_l s))) <= 1000000)%Z ->
  exists s' count',
    parse_string true dir count (to_string_sd s) = Ok (mkParsed s' count') /\
    cstrip_l (Dict (sd_data s')) = map_leaves written_value (cstrip_l (Dict (sd_data s))) /\
    canon_l s' = cwv_l (written_doc_l s) /\
    sd_lc s' = combine (ids count (length (lc_list_l (written_doc_l s)))) (lc_list_l (written_doc_l s)) /\
    sd_bc s' = number_from 0 (bc_list_l (written_doc_l s)) /\
    sd_inc s' = [] /\ sd_expr s' = [].
Proof. exact comments_survive_l. Qed.
Print Assumptions C12_comments_survive_list_partial.

(* With comments disabled on reading no comment entry is returned at any level -- none inside the list dicts either --,
   and the ordinary data is the same as with comments on (tables filled all the same, as in C12_comments_off_partial) *)
Theorem C12_comments_off_list_partial : forall s dir count, rereadable_l s = true -> (-1 <= count)%Z ->
  (Z.of_nat (length (lc_list_l (written_doc_l s))) <= 1000000)%Z -> (Z.of_nat (length (bc_list_l (written_doc_l s))) <= 1000000)%Z ->
  (Z.of_nat (length (lit_list_l (written_doc_l s))) <= 1000000)%Z ->
  let s_on := number_l count (written_doc_l s) in let s_off := number_off_l count (written_doc_l s) in
  parse_string true dir count (to_string_sd s) = Ok (mkParsed s_on (count_after_l count (written_doc_l s))) /\
  parse_string false dir count (to_string_sd s) = Ok (mkParsed s_off (count_after_l count (written_doc_l s))) /\
  cms_l (Dict (sd_data s_off)) = [] /\
  Dict (sd_data s_off) = cstrip_l (Dict (sd_data s_on)) /\
  Dict (sd_data s_off) = map_leaves written_value (cstrip_l (Dict (sd_data s))) /\
  sd_lc s_off = sd_lc s_on /\ sd_bc s_off = sd_bc s_on.
Proof. exact comments_off_l. Qed.
Print Assumptions C12_comments_off_list_partial.

(* ---- the example: an own header, a top-level line comment, a list of two dicts each holding a line comment and a block
   comment (one of them over two lines), a quoted string ------------------------------------------------------------- *)
Definition ex12l_ph (w : str) (i : N) : key * tree := (KS (placeholder w i), Leaf (SStr (placeholder w i))).
Definition ex12l_sd : sdict :=
  mkSD [ ex12l_ph w_BLOCKCOMMENT 0;
         ex12l_ph w_LINECOMMENT 7;
         (KS (of_string "cases"),
          Lst [ Dict [ex12l_ph w_LINECOMMENT 2; (KS (of_string "k"), Leaf (SInt 1)); ex12l_ph w_BLOCKCOMMENT 5];
                Dict [ex12l_ph w_LINECOMMENT 3; (KS (of_string "k"), Leaf (SStr (of_string "two words"))); ex12l_ph w_BLOCKCOMMENT 6] ]) ]
       [(2, of_string "// first case"); (3, of_string "// second case"); (7, of_string "// the cases")]
       [(0, of_string "/* my own C++ header */"); (5, of_string "/* five */"); (6, of_string "/* six
   more */")] [] [].

Example C12_written_text_list_nonvacuous :
  rereadable_l ex12l_sd = true /\
  to_string_sd ex12l_sd = of_string
"/* my own C++ header */
// the cases
cases
(

    {
        // first case
        k                     1;
        /* five */
    }

    {
        // second case
        k                     'two words';
        /* six
   more */
    }
);
" /\
  to_string_sd ex12l_sd = remove_trailing_spaces (cat_l cm_line_l (events_l 0 (Dict (written_doc_l ex12l_sd)))).
Proof.
  assert (H0 : rereadable_l ex12l_sd = true) by (vm_compute; reflexivity).
  refine (conj H0 (conj _ (C12_written_text_list ex12l_sd H0))). vm_compute. reflexivity.
Qed.

(* the re-read, first evaluated on the model, then by the theorem *)
Example C12_comments_survive_list_partial_nonvacuous :
  rereadable_l ex12l_sd = true /\
  (Z.of_nat (length (lc_list_l (written_doc_l ex12l_sd))) <= 1000000)%Z /\ (Z.of_nat (length (bc_list_l (written_doc_l ex12l_sd))) <= 1000000)%Z /\
  (Z.of_nat (length (lit_list_l (written_doc_l ex12l_sd))) <= 1000000)%Z /\
  (* evaluated: the data the reader returns for the written text *)
  (exists p, parse_string true [] 9 (to_string_sd ex12l_sd) = Ok p /\ pr_count p = 13%Z /\
     sd_data (pr_sd p) =
       [ex12l_ph w_BLOCKCOMMENT 0; ex12l_ph w_LINECOMMENT 10;
        (KS (of_string "cases"),
         Lst [ Dict [ex12l_ph w_LINECOMMENT 11; (KS (of_string "k"), Leaf (SInt 1)); ex12l_ph w_BLOCKCOMMENT 1];
               Dict [ex12l_ph w_LINECOMMENT 12; (KS (of_string "k"), Leaf (SStr (of_string "two words"))); ex12l_ph w_BLOCKCOMMENT 2] ])] /\
     sd_lc (pr_sd p) = [(10, of_string "// the cases"); (11, of_string "// first case"); (12, of_string "// second case")] /\
     sd_bc (pr_sd p) = [(0, of_string "/* my own C++ header */"); (1, of_string "/* five */"); (2, of_string "/* six
   more */")]) /\
  (* by the theorem *)
  (exists s' count',
     parse_string true [] 9 (to_string_sd ex12l_sd) = Ok (mkParsed s' count') /\
     cstrip_l (Dict (sd_data s')) = map_leaves written_value (cstrip_l (Dict (sd_data ex12l_sd))) /\
     canon_l s' = cwv_l (written_doc_l ex12l_sd) /\
     sd_lc s' = combine (ids 9 (length (lc_list_l (written_doc_l ex12l_sd)))) (lc_list_l (written_doc_l ex12l_sd)) /\
     sd_bc s' = number_from 0 (bc_list_l (written_doc_l ex12l_sd)) /\ sd_inc s' = [] /\ sd_expr s' = []) /\
  (* the tables and the canonical form, evaluated *)
  combine (ids 9 (length (lc_list_l (written_doc_l ex12l_sd)))) (lc_list_l (written_doc_l ex12l_sd)) =
    [(10, of_string "// the cases"); (11, of_string "// first case"); (12, of_string "// second case")] /\
  cwv_l (written_doc_l ex12l_sd) =
    [(KS w_BLOCKCOMMENT, Leaf (SStr (of_string "/* my own C++ header */")));
     (KS w_LINECOMMENT, Leaf (SStr (of_string "// the cases")));
     (KS (of_string "cases"),
      Lst [ Dict [(KS w_LINECOMMENT, Leaf (SStr (of_string "// first case"))); (KS (of_string "k"), Leaf (SInt 1));
                  (KS w_BLOCKCOMMENT, Leaf (SStr (of_string "/* five */")))];
            Dict [(KS w_LINECOMMENT, Leaf (SStr (of_string "// second case"))); (KS (of_string "k"), Leaf (SStr (of_string "two words")));
                  (KS w_BLOCKCOMMENT, Leaf (SStr (of_string "/* six
   more */")))] ])].
Proof.
  assert (H0 : rereadable_l ex12l_sd = true) by (vm_compute; reflexivity).
  assert (H1 : (Z.of_nat (length (lc_list_l (written_doc_l ex12l_sd))) <= 1000000)%Z) by (vm_compute; discriminate).
  assert (H2 : (Z.of_nat (length (bc_list_l (written_doc_l ex12l_sd))) <= 1000000)%Z) by (vm_compute; discriminate).
  assert (H3 : (Z.of_nat (length (lit_list_l (written_doc_l ex12l_sd))) <= 1000000)%Z) by (vm_compute; discriminate).
  refine (conj H0 (conj H1 (conj H2 (conj H3 (conj _ (conj (C12_comments_survive_list_partial ex12l_sd [] 9%Z H0 ltac:(lia) H1 H2 H3) _)))))).
  - eexists. split; [vm_compute; reflexivity|]. vm_compute. repeat split; reflexivity.
  - vm_compute. repeat split; reflexivity.
Qed.

Example C12_comments_off_list_partial_nonvacuous :
  rereadable_l ex12l_sd = true /\
  (exists s_off, parse_string false [] 9 (to_string_sd ex12l_sd) = Ok (mkParsed s_off 13) /\
     cms_l (Dict (sd_data s_off)) = [] /\
     sd_data s_off = [(KS (of_string "cases"), Lst [Dict [(KS (of_string "k"), Leaf (SInt 1))]; Dict [(KS (of_string "k"), Leaf (SStr (of_string "two words")))]])] /\
     sd_lc s_off = [(10, of_string "// the cases"); (11, of_string "// first case"); (12, of_string "// second case")] /\
     map fst (sd_bc s_off) = [0; 1; 2]).
Proof.
  assert (H0 : rereadable_l ex12l_sd = true) by (vm_compute; reflexivity).
  assert (H1 : (Z.of_nat (length (lc_list_l (written_doc_l ex12l_sd))) <= 1000000)%Z) by (vm_compute; discriminate).
  assert (H2 : (Z.of_nat (length (bc_list_l (written_doc_l ex12l_sd))) <= 1000000)%Z) by (vm_compute; discriminate).
  assert (H3 : (Z.of_nat (length (lit_list_l (written_doc_l ex12l_sd))) <= 1000000)%Z) by (vm_compute; discriminate).
  destruct (C12_comments_off_list_partial ex12l_sd [] 9%Z H0 ltac:(lia) H1 H2 H3) as (_ & B & C & _).
  assert (Hc : count_after_l 9 (written_doc_l ex12l_sd) = 13%Z) by (vm_compute; reflexivity). rewrite Hc in B.
  split; [exact H0|]. exists (number_off_l 9 (written_doc_l ex12l_sd)). split; [exact B|]. split; [exact C|]. vm_compute. repeat split; reflexivity.
Qed.

(* ---- findings at the edge of the class (each evaluated on the model; the library behaves the same) ------------------ *)
Definition f12l_cycle (src : string) : option (list (key * tree) * list (N * str) * str * list (N * str)) :=
  match parse_string true [] (-1) (of_string src) with
  | Ok p => let t := to_string_sd (pr_sd p) in
            match parse_string true [] (pr_count p) t with
            | Ok p2 => Some (sd_data (pr_sd p), sd_lc (pr_sd p), t, sd_lc (pr_sd p2))
            | Raise _ => None
            end
  | Raise _ => None
  end.

(* 1. A comment placed DIRECTLY between the items of a list (not inside a dict) is lost: the parser makes its placeholder
   a string item of the list, the writer prints the placeholder itself (no "key value;" line for the re-insertion to
   find), and the re-read has no line comment at all.  Outside every class of C12: the comment is not at a statement
   boundary of a dict. *)
Example C12_finding_comment_between_list_items :
  f12l_cycle "l ( 1 // c
 2 );" =
  Some ([(KS (of_string "l"), Lst [Leaf (SInt 1); Leaf (SStr (of_string "LINECOMMENT000000")); Leaf (SInt 2)])],
        [(0, of_string "// c")],
        native_header ++ of_string "l
(
    1                 LINECOMMENT000000    2
);
",
        []).
Proof. vm_compute. reflexivity. Qed.

(* 2. _clean does not enter lists.  In a dict reached through dicts the second of two equal line comments is dropped on
   reading (C12_finding_equal_line_comments); inside a list dict both are kept and both are written back.  The class
   asks for pairwise distinct texts, so neither case is in it; the asymmetry is the library's. *)
Example C12_finding_clean_skips_list_dicts :
  (match f12l_cycle "l ( { // c
 k 1; // c
 } );" with Some (_, lc, _, lc2) => (map fst lc, map fst lc2) | None => ([], []) end) = ([0; 1], [2; 3]) /\
  (match f12l_cycle "d { // c
 k 1; // c
 }" with Some (_, lc, _, lc2) => (map fst lc, map fst lc2) | None => ([], []) end) = ([0], [2]).
Proof. vm_compute. split; reflexivity. Qed.

(* ================================================================================================== *)
(* added from Properties/C12_add.v, job pj_fix (2026-10-01)                                   *)
(* ================================================================================================== *)
(* C12 (addition): a non-vacuity example of C12_lex_includes_text whose conclusion comes from the theorem.
   To be appended to Properties/C12.v. *)
From Coq Require Import String.   (* string literals of the examples; imported first so the list names win *)
From Coq Require Import NArith ZArith List Bool Lia.
From DictIO Require Import Chars Str Value Scalar KeyPath SDict Layout Lexer TokParser TreeSpec NativeSpec LayoutSpec E2ESpec.
From DictIO Require Import E2EProofs E2EHoles E2EKeyTok E2EFullProofs LayoutProofs.
From DictIO Require Import RereadPlain RereadStr RereadTree RereadWrite RereadLex RereadNum RereadProofs RereadFix RereadOff.
From DictIO Require Import RereadIncStage RereadIncLex RereadIncParse RereadIncRead RereadIncWrite RereadIncProofs.
Import ListNotations.

(* The theorem instantiated on a concrete text: a block comment, a directive at top level, a line comment, a nested dict
   with an indented directive of its own and a quoted literal.  Every hypothesis is discharged on the statement list; the
   lexer's COMPLETE result on the text (tokens, counter, the four tables) is then READ OFF THE THEOREM'S CONCLUSION: the
   proof rewrites with the equation the theorem gives and only evaluates its right hand side (the lexer itself is never
   run in the last conjunct).  The tail tl is the one the theorem leaves open ([] or [[]]). *)
Example C12_lex_includes_text_nonvacuous2 :
  let es := [ECm 0 w_BLOCKCOMMENT (of_string "/* head */");
             ECm 0 w_INCTAG (inc_directive (of_string "top.dict")); ECm 0 w_LINECOMMENT (of_string "// nine");
             ELeaf 0 (KS (of_string "a")) (SInt 1); EOpen 0 (KS (of_string "sub"));
             ECm 1 w_INCTAG (inc_directive (of_string "sub/n.dict")); ELeaf 1 (KS (of_string "c")) (SStr (of_string "x y")); EClose 0] in
  catR es = of_string "/* head */
#include top.dict
// nine
a                             1;
sub
{
    #include 'sub/n.dict'
    c                         'x y';
}
" /\
  Forall ev_srcI es /\ first_nc es /\ NoDup (bcx es) /\
  NoDup (ids 41 (length (lcx es))) /\ NoDup (ids (cafter 41 (length (lcx es))) (length (icx es))) /\
  exists tl, (tl = [] \/ tl = [[]]) /\
    lex true (of_string "/e") 41 (catR es) =
    mkLexed ([of_string "BLOCKCOMMENT000000"; of_string "INCLUDE000043"; of_string "LINECOMMENT000042"; of_string "a"; of_string "1";
              of_string ";"; of_string "sub"; of_string "{"; of_string "INCLUDE000044"; of_string "c";
              of_string "STRINGLITERAL000045"; of_string ";"; of_string "}"] ++ tl)
            45
            [(42, of_string "// nine")]
            [(0, of_string "/* head */")]
            [(43, (of_string "#include top.dict", of_string "top.dict", of_string "/e/top.dict"));
             (44, (of_string "    #include 'sub/n.dict'", of_string "sub/n.dict", of_string "/e/sub/n.dict"))]
            []
            (tupdate [] [(45, of_string "x y")]).
Proof.
  intros es. split; [vm_compute; reflexivity|].
  assert (Hd : forall nm, inc_name_ok nm = true -> is_inc_dir (inc_directive nm)) by (intros nm H; exists nm; split; [reflexivity|exact H]).
  assert (H1 : Forall ev_srcI es).
  { apply Forall_cons; [right; left; split; [reflexivity|vm_compute; reflexivity]|].
    apply Forall_cons; [right; right; split; [reflexivity|apply Hd; vm_compute; reflexivity]|].
    apply Forall_cons; [left; split; [reflexivity|vm_compute; reflexivity]|].
    apply Forall_cons; [split; vm_compute; reflexivity|].
    apply Forall_cons; [vm_compute; reflexivity|].
    apply Forall_cons; [right; right; split; [reflexivity|apply Hd; vm_compute; reflexivity]|].
    apply Forall_cons; [split; vm_compute; reflexivity|].
    apply Forall_cons; [exact I|constructor]. }
  assert (H2 : first_nc es) by exact I.
  assert (H3 : NoDup (bcx es)) by (vm_compute; apply NoDup_cons; [intros []|constructor]).
  split; [exact H1|]. split; [exact H2|]. split; [exact H3|].
  assert (H4 : NoDup (ids 41 (length (lcx es)))) by (vm_compute; apply NoDup_cons; [intros []|constructor]).
  assert (H5 : NoDup (ids (cafter 41 (length (lcx es))) (length (icx es)))).
  { vm_compute. apply NoDup_cons; [intros [H|[]]; discriminate H|apply NoDup_cons; [intros []|constructor]]. }
  split; [exact H4|]. split; [exact H5|].
  destruct (C12_lex_includes_text true (of_string "/e") 41%Z es H1 H2 H3 H4 H5) as (tl & Htl & E).
  exists tl. split; [exact Htl|].
  rewrite E. clear E. vm_compute. reflexivity.
Qed.

(* ================================================================================================== *)
(* added from Properties/C12_add2.v (2026-10-01): the line-comment pass after repair 367ec9c        *)
(* ================================================================================================== *)
(* C12 (addition 2): the repaired line comment pass replaces the comment where it was found. *)
From Coq Require Import String.   (* string literals of the examples; imported first so the list names win *)
From Coq Require Import NArith ZArith List Bool.
From DictIO Require Import Chars Str Value Scalar SDict Layout Lexer LayoutSpec LineCommentFix.
Import ListNotations.

(* Whenever the line comment pass lifts a comment out of a line, the line is rebuilt as
   line[:match.start()] + placeholder + line[match.end():]: with (body, nl) the line without / its final line feed,
   body = before ++ cmt where cmt begins with two slashes and reaches to the end of the body, before holds no pair of
   slashes that the scanner accepts (none that no colon precedes), and the new line is before, the placeholder of the
   next counter value (nothing with comments off), nl.  In particular before is kept VERBATIM: a URL in a value
   (colon, two slashes) that stands in front of the comment is untouched, whatever the comment text is. *)
Theorem C12_line_comment_replaced_in_place : forall comments c l l' c' i cmt,
  extract_line_comment comments c l = (l', c', Some (i, cmt)) ->
  let body := fst (chomp_lf l) in
  let nl := snd (chomp_lf l) in
  exists before,
    body = before ++ cmt /\
    (exists rest, cmt = c_slash :: c_slash :: rest) /\
    find_comment false [] before = None /\
    l' = before ++ (if comments then placeholder w_LINECOMMENT i else []) ++ nl /\
    l = before ++ cmt ++ nl /\ (nl = [] \/ nl = [c_lf]) /\
    c' = counter_next c /\ i = Z.to_N c'.
Proof. exact line_comment_replaced_in_place. Qed.
Print Assumptions C12_line_comment_replaced_in_place.

(* non-vacuity, on the witness of the repaired defect: the comment text is just the two slashes, which also occur
   in the URL of the value in front of it.  str.replace put a placeholder into the URL as well; now the value keeps
   its slashes and the one placeholder stands where the comment stood. *)
Example C12_line_comment_replaced_in_place_nonvacuous :
  let l := of_string "a 'https://x.org/p'; //" ++ [c_lf] in
  let cmt := of_string "//" in
  extract_line_comment true 0 l = (of_string "a 'https://x.org/p'; LINECOMMENT000001" ++ [c_lf], 1%Z, Some (1%N, cmt)) /\
  extract_line_comment false 0 l = (of_string "a 'https://x.org/p'; " ++ [c_lf], 1%Z, Some (1%N, cmt)) /\
  exists before,
    fst (chomp_lf l) = before ++ cmt /\ before = of_string "a 'https://x.org/p'; " /\
    find_comment false [] before = None.
Proof.
  intros l cmt.
  assert (H1 : extract_line_comment true 0 l =
               (of_string "a 'https://x.org/p'; LINECOMMENT000001" ++ [c_lf], 1%Z, Some (1%N, cmt))) by (vm_compute; reflexivity).
  assert (H2 : extract_line_comment false 0 l = (of_string "a 'https://x.org/p'; " ++ [c_lf], 1%Z, Some (1%N, cmt)))
    by (vm_compute; reflexivity).
  split; [exact H1|]. split; [exact H2|].
  destruct (C12_line_comment_replaced_in_place true 0 l _ _ _ _ H1) as (before & Eb & _ & Hn & _).
  exists before. split; [exact Eb|]. split; [|exact Hn].
  assert (E : fst (chomp_lf l) = of_string "a 'https://x.org/p'; " ++ cmt) by (vm_compute; reflexivity).
  rewrite E in Eb. symmetry. exact (app_inv_tail cmt _ _ Eb).
Qed.

(* the converse, for a given line: C12_extract_line_comment with slashes allowed in front of the comment.  What is asked
   of before is only that the scanner finds no pair of slashes in before followed by one more slash (the first slash of
   the comment could pair with a final slash of before; pairs directly after a colon do not count) and that before does
   not end with a colon.  no_slash before (the side condition of C12_extract_line_comment) is a special case
   (LineCommentFix.lcf_no_slash_find).  Under str.replace this statement was false (the witness below). *)
Theorem C12_extract_line_comment_after_slashes : forall comments (before rest nl : list N) count,
  find_comment false [] (before ++ [c_slash]) = None -> no_colon_end before -> no_lf rest -> no_lf before -> line_end nl ->
  extract_line_comment comments count (before ++ (c_slash :: c_slash :: rest) ++ nl) =
    (before ++ (if comments then placeholder w_LINECOMMENT (Z.to_N (counter_next count)) else []) ++ nl,
     counter_next count, Some (Z.to_N (counter_next count), c_slash :: c_slash :: rest)).
Proof. exact line_comment_after_slashes. Qed.
Print Assumptions C12_extract_line_comment_after_slashes.

(* non-vacuity: a URL and a path with single slashes in front of the comment, the comment holds a URL and a second pair
   of slashes; counter just before the wrap-around *)
Example C12_extract_line_comment_after_slashes_nonvacuous :
  let before := of_string "a 'https://x.org/p'; b /usr/lib/; " in
  let rest := of_string " see http://y.z // again" in
  let nl := [c_lf] in
  find_comment false [] (before ++ [c_slash]) = None /\ no_colon_end before /\ no_lf rest /\ no_lf before /\ line_end nl /\
  has_char c_slash before = true /\
  extract_line_comment true 999999 (before ++ c_slash :: c_slash :: rest ++ nl) =
    (of_string "a 'https://x.org/p'; b /usr/lib/; LINECOMMENT000000" ++ nl, 0%Z, Some (0%N, c_slash :: c_slash :: rest)).
Proof.
  intros before rest nl.
  assert (H1 : find_comment false [] (before ++ [c_slash]) = None) by (vm_compute; reflexivity).
  assert (H2 : no_colon_end before) by (vm_compute; reflexivity).
  assert (H3 : no_lf rest) by (vm_compute; reflexivity).
  assert (H4 : no_lf before) by (vm_compute; reflexivity).
  assert (H5 : line_end nl) by (right; reflexivity).
  repeat (split; [assumption|]).
  split; [vm_compute; reflexivity|].
  pose proof (C12_extract_line_comment_after_slashes true before rest nl 999999 H1 H2 H3 H4 H5) as E.
  cbn [app] in E. rewrite E. vm_compute. reflexivity.
Qed.
