(* C12  Comments survive read -> write (extraction and literal re-insertion), header, comments off. *)
From Coq Require Import NArith ZArith List Bool.
From DictIO Require Import Chars Str Value Scalar SDict Layout Lexer LayoutSpec LayoutProofs.
Import ListNotations.

(* a line comment is lifted out with its exact text, whatever characters it contains (quotes, braces, dollar,
   backslashes ...), and replaced by one placeholder; the rest of the line is untouched *)
Theorem C12_extract_line_comment : forall before rest nl count,
  no_slash before -> no_colon_end before -> no_lf rest -> no_lf before -> line_end nl ->
  let cmt := c_slash :: c_slash :: rest in
  let k := counter_next count in
  extract_line_comment true count (before ++ cmt ++ nl) =
    (before ++ placeholder w_LINECOMMENT (Z.to_N k) ++ nl, k, Some (Z.to_N k, cmt)).
Proof. exact extract_line_comment_spec. Qed.
Print Assumptions C12_extract_line_comment.

(* with comments switched off nothing of the comment remains in the line *)
Theorem C12_comments_off : forall before rest nl count,
  no_slash before -> no_colon_end before -> no_lf rest -> no_lf before -> line_end nl ->
  fst (fst (extract_line_comment false count (before ++ c_slash :: c_slash :: rest ++ nl))) = before ++ nl.
Proof. exact extract_line_comment_off. Qed.
Print Assumptions C12_comments_off.

(* re-insertion is literal: the placeholder pair is replaced by the comment text as it is (no template
   interpretation), the surrounding text is kept *)
Theorem C12_insert_literal : forall ph repl pre post ws fuel,
  (match ph with c :: _ => has_char c pre = false | [] => False end) ->
  (forall c, In c ph -> is_space c = false) -> (forall c, In c ws -> is_space c = true) -> ws <> [] ->
  (length (pre ++ ph ++ ws ++ ph ++ [c_semi] ++ post) < fuel)%nat ->
  exists post', fst (sub_ph_pair fuel ph repl (pre ++ ph ++ ws ++ ph ++ [c_semi] ++ post)) = pre ++ repl ++ post'.
Proof. exact sub_ph_pair_literal. Qed.
Print Assumptions C12_insert_literal.

(* the default header is added exactly once *)
Theorem C12_header_once : forall bc,
  make_default_block_comment (make_default_block_comment bc) = make_default_block_comment bc /\
  has_cpp_mark (make_default_block_comment bc) = true.
Proof. exact default_header_once. Qed.
Print Assumptions C12_header_once.
