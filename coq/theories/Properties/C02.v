(* C02  Native reader is layout-tolerant (token level) and literal spellings are equivalent. *)
From Coq Require Import String.   (* string literals of the closing example; imported first so the list names win *)
From Coq Require Import NArith ZArith List Bool.
From DictIO Require Import Chars Str Value Scalar KeyPath SDict Lexer TokParser TreeSpec NativeSpec LayoutSpec E2ESpec LayoutProofs.
From DictIO Require Import E2EHoles E2EFullProofs AnyLayoutProofs AnyLayoutComments ParserFuelProofs.
Import ListNotations.

(* ---- tactics for the non-vacuity examples: build [Forall lexeme], [ws_run] and [rendering] derivations for concrete
   lexeme lists and texts (the white space run after each lexeme is read off the text) ------------------------------ *)
Ltac ws_run_tac := repeat (constructor; [reflexivity|]); constructor.
Ltac lexeme_tac :=
  first [ left; eexists; split; reflexivity
        | right; split; [discriminate | repeat (constructor; [split; reflexivity|]); constructor] ].
Ltac lexemes_tac := repeat (constructor; [lexeme_tac|]); constructor.
Ltac gap_tac :=
  first [ left; discriminate | right; left; eexists; split; reflexivity | right; right; eexists; split; reflexivity ].
Ltac rendering_tac :=
  lazymatch goal with
  | |- rendering [] _ => apply r_nil
  | |- rendering [?x] _ => apply r_one
  | |- rendering (?x :: ?y :: ?l) ?t =>
      let w := eval vm_compute in (fst (span is_space (drop_n (length x) t))) in
      let r := eval vm_compute in (snd (span is_space (drop_n (length x) t))) in
      change t with (x ++ w ++ r);
      apply r_cons; [ rendering_tac | ws_run_tac | gap_tac ]
  end.

(* whatever white space (blanks, tabs, LF, CRLF, any amount) separates the lexemes, and whether or not delimiters
   are glued to their neighbours: delimiter separation + tokenising yields exactly the lexeme list *)
Theorem C02_layout_tokens : forall ls txt w1 w2, Forall lexeme ls -> rendering ls txt -> ws_run w1 -> ws_run w2 ->
  filter nonempty (tokenize (separate_delimiters (w1 ++ txt ++ w2))) = ls.
Proof. exact layout_tokens. Qed.
Print Assumptions C02_layout_tokens.

(* non-vacuity: twelve lexemes (words, a float, a quoted placeholder-like word, all kinds of delimiters), rendered with
   blanks, tabs, LF, CRLF, a no-break space and glued delimiters, surrounded by white space *)
Example C02_layout_tokens_nonvacuous :
  let ls := map of_string ["a"; "{"; "b.c"; "-1.5e3"; ";"; "c"; "("; "1"; "x'y"; ")"; ";"; "}"]%string in
  let txt := of_string "a{b.c" ++ [c_tab; c_sp] ++ of_string "-1.5e3;" ++ [c_cr; c_lf] ++ of_string "c  (1" ++ [160%N] ++ of_string "x'y);" ++ [c_lf] ++ of_string "}" in
  let w1 := [c_sp; c_lf; c_tab] in let w2 := [c_cr; c_lf; c_sp] in
  Forall lexeme ls /\ rendering ls txt /\ ws_run w1 /\ ws_run w2 /\
  filter nonempty (tokenize (separate_delimiters (w1 ++ txt ++ w2))) = ls.
Proof.
  intros ls txt w1 w2.
  assert (H1 : Forall lexeme ls) by (let v := eval vm_compute in ls in change (Forall lexeme v); lexemes_tac).
  assert (H2 : rendering ls txt) by (let v := eval vm_compute in ls in let t := eval vm_compute in txt in change (rendering v t); rendering_tac).
  assert (H3 : ws_run w1) by (let v := eval vm_compute in w1 in change (ws_run v); ws_run_tac).
  assert (H4 : ws_run w2) by (let v := eval vm_compute in w2 in change (ws_run v); ws_run_tac).
  exact (conj H1 (conj H2 (conj H3 (conj H4 (C02_layout_tokens ls txt w1 w2 H1 H2 H3 H4))))).
Qed.

(* hence two renderings of the same lexemes tokenise alike *)
Theorem C02_layout_independent : forall ls a b, Forall lexeme ls -> rendering ls a -> rendering ls b ->
  filter nonempty (tokenize (separate_delimiters a)) = filter nonempty (tokenize (separate_delimiters b)).
Proof. exact layout_independent. Qed.
Print Assumptions C02_layout_independent.

(* non-vacuity: the same nine lexemes laid out compactly and generously (two different derivations of [rendering]) *)
Example C02_layout_independent_nonvacuous :
  let ls := map of_string ["a"; "{"; "b"; "1"; ";"; "c"; "("; ")"; "}"]%string in
  let a := of_string "a{b 1;c()}" in
  let b := of_string "a" ++ [c_lf] ++ of_string "{" ++ [c_lf; c_sp; c_sp] ++ of_string "b" ++ [c_tab; c_tab] ++ of_string "1 ;" ++ [c_cr; c_lf] ++ of_string "c ( ) }" in
  Forall lexeme ls /\ rendering ls a /\ rendering ls b /\ a <> b /\
  filter nonempty (tokenize (separate_delimiters a)) = filter nonempty (tokenize (separate_delimiters b)).
Proof.
  intros ls a b.
  assert (H1 : Forall lexeme ls) by (let v := eval vm_compute in ls in change (Forall lexeme v); lexemes_tac).
  assert (H2 : rendering ls a) by (let v := eval vm_compute in ls in let t := eval vm_compute in a in change (rendering v t); rendering_tac).
  assert (H3 : rendering ls b) by (let v := eval vm_compute in ls in let t := eval vm_compute in b in change (rendering v t); rendering_tac).
  refine (conj H1 (conj H2 (conj H3 (conj _ (C02_layout_independent ls a b H1 H2 H3))))).
  vm_compute. discriminate.
Qed.

(* accepted spellings of booleans and none, in any letter case *)
Theorem C02_bool_spellings : forall s,
  ((lower s = w_true \/ lower s = w_on) -> parse_value s = Ok (SBool true)) /\
  ((lower s = w_false \/ lower s = w_off) -> parse_value s = Ok (SBool false)) /\
  ((lower s = w_none \/ lower s = w_null) -> parse_value s = Ok SNone).
Proof. exact bool_none_spellings. Qed.
Print Assumptions C02_bool_spellings.

(* the premises of the three implications are met by mixed-case spellings *)
Example C02_bool_spellings_nonvacuous :
  (lower (of_string "TrUe") = w_true /\ lower (of_string "ON") = w_on /\ lower (of_string "False") = w_false /\
   lower (of_string "oFF") = w_off /\ lower (of_string "None") = w_none /\ lower (of_string "NULL") = w_null) /\
  (parse_value (of_string "TrUe") = Ok (SBool true) /\ parse_value (of_string "ON") = Ok (SBool true) /\
   parse_value (of_string "False") = Ok (SBool false) /\ parse_value (of_string "oFF") = Ok (SBool false) /\
   parse_value (of_string "None") = Ok SNone /\ parse_value (of_string "NULL") = Ok SNone).
Proof.
  assert (H : lower (of_string "TrUe") = w_true /\ lower (of_string "ON") = w_on /\ lower (of_string "False") = w_false /\
              lower (of_string "oFF") = w_off /\ lower (of_string "None") = w_none /\ lower (of_string "NULL") = w_null)
    by (vm_compute; repeat split; reflexivity).
  split; [exact H|]. destruct H as (H1 & H2 & H3 & H4 & H5 & H6).
  refine (conj _ (conj _ (conj _ (conj _ (conj _ _))))).
  - exact (proj1 (C02_bool_spellings _) (or_introl H1)).
  - exact (proj1 (C02_bool_spellings _) (or_intror H2)).
  - exact (proj1 (proj2 (C02_bool_spellings _)) (or_introl H3)).
  - exact (proj1 (proj2 (C02_bool_spellings _)) (or_intror H4)).
  - exact (proj2 (proj2 (C02_bool_spellings _)) (or_introl H5)).
  - exact (proj2 (proj2 (C02_bool_spellings _)) (or_intror H6)).
Qed.

Example C02_example :
  filter nonempty (tokenize (separate_delimiters (of_string "a{b  1;c(1 2);}"))) =
  filter nonempty (tokenize (separate_delimiters (of_string " a {
 b 1 ;	c ( 1   2 ) ; } "))).
Proof. vm_compute. reflexivity. Qed.

(* ================================================================================================================== *)
(* Arbitrary layouts, end to end: the TREE read does not depend on the layout (AnyLayoutLex.v, AnyLayoutProofs.v).      *)
(* ================================================================================================================== *)

(* Quote-free documents.  Every rendering of the document's token list - tokens separated by arbitrary runs of white
   space characters (every character Python's str.isspace accepts: blank, tab, LF, VT, FF, CR, FS, GS, RS, US, NEL,
   NBSP, the Unicode spaces, LS, PS; nothing had to be excluded), runs that may be empty next to a delimiter - with any
   white space in front and behind, parses to the tree (leaves as the classifier reads their written form). *)
Theorem C02_parse_any_layout : forall kvs txt w1 w2 dirc count,
  wf (Dict kvs) = true -> simple_tree (Dict kvs) = true ->
  rendering (toks_tree format_scalar format_key false (Dict kvs)) txt -> ws_run w1 -> ws_run w2 ->
  parse_string true dirc count (w1 ++ txt ++ w2) =
    Ok (mkParsed (mkSD (kvs_of (map_leaves norm_scalar (Dict kvs))) [] [] [] []) count).
Proof. exact parse_any_layout. Qed.
Print Assumptions C02_parse_any_layout.

(* the same with the token list of the whole document as the token parser sees it (toks_doc: the statements and the
   empty token that re.split leaves behind the final delimiter) *)
Theorem C02_parse_any_layout_doc : forall kvs txt w1 w2 dirc count,
  wf (Dict kvs) = true -> simple_tree (Dict kvs) = true ->
  rendering (toks_doc format_scalar format_key kvs) txt -> ws_run w1 -> ws_run w2 ->
  parse_string true dirc count (w1 ++ txt ++ w2) =
    Ok (mkParsed (mkSD (kvs_of (map_leaves norm_scalar (Dict kvs))) [] [] [] []) count).
Proof. exact parse_any_layout_doc. Qed.
Print Assumptions C02_parse_any_layout_doc.

Theorem C02_layout_independent_trees : forall kvs a b wa1 wa2 wb1 wb2 dirc count,
  wf (Dict kvs) = true -> simple_tree (Dict kvs) = true ->
  rendering (toks_tree format_scalar format_key false (Dict kvs)) a ->
  rendering (toks_tree format_scalar format_key false (Dict kvs)) b ->
  ws_run wa1 -> ws_run wa2 -> ws_run wb1 -> ws_run wb2 ->
  parse_string true dirc count (wa1 ++ a ++ wa2) = parse_string true dirc count (wb1 ++ b ++ wb2).
Proof. exact layout_independent_trees. Qed.
Print Assumptions C02_layout_independent_trees.

(* non-vacuity: a tree of depth four with a list of dicts and an int key; layout A uses tabs, CRLF and glued delimiters,
   layout B puts one token per line *)
Definition ex_plain : list (key * tree) :=
  [(KS (of_string "a"),
    Dict [(KI 1, Lst [Dict [(KS (of_string "x"), Leaf (SInt 1))]; Dict [(KS (of_string "y"), Leaf (SStr (of_string "bc")))]]);
          (KS (of_string "s"), Leaf (SFloat (of_string "-1.5e3")))]);
   (KS (of_string "t"), Leaf (SBool true))].
Definition ex_plain_A : str :=
  of_string "a{" ++ [c_tab] ++ of_string "1({x 1;}{y" ++ [c_tab; c_tab] ++ of_string "bc;});" ++ [c_cr; c_lf; c_tab] ++
  of_string "s -1.5e3;}" ++ [c_cr; c_lf] ++ of_string "t" ++ [c_tab] ++ of_string "true;".
Definition ex_plain_B : str :=
  join [c_lf] (map of_string ["a"; "{"; "1"; "("; "{"; "x"; "1"; ";"; "}"; "{"; "y"; "bc"; ";"; "}"; ")"; ";"; "s"; "-1.5e3"; ";"; "}";
                              "t"; "true"; ";"]%string).

Lemma ex_plain_facts :
  wf (Dict ex_plain) = true /\ simple_tree (Dict ex_plain) = true /\
  rendering (toks_tree format_scalar format_key false (Dict ex_plain)) ex_plain_A /\
  rendering (toks_tree format_scalar format_key false (Dict ex_plain)) ex_plain_B /\
  kvs_of (map_leaves norm_scalar (Dict ex_plain)) = ex_plain.
Proof.
  refine (conj _ (conj _ (conj _ (conj _ _)))); try (vm_compute; reflexivity).
  - let v := eval vm_compute in (toks_tree format_scalar format_key false (Dict ex_plain)) in
    let t := eval vm_compute in ex_plain_A in change (rendering v t); rendering_tac.
  - let v := eval vm_compute in (toks_tree format_scalar format_key false (Dict ex_plain)) in
    let t := eval vm_compute in ex_plain_B in change (rendering v t); rendering_tac.
Qed.

Example C02_parse_any_layout_nonvacuous :
  let ls := toks_tree format_scalar format_key false (Dict ex_plain) in
  wf (Dict ex_plain) = true /\ simple_tree (Dict ex_plain) = true /\
  rendering ls ex_plain_A /\ rendering ls ex_plain_B /\ ex_plain_A <> ex_plain_B /\
  parse_string true [] 0%Z ([c_tab] ++ ex_plain_A ++ [c_cr; c_lf]) = Ok (mkParsed (mkSD ex_plain [] [] [] []) 0%Z) /\
  parse_string true [] 0%Z ([] ++ ex_plain_B ++ [c_lf]) = Ok (mkParsed (mkSD ex_plain [] [] [] []) 0%Z).
Proof.
  intros ls. destruct ex_plain_facts as (Hw & Hs & HA & HB & Hn).
  assert (H1 : ws_run [c_tab]) by ws_run_tac. assert (H2 : ws_run [c_cr; c_lf]) by ws_run_tac.
  assert (H3 : ws_run []) by ws_run_tac. assert (H4 : ws_run [c_lf]) by ws_run_tac.
  pose proof (C02_parse_any_layout ex_plain ex_plain_A _ _ [] 0%Z Hw Hs HA H1 H2) as PA.
  pose proof (C02_parse_any_layout ex_plain ex_plain_B _ _ [] 0%Z Hw Hs HB H3 H4) as PB.
  rewrite Hn in PA, PB.
  refine (conj Hw (conj Hs (conj HA (conj HB (conj _ (conj PA PB)))))).
  vm_compute. discriminate.
Qed.
(* ... and by computation *)
Example C02_parse_any_layout_computed :
  parse_string true [] 0%Z ([c_tab] ++ ex_plain_A ++ [c_cr; c_lf]) = Ok (mkParsed (mkSD ex_plain [] [] [] []) 0%Z) /\
  parse_string true [] 0%Z (ex_plain_B ++ [c_lf]) = Ok (mkParsed (mkSD ex_plain [] [] [] []) 0%Z).
Proof. split; vm_compute; reflexivity. Qed.

(* a rendering of toks_doc: the tokens, then white space (here the final line feed), then the empty token *)
Example C02_parse_any_layout_doc_nonvacuous :
  rendering (toks_doc format_scalar format_key ex_plain) (ex_plain_B ++ [c_lf]) /\
  parse_string true [] 0%Z ([c_sp] ++ (ex_plain_B ++ [c_lf]) ++ []) = Ok (mkParsed (mkSD ex_plain [] [] [] []) 0%Z).
Proof.
  destruct ex_plain_facts as (Hw & Hs & _ & _ & Hn).
  assert (HD : rendering (toks_doc format_scalar format_key ex_plain) (ex_plain_B ++ [c_lf]))
    by (let v := eval vm_compute in (toks_doc format_scalar format_key ex_plain) in
        let t := eval vm_compute in (ex_plain_B ++ [c_lf]) in change (rendering v t); rendering_tac).
  assert (H1 : ws_run [c_sp]) by ws_run_tac. assert (H2 : ws_run []) by ws_run_tac.
  pose proof (C02_parse_any_layout_doc ex_plain _ _ _ [] 0%Z Hw Hs HD H1 H2) as P. rewrite Hn in P.
  exact (conj HD P).
Qed.

Example C02_layout_independent_trees_nonvacuous :
  rendering (toks_tree format_scalar format_key false (Dict ex_plain)) ex_plain_A /\
  rendering (toks_tree format_scalar format_key false (Dict ex_plain)) ex_plain_B /\ ex_plain_A <> ex_plain_B /\
  parse_string true [] 7%Z ([c_tab] ++ ex_plain_A ++ [c_cr; c_lf]) = parse_string true [] 7%Z ([] ++ ex_plain_B ++ [c_lf]).
Proof.
  destruct ex_plain_facts as (Hw & Hs & HA & HB & _).
  assert (H1 : ws_run [c_tab]) by ws_run_tac. assert (H2 : ws_run [c_cr; c_lf]) by ws_run_tac.
  assert (H3 : ws_run []) by ws_run_tac. assert (H4 : ws_run [c_lf]) by ws_run_tac.
  refine (conj HA (conj HB (conj _ (C02_layout_independent_trees ex_plain _ _ _ _ _ _ [] 7%Z Hw Hs HA HB H1 H2 H3 H4)))).
  vm_compute. discriminate.
Qed.

(* The full writer domain: string leaves that need quotes.  [doc_toks fs kvs] is the document's token list with the
   quoted leaves spelled as given by fs (one entry per quoted leaf, in document order); each may be written in single
   quotes if its content has no single quote and in double quotes if it has no double quote, chosen independently per
   occurrence.  Whatever the spellings and the layout, the tree read is the same (leaves as the classifier reads the
   CONTENT of the literal).  Side conditions as in C01_roundtrip: counter >= -1, at most a million literals, quoted
   leaves at most ten keys deep. *)
Theorem C02_parse_any_layout_quoted : forall kvs fs txt w1 w2 dirc count,
  wf (Dict kvs) = true -> writable_tree (Dict kvs) = true ->
  Forall2 spelling fs (qstrs (Dict kvs)) -> rendering (doc_toks fs kvs) txt -> ws_run w1 -> ws_run w2 ->
  (-1 <= count)%Z -> (Z.of_nat (nq (Dict kvs)) <= 1000000)%Z -> quoted_within 11 (Dict kvs) = true ->
  parse_string true dirc count (w1 ++ txt ++ w2) =
    Ok (mkParsed (mkSD (kvs_of (map_leaves written_value (Dict kvs))) [] [] [] []) (cafter count (nq (Dict kvs)))).
Proof. exact parse_any_layout_spelled. Qed.
Print Assumptions C02_parse_any_layout_quoted.

Theorem C02_layout_independent_quoted : forall kvs fa fb a b wa1 wa2 wb1 wb2 dirc count,
  wf (Dict kvs) = true -> writable_tree (Dict kvs) = true ->
  Forall2 spelling fa (qstrs (Dict kvs)) -> Forall2 spelling fb (qstrs (Dict kvs)) ->
  rendering (doc_toks fa kvs) a -> rendering (doc_toks fb kvs) b ->
  ws_run wa1 -> ws_run wa2 -> ws_run wb1 -> ws_run wb2 ->
  (-1 <= count)%Z -> (Z.of_nat (nq (Dict kvs)) <= 1000000)%Z -> quoted_within 11 (Dict kvs) = true ->
  parse_string true dirc count (wa1 ++ a ++ wa2) = parse_string true dirc count (wb1 ++ b ++ wb2).
Proof. exact layout_independent_spelled. Qed.
Print Assumptions C02_layout_independent_quoted.

(* non-vacuity: the tree above with two string leaves that need quotes, one of either flavour in the writer's spelling
   ('b c' and "it's"); layout B spells the first one with double quotes *)
Definition ex_quoted : list (key * tree) :=
  [(KS (of_string "a"),
    Dict [(KI 1, Lst [Dict [(KS (of_string "x"), Leaf (SInt 1))]; Dict [(KS (of_string "y"), Leaf (SStr (of_string "b c")))]]);
          (KS (of_string "s"), Leaf (SStr (of_string "it's")))]);
   (KS (of_string "t"), Leaf (SBool true))].
Definition ex_quoted_A : str :=
  of_string "a{" ++ [c_tab] ++ of_string "1({x 1;}{y" ++ [c_tab; c_tab] ++ of_string "'b c';});" ++ [c_cr; c_lf; c_tab] ++
  of_string "s ""it's"";}" ++ [c_cr; c_lf] ++ of_string "t" ++ [c_tab] ++ of_string "true;".
Definition ex_quoted_B : str :=
  join [c_lf] (map of_string ["a"; "{"; "1"; "("; "{"; "x"; "1"; ";"; "}"; "{"; "y"; """b c"""; ";"; "}"; ")"; ";"; "s"; """it's"""; ";"; "}";
                              "t"; "true"; ";"]%string).

Definition ex_fa : list str := [sq (of_string "b c"); dq (of_string "it's")].
Definition ex_fb : list str := [dq (of_string "b c"); dq (of_string "it's")].
Lemma ex_quoted_facts :
  wf (Dict ex_quoted) = true /\ writable_tree (Dict ex_quoted) = true /\
  qstrs (Dict ex_quoted) = [of_string "b c"; of_string "it's"] /\
  Forall2 spelling ex_fa (qstrs (Dict ex_quoted)) /\ Forall2 spelling ex_fb (qstrs (Dict ex_quoted)) /\
  rendering (doc_toks ex_fa ex_quoted) ex_quoted_A /\ rendering (doc_toks ex_fb ex_quoted) ex_quoted_B /\
  quoted_within 11 (Dict ex_quoted) = true /\ (Z.of_nat (nq (Dict ex_quoted)) <= 1000000)%Z /\
  kvs_of (map_leaves written_value (Dict ex_quoted)) = ex_quoted /\ cafter 0%Z (nq (Dict ex_quoted)) = 2%Z.
Proof.
  assert (Hq : qstrs (Dict ex_quoted) = [of_string "b c"; of_string "it's"]) by (vm_compute; reflexivity).
  refine (conj _ (conj _ (conj Hq (conj _ (conj _ (conj _ (conj _ (conj _ (conj _ (conj _ _))))))))));
    try (vm_compute; reflexivity).
  - rewrite Hq. constructor; [left; split; reflexivity|]. constructor; [right; split; reflexivity|constructor].
  - rewrite Hq. constructor; [right; split; reflexivity|]. constructor; [right; split; reflexivity|constructor].
  - let v := eval vm_compute in (doc_toks ex_fa ex_quoted) in let t := eval vm_compute in ex_quoted_A in
    change (rendering v t); rendering_tac.
  - let v := eval vm_compute in (doc_toks ex_fb ex_quoted) in let t := eval vm_compute in ex_quoted_B in
    change (rendering v t); rendering_tac.
  - vm_compute. discriminate.
Qed.

Example C02_parse_any_layout_quoted_nonvacuous :
  let fa := [sq (of_string "b c"); dq (of_string "it's")] in
  let fb := [dq (of_string "b c"); dq (of_string "it's")] in
  wf (Dict ex_quoted) = true /\ writable_tree (Dict ex_quoted) = true /\
  qstrs (Dict ex_quoted) = [of_string "b c"; of_string "it's"] /\
  map format_string (qstrs (Dict ex_quoted)) = fa /\
  Forall2 spelling fa (qstrs (Dict ex_quoted)) /\ Forall2 spelling fb (qstrs (Dict ex_quoted)) /\
  rendering (doc_toks fa ex_quoted) ex_quoted_A /\ rendering (doc_toks fb ex_quoted) ex_quoted_B /\
  quoted_within 11 (Dict ex_quoted) = true /\
  parse_string true [] 0%Z ([c_tab] ++ ex_quoted_A ++ [c_cr; c_lf]) = Ok (mkParsed (mkSD ex_quoted [] [] [] []) 2%Z) /\
  parse_string true [] 0%Z ([] ++ ex_quoted_B ++ [c_lf]) = Ok (mkParsed (mkSD ex_quoted [] [] [] []) 2%Z).
Proof.
  intros fa fb. destruct ex_quoted_facts as (Hw & Hs & Hq & Fa & Fb & HA & HB & Hd & Hm & Hn & Hc).
  assert (Hf : map format_string (qstrs (Dict ex_quoted)) = fa) by (vm_compute; reflexivity).
  assert (H1 : ws_run [c_tab]) by ws_run_tac. assert (H2 : ws_run [c_cr; c_lf]) by ws_run_tac.
  assert (H3 : ws_run []) by ws_run_tac. assert (H4 : ws_run [c_lf]) by ws_run_tac.
  pose proof (C02_parse_any_layout_quoted ex_quoted fa ex_quoted_A _ _ [] 0%Z Hw Hs Fa HA H1 H2 ltac:(discriminate) Hm Hd) as PA.
  pose proof (C02_parse_any_layout_quoted ex_quoted fb ex_quoted_B _ _ [] 0%Z Hw Hs Fb HB H3 H4 ltac:(discriminate) Hm Hd) as PB.
  rewrite Hn, Hc in PA, PB.
  exact (conj Hw (conj Hs (conj Hq (conj Hf (conj Fa (conj Fb (conj HA (conj HB (conj Hd (conj PA PB)))))))))).
Qed.
Example C02_layout_independent_quoted_nonvacuous :
  Forall2 spelling ex_fa (qstrs (Dict ex_quoted)) /\ Forall2 spelling ex_fb (qstrs (Dict ex_quoted)) /\ ex_fa <> ex_fb /\
  rendering (doc_toks ex_fa ex_quoted) ex_quoted_A /\ rendering (doc_toks ex_fb ex_quoted) ex_quoted_B /\
  parse_string true [] 5%Z ([c_tab] ++ ex_quoted_A ++ [c_cr; c_lf]) = parse_string true [] 5%Z ([] ++ ex_quoted_B ++ [c_lf]).
Proof.
  destruct ex_quoted_facts as (Hw & Hs & Hq & Fa & Fb & HA & HB & Hd & Hm & Hn & Hc).
  assert (H1 : ws_run [c_tab]) by ws_run_tac. assert (H2 : ws_run [c_cr; c_lf]) by ws_run_tac.
  assert (H3 : ws_run []) by ws_run_tac. assert (H4 : ws_run [c_lf]) by ws_run_tac.
  refine (conj Fa (conj Fb (conj _ (conj HA (conj HB
            (C02_layout_independent_quoted ex_quoted _ _ _ _ _ _ _ _ [] 5%Z Hw Hs Fa Fb HA HB H1 H2 H3 H4 ltac:(discriminate) Hm Hd)))))).
  vm_compute. discriminate.
Qed.
Example C02_parse_any_layout_quoted_computed :
  parse_string true [] 0%Z ([c_tab] ++ ex_quoted_A ++ [c_cr; c_lf]) = Ok (mkParsed (mkSD ex_quoted [] [] [] []) 2%Z) /\
  parse_string true [] 0%Z (ex_quoted_B ++ [c_lf]) = Ok (mkParsed (mkSD ex_quoted [] [] [] []) 2%Z) /\
  ex_quoted_A <> ex_quoted_B.
Proof. repeat split; vm_compute; try reflexivity. discriminate. Qed.

(* ================================================================================================================== *)
(* C02_parse_any_layout_quoted without holes in the statement: ls is the writer's token list except that a quoted     *)
(* string may be spelled with the other kind of quotes where its content allows it ([tok_spelling], token by token).    *)
(* ================================================================================================================== *)
Theorem C02_parse_any_layout_tokens : forall kvs ls txt w1 w2 dirc count,
  wf (Dict kvs) = true -> writable_tree (Dict kvs) = true ->
  Forall2 tok_spelling (toks_tree format_scalar format_key false (Dict kvs)) ls -> rendering ls txt ->
  ws_run w1 -> ws_run w2 ->
  (-1 <= count)%Z -> (Z.of_nat (nq (Dict kvs)) <= 1000000)%Z -> quoted_within 11 (Dict kvs) = true ->
  parse_string true dirc count (w1 ++ txt ++ w2) =
    Ok (mkParsed (mkSD (kvs_of (map_leaves written_value (Dict kvs))) [] [] [] []) (cafter count (nq (Dict kvs)))).
Proof. exact parse_any_layout_tokens. Qed.
Print Assumptions C02_parse_any_layout_tokens.

(* [doc_toks] with the writer's own spellings is the token list of the grammar *)
Theorem C02_doc_toks_writer : forall kvs, writable_tree (Dict kvs) = true ->
  doc_toks (map format_string (qstrs (Dict kvs))) kvs = toks_tree format_scalar format_key false (Dict kvs).
Proof. intros kvs H. apply doc_toks_writer. rewrite <- E2EKeyTok.writable_ktree. exact H. Qed.
Print Assumptions C02_doc_toks_writer.

Example C02_doc_toks_writer_nonvacuous :
  writable_tree (Dict ex_quoted) = true /\ map format_string (qstrs (Dict ex_quoted)) = ex_fa /\
  doc_toks ex_fa ex_quoted = toks_tree format_scalar format_key false (Dict ex_quoted) /\
  In (sq (of_string "b c")) (doc_toks ex_fa ex_quoted).
Proof.
  assert (Hs : writable_tree (Dict ex_quoted) = true) by (vm_compute; reflexivity).
  assert (Hf : map format_string (qstrs (Dict ex_quoted)) = ex_fa) by (vm_compute; reflexivity).
  refine (conj Hs (conj Hf (conj _ _))).
  - rewrite <- Hf. exact (C02_doc_toks_writer ex_quoted Hs).
  - vm_compute. tauto.
Qed.

Ltac tok_spelling_tac :=
  repeat (constructor;
          [ first [ left; reflexivity
                  | lazymatch goal with
                    | |- tok_spelling ?a _ =>
                        let s := eval vm_compute in (remove_quotes a) in
                        right; exists s; split;
                        [ first [left; reflexivity | right; reflexivity]
                        | first [left; split; reflexivity | right; split; reflexivity] ]
                    end ] | ]);
  constructor.

(* non-vacuity: layout B of ex_quoted, whose first literal is spelled with double quotes *)
Example C02_parse_any_layout_tokens_nonvacuous :
  let ls := map of_string ["a"; "{"; "1"; "("; "{"; "x"; "1"; ";"; "}"; "{"; "y"; """b c"""; ";"; "}"; ")"; ";"; "s"; """it's"""; ";"; "}";
                           "t"; "true"; ";"]%string in
  Forall2 tok_spelling (toks_tree format_scalar format_key false (Dict ex_quoted)) ls /\
  ls <> toks_tree format_scalar format_key false (Dict ex_quoted) /\ rendering ls ex_quoted_B /\
  parse_string true [] 0%Z ([] ++ ex_quoted_B ++ [c_lf]) = Ok (mkParsed (mkSD ex_quoted [] [] [] []) 2%Z).
Proof.
  intros ls. destruct ex_quoted_facts as (Hw & Hs & _ & _ & _ & _ & _ & Hd & Hm & Hn & Hc).
  assert (HF : Forall2 tok_spelling (toks_tree format_scalar format_key false (Dict ex_quoted)) ls)
    by (let a := eval vm_compute in (toks_tree format_scalar format_key false (Dict ex_quoted)) in
        let b := eval vm_compute in ls in change (Forall2 tok_spelling a b); tok_spelling_tac).
  assert (HB : rendering ls ex_quoted_B)
    by (let v := eval vm_compute in ls in let t := eval vm_compute in ex_quoted_B in change (rendering v t); rendering_tac).
  assert (H3 : ws_run []) by ws_run_tac. assert (H4 : ws_run [c_lf]) by ws_run_tac.
  pose proof (C02_parse_any_layout_tokens ex_quoted ls ex_quoted_B _ _ [] 0%Z Hw Hs HF HB H3 H4 ltac:(discriminate) Hm Hd) as PB.
  rewrite Hn, Hc in PB.
  refine (conj HF (conj _ (conj HB PB))). vm_compute. discriminate.
Qed.

(* ================================================================================================================== *)
(* Comments (AnyLayoutComments.v).  Reading with comments = false: line comments at line ends and block comments       *)
(* between the tokens do not change the tree.                                                                          *)
(*   Tc  the text as written;  T1 = flat all_kept p0 cps  the same text without its line comments ([lcm]: a line        *)
(*   comment - two slashes, then anything but a line break - stands in front of a line end LF or CR LF, or at the end    *)
(*   of the text, and is not directly preceded by a slash or a colon);  T1 is cut into the plain stretch p0 and pairs    *)
(*   (body of a block comment, plain stretch behind it);  the plain stretches together, flat none_kept p0 cps, are a    *)
(*   layout of the document in the sense of C02_parse_any_layout_quoted.                                                 *)
(* Side conditions (all boolean, all met by the example; the excluded layouts DO change the tree, see the lemmas          *)
(* AnyLayoutComments.ce_block_glues etc.):  nopair // T1: no two slashes meet outside the line comments (a block comment is not         *)
(*   directly followed by another comment, no double slash inside a block comment);  hash_safe: no line of T1 has a      *)
(*   hash as first visible character (the include stage runs before the block comments are removed);  seg_ok: block      *)
(*   comment bodies contain no slash (no nested opener), the text behind a block comment does not begin with a star or   *)
(*   a slash, plain stretches contain no slash-star and do not end with a slash.  The comment tables and the counter     *)
(*   depend on the comments, hence the existential.                                                                      *)
Theorem C02_parse_commented : forall kvs fs txt w1 w2 Tc p0 cps dirc count,
  wf (Dict kvs) = true -> writable_tree (Dict kvs) = true ->
  Forall2 spelling fs (qstrs (Dict kvs)) -> rendering (doc_toks fs kvs) txt -> ws_run w1 -> ws_run w2 ->
  (-1 <= count)%Z -> (Z.of_nat (nq (Dict kvs)) <= 1000000)%Z -> quoted_within 11 (Dict kvs) = true ->
  lcm true Tc (flat all_kept p0 cps) ->
  nopair c_slash c_slash (flat all_kept p0 cps) = true -> hash_safe false (flat all_kept p0 cps) = true ->
  plain_in p0 = true -> forallb seg_ok cps = true ->
  flat none_kept p0 cps = w1 ++ txt ++ w2 ->
  exists lc bc count',
    parse_string false dirc count Tc =
      Ok (mkParsed (mkSD (kvs_of (map_leaves written_value (Dict kvs))) lc bc [] []) count').
Proof. exact parse_commented. Qed.
Print Assumptions C02_parse_commented.

(* derivations of [lcm] for concrete texts: two slashes in the written text start a line comment *)
Ltac lcm_tac :=
  lazymatch goal with
  | |- lcm _ [] [] => apply l_nil
  | |- lcm _ (47 :: 47 :: ?t) ?T1 =>
      let rest := eval vm_compute in (fst (span (fun c => negb (is_linebreak c)) t)) in
      let aft := eval vm_compute in (snd (span (fun c => negb (is_linebreak c)) t)) in
      lazymatch aft with
      | [] => change (lcm true (lcomment rest) []); apply l_last; vm_compute; reflexivity
      | 10 :: ?Tc' =>
          lazymatch T1 with
          | 10 :: ?T1' => change (lcm true (lcomment rest ++ [c_lf] ++ Tc') (c_lf :: T1'));
                          apply l_line; [vm_compute; reflexivity|left; reflexivity|lcm_tac]
          end
      | 13 :: 10 :: ?Tc' =>
          lazymatch T1 with
          | 10 :: ?T1' => change (lcm true (lcomment rest ++ [c_cr; c_lf] ++ Tc') (c_lf :: T1'));
                          apply l_line; [vm_compute; reflexivity|right; reflexivity|lcm_tac]
          end
      end
  | |- lcm _ (?c :: ?t) (?c :: ?T1) => apply l_char; lcm_tac
  end.

(* non-vacuity: the document ex_quoted with a three-line header comment full of stars, a line comment before a CR LF
   and one before a LF line end, a block comment between two list items, a two-line block comment in front of a key and
   a line comment at the end of the text *)
Definition ex_cm_hdr : str :=
  of_string "---------------------------------*\" ++ [c_lf] ++ of_string "| header * with stars               |" ++ [c_lf] ++
  of_string "\*---------------------------------".
Definition ex_cm_p0 : str := [].
Definition ex_cm_cps : list (str * str) :=
  [(ex_cm_hdr, [c_lf] ++ of_string "a " ++ [c_lf] ++ of_string "{" ++ [c_tab] ++ of_string "1 ( {x 1;} ");
   (of_string " second ", of_string " {y 'b c';} ) ; " ++ [c_lf] ++ of_string "s ""it's""; }" ++ [c_cr; c_lf]);
   (of_string " multi" ++ [c_lf] ++ of_string "   line ", of_string " t" ++ [c_tab] ++ of_string "true; ")].
Definition ex_cm_Tc : str :=
  bcomment ex_cm_hdr ++ [c_lf] ++ of_string "a // first key" ++ [c_cr; c_lf] ++ of_string "{" ++ [c_tab] ++
  of_string "1 ( {x 1;} /* second */ {y 'b c';} ) ; // list" ++ [c_lf] ++
  of_string "s ""it's""; }" ++ [c_cr; c_lf] ++ of_string "/* multi" ++ [c_lf] ++ of_string "   line */ t" ++ [c_tab] ++
  of_string "true; // done".
Definition ex_cm_txt : str :=
  of_string "a " ++ [c_lf] ++ of_string "{" ++ [c_tab] ++ of_string "1 ( {x 1;}  {y 'b c';} ) ; " ++ [c_lf] ++
  of_string "s ""it's""; }" ++ [c_cr; c_lf] ++ of_string " t" ++ [c_tab] ++ of_string "true;".

Example C02_parse_commented_nonvacuous :
  let fa := [sq (of_string "b c"); dq (of_string "it's")] in
  let T1 := flat all_kept ex_cm_p0 ex_cm_cps in
  Forall2 spelling fa (qstrs (Dict ex_quoted)) /\ rendering (doc_toks fa ex_quoted) ex_cm_txt /\
  lcm true ex_cm_Tc T1 /\ nopair c_slash c_slash T1 = true /\ hash_safe false T1 = true /\
  plain_in ex_cm_p0 = true /\ forallb seg_ok ex_cm_cps = true /\
  flat none_kept ex_cm_p0 ex_cm_cps = [c_lf] ++ ex_cm_txt ++ [c_sp] /\
  exists lc bc count', parse_string false [] 0%Z ex_cm_Tc = Ok (mkParsed (mkSD ex_quoted lc bc [] []) count').
Proof.
  intros fa T1. destruct ex_quoted_facts as (Hw & Hs & Hq & Fa & _ & _ & _ & Hd & Hm & Hn & _).
  assert (HR : rendering (doc_toks fa ex_quoted) ex_cm_txt)
    by (let v := eval vm_compute in (doc_toks fa ex_quoted) in let t := eval vm_compute in ex_cm_txt in
        change (rendering v t); rendering_tac).
  assert (HL : lcm true ex_cm_Tc T1)
    by (let a := eval vm_compute in ex_cm_Tc in let b := eval vm_compute in T1 in change (lcm true a b); lcm_tac).
  assert (Hnp : nopair c_slash c_slash T1 = true) by (vm_compute; reflexivity).
  assert (Hhs : hash_safe false T1 = true) by (vm_compute; reflexivity).
  assert (Hp0 : plain_in ex_cm_p0 = true) by (vm_compute; reflexivity).
  assert (Hcps : forallb seg_ok ex_cm_cps = true) by (vm_compute; reflexivity).
  assert (HT0 : flat none_kept ex_cm_p0 ex_cm_cps = [c_lf] ++ ex_cm_txt ++ [c_sp]) by (vm_compute; reflexivity).
  assert (H1 : ws_run [c_lf]) by ws_run_tac. assert (H2 : ws_run [c_sp]) by ws_run_tac.
  pose proof (C02_parse_commented ex_quoted fa ex_cm_txt _ _ ex_cm_Tc ex_cm_p0 ex_cm_cps [] 0%Z Hw Hs Fa HR H1 H2
                ltac:(discriminate) Hm Hd HL Hnp Hhs Hp0 Hcps HT0) as P.
  rewrite Hn in P.
  exact (conj Fa (conj HR (conj HL (conj Hnp (conj Hhs (conj Hp0 (conj Hcps (conj HT0 P)))))))).
Qed.
(* ... and by computation: the tree, three line comments, three block comments, five numbers handed out *)
Example C02_parse_commented_computed :
  match parse_string false [] 0%Z ex_cm_Tc with
  | Ok p => sd_data (pr_sd p) = ex_quoted /\ length (sd_lc (pr_sd p)) = 3%nat /\ length (sd_bc (pr_sd p)) = 3%nat /\ pr_count p = 5%Z
  | Raise _ => False
  end.
Proof. vm_compute. repeat split; reflexivity. Qed.

(* the layouts of comments that had to be excluded change the tree read (machine checked in AnyLayoutComments.v) *)
Theorem C02_comment_counterexamples :
  tree_read (of_string "a /* c */ 1; // d
b 2;") = Some [kv_a1; kv_b2] /\
  tree_read (of_string "a/* c */1; b 2;") = Some [kv_b2] /\
  tree_read (of_string "a// c" ++ [c_cr] ++ of_string "1; b 2;") = Some [kv_b2] /\
  tree_read (of_string "a /* c *///d
1; b 2;") = Some [kv_b2] /\
  tree_read (of_string "a /* c // d */ 1; b 2;") = Some [] /\
  tree_read (of_string "a /*y*/ 1; b /*x/*y*/ 2;") = Some [kv_a1] /\
  tree_read (of_string "/*k 'p*/ /*x*/*k 'p*/q';") = Some [].
Proof.
  exact (conj ce_reference (conj ce_block_glues (conj ce_cr_line_end (conj ce_block_then_line
          (conj ce_slashes_in_block (conj ce_nested_opener (proj2 ce_star_after_block))))))).
Qed.
Print Assumptions C02_comment_counterexamples.

(* ================================================================================================================== *)
(* Termination of the reader on EVERY input: fuel adequacy of the token parser, the lexer's scanners, the clean-up       *)
(* (ParserFuelProofs.v)                                                                                               *)
(* ================================================================================================================== *)

(* ---- the token parser --------------------------------------------------------------------------------------------- *)
(* for every token list whatsoever -- unbalanced brackets, stray semicolons, comment tokens in key position so that the
   backward walks wrap around the list end -- parse_dict_go / parse_list_go and their helpers never exhaust the fuel *)
Theorem C02_parser_terminates : forall ts, parse_tokens ts <> Raise E_Fuel.
Proof. exact parse_tokens_terminates. Qed.
Print Assumptions C02_parser_terminates.

(* and no helper is cut short silently (kv_back returns its partial result when its fuel runs out, without E_Fuel):
   every fuel from 3 * length + 3 on gives the same result as the model's 4 * length + 8 *)
Theorem C02_parser_fuel_irrelevant : forall ts f,
  (3 * length ts + 3 <= f)%nat -> parse_dict_go f (levels ts) 0%Z [] = parse_tokens ts.
Proof. exact parse_tokens_fuel_irrelevant. Qed.
Print Assumptions C02_parser_fuel_irrelevant.

(* the helper loops on their own, started anywhere: the index walks in one direction and leaves the list after at most
   two passes (key_index and check_dict_end walk backwards and wrap around to the list end once) *)
Theorem C02_helpers_terminate : forall (ts : list ztok) f, (2 * length ts + 1 <= f)%nat ->
  (forall ti off, (ti <= Z.of_nat (length ts))%Z -> (1 <= off)%Z -> key_index f ts ti off <> Raise E_Fuel) /\
  (forall idx, (idx < 0)%Z -> check_dict_end f ts idx <> Raise E_Fuel) /\
  (forall ti i cl clv acc, (0 <= ti + i)%Z -> collect_struct f ts ti i cl clv acc <> Raise E_Fuel).
Proof. exact helpers_terminate. Qed.
Print Assumptions C02_helpers_terminate.

(* all three tokens are comment tokens: the walk from index 2 - 1 visits 1, 0, -1, -2, -3 and leaves the list *)
Example C02_helpers_terminate_nonvacuous :
  let ts := levels (map of_string ["LINECOMMENT000001"; "BLOCKCOMMENT000002"; "LINECOMMENT000003"]%string) in
  key_index 7 ts 2%Z 1%Z = Raise E_Index /\ key_index 5 ts 2%Z 1%Z = Raise E_Fuel /\
  check_dict_end 7 ts (-2)%Z = Raise E_Index.
Proof. vm_compute. repeat split. Qed.

(* computed instances on malformed token lists *)
Definition toks (l : list string) : list str := map of_string l.

(* two comment tokens, then an opening brace: key_index walks backwards over index -1, -2, -3 (= the list once more from
   its end), then falls off: IndexError after 2 * length steps -- the largest fuel any list of this length needs *)
Example C02_parser_terminates_wraparound :
  parse_tokens (toks ["LINECOMMENT000001"; "BLOCKCOMMENT000002"; "{"]%string) = Raise E_Index.
Proof. vm_compute. reflexivity. Qed.

(* closing brackets first, stray semicolons, a list closed twice, a dict never closed: IndexError *)
Example C02_parser_terminates_unbalanced :
  parse_tokens (toks ["}"; ";"; "a"; "("; "b"; ")"; ";"; "{"; "c"; "{"; "}"]%string) = Raise E_Index.
Proof. vm_compute. reflexivity. Qed.

(* a comment token first, nested empty list and dict inside a list, doubled semicolons, an unmatched closing bracket
   at the end: parsed without complaint *)
Example C02_parser_terminates_nonvacuous :
  parse_tokens (toks ["LINECOMMENT000001"; "a"; "("; "("; ")"; "{"; "}"; "1"; ")"; ";"; ";"; "b"; "2"; ";"; ")"]%string)
  = Ok [(KS (of_string "LINECOMMENT000001"), Leaf (SStr (of_string "LINECOMMENT000001")));
        (KS (of_string "a"), Lst [Lst []; Dict []; Leaf (SInt 1)]);
        (KS (of_string "b"), Leaf (SInt 2))].
Proof. vm_compute. reflexivity. Qed.

Example C02_parser_fuel_irrelevant_nonvacuous :
  let ts := toks ["LINECOMMENT000001"; "a"; "("; "("; ")"; "{"; "}"; "1"; ")"; ";"; ";"; "b"; "2"; ";"; ")"]%string in
  parse_dict_go 48 (levels ts) 0%Z [] = parse_tokens ts /\ parse_dict_go 1000 (levels ts) 0%Z [] = parse_tokens ts.
Proof. split; apply C02_parser_fuel_irrelevant; vm_compute; repeat constructor. Qed.

(* ---- _insert_string_literals -------------------------------------------------------------------------------------- *)
(* side condition (literal_ok): the value a registered literal evaluates to does not contain the literal's OWN placeholder.
   Placeholders of other literals inside a literal are harmless.  [wf]: the dict has unique keys at every level, as every
   Python dict has (the model's association lists could violate it). *)
Theorem C02_insert_literals_terminate : forall lits d,
  wf (Dict d) = true -> Forall literal_ok lits -> insert_string_literals lits d <> Raise E_Fuel.
Proof. exact insert_string_literals_terminates. Qed.
Print Assumptions C02_insert_literals_terminate.

(* in particular: no registered literal contains the word STRINGLITERAL *)
Corollary C02_insert_literals_terminate_no_word : forall lits d,
  wf (Dict d) = true -> Forall (fun e => contains w_STRINGLITERAL (snd e) = false) lits ->
  insert_string_literals lits d <> Raise E_Fuel.
Proof. exact insert_string_literals_terminates_no_word. Qed.
Print Assumptions C02_insert_literals_terminate_no_word.

(* the side condition holds (literal 1 mentions the placeholder of literal 2), the theorem applies, and the result is
   what one expects *)
Example C02_insert_literals_terminate_nonvacuous :
  let lits := [(1%N, of_string "x STRINGLITERAL000002"); (2%N, of_string "y")] in
  let d := [(KS (of_string "a"), Leaf (SStr (of_string "STRINGLITERAL000001")));
            (KS (of_string "b"), Lst [Leaf (SStr (of_string "STRINGLITERAL000002"))])] in
  wf (Dict d) = true /\ Forall literal_ok lits /\ insert_string_literals lits d <> Raise E_Fuel /\
  insert_string_literals lits d = Ok [(KS (of_string "a"), Leaf (SStr (of_string "y")));
                                      (KS (of_string "b"), Lst [Leaf (SStr (of_string "y"))])].
Proof.
  intros lits d.
  assert (H1 : wf (Dict d) = true) by (vm_compute; reflexivity).
  assert (H2 : Forall literal_ok lits) by (apply literals_okb_ok; vm_compute; reflexivity).
  split; [exact H1|]. split; [exact H2|]. split; [exact (C02_insert_literals_terminate lits d H1 H2)|].
  vm_compute. reflexivity.
Qed.

(* the side condition is needed: a literal that contains its own placeholder is found again after every insertion *)
Example C02_insert_literals_own_placeholder_loops :
  insert_string_literals [(0%N, of_string "x STRINGLITERAL000000")]
                         [(KS (of_string "a"), Leaf (SStr (of_string "STRINGLITERAL000000")))] = Raise E_Fuel.
Proof. vm_compute. reflexivity. Qed.

(* ---- parse_string -------------------------------------------------------------------------------------------------- *)
(* the token parser terminates on whatever the lexer produces, the parsed dict is well-formed (also after _clean), so the
   only way to exhaust the fuel is a registered literal that contains its own placeholder *)
Theorem C02_parse_string_terminates : forall com dir count text,
  Forall literal_ok (lxd_lit (lex com dir count text)) ->
  parse_string com dir count text <> Raise E_Fuel.
Proof. exact parse_string_terminates. Qed.
Print Assumptions C02_parse_string_terminates.

Corollary C02_parse_string_terminates_no_word : forall com dir count text,
  Forall (fun e => contains w_STRINGLITERAL (snd e) = false) (lxd_lit (lex com dir count text)) ->
  parse_string com dir count text <> Raise E_Fuel.
Proof.
  intros com dir count text H. apply C02_parse_string_terminates.
  eapply Forall_impl; [|exact H]. intros e He. apply literal_ok_no_word. exact He.
Qed.
Print Assumptions C02_parse_string_terminates_no_word.

(* decidable form of the hypothesis, for concrete texts *)
Corollary C02_parse_string_terminates_checked : forall com dir count text,
  forallb literal_okb (lxd_lit (lex com dir count text)) = true ->
  parse_string com dir count text <> Raise E_Fuel.
Proof. intros com dir count text H. apply C02_parse_string_terminates. apply literals_okb_ok. exact H. Qed.
Print Assumptions C02_parse_string_terminates_checked.

Example C02_parse_string_terminates_nonvacuous :
  let text := of_string "a 'x STRINGLITERAL000002'; b 'y'; c ( 1 'two words' ) ; } ;" in
  lxd_lit (lex true [] 0%Z text) = [(1%N, of_string "x STRINGLITERAL000002"); (2%N, of_string "y"); (3%N, of_string "two words")] /\
  parse_string true [] 0%Z text <> Raise E_Fuel.
Proof.
  intros text. split; [vm_compute; reflexivity|].
  apply C02_parse_string_terminates_checked. vm_compute. reflexivity.
Qed.

(* the hangs: with the counter at 0 the first literal is registered under id 1 *)
Example C02_parse_string_own_placeholder_loops :
  parse_string true [] 0%Z (of_string "a 'x STRINGLITERAL000001';") = Raise E_Fuel.
Proof. vm_compute. reflexivity. Qed.

(* the source text need not contain the word STRINGLITERAL: without comment placeholders (comments = False) an empty block
   comment inside the literal is removed and joins the two halves *)
Example C02_parse_string_joined_placeholder_loops :
  contains w_STRINGLITERAL (of_string "a 'x STRINGLIT/**/ERAL000001';") = false /\
  parse_string false [] 0%Z (of_string "a 'x STRINGLIT/**/ERAL000001';") = Raise E_Fuel.
Proof. split; vm_compute; reflexivity. Qed.

(* ---- the fuelled scanners of the lexer ----------------------------------------------------------------------------- *)
(* find_block_comments, scan_literals (extract_string_literals), find_expressions, extract_references: the O branch is
   never reached from the fuel the model supplies; any larger fuel gives the same result *)
Theorem C02_lexer_fuel_adequate : forall f,
  (forall s, (S (length s) <= f)%nat -> find_block_comments f s = find_block_comments (S (length s)) s) /\
  (forall count s, (S (length s) <= f)%nat -> scan_literals f false count [] [] s = extract_string_literals count s) /\
  (forall s, (S (length s) <= f)%nat -> find_expressions f s = find_expressions (S (length s)) s) /\
  (forall count t tab, (S (length t) <= f)%nat ->
     extract_references f count t tab = extract_references (S (length t)) count t tab).
Proof. exact lexer_fuel_adequate. Qed.
Print Assumptions C02_lexer_fuel_adequate.

Example C02_lexer_fuel_adequate_nonvacuous :
  let s := of_string "a /* b */ 'c' ""$d + $$e[0]"" /* unclosed ""$f 'g" in
  find_block_comments 1000 s = [of_string "/* b */"] /\
  find_block_comments 1000 s = find_block_comments (S (length s)) s /\
  scan_literals 1000 false 0%Z [] [] s = extract_string_literals 0%Z s /\
  find_expressions 1000 s = find_expressions (S (length s)) s /\
  extract_references 1000 5%Z s [] = extract_references (S (length s)) 5%Z s [] /\
  fst (fst (extract_references 1000 5%Z s [])) =
    of_string "a /* b */ 'c' ""EXPRESSION000006 + EXPRESSION000008"" /* unclosed ""EXPRESSION000009 'g".
Proof.
  intros s. split; [vm_compute; reflexivity|].
  destruct (C02_lexer_fuel_adequate 1000) as (H1 & H2 & H3 & H4).
  assert (Hl : (S (length s) <= 1000)%nat) by (vm_compute; repeat constructor).
  split; [exact (H1 s Hl)|]. split; [exact (H2 0%Z s Hl)|]. split; [exact (H3 s Hl)|].
  split; [exact (H4 5%Z s [] Hl)|]. vm_compute. reflexivity.
Qed.

(* _recursive_clean, which parse_string runs through sd_clean (it returns its input unchanged when the fuel runs out): the
   model's fuel S (depth) is adequate *)
Theorem C02_clean_fuel_adequate : forall f data s,
  (S (depth (Dict data)) <= f)%nat -> clean_tree f data s = clean_tree (S (depth (Dict data))) data s.
Proof. exact clean_fuel_adequate. Qed.
Print Assumptions C02_clean_fuel_adequate.

(* the nested dict holds the same block comment twice: the duplicate is removed -- but only if the recursion gets there
   (fuel 1 cleans the top level only) *)
Example C02_clean_fuel_adequate_nonvacuous :
  let L := fun s : string => (KS (of_string s), Leaf (SStr (of_string s))) in
  let data := [L "BLOCKCOMMENT000001"; (KS (of_string "a"), Dict [L "BLOCKCOMMENT000002"; L "BLOCKCOMMENT000003"])]%string in
  let s := mkSD data [] [(1%N, of_string "/* c */"); (2%N, of_string "/* d */"); (3%N, of_string "/* d */")] [] [] in
  clean_tree 100 data s = clean_tree (S (depth (Dict data))) data s /\
  fst (clean_tree 100 data s) = [L "BLOCKCOMMENT000001"; (KS (of_string "a"), Dict [L "BLOCKCOMMENT000002"])]%string /\
  fst (clean_tree 1 data s) = data.
Proof.
  intros L data s. split; [apply C02_clean_fuel_adequate; vm_compute; repeat constructor|].
  split; vm_compute; reflexivity.
Qed.


(* ================================================================================================== *)
(* added from Properties/C02_add.v (2026-10-01)                                              *)
(* ================================================================================================== *)
(* C02 (addition): comments at statement boundaries, read with comments = TRUE, in arbitrary layouts. *)
From Coq Require Import String.   (* string literals of the examples; imported first so the list names win *)
From Coq Require Import NArith ZArith List Bool.
From DictIO Require Import Chars Str Value Scalar KeyPath SDict Lexer TokParser TreeSpec NativeSpec LayoutSpec E2ESpec LayoutProofs.
From DictIO Require Import E2EHoles E2EFullProofs AnyLayoutProofs AnyLayoutComments.
From DictIO Require Import RereadTree RereadLex RereadNum RereadProofs AnyLayoutCommentsOn.
Import ListNotations.

(* ================================================================================================================== *)
(* Vocabulary (RereadTree, RereadProofs, AnyLayoutCommentsOn).                                                          *)
(*   c          the document WITH its comments, in canonical form: a comment is an entry (KS LINECOMMENT, text) or      *)
(*              (KS BLOCKCOMMENT, text) among the entries of its dict level -- i.e. it stands where a statement could   *)
(*              begin or end: before `key value;`, before `key {`, after `;`, after `}`, inside an (empty) dict; not      *)
(*              between a key and its value and not inside a list;  cdoc_any c: ordinary entries in the writer domain    *)
(*              with unique keys per dict, literals at most ten keys deep, line comment texts pairwise distinct, block    *)
(*              comment texts pairwise distinct;  cstrip (Dict c) = Dict kvs: the tree without the comment entries;        *)
(*   lc_list c, bc_list c, lit_list c   the line comment texts, block comment texts, quoted literals in text order;      *)
(*   lc_tab count c = combine (ids count n) (lc_list c),  bc_tab c = number_from 0 (bc_list c)   the tables;            *)
(*   ph_doc count c   the placeholder document: every comment entry replaced by (KS P, Leaf (SStr P)), P the placeholder *)
(*              LINECOMMENT%06d / BLOCKCOMMENT%06d of its id;  cdoc_toks fs d: its token list, one token P per comment,    *)
(*              the quoted leaves spelled as given by fs (either kind of quotes, as in C02_parse_any_layout_quoted);        *)
(*   number count c   the SDict with the placeholder document's data (leaves as the classifier reads them) + the tables.  *)
(* The text:  Tc as written;  lcn true ks xs Tc T1: T1 is Tc with the placeholder lph k in place of the line comment      *)
(*   (ks, xs in text order; a comment stands before LF, before CR LF -- the CR then belongs to the comment text, as       *)
(*   the library has it -- or at the end of the text);  T1 = flat all_kept p0 cps cut into plain stretches and block      *)
(*   comments;  flatD (bc_tab c) p0 cps: T1 with the placeholder bph i in place of the i-th block comment;  that text is  *)
(*   a layout (rendering, any white space) of the placeholder document's token list.                                       *)
(* Side conditions on T1 as in C02_parse_commented (nopair, hash_safe, plain_in, seg_ok).                                   *)
(* ================================================================================================================== *)
Theorem C02_parse_commented_on_exact : forall c fs txt w1 w2 Tc p0 cps dirc count,
  cdoc_any c = true -> Forall2 spelling fs (lit_list c) -> (-1 <= count)%Z ->
  (Z.of_nat (length (lc_list c)) <= 1000000)%Z -> (Z.of_nat (length (bc_list c)) <= 1000000)%Z ->
  (Z.of_nat (length (lit_list c)) <= 1000000)%Z ->
  lcn true (ids count (length (lc_list c))) (lc_list c) Tc (flat all_kept p0 cps) ->
  nopair c_slash c_slash (flat all_kept p0 cps) = true -> hash_safe false (flat all_kept p0 cps) = true ->
  plain_in p0 = true -> forallb seg_ok cps = true ->
  map (fun cp => bcomment (fst cp)) cps = bc_list c ->
  flatD (bc_tab c) p0 cps = w1 ++ txt ++ w2 ->
  rendering (cdoc_toks fs (ph_doc count c)) txt -> ws_run w1 -> ws_run w2 ->
  parse_string true dirc count Tc = Ok (mkParsed (number count c) (count_after count c)).
Proof. exact parse_commented_on. Qed.
Print Assumptions C02_parse_commented_on_exact.

(* In terms of the tree kvs: the ORDINARY data of the result (comment placeholder entries dropped at every depth) is the
   tree, leaves as the classifier reads them -- the data C02_parse_commented gives for comments = false;  the canonical
   form of the result is the document c (every comment with its exact text at its place among the entries of its dict
   level);  the line comment table lists the comment texts in text order under consecutive ids from the counter, the
   block comment table the block comments numbered from zero;  the counter advances by the number of line comments and
   quoted literals. *)
Theorem C02_parse_commented_on : forall c kvs fs txt w1 w2 Tc p0 cps dirc count,
  cdoc_any c = true -> cstrip (Dict c) = Dict kvs -> Forall2 spelling fs (qstrs (Dict kvs)) -> (-1 <= count)%Z ->
  (Z.of_nat (length (lc_list c)) <= 1000000)%Z -> (Z.of_nat (length (bc_list c)) <= 1000000)%Z ->
  (Z.of_nat (nq (Dict kvs)) <= 1000000)%Z ->
  lcn true (ids count (length (lc_list c))) (lc_list c) Tc (flat all_kept p0 cps) ->
  nopair c_slash c_slash (flat all_kept p0 cps) = true -> hash_safe false (flat all_kept p0 cps) = true ->
  plain_in p0 = true -> forallb seg_ok cps = true ->
  map (fun cp => bcomment (fst cp)) cps = bc_list c ->
  flatD (bc_tab c) p0 cps = w1 ++ txt ++ w2 ->
  rendering (cdoc_toks fs (ph_doc count c)) txt -> ws_run w1 -> ws_run w2 ->
  exists p, parse_string true dirc count Tc = Ok p /\
    cstrip (Dict (sd_data (pr_sd p))) = map_leaves written_value (Dict kvs) /\
    canon (pr_sd p) = cwv c /\
    sd_lc (pr_sd p) = combine (ids count (length (lc_list c))) (lc_list c) /\
    sd_bc (pr_sd p) = number_from 0 (bc_list c) /\ sd_inc (pr_sd p) = [] /\ sd_expr (pr_sd p) = [] /\
    pr_count p = cafter (cafter count (length (lc_list c))) (nq (Dict kvs)).
Proof. exact parse_commented_on_data. Qed.
Print Assumptions C02_parse_commented_on.
(* non-vacuity (the document, the text and its decompositions: AnyLayoutCommentsOn, section E): nested dicts, a list with
   a quoted string (spelled with double quotes in the text), a block comment in front of the first statement, line comments
   on a line of their own / behind an opening brace (that line ends with CR LF) / behind a closing brace / at the end, block
   comments in front of a statement, behind a list (two lines long), as the only content of a nested dict, behind a closing
   brace (that line ends with CR LF), tabs and blanks; counter 5 *)
Example C02_parse_commented_on_nonvacuous :
  cdoc_any ex_on_doc = true /\ cstrip (Dict ex_on_doc) = Dict ex_on_tree /\
  lcn true (ids 5 (length (lc_list ex_on_doc))) (lc_list ex_on_doc) ex_on_Tc (flat all_kept ex_on_p0 ex_on_cps) /\
  flatD (bc_tab ex_on_doc) ex_on_p0 ex_on_cps = [c_lf] ++ ex_on_txt ++ [c_lf] /\
  rendering (cdoc_toks ex_on_fs (ph_doc 5 ex_on_doc)) ex_on_txt /\
  parse_string true [] 5 ex_on_Tc = Ok (mkParsed (number 5 ex_on_doc) (count_after 5 ex_on_doc)) /\
  (exists p, parse_string true [] 5 ex_on_Tc = Ok p /\
     cstrip (Dict (sd_data (pr_sd p))) = Dict ex_on_tree /\ canon (pr_sd p) = ex_on_doc /\
     sd_lc (pr_sd p) = [(6%N, of_string "// first comment, on a line of its own"); (7%N, of_string "// in a" ++ [c_cr]);
                        (8%N, of_string "// after sub"); (9%N, of_string "// end")] /\
     sd_bc (pr_sd p) = [(0%N, of_string "/* header */"); (1%N, of_string "/* before x */"); (2%N, bcomment ex_on_b2);
                        (3%N, of_string "/* only */"); (4%N, of_string "/* after a */")] /\
     pr_count p = 11%Z).
Proof.
  destruct ex_on_facts as (Hc & Ek & Hsp & HL & Hnp & Hhs & Hp0 & Hcps & Hbc & HT & HR).
  assert (H1 : ws_run [c_lf]) by on_ws_run_tac.
  assert (Hl : lit_list ex_on_doc = qstrs (Dict ex_on_tree)) by (vm_compute; reflexivity).
  assert (Hsp' : Forall2 spelling ex_on_fs (lit_list ex_on_doc)) by (rewrite Hl; exact Hsp).
  assert (N1 : (Z.of_nat (length (lc_list ex_on_doc)) <= 1000000)%Z) by (vm_compute; discriminate).
  assert (N2 : (Z.of_nat (length (bc_list ex_on_doc)) <= 1000000)%Z) by (vm_compute; discriminate).
  assert (N3 : (Z.of_nat (length (lit_list ex_on_doc)) <= 1000000)%Z) by (vm_compute; discriminate).
  assert (N4 : (Z.of_nat (nq (Dict ex_on_tree)) <= 1000000)%Z) by (vm_compute; discriminate).
  refine (conj Hc (conj Ek (conj HL (conj HT (conj HR (conj _ _)))))).
  - exact (C02_parse_commented_on_exact ex_on_doc ex_on_fs ex_on_txt _ _ ex_on_Tc ex_on_p0 ex_on_cps [] 5%Z Hc Hsp' ltac:(discriminate)
             N1 N2 N3 HL Hnp Hhs Hp0 Hcps Hbc HT HR H1 H1).
  - destruct (C02_parse_commented_on ex_on_doc ex_on_tree ex_on_fs ex_on_txt _ _ ex_on_Tc ex_on_p0 ex_on_cps [] 5%Z Hc Ek Hsp
                ltac:(discriminate) N1 N2 N4 HL Hnp Hhs Hp0 Hcps Hbc HT HR H1 H1) as (p & P & D & Cn & TL & TB & _ & _ & Pc).
    exists p. split; [exact P|].
    assert (Ew : map_leaves written_value (Dict ex_on_tree) = Dict ex_on_tree) by (vm_compute; reflexivity).
    assert (Ec : cwv ex_on_doc = ex_on_doc) by (vm_compute; reflexivity).
    rewrite Ew in D. rewrite Ec in Cn. split; [exact D|]. split; [exact Cn|].
    split; [rewrite TL; vm_compute; reflexivity|]. split; [rewrite TB; vm_compute; reflexivity|]. rewrite Pc. vm_compute. reflexivity.
Qed.

(* ... and by computation: both readings of the text, the ordinary part of the first is the second *)
Example C02_parse_commented_on_computed :
  match parse_string true [] 5 ex_on_Tc, parse_string false [] 5 ex_on_Tc with
  | Ok p, Ok q => cstrip (Dict (sd_data (pr_sd p))) = Dict (sd_data (pr_sd q)) /\ sd_data (pr_sd q) = ex_on_tree /\
                  sd_data (pr_sd p) <> sd_data (pr_sd q) /\ length (cms (Dict (sd_data (pr_sd p)))) = 9%nat /\
                  sd_lc (pr_sd p) = sd_lc (pr_sd q) /\ sd_bc (pr_sd p) = sd_bc (pr_sd q) /\ pr_count p = 11%Z /\ pr_count q = 11%Z
  | _, _ => False
  end.
Proof. vm_compute. repeat split; try reflexivity. discriminate. Qed.

(* ---- findings: what delimits the class (each evaluated on the model; 1-4 confirmed on the library itself) ----------- *)
(* the ordinary data read with comments = true (counter 0, as tree_read for comments = false) *)
Definition tree_read_on (text : str) : option (list (key * tree)) :=
  match parse_string true [] 0%Z text with Ok p => Some (kvs_of (cstrip (Dict (sd_data (pr_sd p))))) | Raise _ => None end.

(* 1. a block comment between a key and its value: with comments on THE ENTRY IS LOST (the placeholder token stops the
      backward collection of the key-value pair at the semicolon; "tokens skipped" is logged), with comments off it is read *)
Example C02_on_between_key_and_value_finding :
  tree_read_on (of_string "a /* c */ 1; b 2;") = Some [kv_b2] /\ tree_read (of_string "a /* c */ 1; b 2;") = Some [kv_a1; kv_b2].
Proof. split; vm_compute; reflexivity. Qed.
(* 2. the same with a line comment behind the key *)
Example C02_on_line_comment_behind_key_finding :
  tree_read_on (of_string "a // c
1; b 2;") = Some [kv_b2] /\ tree_read (of_string "a // c
1; b 2;") = Some [kv_a1; kv_b2].
Proof. split; vm_compute; reflexivity. Qed.
(* 3. a comment between the value and the semicolon: the entry is lost as well *)
Example C02_on_before_semicolon_finding :
  tree_read_on (of_string "a 1 /* c */ ; b 2;") = Some [kv_b2] /\ tree_read (of_string "a 1 /* c */ ; b 2;") = Some [kv_a1; kv_b2].
Proof. split; vm_compute; reflexivity. Qed.
(* 4. a comment inside a list: its placeholder becomes a list item *)
Example C02_on_inside_list_finding :
  tree_read_on (of_string "a ( 1 /* c */ 2 ); b 2;") =
    Some [(KS (of_string "a"), Lst [Leaf (SInt 1); Leaf (SStr (of_string "BLOCKCOMMENT000000")); Leaf (SInt 2)]); kv_b2] /\
  tree_read (of_string "a ( 1 /* c */ 2 ); b 2;") = Some [(KS (of_string "a"), Lst [Leaf (SInt 1); Leaf (SInt 2)]); kv_b2].
Proof. split; vm_compute; reflexivity. Qed.
(* 5. harmless although not at a statement boundary (outside the class of the theorem, the ordinary data is right): a
      comment between a key and the opening brace of its dict, between a list and its semicolon *)
Example C02_on_harmless_elsewhere :
  tree_read_on (of_string "a // c
{ x 1; } b 2;") = Some [(KS (of_string "a"), Dict [(KS (of_string "x"), Leaf (SInt 1))]); kv_b2] /\
  tree_read_on (of_string "a ( 1 2 ) /* c */ ; b 2;") = Some [(KS (of_string "a"), Lst [Leaf (SInt 1); Leaf (SInt 2)]); kv_b2].
Proof. split; vm_compute; reflexivity. Qed.
(* 6. two equal block comments in one dict: both get the placeholder of the first, the parser keeps one entry, the table
      lists both -- the ordinary data is right, but the result is not number count c (hence NoDup (bc_list c) in cdoc_any);
      two equal line comments in one dict: SDict._clean drops the second entry and its table row (C12_finding_equal_line_comments) *)
Example C02_on_equal_block_comments_finding :
  match parse_string true [] 0%Z (of_string "/* c */ a 1; /* c */ b 2;") with
  | Ok p => map fst (sd_data (pr_sd p)) = [KS (of_string "BLOCKCOMMENT000000"); KS (of_string "a"); KS (of_string "b")] /\
            sd_bc (pr_sd p) = [(0%N, of_string "/* c */"); (1%N, of_string "/* c */")] /\
            cstrip (Dict (sd_data (pr_sd p))) = Dict [kv_a1; kv_b2]
  | Raise _ => False
  end.
Proof. vm_compute. repeat split; reflexivity. Qed.
(* 7. the placements excluded by the side conditions on the text (C02_comment_counterexamples, comments = false) change
      the ordinary data with comments = true as well *)
Example C02_on_comment_counterexamples :
  tree_read_on (of_string "a 1; /* c */ // d
b 2;") = Some [kv_a1; kv_b2] /\
  tree_read_on (of_string "a/* c */1; b 2;") = Some [kv_b2] /\
  tree_read_on (of_string "a// c" ++ [c_cr] ++ of_string "1; b 2;") = Some [kv_b2] /\
  tree_read_on (of_string "a 1; /* c *//* d */ b 2;") = Some [kv_a1] /\
  tree_read_on (of_string "a 1; /* c // d */ b 2;") = Some [kv_a1] /\
  tree_read_on (of_string "a 1; /*y*/ b /*x/*y*/ 2;") = Some [kv_a1].
Proof. repeat split; vm_compute; reflexivity. Qed.

(* ================================================================================================== *)
(* non-vacuity examples added after the reviewer's audit (Properties/C02_nv.v, 2026-10-01)         *)
(* ================================================================================================== *)

(* ==== non-vacuity instances obtained BY APPLYING the theorems above (added after review) ================== *)
From Coq Require Import Lia.

(* C02_comment_counterexamples is a closed statement (seven computed readings); what makes them counterexamples: the
   same document without the comment reads as both entries, the reading with the glued block comment (second conjunct
   of the theorem) loses the first one *)
Example C02_comment_counterexamples_nonvacuous :
  tree_read (of_string "a 1; b 2;") = Some [kv_a1; kv_b2] /\
  tree_read (of_string "a/* c */1; b 2;") = Some [kv_b2] /\
  tree_read (of_string "a /* c // d */ 1; b 2;") = Some [] /\
  [kv_a1; kv_b2] <> [kv_b2].
Proof.
  pose proof C02_comment_counterexamples as (_ & H2 & _ & _ & H5 & _).
  refine (conj _ (conj H2 (conj H5 _))); [vm_compute; reflexivity | discriminate].
Qed.

(* C02_parser_terminates on the three malformed token lists computed above: the theorem gives <> Raise E_Fuel, the
   computation shows which outcome it is *)
Example C02_parser_terminates_applied :
  let t1 := toks ["LINECOMMENT000001"; "BLOCKCOMMENT000002"; "{"]%string in
  let t2 := toks ["}"; ";"; "a"; "("; "b"; ")"; ";"; "{"; "c"; "{"; "}"]%string in
  let t3 := toks ["LINECOMMENT000001"; "a"; "("; "("; ")"; "{"; "}"; "1"; ")"; ";"; ";"; "b"; "2"; ";"; ")"]%string in
  (parse_tokens t1 <> Raise E_Fuel /\ parse_tokens t2 <> Raise E_Fuel /\ parse_tokens t3 <> Raise E_Fuel) /\
  parse_tokens t1 = Raise E_Index /\ parse_tokens t2 = Raise E_Index /\
  parse_tokens t3 = Ok [(KS (of_string "LINECOMMENT000001"), Leaf (SStr (of_string "LINECOMMENT000001")));
                        (KS (of_string "a"), Lst [Lst []; Dict []; Leaf (SInt 1)]); (KS (of_string "b"), Leaf (SInt 2))].
Proof.
  intros t1 t2 t3. split.
  - exact (conj (C02_parser_terminates t1) (conj (C02_parser_terminates t2) (C02_parser_terminates t3))).
  - vm_compute. repeat split; reflexivity.
Qed.

(* C02_helpers_terminate with the smallest fuel it allows (2 * 3 + 1 = 7) on the all-comment token list: the three
   helpers, started at the positions whose walks are the longest (the backward walks wrap around the list end) *)
Example C02_helpers_terminate_applied :
  let ts := levels (map of_string ["LINECOMMENT000001"; "BLOCKCOMMENT000002"; "LINECOMMENT000003"]%string) in
  (2 * length ts + 1 <= 7)%nat /\
  (key_index 7 ts 2%Z 1%Z <> Raise E_Fuel /\ key_index 7 ts 3%Z 1%Z <> Raise E_Fuel /\
   check_dict_end 7 ts (-2)%Z <> Raise E_Fuel /\ check_dict_end 7 ts (-1)%Z <> Raise E_Fuel /\
   collect_struct 7 ts 0%Z 0%Z (of_string "}") 0%Z [] <> Raise E_Fuel) /\
  key_index 7 ts 2%Z 1%Z = Raise E_Index /\ key_index 6 ts 3%Z 1%Z = Raise E_Fuel /\ check_dict_end 7 ts (-2)%Z = Raise E_Index.
Proof.
  intros ts.
  assert (Hf : (2 * length ts + 1 <= 7)%nat) by (vm_compute; repeat constructor).
  destruct (C02_helpers_terminate ts 7 Hf) as (Hk & Hc & Hs).
  refine (conj Hf (conj (conj _ (conj _ (conj _ (conj _ _)))) _)).
  - apply Hk; vm_compute; discriminate.
  - apply Hk; vm_compute; discriminate.
  - apply Hc; reflexivity.
  - apply Hc; reflexivity.
  - apply Hs; vm_compute; discriminate.
  - vm_compute. repeat split; reflexivity.
Qed.

(* C02_parse_string_terminates itself (not its checked corollary): literal 1 mentions the placeholder of literal 2, a
   list with a quoted element, a stray closing brace; counter five steps before nothing special and at the wrap-around *)
Example C02_parse_string_terminates_applied :
  let text := of_string "a 'x STRINGLITERAL000002'; b 'y'; c ( 1 'two words' ) ; } ;" in
  Forall literal_ok (lxd_lit (lex true [] 0%Z text)) /\ parse_string true [] 0%Z text <> Raise E_Fuel /\
  Forall literal_ok (lxd_lit (lex true [] 999998%Z text)) /\ parse_string true [] 999998%Z text <> Raise E_Fuel /\
  lxd_lit (lex true [] 999998%Z text) = [(999999%N, of_string "x STRINGLITERAL000002"); (0%N, of_string "y"); (1%N, of_string "two words")].
Proof.
  intros text.
  assert (H0 : Forall literal_ok (lxd_lit (lex true [] 0%Z text))) by (apply literals_okb_ok; vm_compute; reflexivity).
  assert (H1 : Forall literal_ok (lxd_lit (lex true [] 999998%Z text))) by (apply literals_okb_ok; vm_compute; reflexivity).
  refine (conj H0 (conj (C02_parse_string_terminates _ _ _ _ H0) (conj H1 (conj (C02_parse_string_terminates _ _ _ _ H1) _)))).
  vm_compute. reflexivity.
Qed.

(* the two corollaries with the "no literal contains the word STRINGLITERAL" form of the side condition: literals with
   blanks, an apostrophe, double quotes; placeholders of two literals in a nested dict and in a list; the counter at its
   last six-digit value (the ids are 0, 1, 2) *)
Example C02_insert_literals_terminate_no_word_nonvacuous :
  let lits := [(999999%N, of_string "x y"); (0%N, of_string "it's ""so"" now"); (1%N, of_string "unused")] in
  let d := [(KS (of_string "a"), Leaf (SStr (of_string "STRINGLITERAL999999")));
            (KI 3, Dict [(KS (of_string "b"), Lst [Leaf (SStr (of_string "STRINGLITERAL000000")); Leaf (SInt 1)]);
                         (KS (of_string "c"), Leaf (SStr (of_string "STRINGLITERAL999999")))])] in
  wf (Dict d) = true /\ Forall (fun e => contains w_STRINGLITERAL (snd e) = false) lits /\
  insert_string_literals lits d <> Raise E_Fuel /\
  insert_string_literals lits d =
    Ok [(KS (of_string "a"), Leaf (SStr (of_string "x y")));
        (KI 3, Dict [(KS (of_string "b"), Lst [Leaf (SStr (of_string "it's ""so"" now")); Leaf (SInt 1)]);
                     (KS (of_string "c"), Leaf (SStr (of_string "x y")))])].
Proof.
  intros lits d.
  assert (H1 : wf (Dict d) = true) by (vm_compute; reflexivity).
  assert (H2 : Forall (fun e => contains w_STRINGLITERAL (snd e) = false) lits)
    by (repeat (constructor; [vm_compute; reflexivity|]); constructor).
  refine (conj H1 (conj H2 (conj (C02_insert_literals_terminate_no_word lits d H1 H2) _))). vm_compute. reflexivity.
Qed.

Example C02_parse_string_terminates_no_word_nonvacuous :
  let text := of_string "a 'x y'; 3 { b ( ""it's"" 1 ); c 'two  words'; } // done" in
  Forall (fun e => contains w_STRINGLITERAL (snd e) = false) (lxd_lit (lex true [] 999999%Z text)) /\
  parse_string true [] 999999%Z text <> Raise E_Fuel /\
  lxd_lit (lex true [] 999999%Z text) = [(1%N, of_string "x y"); (2%N, of_string "it's"); (3%N, of_string "two  words")].
Proof.
  intros text.
  assert (E : lxd_lit (lex true [] 999999%Z text) = [(1%N, of_string "x y"); (2%N, of_string "it's"); (3%N, of_string "two  words")])
    by (vm_compute; reflexivity).
  assert (H : Forall (fun e => contains w_STRINGLITERAL (snd e) = false) (lxd_lit (lex true [] 999999%Z text)))
    by (rewrite E; repeat (constructor; [vm_compute; reflexivity|]); constructor).
  exact (conj H (conj (C02_parse_string_terminates_no_word _ _ _ _ H) E)).
Qed.
