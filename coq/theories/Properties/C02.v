(* C02  Native reader is layout-tolerant (token level) and literal spellings are equivalent. *)
From Coq Require Import String.   (* string literals of the closing example; imported first so the list names win *)
From Coq Require Import NArith ZArith List Bool.
From DictIO Require Import Chars Str Value Scalar Lexer LayoutSpec LayoutProofs.
Import ListNotations.

(* ---- tactics for the non-vacuity examples: build [Forall lexeme], [ws_run] and [rendering] derivations for concrete
   lexeme lists and texts (the white space run after each lexeme is read off the text) ------------------------------ *)
Ltac ws_run_tac := repeat (constructor; [reflexivity|]); constructor.
Ltac lexeme_tac :=
  first [ left; eexists; split; reflexivity
        | right; split; [discriminate | repeat (constructor; [split; reflexivity|]); constructor] ].
Ltac lexemes_tac := repeat (constructor; [lexeme_tac|]); constructor.
Ltac gap_tac :=
  first [ left; discriminate | right; left; eexists; split; reflexivity | right; right; eexists; split; reflexivity ].
Ltac rendering_tac :=
  lazymatch goal with
  | |- rendering [] _ => apply r_nil
  | |- rendering [?x] _ => apply r_one
  | |- rendering (?x :: ?y :: ?l) ?t =>
      let w := eval vm_compute in (fst (span is_space (drop_n (length x) t))) in
      let r := eval vm_compute in (snd (span is_space (drop_n (length x) t))) in
      change t with (x ++ w ++ r);
      apply r_cons; [ rendering_tac | ws_run_tac | gap_tac ]
  end.

(* whatever white space (blanks, tabs, LF, CRLF, any amount) separates the lexemes, and whether or not delimiters
   are glued to their neighbours: delimiter separation + tokenising yields exactly the lexeme list *)
Theorem C02_layout_tokens : forall ls txt w1 w2, Forall lexeme ls -> rendering ls txt -> ws_run w1 -> ws_run w2 ->
  filter nonempty (tokenize (separate_delimiters (w1 ++ txt ++ w2))) = ls.
Proof. exact layout_tokens. Qed.
Print Assumptions C02_layout_tokens.

(* non-vacuity: twelve lexemes (words, a float, a quoted placeholder-like word, all kinds of delimiters), rendered with
   blanks, tabs, LF, CRLF, a no-break space and glued delimiters, surrounded by white space *)
Example C02_layout_tokens_nonvacuous :
  let ls := map of_string ["a"; "{"; "b.c"; "-1.5e3"; ";"; "c"; "("; "1"; "x'y"; ")"; ";"; "}"]%string in
  let txt := of_string "a{b.c" ++ [c_tab; c_sp] ++ of_string "-1.5e3;" ++ [c_cr; c_lf] ++ of_string "c  (1" ++ [160%N] ++ of_string "x'y);" ++ [c_lf] ++ of_string "}" in
  let w1 := [c_sp; c_lf; c_tab] in let w2 := [c_cr; c_lf; c_sp] in
  Forall lexeme ls /\ rendering ls txt /\ ws_run w1 /\ ws_run w2 /\
  filter nonempty (tokenize (separate_delimiters (w1 ++ txt ++ w2))) = ls.
Proof.
  intros ls txt w1 w2.
  assert (H1 : Forall lexeme ls) by (let v := eval vm_compute in ls in change (Forall lexeme v); lexemes_tac).
  assert (H2 : rendering ls txt) by (let v := eval vm_compute in ls in let t := eval vm_compute in txt in change (rendering v t); rendering_tac).
  assert (H3 : ws_run w1) by (let v := eval vm_compute in w1 in change (ws_run v); ws_run_tac).
  assert (H4 : ws_run w2) by (let v := eval vm_compute in w2 in change (ws_run v); ws_run_tac).
  exact (conj H1 (conj H2 (conj H3 (conj H4 (C02_layout_tokens ls txt w1 w2 H1 H2 H3 H4))))).
Qed.

(* hence two renderings of the same lexemes tokenise alike *)
Theorem C02_layout_independent : forall ls a b, Forall lexeme ls -> rendering ls a -> rendering ls b ->
  filter nonempty (tokenize (separate_delimiters a)) = filter nonempty (tokenize (separate_delimiters b)).
Proof. exact layout_independent. Qed.
Print Assumptions C02_layout_independent.

(* non-vacuity: the same nine lexemes laid out compactly and generously (two different derivations of [rendering]) *)
Example C02_layout_independent_nonvacuous :
  let ls := map of_string ["a"; "{"; "b"; "1"; ";"; "c"; "("; ")"; "}"]%string in
  let a := of_string "a{b 1;c()}" in
  let b := of_string "a" ++ [c_lf] ++ of_string "{" ++ [c_lf; c_sp; c_sp] ++ of_string "b" ++ [c_tab; c_tab] ++ of_string "1 ;" ++ [c_cr; c_lf] ++ of_string "c ( ) }" in
  Forall lexeme ls /\ rendering ls a /\ rendering ls b /\ a <> b /\
  filter nonempty (tokenize (separate_delimiters a)) = filter nonempty (tokenize (separate_delimiters b)).
Proof.
  intros ls a b.
  assert (H1 : Forall lexeme ls) by (let v := eval vm_compute in ls in change (Forall lexeme v); lexemes_tac).
  assert (H2 : rendering ls a) by (let v := eval vm_compute in ls in let t := eval vm_compute in a in change (rendering v t); rendering_tac).
  assert (H3 : rendering ls b) by (let v := eval vm_compute in ls in let t := eval vm_compute in b in change (rendering v t); rendering_tac).
  refine (conj H1 (conj H2 (conj H3 (conj _ (C02_layout_independent ls a b H1 H2 H3))))).
  vm_compute. discriminate.
Qed.

(* accepted spellings of booleans and none, in any letter case *)
Theorem C02_bool_spellings : forall s,
  ((lower s = w_true \/ lower s = w_on) -> parse_value s = Ok (SBool true)) /\
  ((lower s = w_false \/ lower s = w_off) -> parse_value s = Ok (SBool false)) /\
  ((lower s = w_none \/ lower s = w_null) -> parse_value s = Ok SNone).
Proof. exact bool_none_spellings. Qed.
Print Assumptions C02_bool_spellings.

(* the premises of the three implications are met by mixed-case spellings *)
Example C02_bool_spellings_nonvacuous :
  (lower (of_string "TrUe") = w_true /\ lower (of_string "ON") = w_on /\ lower (of_string "False") = w_false /\
   lower (of_string "oFF") = w_off /\ lower (of_string "None") = w_none /\ lower (of_string "NULL") = w_null) /\
  (parse_value (of_string "TrUe") = Ok (SBool true) /\ parse_value (of_string "ON") = Ok (SBool true) /\
   parse_value (of_string "False") = Ok (SBool false) /\ parse_value (of_string "oFF") = Ok (SBool false) /\
   parse_value (of_string "None") = Ok SNone /\ parse_value (of_string "NULL") = Ok SNone).
Proof.
  assert (H : lower (of_string "TrUe") = w_true /\ lower (of_string "ON") = w_on /\ lower (of_string "False") = w_false /\
              lower (of_string "oFF") = w_off /\ lower (of_string "None") = w_none /\ lower (of_string "NULL") = w_null)
    by (vm_compute; repeat split; reflexivity).
  split; [exact H|]. destruct H as (H1 & H2 & H3 & H4 & H5 & H6).
  refine (conj _ (conj _ (conj _ (conj _ (conj _ _))))).
  - exact (proj1 (C02_bool_spellings _) (or_introl H1)).
  - exact (proj1 (C02_bool_spellings _) (or_intror H2)).
  - exact (proj1 (proj2 (C02_bool_spellings _)) (or_introl H3)).
  - exact (proj1 (proj2 (C02_bool_spellings _)) (or_intror H4)).
  - exact (proj2 (proj2 (C02_bool_spellings _)) (or_introl H5)).
  - exact (proj2 (proj2 (C02_bool_spellings _)) (or_intror H6)).
Qed.

Example C02_example :
  filter nonempty (tokenize (separate_delimiters (of_string "a{b  1;c(1 2);}"))) =
  filter nonempty (tokenize (separate_delimiters (of_string " a {
 b 1 ;	c ( 1   2 ) ; } "))).
Proof. vm_compute. reflexivity. Qed.
