(* C02  Native reader is layout-tolerant (token level) and literal spellings are equivalent. *)
From Coq Require Import String.   (* string literals of the closing example; imported first so the list names win *)
From Coq Require Import NArith ZArith List Bool.
From DictIO Require Import Chars Str Value Scalar Lexer LayoutSpec LayoutProofs.
Import ListNotations.

(* whatever white space (blanks, tabs, LF, CRLF, any amount) separates the lexemes, and whether or not delimiters
   are glued to their neighbours: delimiter separation + tokenising yields exactly the lexeme list *)
Theorem C02_layout_tokens : forall ls txt w1 w2, Forall lexeme ls -> rendering ls txt -> ws_run w1 -> ws_run w2 ->
  filter nonempty (tokenize (separate_delimiters (w1 ++ txt ++ w2))) = ls.
Proof. exact layout_tokens. Qed.
Print Assumptions C02_layout_tokens.

(* hence two renderings of the same lexemes tokenise alike *)
Theorem C02_layout_independent : forall ls a b, Forall lexeme ls -> rendering ls a -> rendering ls b ->
  filter nonempty (tokenize (separate_delimiters a)) = filter nonempty (tokenize (separate_delimiters b)).
Proof. exact layout_independent. Qed.
Print Assumptions C02_layout_independent.

(* accepted spellings of booleans and none, in any letter case *)
Theorem C02_bool_spellings : forall s,
  ((lower s = w_true \/ lower s = w_on) -> parse_value s = Ok (SBool true)) /\
  ((lower s = w_false \/ lower s = w_off) -> parse_value s = Ok (SBool false)) /\
  ((lower s = w_none \/ lower s = w_null) -> parse_value s = Ok SNone).
Proof. exact bool_none_spellings. Qed.
Print Assumptions C02_bool_spellings.

Example C02_example :
  filter nonempty (tokenize (separate_delimiters (of_string "a{b  1;c(1 2);}"))) =
  filter nonempty (tokenize (separate_delimiters (of_string " a {
 b 1 ;	c ( 1   2 ) ; } "))).
Proof. vm_compute. reflexivity. Qed.
