(* C16  Append mode never loses what is already in the file; overwrite mode replaces it (data level; the
   file round trip itself is C01 / C10 / C09 and the byte-level write step is tied by the check). *)
From Coq Require Import String.   (* string literals of the examples; imported first so the list names win *)
From Coq Require Import NArith ZArith List Bool.
From DictIO Require Import Chars Str Value Scalar KeyPath SDict TreeSpec MiscSpec SDictProofs CliProofs.
Import ListNotations.

(* data of the non-vacuity examples: the file content [s] and two dicts appended to it *)
Module C16_ex.
  Definition ka := KS (of_string "a").  Definition kb := KS (of_string "b").
  Definition kc := KS (of_string "c").  Definition kd := KS (of_string "d").
  Definition one := Leaf (SInt 1).  Definition two := Leaf (SInt 2).
  Definition s : list (key * tree) := [(ka, Dict [(kb, one); (kc, Lst [one])]); (kc, two)].
  Definition d1 : list (key * tree) :=
    [(kd, one); (ka, Dict [(kb, two); (kd, Dict [(ka, two)]); (kc, Dict [(ka, one)])]); (kc, Dict [(ka, one)])].
  Definition d2 : list (key * tree) := [(ka, Dict [(kb, Lst []); (kd, Dict [(kb, one)])]); (kb, two)].
End C16_ex.

(* whatever the sequence of writes: after an append every leaf that was in the file is still there *)
Theorem C16_append_keeps : forall s d p v,
  get_dpath (Dict s) p = Some (Leaf v) ->
  exists s', spec_write (Some s) (d, true) = Some s' /\ get_dpath (Dict s') p = Some (Leaf v).
Proof. exact append_keeps. Qed.
Print Assumptions C16_append_keeps.

Example C16_append_keeps_nonvacuous :
  get_dpath (Dict C16_ex.s) [C16_ex.ka; C16_ex.kb] = Some (Leaf (SInt 1)) /\
  get_dpath (Dict C16_ex.d1) [C16_ex.ka; C16_ex.kb] = Some (Leaf (SInt 2)) /\
  exists s', spec_write (Some C16_ex.s) (C16_ex.d1, true) = Some s' /\ s' <> C16_ex.s /\
             get_dpath (Dict s') [C16_ex.ka; C16_ex.kb] = Some (Leaf (SInt 1)).
Proof.
  assert (H : get_dpath (Dict C16_ex.s) [C16_ex.ka; C16_ex.kb] = Some (Leaf (SInt 1))) by (vm_compute; reflexivity).
  refine (conj H (conj _ _)); [vm_compute; reflexivity|].
  destruct (C16_append_keeps C16_ex.s C16_ex.d1 _ _ H) as [s' [E1 E2]].
  exists s'. refine (conj E1 (conj _ E2)). vm_compute in E1. injection E1 as <-. vm_compute. discriminate.
Qed.

(* ... for every number of further appends *)
Theorem C16_appends_keep : forall ds s p v,
  get_dpath (Dict s) p = Some (Leaf v) ->
  exists s', spec_writes (map (fun d => (d, true)) ds) (Some s) = Some s' /\ get_dpath (Dict s') p = Some (Leaf v).
Proof. exact appends_keep. Qed.
Print Assumptions C16_appends_keep.

Example C16_appends_keep_nonvacuous :
  get_dpath (Dict C16_ex.s) [C16_ex.ka; C16_ex.kb] = Some (Leaf (SInt 1)) /\
  exists s', spec_writes (map (fun d => (d, true)) [C16_ex.d1; C16_ex.d2; C16_ex.d1]) (Some C16_ex.s) = Some s' /\
             get_dpath (Dict s') [C16_ex.ka; C16_ex.kb] = Some (Leaf (SInt 1)) /\
             get_dpath (Dict s') [C16_ex.ka; C16_ex.kd; C16_ex.kb] = Some (Leaf (SInt 1)).
Proof.
  assert (H : get_dpath (Dict C16_ex.s) [C16_ex.ka; C16_ex.kb] = Some (Leaf (SInt 1))) by (vm_compute; reflexivity).
  split; [exact H|].
  destruct (C16_appends_keep [C16_ex.d1; C16_ex.d2; C16_ex.d1] C16_ex.s _ _ H) as [s' [E1 E2]].
  exists s'. refine (conj E1 (conj E2 _)). vm_compute in E1. injection E1 as <-. vm_compute. reflexivity.
Qed.

(* overwrite (and any write to a file that does not exist) makes the file contain exactly the new dict *)
Theorem C16_overwrite : forall st d, spec_write st (d, false) = Some d /\ spec_write None (d, true) = Some d.
Proof. exact overwrite_replaces. Qed.
Print Assumptions C16_overwrite.

(* every key path of the appended dict is present afterwards unless an existing non-dict entry is in its way *)
Theorem C16_append_adds : forall s d p x, wf (Dict d) = true -> get_dpath (Dict d) p = Some x ->
  exists s', spec_write (Some s) (d, true) = Some s' /\
  ((exists y, get_dpath (Dict s') p = Some y) \/
   (exists r t, strict_prefix r p /\ r <> [] /\ get_dpath (Dict s) r = Some t /\ (forall kvs, t <> Dict kvs))).
Proof. exact append_adds. Qed.
Print Assumptions C16_append_adds.

(* non-vacuity: both alternatives occur -- a.d.a is added, c.a is blocked by the existing leaf c *)
Example C16_append_adds_nonvacuous :
  wf (Dict C16_ex.d1) = true /\
  get_dpath (Dict C16_ex.d1) [C16_ex.ka; C16_ex.kd; C16_ex.ka] = Some C16_ex.two /\
  get_dpath (Dict C16_ex.d1) [C16_ex.kc; C16_ex.ka] = Some C16_ex.one /\
  exists s', spec_write (Some C16_ex.s) (C16_ex.d1, true) = Some s' /\
    get_dpath (Dict s') [C16_ex.ka; C16_ex.kd; C16_ex.ka] = Some C16_ex.two /\
    get_dpath (Dict s') [C16_ex.kc; C16_ex.ka] = None /\
    ((exists y, get_dpath (Dict s') [C16_ex.kc; C16_ex.ka] = Some y) \/
     (exists r t, strict_prefix r [C16_ex.kc; C16_ex.ka] /\ r <> [] /\ get_dpath (Dict C16_ex.s) r = Some t /\ (forall kvs, t <> Dict kvs))).
Proof.
  assert (H1 : wf (Dict C16_ex.d1) = true) by (vm_compute; reflexivity).
  assert (H2 : get_dpath (Dict C16_ex.d1) [C16_ex.kc; C16_ex.ka] = Some C16_ex.one) by (vm_compute; reflexivity).
  refine (conj H1 (conj _ (conj H2 _))); [vm_compute; reflexivity|].
  destruct (C16_append_adds C16_ex.s C16_ex.d1 _ _ H1 H2) as [s' [E1 E2]].
  exists s'. refine (conj E1 (conj _ (conj _ E2))); vm_compute in E1; injection E1 as <-; vm_compute; reflexivity.
Qed.

(* ================================================================================================================ *)
(* The same for the MODEL's write step Reader.write_text (DictWriter.write up to the text handed to the file):       *)
(* the theorems above speak of spec_write only.                                                                     *)
(* ================================================================================================================ *)
From DictIO Require Import Layout Lexer TokParser Reader WriteProofs.

Module C16_mex.
  Definition ks (s : string) : key := KS (of_string s).
  Definition sv (s : string) : tree := Leaf (SStr (of_string s)).
  Definition pth := of_string "/r/parsed.f".
  (* the existing file: a line comment at the top level (which also becomes the place of the default header) and one
     inside b -- what is read back is NOT ordinary data *)
  Definition text := of_string "// first comment
a 1;
b { x 2; // inner
 y 'hello'; }
".
  (* the source dict, values still strings (parse_values types them): clashes with a and b.x, new c and b.z *)
  Definition d : list (key * tree) := [(ks "a", sv "5"); (ks "c", sv "7"); (ks "b", Dict [(ks "x", sv "9"); (ks "z", sv "3")])].
  Definition d_typed : list (key * tree) :=
    [(ks "a", Leaf (SInt 5)); (ks "c", Leaf (SInt 7)); (ks "b", Dict [(ks "x", Leaf (SInt 9)); (ks "z", Leaf (SInt 3))])].
  Definition appended : str := native_header ++ of_string "// first comment
a                             1;
b
{
    x                         2;
    // inner
    y                         hello;
    z                         3;
}
c                             7;
".
  Definition overwritten : str := of_string "a                             5;
c                             7;
b
{
    x                         9;
    z                         3;
}
".
End C16_mex.

(* overwrite mode, and append mode when the target does not exist: the text is the serialisation of the source dict
   (after parse_values), whatever the target held; parse_values raising is the only way to fail *)
Theorem C16_write_text_overwrite : forall foam path existing d,
  (forall d', parse_values_tree (Dict d) = Ok (Dict d') ->
     write_text foam path existing false d = Ok (if foam then foam_to_string_plain d' else to_string_plain d') /\
     write_text foam path None true d = Ok (if foam then foam_to_string_plain d' else to_string_plain d')) /\
  (forall e, parse_values_tree (Dict d) = Raise e ->
     write_text foam path existing false d = Raise e /\ write_text foam path None true d = Raise e) /\
  ((exists d', parse_values_tree (Dict d) = Ok (Dict d')) \/ (exists e, parse_values_tree (Dict d) = Raise e)).
Proof. exact write_text_overwrite. Qed.
Print Assumptions C16_write_text_overwrite.

(* non-vacuity: the existing content cannot even be parsed, and plays no role *)
Example C16_write_text_overwrite_nonvacuous :
  parse_values_tree (Dict C16_mex.d) = Ok (Dict C16_mex.d_typed) /\
  to_string_plain C16_mex.d_typed = C16_mex.overwritten /\
  write_text false C16_mex.pth (Some (of_string "{{{ garbage")) false C16_mex.d = Ok C16_mex.overwritten /\
  write_text false C16_mex.pth (Some C16_mex.text) false C16_mex.d = Ok C16_mex.overwritten /\
  write_text false C16_mex.pth None true C16_mex.d = Ok C16_mex.overwritten.
Proof.
  assert (H : parse_values_tree (Dict C16_mex.d) = Ok (Dict C16_mex.d_typed)) by (vm_compute; reflexivity).
  assert (E : to_string_plain C16_mex.d_typed = C16_mex.overwritten) by (vm_compute; reflexivity).
  destruct (C16_write_text_overwrite false C16_mex.pth (Some (of_string "{{{ garbage")) C16_mex.d) as [A _].
  destruct (C16_write_text_overwrite false C16_mex.pth (Some C16_mex.text) C16_mex.d) as [B _].
  destruct (A _ H) as [A1 A2]. destruct (B _ H) as [B1 _]. cbv iota in A1, A2, B1. rewrite E in A1, A2, B1.
  exact (conj H (conj E (conj A1 (conj B1 A2)))).
Qed.

(* append onto an existing target: the text is the serialisation of [what is read back from the target] merged with
   the source dict (after parse_values); the read-back state is well formed (unique keys at every level -- proved for
   the parser, the clean-up and the include merging), the merged state keeps every leaf of the read-back state under
   ordinary keys and contains every new top-level key of the source.
   Side conditions, both satisfied by the example below:
   - the leaf is not a top-level value referring to its own key (merge replaces such an entry on purpose, see
     C07_merge_self_reference_is_replaced; the expressions table of the read-back state is empty, so the test is on
     the value as it stands);
   - wf of the source dict (unique keys, a Python dict invariant), for the second part. *)
Theorem C16_write_text_append : forall foam path text d txt,
  write_text foam path (Some text) true d = Ok txt ->
  exists s_old c d',
    read_plain [(norm_path path, FNative text)] path true true (-1)%Z = Ok (s_old, c) /\
    parse_values_tree (Dict d) = Ok (Dict d') /\
    map fst d' = map fst d /\
    sd_expr s_old = [] /\
    wf (Dict (sd_data s_old)) = true /\
    txt = (if foam then foam_to_string_sd (sd_merge s_old d' None) else to_string_sd (sd_merge s_old d' None)) /\
    (forall p v, forallb ordinary_key p = true ->
       get_dpath (Dict (sd_data s_old)) p = Some (Leaf v) ->
       match p with [k] => circular k (Leaf v) | _ => false end = false ->
       get_dpath (Dict (sd_data (sd_merge s_old d' None))) p = Some (Leaf v)) /\
    (forall k x, ordinary_key k = true -> wf (Dict d) = true ->
       alookup k (sd_data s_old) = None -> alookup k d' = Some x -> (forall kvs, x <> Dict kvs) ->
       alookup k (sd_data (sd_merge s_old d' None)) = Some x).
Proof. exact write_text_append. Qed.
Print Assumptions C16_write_text_append.

(* what is read back from a file tree of native files is well formed, whatever the text (used above) *)
Theorem C16_read_back_wf : forall fs root inc com count s c, native_fs fs = true ->
  read_plain fs root inc com count = Ok (s, c) -> wf (Dict (sd_data s)) = true.
Proof. exact read_plain_wf. Qed.
Print Assumptions C16_read_back_wf.

(* non-vacuity: the append succeeds with the expected text; the read-back state holds placeholder keys (it is not
   ordinary), and the existing leaves a and b.x -- both clashing with the source -- as well as b.y are obtained from
   the theorem, as is the new key c *)
Example C16_write_text_append_nonvacuous :
  write_text false C16_mex.pth (Some C16_mex.text) true C16_mex.d = Ok C16_mex.appended /\
  exists s_old c d',
    read_plain [(norm_path C16_mex.pth, FNative C16_mex.text)] C16_mex.pth true true (-1)%Z = Ok (s_old, c) /\
    parse_values_tree (Dict C16_mex.d) = Ok (Dict d') /\ d' = C16_mex.d_typed /\
    ordinary_kvs (sd_data s_old) = false /\ wf (Dict (sd_data s_old)) = true /\ wf (Dict C16_mex.d) = true /\
    get_dpath (Dict (sd_data s_old)) [C16_mex.ks "b"; C16_mex.ks "x"] = Some (Leaf (SInt 2)) /\
    get_dpath (Dict d') [C16_mex.ks "b"; C16_mex.ks "x"] = Some (Leaf (SInt 9)) /\
    alookup (C16_mex.ks "c") (sd_data s_old) = None /\
    get_dpath (Dict (sd_data (sd_merge s_old d' None))) [C16_mex.ks "b"; C16_mex.ks "x"] = Some (Leaf (SInt 2)) /\
    get_dpath (Dict (sd_data (sd_merge s_old d' None))) [C16_mex.ks "b"; C16_mex.ks "y"] = Some (Leaf (SStr (of_string "hello"))) /\
    get_dpath (Dict (sd_data (sd_merge s_old d' None))) [C16_mex.ks "a"] = Some (Leaf (SInt 1)) /\
    alookup (C16_mex.ks "c") (sd_data (sd_merge s_old d' None)) = Some (Leaf (SInt 7)).
Proof.
  assert (Hw : write_text false C16_mex.pth (Some C16_mex.text) true C16_mex.d = Ok C16_mex.appended) by (vm_compute; reflexivity).
  split; [exact Hw|].
  destruct (C16_write_text_append _ _ _ _ _ Hw) as [s_old [c [d' [Er [Ed [_ [_ [H2 [_ [Hkeep Hadd]]]]]]]]]].
  exists s_old, c, d'. split; [exact Er|]. split; [exact Ed|].
  assert (Ed' : d' = C16_mex.d_typed).
  { assert (E : parse_values_tree (Dict C16_mex.d) = Ok (Dict C16_mex.d_typed)) by (vm_compute; reflexivity).
    rewrite E in Ed. injection Ed as Ed. symmetry. exact Ed. }
  split; [exact Ed'|]. subst d'. clear Ed.
  assert (Es : exists s0, s0 = s_old /\ ordinary_kvs (sd_data s0) = false /\
                 get_dpath (Dict (sd_data s0)) [C16_mex.ks "b"; C16_mex.ks "x"] = Some (Leaf (SInt 2)) /\
                 get_dpath (Dict (sd_data s0)) [C16_mex.ks "b"; C16_mex.ks "y"] = Some (Leaf (SStr (of_string "hello"))) /\
                 get_dpath (Dict (sd_data s0)) [C16_mex.ks "a"] = Some (Leaf (SInt 1)) /\
                 alookup (C16_mex.ks "c") (sd_data s0) = None).
  { vm_compute in Er. injection Er as Er _. eexists. split; [exact Er|]. vm_compute. repeat split; reflexivity. }
  destruct Es as [s0 [E0 [H1 [H3 [H4 [H5 H6]]]]]]. subst s0.
  assert (Hwd : wf (Dict C16_mex.d) = true) by (vm_compute; reflexivity).
  assert (Obx : forallb ordinary_key [C16_mex.ks "b"; C16_mex.ks "x"] = true) by (vm_compute; reflexivity).
  assert (Oby : forallb ordinary_key [C16_mex.ks "b"; C16_mex.ks "y"] = true) by (vm_compute; reflexivity).
  assert (Oa : forallb ordinary_key [C16_mex.ks "a"] = true) by (vm_compute; reflexivity).
  assert (Oc : ordinary_key (C16_mex.ks "c") = true) by (vm_compute; reflexivity).
  assert (Ca : match [C16_mex.ks "a"] with [k] => circular k (Leaf (SInt 1)) | _ => false end = false) by (vm_compute; reflexivity).
  assert (Dc : alookup (C16_mex.ks "c") C16_mex.d_typed = Some (Leaf (SInt 7))) by (vm_compute; reflexivity).
  assert (Nc : forall kvs, Leaf (SInt 7) <> Dict kvs) by (intros kvs; discriminate).
  assert (Dbx : get_dpath (Dict C16_mex.d_typed) [C16_mex.ks "b"; C16_mex.ks "x"] = Some (Leaf (SInt 9))) by (vm_compute; reflexivity).
  exact (conj H1 (conj H2 (conj Hwd (conj H3 (conj Dbx (conj H6
           (conj (Hkeep _ _ Obx H3 eq_refl) (conj (Hkeep _ _ Oby H4 eq_refl)
           (conj (Hkeep _ _ Oa H5 Ca) (Hadd _ _ Oc Hwd H6 Dc Nc)))))))))).
Qed.

(* non-vacuity of C16_read_back_wf: the two-file tree of C06 is not available here; the single file above, and a file
   that repeats a key at two levels (the second assignment wins, the keys stay unique) *)
Example C16_read_back_wf_nonvacuous :
  let fs := [(norm_path C16_mex.pth, FNative (of_string "a 1; a 2; b { x 1; x 2; } b { y 3; }"))] in
  native_fs fs = true /\
  exists s c, read_plain fs C16_mex.pth true true (-1)%Z = Ok (s, c) /\
    sd_data s = [(C16_mex.ks "a", Leaf (SInt 2)); (C16_mex.ks "b", Dict [(C16_mex.ks "y", Leaf (SInt 3))])] /\
    wf (Dict (sd_data s)) = true.
Proof.
  intros fs. assert (Hn : native_fs fs = true) by (vm_compute; reflexivity). split; [exact Hn|].
  destruct (read_plain fs C16_mex.pth true true (-1)%Z) as [[s c]|e] eqn:E; [|vm_compute in E; discriminate E].
  exists s, c. split; [reflexivity|]. split; [vm_compute in E; injection E as <- _; reflexivity|].
  exact (C16_read_back_wf _ _ _ _ _ _ _ Hn E).
Qed.

(* ================================================================================================== *)
(* added from Properties/C16_add.v (2026-10-01)                                              *)
(* ================================================================================================== *)
(* C16, continued: the composition through RE-PARSING.  What DictWriter.write leaves in the target, read back with
   DictReader.read (includes and comments on, as DictWriter itself reads the target in append mode), for one write and
   for any number of writes.  Model functions: Reader.write_text / writer_run (the write step, text level) and
   Reader.read_plain (the read).  The mode is a bool in the model (append / not append): the Python code tests
   mode == 'a' only, so every other mode string, recognised or not, takes the overwrite branch (wiring fact of
   DictWriter.write, not a theorem here). *)
From Coq Require Import String.
From Coq Require Import NArith ZArith List Bool Lia.
From DictIO Require Import Chars Str Value Scalar KeyPath SDict Layout Lexer TokParser Reader TreeSpec NativeSpec E2ESpec MiscSpec.
From DictIO Require Import SDictProofs WriteProofs E2EFullProofs RereadPlain RereadTree AppendSeq.
Import ListNotations.

(* three source dicts (leaves still strings, as a caller passes them): overlapping nested dicts, a string leaf with
   blanks, leaves that are re-typed (007 -> 7, 2.5, true), an apostrophe, a list *)
Module C16_sq.
  Definition ks (s : string) : key := KS (of_string s).
  Definition sv (s : string) : tree := Leaf (SStr (of_string s)).
  Definition pth := of_string "/r/out.dict".
  Definition d1 : list (key * tree) :=
    [(ks "a", sv "007"); (ks "sub", Dict [(ks "x", sv "two words"); (ks "n", Dict [(ks "p", sv "1")])])].
  Definition d2 : list (key * tree) :=
    [(ks "a", sv "9"); (ks "sub", Dict [(ks "x", sv "other"); (ks "y", sv "2.5"); (ks "n", Dict [(ks "q", sv "it's")])]); (ks "b", sv "true")].
  Definition d3 : list (key * tree) :=
    [(ks "sub", Dict [(ks "n", Dict [(ks "p", sv "5"); (ks "r", sv "x y")]); (ks "z", Lst [sv "1"; sv "a b"])]); (ks "c", sv "last")].
  Definition t1 : str := of_string "a                             7;
sub
{
    x                         'two words';
    n
    {
        p                     1;
    }
}
".
End C16_sq.

(* (1) After an overwrite -- or a first write to a target that does not exist, in either mode -- of a dict of the writer
   domain, the file read back is EXACTLY the new dict, every leaf as the reader classifies its written form
   (classified d = written_value on every leaf of parse_values d): no comment, no include, no expression, whatever the
   target held before.  Domain: parse_values succeeds (pv_ok); the typed dict has unique keys, simple keys, writable
   leaves, quoted literals at most ten keys deep (wdom: the side conditions of C01_roundtrip); at most a million quoted
   literals (six-digit placeholders). *)
Theorem C16_overwrite_reads_back : forall path existing d,
  pv_ok d = true -> wdom (typed d) = true -> (Z.of_nat (nq (Dict (typed d))) <= 1000000)%Z ->
  exists txt c,
    write_text false path existing false d = Ok txt /\ write_text false path None true d = Ok txt /\
    txt = to_string_plain (typed d) /\
    read_plain [(norm_path path, FNative txt)] path true true (-1)%Z = Ok (mkSD (classified d) [] [] [] [], c).
Proof. exact overwrite_reads_back. Qed.
Print Assumptions C16_overwrite_reads_back.

Example C16_overwrite_reads_back_nonvacuous :
  pv_ok C16_sq.d1 = true /\ wdom (typed C16_sq.d1) = true /\ (Z.of_nat (nq (Dict (typed C16_sq.d1))) <= 1000000)%Z /\
  classified C16_sq.d1 = [(C16_sq.ks "a", Leaf (SInt 7));
                          (C16_sq.ks "sub", Dict [(C16_sq.ks "x", C16_sq.sv "two words"); (C16_sq.ks "n", Dict [(C16_sq.ks "p", Leaf (SInt 1))])])] /\
  exists c,
    write_text false C16_sq.pth (Some (of_string "{{{ garbage")) false C16_sq.d1 = Ok C16_sq.t1 /\
    write_text false C16_sq.pth None true C16_sq.d1 = Ok C16_sq.t1 /\
    read_plain [(norm_path C16_sq.pth, FNative C16_sq.t1)] C16_sq.pth true true (-1)%Z = Ok (mkSD (classified C16_sq.d1) [] [] [] [], c).
Proof.
  assert (H0 : pv_ok C16_sq.d1 = true) by (vm_compute; reflexivity).
  assert (H1 : wdom (typed C16_sq.d1) = true) by (vm_compute; reflexivity).
  assert (H2 : (Z.of_nat (nq (Dict (typed C16_sq.d1))) <= 1000000)%Z) by (vm_compute; discriminate).
  refine (conj H0 (conj H1 (conj H2 (conj _ _)))); [vm_compute; reflexivity|].
  destruct (C16_overwrite_reads_back C16_sq.pth (Some (of_string "{{{ garbage")) C16_sq.d1 H0 H1 H2) as (txt & c & W1 & W2 & Et & Er).
  assert (E : txt = C16_sq.t1) by (rewrite Et; vm_compute; reflexivity). subst txt.
  exists c. exact (conj W1 (conj W2 Er)).
Qed.

(* the entry AB000001 = 'AB000001', excluded from the append theorems below (C16_self_named_finding), is no obstacle here *)
Example C16_overwrite_reads_back_self_named :
  let d := [(C16_sq.ks "AB000001", C16_sq.sv "AB000001")] in
  pv_ok d = true /\ wdom (typed d) = true /\ writable_src d = false /\
  exists txt c, write_text false C16_sq.pth None true d = Ok txt /\
    read_plain [(norm_path C16_sq.pth, FNative txt)] C16_sq.pth true true (-1)%Z = Ok (mkSD d [] [] [] [], c).
Proof.
  intros d. assert (H0 : pv_ok d = true) by (vm_compute; reflexivity). assert (H1 : wdom (typed d) = true) by (vm_compute; reflexivity).
  refine (conj H0 (conj H1 (conj _ _))); [vm_compute; reflexivity|].
  destruct (C16_overwrite_reads_back C16_sq.pth None d H0 H1 ltac:(vm_compute; discriminate)) as (txt & c & _ & W & _ & Er).
  exists txt, c. split; [exact W|]. assert (E : classified d = d) by (vm_compute; reflexivity). rewrite E in Er. exact Er.
Qed.

(* (2) Any number of writes in append mode onto a target that does not exist at first: every write succeeds, and the data
   read back after the last one is the fold of the first-wins recursive merge (TreeSpec.merge_spec, the specification
   of SDict.merge) over the dicts as the reader classifies them -- behind the entry of the default header block comment
   (BLOCKCOMMENT000000, the only comment: st_of true) from the second write on, which is when DictWriter first formats
   an SDict instead of the plain source dict.  Proved by induction over the list: each read-back state is again in the
   writer domain and a fixed point of reading back (C03), so that the next step applies.
   Domain, per dict (writable_src): as for C16_overwrite_reads_back, and
     no_self_named (classified d)   no top-level entry whose value is a string equal to its own key, the key having the
                                    shape of a placeholder (upper case letters + six digits): SDict.merge REPLACES such
                                    an entry of the existing file by the new value (C16_self_named_finding below);
   over the whole list: at most a million quoted literals in all (nq_total).
   The domain is closed under the merge (unique keys, simple keys, writable leaves, quoted literals at most ten keys
   deep, no self-named entry; the numbers of quoted literals add up), so nothing else is asked of the list. *)
Theorem C16_append_sequence : forall path w ds,
  w_get path w = None -> ds <> [] ->
  forallb writable_src ds = true ->
  (Z.of_nat (nq_total ds) <= 1000000)%Z ->
  let F := fold_left merge_spec (map classified ds) [] in
  exists txt c,
    w_get path (writer_run false w path (appends ds)) = Some txt /\
    read_plain [(norm_path path, FNative txt)] path true true (-1)%Z = Ok (st_of (Nat.ltb 1 (length ds)) F, c) /\
    wdom F = true /\ reread_plain F = F.
Proof. exact append_sequence_reads_back. Qed.
Print Assumptions C16_append_sequence.

Module C16_sq2.
  Import C16_sq.
  Definition t3 : str := native_header ++ of_string "a                             7;
sub
{
    x                         'two words';
    n
    {
        p                     1;
        q                     ""it's"";
        r                     'x y';
    }
    y                         2.5;
    z
    (
        1                 'a b'
    );
}
b                             true;
c                             last;
".
  (* the first value of a, sub.x and sub.n.p wins; sub.n.q, sub.y, b come from d2; sub.n.r, sub.z, c from d3 *)
  Definition F3 : list (key * tree) :=
    [(ks "a", Leaf (SInt 7));
     (ks "sub", Dict [(ks "x", sv "two words");
                      (ks "n", Dict [(ks "p", Leaf (SInt 1)); (ks "q", sv "it's"); (ks "r", sv "x y")]);
                      (ks "y", Leaf (SFloat (of_string "2.5")));
                      (ks "z", Lst [Leaf (SInt 1); sv "a b"])]);
     (ks "b", Leaf (SBool true)); (ks "c", sv "last")].
End C16_sq2.

Example C16_append_sequence_nonvacuous :
  let ds := [C16_sq.d1; C16_sq.d2; C16_sq.d3] in
  forallb writable_src ds = true /\ (Z.of_nat (nq_total ds) <= 1000000)%Z /\
  fold_left merge_spec (map classified ds) [] = C16_sq2.F3 /\
  exists c,
    w_get C16_sq.pth (writer_run false [] C16_sq.pth (appends ds)) = Some C16_sq2.t3 /\
    read_plain [(norm_path C16_sq.pth, FNative C16_sq2.t3)] C16_sq.pth true true (-1)%Z = Ok (st_hdr C16_sq2.F3, c) /\
    sd_data (st_hdr C16_sq2.F3) = (KS (of_string "BLOCKCOMMENT000000"), Leaf (SStr (of_string "BLOCKCOMMENT000000"))) :: C16_sq2.F3.
Proof.
  intros ds.
  assert (H1 : forallb writable_src ds = true) by (vm_compute; reflexivity).
  assert (H2 : (Z.of_nat (nq_total ds) <= 1000000)%Z) by (vm_compute; discriminate).
  assert (H3 : fold_left merge_spec (map classified ds) [] = C16_sq2.F3) by (vm_compute; reflexivity).
  refine (conj H1 (conj H2 (conj H3 _))).
  destruct (C16_append_sequence C16_sq.pth [] ds eq_refl ltac:(discriminate) H1 H2) as (txt & c & E1 & E2 & _).
  rewrite H3 in E2. change (Nat.ltb 1 (length ds)) with true in E2. cbn [st_of] in E2.
  assert (Et : txt = C16_sq2.t3).
  { assert (Ew : w_get C16_sq.pth (writer_run false [] C16_sq.pth (appends ds)) = Some C16_sq2.t3) by (vm_compute; reflexivity).
    rewrite Ew in E1. injection E1 as <-. reflexivity. }
  subst txt. exists c. refine (conj E1 (conj E2 _)). vm_compute. reflexivity.
Qed.

(* (2), mixed sequences: append and overwrite steps in any order.  The file read back after the last write holds exactly
   the state of the specification fold MiscSpec.spec_writes over the classified dicts: an overwrite (and the first
   write) restarts the fold with the new dict, an append merges first-wins into it.  hdr_run says whether the header
   entry is there (exactly when the last write was an append onto an existing file). *)
Theorem C16_write_sequence : forall path w ops,
  w_get path w = None -> ops <> [] ->
  forallb (fun op => writable_src (snd op)) ops = true ->
  (Z.of_nat (nq_total (map snd ops)) <= 1000000)%Z ->
  exists txt F c,
    w_get path (writer_run false w path ops) = Some txt /\
    spec_writes (spec_ops ops) None = Some F /\
    read_plain [(norm_path path, FNative txt)] path true true (-1)%Z = Ok (st_of (hdr_run ops None false) F, c) /\
    wdom F = true /\ reread_plain F = F.
Proof. exact write_sequence_reads_back. Qed.
Print Assumptions C16_write_sequence.

(* non-vacuity: append d1, append d2, OVERWRITE with d3, append d1: d3 wins over d1 where both have a leaf (sub.n.p = 5),
   nothing of d2 is left, and d1 adds a, sub.x *)
Example C16_write_sequence_nonvacuous :
  let ops := [(true, C16_sq.d1); (true, C16_sq.d2); (false, C16_sq.d3); (true, C16_sq.d1)] in
  forallb (fun op => writable_src (snd op)) ops = true /\ (Z.of_nat (nq_total (map snd ops)) <= 1000000)%Z /\
  exists txt F c,
    w_get C16_sq.pth (writer_run false [] C16_sq.pth ops) = Some txt /\
    spec_writes (spec_ops ops) None = Some F /\
    F = merge_spec (classified C16_sq.d3) (classified C16_sq.d1) /\
    read_plain [(norm_path C16_sq.pth, FNative txt)] C16_sq.pth true true (-1)%Z = Ok (st_hdr F, c) /\
    get_dpath (Dict F) [C16_sq.ks "sub"; C16_sq.ks "n"; C16_sq.ks "p"] = Some (Leaf (SInt 5)) /\
    get_dpath (Dict F) [C16_sq.ks "a"] = Some (Leaf (SInt 7)) /\
    get_dpath (Dict F) [C16_sq.ks "b"] = None.
Proof.
  intros ops.
  assert (H1 : forallb (fun op => writable_src (snd op)) ops = true) by (vm_compute; reflexivity).
  assert (H2 : (Z.of_nat (nq_total (map snd ops)) <= 1000000)%Z) by (vm_compute; discriminate).
  refine (conj H1 (conj H2 _)).
  destruct (C16_write_sequence C16_sq.pth [] ops eq_refl ltac:(discriminate) H1 H2) as (txt & F & c & E1 & E2 & E3 & _).
  assert (EF : F = merge_spec (classified C16_sq.d3) (classified C16_sq.d1)).
  { assert (E : spec_writes (spec_ops ops) None = Some (merge_spec (classified C16_sq.d3) (classified C16_sq.d1))) by reflexivity.
    rewrite E in E2. injection E2 as <-. reflexivity. }
  change (hdr_run ops None false) with true in E3. cbn [st_of] in E3.
  exists txt, F, c. refine (conj E1 (conj E2 (conj EF (conj E3 _)))). rewrite EF. vm_compute. repeat split; reflexivity.
Qed.

(* (3) In the words of the property.  Appends ds1 (at least one write), then d, then ds2, onto a target that does not
   exist at first; s1 and s3 are the states read back after ds1 and after the whole sequence:
   - "leaves every key path already in the file with its value": every leaf path of s1 is a leaf path of s3 with the same
     value -- for ANY later step, ds2 being arbitrary (monotone in the number of writes);
   - "adds every key path of the new dict that was absent": a leaf path of d (classified) that is absent from s1
     (addable: walking down the path through dicts, a key is missing) is a leaf path of s3 with the value of d. *)
Theorem C16_append_sequence_monotone : forall path w ds1 d ds2,
  w_get path w = None -> ds1 <> [] ->
  forallb writable_src (ds1 ++ d :: ds2) = true ->
  (Z.of_nat (nq_total (ds1 ++ d :: ds2)) <= 1000000)%Z ->
  exists txt1 txt3 s1 s3 c1 c3,
    w_get path (writer_run false w path (appends ds1)) = Some txt1 /\
    w_get path (writer_run false (writer_run false w path (appends ds1)) path (appends (d :: ds2))) = Some txt3 /\
    read_plain [(norm_path path, FNative txt1)] path true true (-1)%Z = Ok (s1, c1) /\
    read_plain [(norm_path path, FNative txt3)] path true true (-1)%Z = Ok (s3, c3) /\
    (forall p v, get_dpath (Dict (sd_data s1)) p = Some (Leaf v) -> get_dpath (Dict (sd_data s3)) p = Some (Leaf v)) /\
    (forall p v, get_dpath (Dict (classified d)) p = Some (Leaf v) -> addable (Dict (sd_data s1)) p = true ->
                 get_dpath (Dict (sd_data s3)) p = Some (Leaf v)).
Proof. exact append_sequence_monotone. Qed.
Print Assumptions C16_append_sequence_monotone.

(* non-vacuity: d1, then d2, then d3.  sub.x of d1 survives both later writes (d2 has another value for it); sub.y and
   b of d2 are absent after d1 and are there at the end; a of d2 is NOT absent (addable false) and a keeps the value of d1 *)
Example C16_append_sequence_monotone_nonvacuous :
  let sub_x := [C16_sq.ks "sub"; C16_sq.ks "x"] in let sub_y := [C16_sq.ks "sub"; C16_sq.ks "y"] in
  forallb writable_src ([C16_sq.d1] ++ C16_sq.d2 :: [C16_sq.d3]) = true /\
  (Z.of_nat (nq_total ([C16_sq.d1] ++ C16_sq.d2 :: [C16_sq.d3])) <= 1000000)%Z /\
  exists s1 s3,
    sd_data s1 = classified C16_sq.d1 /\
    get_dpath (Dict (sd_data s1)) sub_x = Some (C16_sq.sv "two words") /\
    get_dpath (Dict (classified C16_sq.d2)) sub_x = Some (C16_sq.sv "other") /\
    get_dpath (Dict (classified C16_sq.d2)) sub_y = Some (Leaf (SFloat (of_string "2.5"))) /\
    addable (Dict (sd_data s1)) sub_y = true /\ addable (Dict (sd_data s1)) [C16_sq.ks "b"] = true /\
    addable (Dict (sd_data s1)) [C16_sq.ks "a"] = false /\
    get_dpath (Dict (sd_data s3)) sub_x = Some (C16_sq.sv "two words") /\
    get_dpath (Dict (sd_data s3)) sub_y = Some (Leaf (SFloat (of_string "2.5"))) /\
    get_dpath (Dict (sd_data s3)) [C16_sq.ks "b"] = Some (Leaf (SBool true)) /\
    get_dpath (Dict (sd_data s3)) [C16_sq.ks "a"] = Some (Leaf (SInt 7)).
Proof.
  intros sub_x sub_y.
  assert (H1 : forallb writable_src ([C16_sq.d1] ++ C16_sq.d2 :: [C16_sq.d3]) = true) by (vm_compute; reflexivity).
  assert (H2 : (Z.of_nat (nq_total ([C16_sq.d1] ++ C16_sq.d2 :: [C16_sq.d3])) <= 1000000)%Z) by (vm_compute; discriminate).
  refine (conj H1 (conj H2 _)).
  destruct (C16_append_sequence_monotone C16_sq.pth [] [C16_sq.d1] C16_sq.d2 [C16_sq.d3] eq_refl ltac:(discriminate) H1 H2)
    as (txt1 & txt3 & s1 & s3 & c1 & c3 & E1 & E3 & R1 & R3 & Hkeep & Hadd).
  assert (Es1 : sd_data s1 = classified C16_sq.d1).
  { assert (Ew : w_get C16_sq.pth (writer_run false [] C16_sq.pth (appends [C16_sq.d1])) = Some C16_sq.t1) by (vm_compute; reflexivity).
    rewrite Ew in E1. injection E1 as <-.
    assert (Er : exists c, read_plain [(norm_path C16_sq.pth, FNative C16_sq.t1)] C16_sq.pth true true (-1)%Z = Ok (st_plain (classified C16_sq.d1), c))
      by (eexists; vm_compute; reflexivity).
    destruct Er as [c Er]. rewrite Er in R1. injection R1 as <- _. reflexivity. }
  exists s1, s3. split; [exact Es1|].
  assert (G1 : get_dpath (Dict (sd_data s1)) sub_x = Some (C16_sq.sv "two words")) by (rewrite Es1; vm_compute; reflexivity).
  assert (G2 : get_dpath (Dict (classified C16_sq.d2)) sub_y = Some (Leaf (SFloat (of_string "2.5")))) by (vm_compute; reflexivity).
  assert (G3 : get_dpath (Dict (classified C16_sq.d2)) [C16_sq.ks "b"] = Some (Leaf (SBool true))) by (vm_compute; reflexivity).
  assert (G4 : get_dpath (Dict (sd_data s1)) [C16_sq.ks "a"] = Some (Leaf (SInt 7))) by (rewrite Es1; vm_compute; reflexivity).
  assert (A1 : addable (Dict (sd_data s1)) sub_y = true) by (rewrite Es1; vm_compute; reflexivity).
  assert (A2 : addable (Dict (sd_data s1)) [C16_sq.ks "b"] = true) by (rewrite Es1; vm_compute; reflexivity).
  assert (A3 : addable (Dict (sd_data s1)) [C16_sq.ks "a"] = false) by (rewrite Es1; vm_compute; reflexivity).
  pose proof (Hkeep _ _ G1) as K1. pose proof (Hadd _ _ G2 A1) as K2. pose proof (Hadd _ _ G3 A2) as K3. pose proof (Hkeep _ _ G4) as K4.
  refine (conj G1 (conj _ (conj G2 (conj A1 (conj A2 (conj A3 (conj K1 (conj K2 (conj K3 K4))))))))).
  vm_compute. reflexivity.
Qed.

(* FINDING (forces no_self_named): an entry of the existing file whose value spells its own key, the key having the shape
   of a placeholder (upper case letters and six digits), does NOT keep its value in append mode: SDict.merge takes it for
   a left-over placeholder and replaces it by the value of the new dict.  Same behaviour of the library (checked:
   DictWriter.write({'AB000001': 'AB000001', 'k': 'k'}, f); DictWriter.write({'AB000001': 5, 'k': 6}, f); the file then
   holds AB000001 5; k k;).  Everything else of the domain holds for both dicts; the lower-case / short key k, equally
   self-named, is kept. *)
Example C16_self_named_finding :
  let d0 := [(C16_sq.ks "AB000001", C16_sq.sv "AB000001"); (C16_sq.ks "k", C16_sq.sv "k")] in
  let d' := [(C16_sq.ks "AB000001", C16_sq.sv "5"); (C16_sq.ks "k", C16_sq.sv "6")] in
  pv_ok d0 && wdom (typed d0) = true /\ no_self_named (classified d0) = false /\ writable_src d' = true /\
  get_dpath (Dict (fold_left merge_spec (map classified [d0; d']) [])) [C16_sq.ks "AB000001"] = Some (C16_sq.sv "AB000001") /\
  exists txt s c,
    w_get C16_sq.pth (writer_run false [] C16_sq.pth (appends [d0; d'])) = Some txt /\
    read_plain [(norm_path C16_sq.pth, FNative txt)] C16_sq.pth true true (-1)%Z = Ok (s, c) /\
    get_dpath (Dict (sd_data s)) [C16_sq.ks "AB000001"] = Some (Leaf (SInt 5)) /\
    get_dpath (Dict (sd_data s)) [C16_sq.ks "k"] = Some (C16_sq.sv "k").
Proof.
  intros d0 d'. split; [vm_compute; reflexivity|]. split; [vm_compute; reflexivity|]. split; [vm_compute; reflexivity|].
  split; [vm_compute; reflexivity|].
  set (txt := match w_get C16_sq.pth (writer_run false [] C16_sq.pth (appends [d0; d'])) with Some t => t | None => [] end).
  set (r := read_plain [(norm_path C16_sq.pth, FNative txt)] C16_sq.pth true true (-1)%Z).
  exists txt, (match r with Ok sc => fst sc | Raise _ => sd_empty end), (match r with Ok sc => snd sc | Raise _ => 0%Z end).
  split; [vm_compute; reflexivity|]. split; [vm_compute; reflexivity|]. split; vm_compute; reflexivity.
Qed.

(* (2), when the target exists with ANY content (not even parseable): a sequence that begins with an overwrite *)
Theorem C16_write_sequence_after_overwrite : forall path w d ops,
  forallb (fun op => writable_src (snd op)) ((false, d) :: ops) = true ->
  (Z.of_nat (nq_total (map snd ((false, d) :: ops))) <= 1000000)%Z ->
  exists txt F c,
    w_get path (writer_run false w path ((false, d) :: ops)) = Some txt /\
    spec_writes (spec_ops ops) (Some (classified d)) = Some F /\
    read_plain [(norm_path path, FNative txt)] path true true (-1)%Z = Ok (st_of (hdr_run ops (Some []) false) F, c) /\
    wdom F = true /\ reread_plain F = F.
Proof. exact write_sequence_after_overwrite. Qed.
Print Assumptions C16_write_sequence_after_overwrite.

Example C16_write_sequence_after_overwrite_nonvacuous :
  let w := [(C16_sq.pth, of_string "{{{ garbage")] in let ops := [(true, C16_sq.d2)] in
  forallb (fun op => writable_src (snd op)) ((false, C16_sq.d1) :: ops) = true /\
  (Z.of_nat (nq_total (map snd ((false, C16_sq.d1) :: ops))) <= 1000000)%Z /\
  exists txt c,
    w_get C16_sq.pth (writer_run false w C16_sq.pth ((false, C16_sq.d1) :: ops)) = Some txt /\
    read_plain [(norm_path C16_sq.pth, FNative txt)] C16_sq.pth true true (-1)%Z =
      Ok (st_hdr (merge_spec (classified C16_sq.d1) (classified C16_sq.d2)), c).
Proof.
  intros w ops.
  assert (H1 : forallb (fun op => writable_src (snd op)) ((false, C16_sq.d1) :: ops) = true) by (vm_compute; reflexivity).
  assert (H2 : (Z.of_nat (nq_total (map snd ((false, C16_sq.d1) :: ops))) <= 1000000)%Z) by (vm_compute; discriminate).
  refine (conj H1 (conj H2 _)).
  destruct (C16_write_sequence_after_overwrite C16_sq.pth w C16_sq.d1 ops H1 H2) as (txt & F & c & E1 & E2 & E3 & _).
  assert (E : spec_writes (spec_ops ops) (Some (classified C16_sq.d1)) = Some (merge_spec (classified C16_sq.d1) (classified C16_sq.d2))) by reflexivity.
  rewrite E in E2. injection E2 as <-. change (hdr_run ops (Some []) false) with true in E3. exists txt, c. exact (conj E1 E3).
Qed.

(* (1) on the model of DictWriter.write for an SDict source and of DictReader.read with all its options (Model/Parse.v:
   write_sd, read_opts; order off, no scope): overwrite mode, or append mode when the target is not in the file tree.
   An SDict source is always formatted with the default header, so the file read back holds exactly the new dict behind
   the header entry; the placeholder counter is handed on unchanged by the write. *)
Theorem C16_overwrite_reads_back_sd : forall fs target ap d count,
  pv_ok d = true -> wdom (typed d) = true -> (Z.of_nat (nq (Dict (typed d))) <= 1000000)%Z -> (-1 <= count)%Z ->
  (ap = false \/ fs_lookup (norm_path target) fs = None) ->
  exists txt c',
    Parse.write_sd fs false target ap false (st_plain d) count = Some (Ok (txt, count)) /\
    txt = to_string_sd (st_plain (typed d)) /\
    Parse.read_opts [(norm_path target, FNative txt)] target true false true [] count = Some (Ok (st_hdr (classified d), c')).
Proof. exact overwrite_reads_back_sd. Qed.
Print Assumptions C16_overwrite_reads_back_sd.

Example C16_overwrite_reads_back_sd_nonvacuous :
  let fs := [(norm_path C16_sq.pth, FNative (of_string "{{{ garbage"))] in
  pv_ok C16_sq.d1 = true /\ wdom (typed C16_sq.d1) = true /\ (Z.of_nat (nq (Dict (typed C16_sq.d1))) <= 1000000)%Z /\
  exists txt c',
    Parse.write_sd fs false C16_sq.pth false false (st_plain C16_sq.d1) 41 = Some (Ok (txt, 41%Z)) /\
    txt = native_header ++ C16_sq.t1 /\
    Parse.read_opts [(norm_path C16_sq.pth, FNative txt)] C16_sq.pth true false true [] 41 = Some (Ok (st_hdr (classified C16_sq.d1), c')).
Proof.
  intros fs.
  assert (H0 : pv_ok C16_sq.d1 = true) by (vm_compute; reflexivity).
  assert (H1 : wdom (typed C16_sq.d1) = true) by (vm_compute; reflexivity).
  assert (H2 : (Z.of_nat (nq (Dict (typed C16_sq.d1))) <= 1000000)%Z) by (vm_compute; discriminate).
  refine (conj H0 (conj H1 (conj H2 _))).
  destruct (C16_overwrite_reads_back_sd fs C16_sq.pth false C16_sq.d1 41%Z H0 H1 H2 ltac:(lia) (or_introl eq_refl)) as (txt & c' & W & Et & R).
  exists txt, c'. refine (conj W (conj _ R)). rewrite Et. vm_compute. reflexivity.
Qed.
