(* C16  Append mode never loses what is already in the file; overwrite mode replaces it (data level; the
   file round trip itself is C01 / C10 / C09 and the byte-level write step is tied by the check). *)
From Coq Require Import String.   (* string literals of the examples; imported first so the list names win *)
From Coq Require Import NArith ZArith List Bool.
From DictIO Require Import Chars Str Value Scalar KeyPath SDict TreeSpec MiscSpec SDictProofs CliProofs.
Import ListNotations.

(* data of the non-vacuity examples: the file content [s] and two dicts appended to it *)
Module C16_ex.
  Definition ka := KS (of_string "a").  Definition kb := KS (of_string "b").
  Definition kc := KS (of_string "c").  Definition kd := KS (of_string "d").
  Definition one := Leaf (SInt 1).  Definition two := Leaf (SInt 2).
  Definition s : list (key * tree) := [(ka, Dict [(kb, one); (kc, Lst [one])]); (kc, two)].
  Definition d1 : list (key * tree) :=
    [(kd, one); (ka, Dict [(kb, two); (kd, Dict [(ka, two)]); (kc, Dict [(ka, one)])]); (kc, Dict [(ka, one)])].
  Definition d2 : list (key * tree) := [(ka, Dict [(kb, Lst []); (kd, Dict [(kb, one)])]); (kb, two)].
End C16_ex.

(* whatever the sequence of writes: after an append every leaf that was in the file is still there *)
Theorem C16_append_keeps : forall s d p v,
  get_dpath (Dict s) p = Some (Leaf v) ->
  exists s', spec_write (Some s) (d, true) = Some s' /\ get_dpath (Dict s') p = Some (Leaf v).
Proof. exact append_keeps. Qed.
Print Assumptions C16_append_keeps.

Example C16_append_keeps_nonvacuous :
  get_dpath (Dict C16_ex.s) [C16_ex.ka; C16_ex.kb] = Some (Leaf (SInt 1)) /\
  get_dpath (Dict C16_ex.d1) [C16_ex.ka; C16_ex.kb] = Some (Leaf (SInt 2)) /\
  exists s', spec_write (Some C16_ex.s) (C16_ex.d1, true) = Some s' /\ s' <> C16_ex.s /\
             get_dpath (Dict s') [C16_ex.ka; C16_ex.kb] = Some (Leaf (SInt 1)).
Proof.
  assert (H : get_dpath (Dict C16_ex.s) [C16_ex.ka; C16_ex.kb] = Some (Leaf (SInt 1))) by (vm_compute; reflexivity).
  refine (conj H (conj _ _)); [vm_compute; reflexivity|].
  destruct (C16_append_keeps C16_ex.s C16_ex.d1 _ _ H) as [s' [E1 E2]].
  exists s'. refine (conj E1 (conj _ E2)). vm_compute in E1. injection E1 as <-. vm_compute. discriminate.
Qed.

(* ... for every number of further appends *)
Theorem C16_appends_keep : forall ds s p v,
  get_dpath (Dict s) p = Some (Leaf v) ->
  exists s', spec_writes (map (fun d => (d, true)) ds) (Some s) = Some s' /\ get_dpath (Dict s') p = Some (Leaf v).
Proof. exact appends_keep. Qed.
Print Assumptions C16_appends_keep.

Example C16_appends_keep_nonvacuous :
  get_dpath (Dict C16_ex.s) [C16_ex.ka; C16_ex.kb] = Some (Leaf (SInt 1)) /\
  exists s', spec_writes (map (fun d => (d, true)) [C16_ex.d1; C16_ex.d2; C16_ex.d1]) (Some C16_ex.s) = Some s' /\
             get_dpath (Dict s') [C16_ex.ka; C16_ex.kb] = Some (Leaf (SInt 1)) /\
             get_dpath (Dict s') [C16_ex.ka; C16_ex.kd; C16_ex.kb] = Some (Leaf (SInt 1)).
Proof.
  assert (H : get_dpath (Dict C16_ex.s) [C16_ex.ka; C16_ex.kb] = Some (Leaf (SInt 1))) by (vm_compute; reflexivity).
  split; [exact H|].
  destruct (C16_appends_keep [C16_ex.d1; C16_ex.d2; C16_ex.d1] C16_ex.s _ _ H) as [s' [E1 E2]].
  exists s'. refine (conj E1 (conj E2 _)). vm_compute in E1. injection E1 as <-. vm_compute. reflexivity.
Qed.

(* overwrite (and any write to a file that does not exist) makes the file contain exactly the new dict *)
Theorem C16_overwrite : forall st d, spec_write st (d, false) = Some d /\ spec_write None (d, true) = Some d.
Proof. exact overwrite_replaces. Qed.
Print Assumptions C16_overwrite.

(* every key path of the appended dict is present afterwards unless an existing non-dict entry is in its way *)
Theorem C16_append_adds : forall s d p x, wf (Dict d) = true -> get_dpath (Dict d) p = Some x ->
  exists s', spec_write (Some s) (d, true) = Some s' /\
  ((exists y, get_dpath (Dict s') p = Some y) \/
   (exists r t, strict_prefix r p /\ r <> [] /\ get_dpath (Dict s) r = Some t /\ (forall kvs, t <> Dict kvs))).
Proof. exact append_adds. Qed.
Print Assumptions C16_append_adds.

(* non-vacuity: both alternatives occur -- a.d.a is added, c.a is blocked by the existing leaf c *)
Example C16_append_adds_nonvacuous :
  wf (Dict C16_ex.d1) = true /\
  get_dpath (Dict C16_ex.d1) [C16_ex.ka; C16_ex.kd; C16_ex.ka] = Some C16_ex.two /\
  get_dpath (Dict C16_ex.d1) [C16_ex.kc; C16_ex.ka] = Some C16_ex.one /\
  exists s', spec_write (Some C16_ex.s) (C16_ex.d1, true) = Some s' /\
    get_dpath (Dict s') [C16_ex.ka; C16_ex.kd; C16_ex.ka] = Some C16_ex.two /\
    get_dpath (Dict s') [C16_ex.kc; C16_ex.ka] = None /\
    ((exists y, get_dpath (Dict s') [C16_ex.kc; C16_ex.ka] = Some y) \/
     (exists r t, strict_prefix r [C16_ex.kc; C16_ex.ka] /\ r <> [] /\ get_dpath (Dict C16_ex.s) r = Some t /\ (forall kvs, t <> Dict kvs))).
Proof.
  assert (H1 : wf (Dict C16_ex.d1) = true) by (vm_compute; reflexivity).
  assert (H2 : get_dpath (Dict C16_ex.d1) [C16_ex.kc; C16_ex.ka] = Some C16_ex.one) by (vm_compute; reflexivity).
  refine (conj H1 (conj _ (conj H2 _))); [vm_compute; reflexivity|].
  destruct (C16_append_adds C16_ex.s C16_ex.d1 _ _ H1 H2) as [s' [E1 E2]].
  exists s'. refine (conj E1 (conj _ (conj _ E2))); vm_compute in E1; injection E1 as <-; vm_compute; reflexivity.
Qed.

(* ================================================================================================================ *)
(* The same for the MODEL's write step Reader.write_text (DictWriter.write up to the text handed to the file):       *)
(* the theorems above speak of spec_write only.                                                                     *)
(* ================================================================================================================ *)
From DictIO Require Import Layout Lexer TokParser Reader WriteProofs.

Module C16_mex.
  Definition ks (s : string) : key := KS (of_string s).
  Definition sv (s : string) : tree := Leaf (SStr (of_string s)).
  Definition pth := of_string "/r/parsed.f".
  (* the existing file: a line comment at the top level (which also becomes the place of the default header) and one
     inside b -- what is read back is NOT ordinary data *)
  Definition text := of_string "// first comment
a 1;
b { x 2; // inner
 y 'hello'; }
".
  (* the source dict, values still strings (parse_values types them): clashes with a and b.x, new c and b.z *)
  Definition d : list (key * tree) := [(ks "a", sv "5"); (ks "c", sv "7"); (ks "b", Dict [(ks "x", sv "9"); (ks "z", sv "3")])].
  Definition d_typed : list (key * tree) :=
    [(ks "a", Leaf (SInt 5)); (ks "c", Leaf (SInt 7)); (ks "b", Dict [(ks "x", Leaf (SInt 9)); (ks "z", Leaf (SInt 3))])].
  Definition appended : str := native_header ++ of_string "// first comment
a                             1;
b
{
    x                         2;
    // inner
    y                         hello;
    z                         3;
}
c                             7;
".
  Definition overwritten : str := of_string "a                             5;
c                             7;
b
{
    x                         9;
    z                         3;
}
".
End C16_mex.

(* overwrite mode, and append mode when the target does not exist: the text is the serialisation of the source dict
   (after parse_values), whatever the target held; parse_values raising is the only way to fail *)
Theorem C16_write_text_overwrite : forall foam path existing d,
  (forall d', parse_values_tree (Dict d) = Ok (Dict d') ->
     write_text foam path existing false d = Ok (if foam then foam_to_string_plain d' else to_string_plain d') /\
     write_text foam path None true d = Ok (if foam then foam_to_string_plain d' else to_string_plain d')) /\
  (forall e, parse_values_tree (Dict d) = Raise e ->
     write_text foam path existing false d = Raise e /\ write_text foam path None true d = Raise e) /\
  ((exists d', parse_values_tree (Dict d) = Ok (Dict d')) \/ (exists e, parse_values_tree (Dict d) = Raise e)).
Proof. exact write_text_overwrite. Qed.
Print Assumptions C16_write_text_overwrite.

(* non-vacuity: the existing content cannot even be parsed, and plays no role *)
Example C16_write_text_overwrite_nonvacuous :
  parse_values_tree (Dict C16_mex.d) = Ok (Dict C16_mex.d_typed) /\
  to_string_plain C16_mex.d_typed = C16_mex.overwritten /\
  write_text false C16_mex.pth (Some (of_string "{{{ garbage")) false C16_mex.d = Ok C16_mex.overwritten /\
  write_text false C16_mex.pth (Some C16_mex.text) false C16_mex.d = Ok C16_mex.overwritten /\
  write_text false C16_mex.pth None true C16_mex.d = Ok C16_mex.overwritten.
Proof.
  assert (H : parse_values_tree (Dict C16_mex.d) = Ok (Dict C16_mex.d_typed)) by (vm_compute; reflexivity).
  assert (E : to_string_plain C16_mex.d_typed = C16_mex.overwritten) by (vm_compute; reflexivity).
  destruct (C16_write_text_overwrite false C16_mex.pth (Some (of_string "{{{ garbage")) C16_mex.d) as [A _].
  destruct (C16_write_text_overwrite false C16_mex.pth (Some C16_mex.text) C16_mex.d) as [B _].
  destruct (A _ H) as [A1 A2]. destruct (B _ H) as [B1 _]. cbv iota in A1, A2, B1. rewrite E in A1, A2, B1.
  exact (conj H (conj E (conj A1 (conj B1 A2)))).
Qed.

(* append onto an existing target: the text is the serialisation of [what is read back from the target] merged with
   the source dict (after parse_values); the read-back state is well formed (unique keys at every level -- proved for
   the parser, the clean-up and the include merging), the merged state keeps every leaf of the read-back state under
   ordinary keys and contains every new top-level key of the source.
   Side conditions, both satisfied by the example below:
   - the leaf is not a top-level value referring to its own key (merge replaces such an entry on purpose, see
     C07_merge_self_reference_is_replaced; the expressions table of the read-back state is empty, so the test is on
     the value as it stands);
   - wf of the source dict (unique keys, a Python dict invariant), for the second part. *)
Theorem C16_write_text_append : forall foam path text d txt,
  write_text foam path (Some text) true d = Ok txt ->
  exists s_old c d',
    read_plain [(norm_path path, FNative text)] path true true (-1)%Z = Ok (s_old, c) /\
    parse_values_tree (Dict d) = Ok (Dict d') /\
    map fst d' = map fst d /\
    sd_expr s_old = [] /\
    wf (Dict (sd_data s_old)) = true /\
    txt = (if foam then foam_to_string_sd (sd_merge s_old d' None) else to_string_sd (sd_merge s_old d' None)) /\
    (forall p v, forallb ordinary_key p = true ->
       get_dpath (Dict (sd_data s_old)) p = Some (Leaf v) ->
       match p with [k] => circular k (Leaf v) | _ => false end = false ->
       get_dpath (Dict (sd_data (sd_merge s_old d' None))) p = Some (Leaf v)) /\
    (forall k x, ordinary_key k = true -> wf (Dict d) = true ->
       alookup k (sd_data s_old) = None -> alookup k d' = Some x -> (forall kvs, x <> Dict kvs) ->
       alookup k (sd_data (sd_merge s_old d' None)) = Some x).
Proof. exact write_text_append. Qed.
Print Assumptions C16_write_text_append.

(* what is read back from a file tree of native files is well formed, whatever the text (used above) *)
Theorem C16_read_back_wf : forall fs root inc com count s c, native_fs fs = true ->
  read_plain fs root inc com count = Ok (s, c) -> wf (Dict (sd_data s)) = true.
Proof. exact read_plain_wf. Qed.
Print Assumptions C16_read_back_wf.

(* non-vacuity: the append succeeds with the expected text; the read-back state holds placeholder keys (it is not
   ordinary), and the existing leaves a and b.x -- both clashing with the source -- as well as b.y are obtained from
   the theorem, as is the new key c *)
Example C16_write_text_append_nonvacuous :
  write_text false C16_mex.pth (Some C16_mex.text) true C16_mex.d = Ok C16_mex.appended /\
  exists s_old c d',
    read_plain [(norm_path C16_mex.pth, FNative C16_mex.text)] C16_mex.pth true true (-1)%Z = Ok (s_old, c) /\
    parse_values_tree (Dict C16_mex.d) = Ok (Dict d') /\ d' = C16_mex.d_typed /\
    ordinary_kvs (sd_data s_old) = false /\ wf (Dict (sd_data s_old)) = true /\ wf (Dict C16_mex.d) = true /\
    get_dpath (Dict (sd_data s_old)) [C16_mex.ks "b"; C16_mex.ks "x"] = Some (Leaf (SInt 2)) /\
    get_dpath (Dict d') [C16_mex.ks "b"; C16_mex.ks "x"] = Some (Leaf (SInt 9)) /\
    alookup (C16_mex.ks "c") (sd_data s_old) = None /\
    get_dpath (Dict (sd_data (sd_merge s_old d' None))) [C16_mex.ks "b"; C16_mex.ks "x"] = Some (Leaf (SInt 2)) /\
    get_dpath (Dict (sd_data (sd_merge s_old d' None))) [C16_mex.ks "b"; C16_mex.ks "y"] = Some (Leaf (SStr (of_string "hello"))) /\
    get_dpath (Dict (sd_data (sd_merge s_old d' None))) [C16_mex.ks "a"] = Some (Leaf (SInt 1)) /\
    alookup (C16_mex.ks "c") (sd_data (sd_merge s_old d' None)) = Some (Leaf (SInt 7)).
Proof.
  assert (Hw : write_text false C16_mex.pth (Some C16_mex.text) true C16_mex.d = Ok C16_mex.appended) by (vm_compute; reflexivity).
  split; [exact Hw|].
  destruct (C16_write_text_append _ _ _ _ _ Hw) as [s_old [c [d' [Er [Ed [_ [_ [H2 [_ [Hkeep Hadd]]]]]]]]]].
  exists s_old, c, d'. split; [exact Er|]. split; [exact Ed|].
  assert (Ed' : d' = C16_mex.d_typed).
  { assert (E : parse_values_tree (Dict C16_mex.d) = Ok (Dict C16_mex.d_typed)) by (vm_compute; reflexivity).
    rewrite E in Ed. injection Ed as Ed. symmetry. exact Ed. }
  split; [exact Ed'|]. subst d'. clear Ed.
  assert (Es : exists s0, s0 = s_old /\ ordinary_kvs (sd_data s0) = false /\
                 get_dpath (Dict (sd_data s0)) [C16_mex.ks "b"; C16_mex.ks "x"] = Some (Leaf (SInt 2)) /\
                 get_dpath (Dict (sd_data s0)) [C16_mex.ks "b"; C16_mex.ks "y"] = Some (Leaf (SStr (of_string "hello"))) /\
                 get_dpath (Dict (sd_data s0)) [C16_mex.ks "a"] = Some (Leaf (SInt 1)) /\
                 alookup (C16_mex.ks "c") (sd_data s0) = None).
  { vm_compute in Er. injection Er as Er _. eexists. split; [exact Er|]. vm_compute. repeat split; reflexivity. }
  destruct Es as [s0 [E0 [H1 [H3 [H4 [H5 H6]]]]]]. subst s0.
  assert (Hwd : wf (Dict C16_mex.d) = true) by (vm_compute; reflexivity).
  assert (Obx : forallb ordinary_key [C16_mex.ks "b"; C16_mex.ks "x"] = true) by (vm_compute; reflexivity).
  assert (Oby : forallb ordinary_key [C16_mex.ks "b"; C16_mex.ks "y"] = true) by (vm_compute; reflexivity).
  assert (Oa : forallb ordinary_key [C16_mex.ks "a"] = true) by (vm_compute; reflexivity).
  assert (Oc : ordinary_key (C16_mex.ks "c") = true) by (vm_compute; reflexivity).
  assert (Ca : match [C16_mex.ks "a"] with [k] => circular k (Leaf (SInt 1)) | _ => false end = false) by (vm_compute; reflexivity).
  assert (Dc : alookup (C16_mex.ks "c") C16_mex.d_typed = Some (Leaf (SInt 7))) by (vm_compute; reflexivity).
  assert (Nc : forall kvs, Leaf (SInt 7) <> Dict kvs) by (intros kvs; discriminate).
  assert (Dbx : get_dpath (Dict C16_mex.d_typed) [C16_mex.ks "b"; C16_mex.ks "x"] = Some (Leaf (SInt 9))) by (vm_compute; reflexivity).
  exact (conj H1 (conj H2 (conj Hwd (conj H3 (conj Dbx (conj H6
           (conj (Hkeep _ _ Obx H3 eq_refl) (conj (Hkeep _ _ Oby H4 eq_refl)
           (conj (Hkeep _ _ Oa H5 Ca) (Hadd _ _ Oc Hwd H6 Dc Nc)))))))))).
Qed.

(* non-vacuity of C16_read_back_wf: the two-file tree of C06 is not available here; the single file above, and a file
   that repeats a key at two levels (the second assignment wins, the keys stay unique) *)
Example C16_read_back_wf_nonvacuous :
  let fs := [(norm_path C16_mex.pth, FNative (of_string "a 1; a 2; b { x 1; x 2; } b { y 3; }"))] in
  native_fs fs = true /\
  exists s c, read_plain fs C16_mex.pth true true (-1)%Z = Ok (s, c) /\
    sd_data s = [(C16_mex.ks "a", Leaf (SInt 2)); (C16_mex.ks "b", Dict [(C16_mex.ks "y", Leaf (SInt 3))])] /\
    wf (Dict (sd_data s)) = true.
Proof.
  intros fs. assert (Hn : native_fs fs = true) by (vm_compute; reflexivity). split; [exact Hn|].
  destruct (read_plain fs C16_mex.pth true true (-1)%Z) as [[s c]|e] eqn:E; [|vm_compute in E; discriminate E].
  exists s, c. split; [reflexivity|]. split; [vm_compute in E; injection E as <- _; reflexivity|].
  exact (C16_read_back_wf _ _ _ _ _ _ _ Hn E).
Qed.
