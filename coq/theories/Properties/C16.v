(* C16  Append mode never loses what is already in the file; overwrite mode replaces it (data level; the
   file round trip itself is C01 / C10 / C09 and the byte-level write step is tied by the check). *)
From Coq Require Import NArith ZArith List Bool.
From DictIO Require Import Chars Str Value Scalar KeyPath SDict TreeSpec MiscSpec SDictProofs CliProofs.
Import ListNotations.

(* whatever the sequence of writes: after an append every leaf that was in the file is still there *)
Theorem C16_append_keeps : forall s d p v,
  get_dpath (Dict s) p = Some (Leaf v) ->
  exists s', spec_write (Some s) (d, true) = Some s' /\ get_dpath (Dict s') p = Some (Leaf v).
Proof. exact append_keeps. Qed.
Print Assumptions C16_append_keeps.

(* ... for every number of further appends *)
Theorem C16_appends_keep : forall ds s p v,
  get_dpath (Dict s) p = Some (Leaf v) ->
  exists s', spec_writes (map (fun d => (d, true)) ds) (Some s) = Some s' /\ get_dpath (Dict s') p = Some (Leaf v).
Proof. exact appends_keep. Qed.
Print Assumptions C16_appends_keep.

(* overwrite (and any write to a file that does not exist) makes the file contain exactly the new dict *)
Theorem C16_overwrite : forall st d, spec_write st (d, false) = Some d /\ spec_write None (d, true) = Some d.
Proof. exact overwrite_replaces. Qed.
Print Assumptions C16_overwrite.

(* every key path of the appended dict is present afterwards unless an existing non-dict entry is in its way *)
Theorem C16_append_adds : forall s d p x, wf (Dict d) = true -> get_dpath (Dict d) p = Some x ->
  exists s', spec_write (Some s) (d, true) = Some s' /\
  ((exists y, get_dpath (Dict s') p = Some y) \/
   (exists r t, strict_prefix r p /\ r <> [] /\ get_dpath (Dict s) r = Some t /\ (forall kvs, t <> Dict kvs))).
Proof. exact append_adds. Qed.
Print Assumptions C16_append_adds.
