(* placeholder until the proofs are integrated *)
From DictIO Require Import Chars Str Value Scalar.
Theorem C16_placeholder : True. Proof. exact I. Qed.
Print Assumptions C16_placeholder.
