(* C16  Append mode never loses what is already in the file; overwrite mode replaces it (data level; the
   file round trip itself is C01 / C10 / C09 and the byte-level write step is tied by the check). *)
From Coq Require Import String.   (* string literals of the examples; imported first so the list names win *)
From Coq Require Import NArith ZArith List Bool.
From DictIO Require Import Chars Str Value Scalar KeyPath SDict TreeSpec MiscSpec SDictProofs CliProofs.
Import ListNotations.

(* data of the non-vacuity examples: the file content [s] and two dicts appended to it *)
Module C16_ex.
  Definition ka := KS (of_string "a").  Definition kb := KS (of_string "b").
  Definition kc := KS (of_string "c").  Definition kd := KS (of_string "d").
  Definition one := Leaf (SInt 1).  Definition two := Leaf (SInt 2).
  Definition s : list (key * tree) := [(ka, Dict [(kb, one); (kc, Lst [one])]); (kc, two)].
  Definition d1 : list (key * tree) :=
    [(kd, one); (ka, Dict [(kb, two); (kd, Dict [(ka, two)]); (kc, Dict [(ka, one)])]); (kc, Dict [(ka, one)])].
  Definition d2 : list (key * tree) := [(ka, Dict [(kb, Lst []); (kd, Dict [(kb, one)])]); (kb, two)].
End C16_ex.

(* whatever the sequence of writes: after an append every leaf that was in the file is still there *)
Theorem C16_append_keeps : forall s d p v,
  get_dpath (Dict s) p = Some (Leaf v) ->
  exists s', spec_write (Some s) (d, true) = Some s' /\ get_dpath (Dict s') p = Some (Leaf v).
Proof. exact append_keeps. Qed.
Print Assumptions C16_append_keeps.

Example C16_append_keeps_nonvacuous :
  get_dpath (Dict C16_ex.s) [C16_ex.ka; C16_ex.kb] = Some (Leaf (SInt 1)) /\
  get_dpath (Dict C16_ex.d1) [C16_ex.ka; C16_ex.kb] = Some (Leaf (SInt 2)) /\
  exists s', spec_write (Some C16_ex.s) (C16_ex.d1, true) = Some s' /\ s' <> C16_ex.s /\
             get_dpath (Dict s') [C16_ex.ka; C16_ex.kb] = Some (Leaf (SInt 1)).
Proof.
  assert (H : get_dpath (Dict C16_ex.s) [C16_ex.ka; C16_ex.kb] = Some (Leaf (SInt 1))) by (vm_compute; reflexivity).
  refine (conj H (conj _ _)); [vm_compute; reflexivity|].
  destruct (C16_append_keeps C16_ex.s C16_ex.d1 _ _ H) as [s' [E1 E2]].
  exists s'. refine (conj E1 (conj _ E2)). vm_compute in E1. injection E1 as <-. vm_compute. discriminate.
Qed.

(* ... for every number of further appends *)
Theorem C16_appends_keep : forall ds s p v,
  get_dpath (Dict s) p = Some (Leaf v) ->
  exists s', spec_writes (map (fun d => (d, true)) ds) (Some s) = Some s' /\ get_dpath (Dict s') p = Some (Leaf v).
Proof. exact appends_keep. Qed.
Print Assumptions C16_appends_keep.

Example C16_appends_keep_nonvacuous :
  get_dpath (Dict C16_ex.s) [C16_ex.ka; C16_ex.kb] = Some (Leaf (SInt 1)) /\
  exists s', spec_writes (map (fun d => (d, true)) [C16_ex.d1; C16_ex.d2; C16_ex.d1]) (Some C16_ex.s) = Some s' /\
             get_dpath (Dict s') [C16_ex.ka; C16_ex.kb] = Some (Leaf (SInt 1)) /\
             get_dpath (Dict s') [C16_ex.ka; C16_ex.kd; C16_ex.kb] = Some (Leaf (SInt 1)).
Proof.
  assert (H : get_dpath (Dict C16_ex.s) [C16_ex.ka; C16_ex.kb] = Some (Leaf (SInt 1))) by (vm_compute; reflexivity).
  split; [exact H|].
  destruct (C16_appends_keep [C16_ex.d1; C16_ex.d2; C16_ex.d1] C16_ex.s _ _ H) as [s' [E1 E2]].
  exists s'. refine (conj E1 (conj E2 _)). vm_compute in E1. injection E1 as <-. vm_compute. reflexivity.
Qed.

(* overwrite (and any write to a file that does not exist) makes the file contain exactly the new dict *)
Theorem C16_overwrite : forall st d, spec_write st (d, false) = Some d /\ spec_write None (d, true) = Some d.
Proof. exact overwrite_replaces. Qed.
Print Assumptions C16_overwrite.

(* every key path of the appended dict is present afterwards unless an existing non-dict entry is in its way *)
Theorem C16_append_adds : forall s d p x, wf (Dict d) = true -> get_dpath (Dict d) p = Some x ->
  exists s', spec_write (Some s) (d, true) = Some s' /\
  ((exists y, get_dpath (Dict s') p = Some y) \/
   (exists r t, strict_prefix r p /\ r <> [] /\ get_dpath (Dict s) r = Some t /\ (forall kvs, t <> Dict kvs))).
Proof. exact append_adds. Qed.
Print Assumptions C16_append_adds.

(* non-vacuity: both alternatives occur -- a.d.a is added, c.a is blocked by the existing leaf c *)
Example C16_append_adds_nonvacuous :
  wf (Dict C16_ex.d1) = true /\
  get_dpath (Dict C16_ex.d1) [C16_ex.ka; C16_ex.kd; C16_ex.ka] = Some C16_ex.two /\
  get_dpath (Dict C16_ex.d1) [C16_ex.kc; C16_ex.ka] = Some C16_ex.one /\
  exists s', spec_write (Some C16_ex.s) (C16_ex.d1, true) = Some s' /\
    get_dpath (Dict s') [C16_ex.ka; C16_ex.kd; C16_ex.ka] = Some C16_ex.two /\
    get_dpath (Dict s') [C16_ex.kc; C16_ex.ka] = None /\
    ((exists y, get_dpath (Dict s') [C16_ex.kc; C16_ex.ka] = Some y) \/
     (exists r t, strict_prefix r [C16_ex.kc; C16_ex.ka] /\ r <> [] /\ get_dpath (Dict C16_ex.s) r = Some t /\ (forall kvs, t <> Dict kvs))).
Proof.
  assert (H1 : wf (Dict C16_ex.d1) = true) by (vm_compute; reflexivity).
  assert (H2 : get_dpath (Dict C16_ex.d1) [C16_ex.kc; C16_ex.ka] = Some C16_ex.one) by (vm_compute; reflexivity).
  refine (conj H1 (conj _ (conj H2 _))); [vm_compute; reflexivity|].
  destruct (C16_append_adds C16_ex.s C16_ex.d1 _ _ H1 H2) as [s' [E1 E2]].
  exists s'. refine (conj E1 (conj _ (conj _ E2))); vm_compute in E1; injection E1 as <-; vm_compute; reflexivity.
Qed.
