(* C16  Append mode never loses what is already in the file; overwrite mode replaces it (data level; the
   file round trip itself is C01 / C10 / C09 and the byte-level write step is tied by the check). *)
From Coq Require Import String.   (* string literals of the examples; imported first so the list names win *)
From Coq Require Import NArith ZArith List Bool.
From DictIO Require Import Chars Str Value Scalar KeyPath SDict TreeSpec MiscSpec SDictProofs CliProofs.
Import ListNotations.

(* data of the non-vacuity examples: the file content [s] and two dicts appended to it *)
Module C16_ex.
  Definition ka := KS (of_string "a").  Definition kb := KS (of_string "b").
  Definition kc := KS (of_string "c").  Definition kd := KS (of_string "d").
  Definition one := Leaf (SInt 1).  Definition two := Leaf (SInt 2).
  Definition s : list (key * tree) := [(ka, Dict [(kb, one); (kc, Lst [one])]); (kc, two)].
  Definition d1 : list (key * tree) :=
    [(kd, one); (ka, Dict [(kb, two); (kd, Dict [(ka, two)]); (kc, Dict [(ka, one)])]); (kc, Dict [(ka, one)])].
  Definition d2 : list (key * tree) := [(ka, Dict [(kb, Lst []); (kd, Dict [(kb, one)])]); (kb, two)].
End C16_ex.

(* whatever the sequence of writes: after an append every leaf that was in the file is still there *)
Theorem C16_append_keeps : forall s d p v,
  get_dpath (Dict s) p = Some (Leaf v) ->
  exists s', spec_write (Some s) (d, true) = Some s' /\ get_dpath (Dict s') p = Some (Leaf v).
Proof. exact append_keeps. Qed.
Print Assumptions C16_append_keeps.

Example C16_append_keeps_nonvacuous :
  get_dpath (Dict C16_ex.s) [C16_ex.ka; C16_ex.kb] = Some (Leaf (SInt 1)) /\
  get_dpath (Dict C16_ex.d1) [C16_ex.ka; C16_ex.kb] = Some (Leaf (SInt 2)) /\
  exists s', spec_write (Some C16_ex.s) (C16_ex.d1, true) = Some s' /\ s' <> C16_ex.s /\
             get_dpath (Dict s') [C16_ex.ka; C16_ex.kb] = Some (Leaf (SInt 1)).
Proof.
  assert (H : get_dpath (Dict C16_ex.s) [C16_ex.ka; C16_ex.kb] = Some (Leaf (SInt 1))) by (vm_compute; reflexivity).
  refine (conj H (conj _ _)); [vm_compute; reflexivity|].
  destruct (C16_append_keeps C16_ex.s C16_ex.d1 _ _ H) as [s' [E1 E2]].
  exists s'. refine (conj E1 (conj _ E2)). vm_compute in E1. injection E1 as <-. vm_compute. discriminate.
Qed.

(* ... for every number of further appends *)
Theorem C16_appends_keep : forall ds s p v,
  get_dpath (Dict s) p = Some (Leaf v) ->
  exists s', spec_writes (map (fun d => (d, true)) ds) (Some s) = Some s' /\ get_dpath (Dict s') p = Some (Leaf v).
Proof. exact appends_keep. Qed.
Print Assumptions C16_appends_keep.

Example C16_appends_keep_nonvacuous :
  get_dpath (Dict C16_ex.s) [C16_ex.ka; C16_ex.kb] = Some (Leaf (SInt 1)) /\
  exists s', spec_writes (map (fun d => (d, true)) [C16_ex.d1; C16_ex.d2; C16_ex.d1]) (Some C16_ex.s) = Some s' /\
             get_dpath (Dict s') [C16_ex.ka; C16_ex.kb] = Some (Leaf (SInt 1)) /\
             get_dpath (Dict s') [C16_ex.ka; C16_ex.kd; C16_ex.kb] = Some (Leaf (SInt 1)).
Proof.
  assert (H : get_dpath (Dict C16_ex.s) [C16_ex.ka; C16_ex.kb] = Some (Leaf (SInt 1))) by (vm_compute; reflexivity).
  split; [exact H|].
  destruct (C16_appends_keep [C16_ex.d1; C16_ex.d2; C16_ex.d1] C16_ex.s _ _ H) as [s' [E1 E2]].
  exists s'. refine (conj E1 (conj E2 _)). vm_compute in E1. injection E1 as <-. vm_compute. reflexivity.
Qed.

(* overwrite (and any write to a file that does not exist) makes the file contain exactly the new dict *)
Theorem C16_overwrite : forall st d, spec_write st (d, false) = Some d /\ spec_write None (d, true) = Some d.
Proof. exact overwrite_replaces. Qed.
Print Assumptions C16_overwrite.

(* every key path of the appended dict is present afterwards unless an existing non-dict entry is in its way *)
Theorem C16_append_adds : forall s d p x, wf (Dict d) = true -> get_dpath (Dict d) p = Some x ->
  exists s', spec_write (Some s) (d, true) = Some s' /\
  ((exists y, get_dpath (Dict s') p = Some y) \/
   (exists r t, strict_prefix r p /\ r <> [] /\ get_dpath (Dict s) r = Some t /\ (forall kvs, t <> Dict kvs))).
Proof. exact append_adds. Qed.
Print Assumptions C16_append_adds.

(* non-vacuity: both alternatives occur -- a.d.a is added, c.a is blocked by the existing leaf c *)
Example C16_append_adds_nonvacuous :
  wf (Dict C16_ex.d1) = true /\
  get_dpath (Dict C16_ex.d1) [C16_ex.ka; C16_ex.kd; C16_ex.ka] = Some C16_ex.two /\
  get_dpath (Dict C16_ex.d1) [C16_ex.kc; C16_ex.ka] = Some C16_ex.one /\
  exists s', spec_write (Some C16_ex.s) (C16_ex.d1, true) = Some s' /\
    get_dpath (Dict s') [C16_ex.ka; C16_ex.kd; C16_ex.ka] = Some C16_ex.two /\
    get_dpath (Dict s') [C16_ex.kc; C16_ex.ka] = None /\
    ((exists y, get_dpath (Dict s') [C16_ex.kc; C16_ex.ka] = Some y) \/
     (exists r t, strict_prefix r [C16_ex.kc; C16_ex.ka] /\ r <> [] /\ get_dpath (Dict C16_ex.s) r = Some t /\ (forall kvs, t <> Dict kvs))).
Proof.
  assert (H1 : wf (Dict C16_ex.d1) = true) by (vm_compute; reflexivity).
  assert (H2 : get_dpath (Dict C16_ex.d1) [C16_ex.kc; C16_ex.ka] = Some C16_ex.one) by (vm_compute; reflexivity).
  refine (conj H1 (conj _ (conj H2 _))); [vm_compute; reflexivity|].
  destruct (C16_append_adds C16_ex.s C16_ex.d1 _ _ H1 H2) as [s' [E1 E2]].
  exists s'. refine (conj E1 (conj _ (conj _ E2))); vm_compute in E1; injection E1 as <-; vm_compute; reflexivity.
Qed.

(* ================================================================================================================ *)
(* The same for the MODEL's write step Reader.write_text (DictWriter.write up to the text handed to the file):       *)
(* the theorems above speak of spec_write only.                                                                     *)
(* ================================================================================================================ *)
From DictIO Require Import Layout Lexer TokParser Reader WriteProofs.

Module C16_mex.
  Definition ks (s : string) : key := KS (of_string s).
  Definition sv (s : string) : tree := Leaf (SStr (of_string s)).
  Definition pth := of_string "/r/parsed.f".
  (* the existing file: a line comment at the top level (which also becomes the place of the default header) and one
     inside b -- what is read back is NOT ordinary data *)
  Definition text := of_string "// first comment
a 1;
b { x 2; // inner
 y 'hello'; }
".
  (* the source dict, values still strings (parse_values types them): clashes with a and b.x, new c and b.z *)
  Definition d : list (key * tree) := [(ks "a", sv "5"); (ks "c", sv "7"); (ks "b", Dict [(ks "x", sv "9"); (ks "z", sv "3")])].
  Definition d_typed : list (key * tree) :=
    [(ks "a", Leaf (SInt 5)); (ks "c", Leaf (SInt 7)); (ks "b", Dict [(ks "x", Leaf (SInt 9)); (ks "z", Leaf (SInt 3))])].
  Definition appended : str := native_header ++ of_string "// first comment
a                             1;
b
{
    x                         2;
    // inner
    y                         hello;
    z                         3;
}
c                             7;
".
  Definition overwritten : str := of_string "a                             5;
c                             7;
b
{
    x                         9;
    z                         3;
}
".
End C16_mex.

(* overwrite mode, and append mode when the target does not exist: the text is the serialisation of the source dict
   (after parse_values), whatever the target held; parse_values raising is the only way to fail *)
Theorem C16_write_text_overwrite : forall foam path existing d,
  (forall d', parse_values_tree (Dict d) = Ok (Dict d') ->
     write_text foam path existing false d = Ok (if foam then foam_to_string_plain d' else to_string_plain d') /\
     write_text foam path None true d = Ok (if foam then foam_to_string_plain d' else to_string_plain d')) /\
  (forall e, parse_values_tree (Dict d) = Raise e ->
     write_text foam path existing false d = Raise e /\ write_text foam path None true d = Raise e) /\
  ((exists d', parse_values_tree (Dict d) = Ok (Dict d')) \/ (exists e, parse_values_tree (Dict d) = Raise e)).
Proof. exact write_text_overwrite. Qed.
Print Assumptions C16_write_text_overwrite.

(* non-vacuity: the existing content cannot even be parsed, and plays no role *)
Example C16_write_text_overwrite_nonvacuous :
  parse_values_tree (Dict C16_mex.d) = Ok (Dict C16_mex.d_typed) /\
  to_string_plain C16_mex.d_typed = C16_mex.overwritten /\
  write_text false C16_mex.pth (Some (of_string "{{{ garbage")) false C16_mex.d = Ok C16_mex.overwritten /\
  write_text false C16_mex.pth (Some C16_mex.text) false C16_mex.d = Ok C16_mex.overwritten /\
  write_text false C16_mex.pth None true C16_mex.d = Ok C16_mex.overwritten.
Proof.
  assert (H : parse_values_tree (Dict C16_mex.d) = Ok (Dict C16_mex.d_typed)) by (vm_compute; reflexivity).
  assert (E : to_string_plain C16_mex.d_typed = C16_mex.overwritten) by (vm_compute; reflexivity).
  destruct (C16_write_text_overwrite false C16_mex.pth (Some (of_string "{{{ garbage")) C16_mex.d) as [A _].
  destruct (C16_write_text_overwrite false C16_mex.pth (Some C16_mex.text) C16_mex.d) as [B _].
  destruct (A _ H) as [A1 A2]. destruct (B _ H) as [B1 _]. cbv iota in A1, A2, B1. rewrite E in A1, A2, B1.
  exact (conj H (conj E (conj A1 (conj B1 A2)))).
Qed.

(* append onto an existing target: the text is the serialisation of [what is read back from the target] merged with
   the source dict (after parse_values); the read-back state is well formed (unique keys at every level -- proved for
   the parser, the clean-up and the include merging), the merged state keeps every leaf of the read-back state under
   ordinary keys and contains every new top-level key of the source.
   Side conditions, both satisfied by the example below:
   - the leaf is not a top-level value referring to its own key (merge replaces such an entry on purpose, see
     C07_merge_self_reference_is_replaced; the expressions table of the read-back state is empty, so the test is on
     the value as it stands);
   - wf of the source dict (unique keys, a Python dict invariant), for the second part. *)
Theorem C16_write_text_append : forall foam path text d txt,
  write_text foam path (Some text) true d = Ok txt ->
  exists s_old c d',
    read_plain [(norm_path path, FNative text)] path true true (-1)%Z = Ok (s_old, c) /\
    parse_values_tree (Dict d) = Ok (Dict d') /\
    map fst d' = map fst d /\
    sd_expr s_old = [] /\
    wf (Dict (sd_data s_old)) = true /\
    txt = (if foam then foam_to_string_sd (sd_merge s_old d' None) else to_string_sd (sd_merge s_old d' None)) /\
    (forall p v, forallb ordinary_key p = true ->
       get_dpath (Dict (sd_data s_old)) p = Some (Leaf v) ->
       match p with [k] => circular k (Leaf v) | _ => false end = false ->
       get_dpath (Dict (sd_data (sd_merge s_old d' None))) p = Some (Leaf v)) /\
    (forall k x, ordinary_key k = true -> wf (Dict d) = true ->
       alookup k (sd_data s_old) = None -> alookup k d' = Some x -> (forall kvs, x <> Dict kvs) ->
       alookup k (sd_data (sd_merge s_old d' None)) = Some x).
Proof. exact write_text_append. Qed.
Print Assumptions C16_write_text_append.

(* what is read back from a file tree of native files is well formed, whatever the text (used above) *)
Theorem C16_read_back_wf : forall fs root inc com count s c, native_fs fs = true ->
  read_plain fs root inc com count = Ok (s, c) -> wf (Dict (sd_data s)) = true.
Proof. exact read_plain_wf. Qed.
Print Assumptions C16_read_back_wf.

(* non-vacuity: the append succeeds with the expected text; the read-back state holds placeholder keys (it is not
   ordinary), and the existing leaves a and b.x -- both clashing with the source -- as well as b.y are obtained from
   the theorem, as is the new key c *)
Example C16_write_text_append_nonvacuous :
  write_text false C16_mex.pth (Some C16_mex.text) true C16_mex.d = Ok C16_mex.appended /\
  exists s_old c d',
    read_plain [(norm_path C16_mex.pth, FNative C16_mex.text)] C16_mex.pth true true (-1)%Z = Ok (s_old, c) /\
    parse_values_tree (Dict C16_mex.d) = Ok (Dict d') /\ d' = C16_mex.d_typed /\
    ordinary_kvs (sd_data s_old) = false /\ wf (Dict (sd_data s_old)) = true /\ wf (Dict C16_mex.d) = true /\
    get_dpath (Dict (sd_data s_old)) [C16_mex.ks "b"; C16_mex.ks "x"] = Some (Leaf (SInt 2)) /\
    get_dpath (Dict d') [C16_mex.ks "b"; C16_mex.ks "x"] = Some (Leaf (SInt 9)) /\
    alookup (C16_mex.ks "c") (sd_data s_old) = None /\
    get_dpath (Dict (sd_data (sd_merge s_old d' None))) [C16_mex.ks "b"; C16_mex.ks "x"] = Some (Leaf (SInt 2)) /\
    get_dpath (Dict (sd_data (sd_merge s_old d' None))) [C16_mex.ks "b"; C16_mex.ks "y"] = Some (Leaf (SStr (of_string "hello"))) /\
    get_dpath (Dict (sd_data (sd_merge s_old d' None))) [C16_mex.ks "a"] = Some (Leaf (SInt 1)) /\
    alookup (C16_mex.ks "c") (sd_data (sd_merge s_old d' None)) = Some (Leaf (SInt 7)).
Proof.
  assert (Hw : write_text false C16_mex.pth (Some C16_mex.text) true C16_mex.d = Ok C16_mex.appended) by (vm_compute; reflexivity).
  split; [exact Hw|].
  destruct (C16_write_text_append _ _ _ _ _ Hw) as [s_old [c [d' [Er [Ed [_ [_ [H2 [_ [Hkeep Hadd]]]]]]]]]].
  exists s_old, c, d'. split; [exact Er|]. split; [exact Ed|].
  assert (Ed' : d' = C16_mex.d_typed).
  { assert (E : parse_values_tree (Dict C16_mex.d) = Ok (Dict C16_mex.d_typed)) by (vm_compute; reflexivity).
    rewrite E in Ed. injection Ed as Ed. symmetry. exact Ed. }
  split; [exact Ed'|]. subst d'. clear Ed.
  assert (Es : exists s0, s0 = s_old /\ ordinary_kvs (sd_data s0) = false /\
                 get_dpath (Dict (sd_data s0)) [C16_mex.ks "b"; C16_mex.ks "x"] = Some (Leaf (SInt 2)) /\
                 get_dpath (Dict (sd_data s0)) [C16_mex.ks "b"; C16_mex.ks "y"] = Some (Leaf (SStr (of_string "hello"))) /\
                 get_dpath (Dict (sd_data s0)) [C16_mex.ks "a"] = Some (Leaf (SInt 1)) /\
                 alookup (C16_mex.ks "c") (sd_data s0) = None).
  { vm_compute in Er. injection Er as Er _. eexists. split; [exact Er|]. vm_compute. repeat split; reflexivity. }
  destruct Es as [s0 [E0 [H1 [H3 [H4 [H5 H6]]]]]]. subst s0.
  assert (Hwd : wf (Dict C16_mex.d) = true) by (vm_compute; reflexivity).
  assert (Obx : forallb ordinary_key [C16_mex.ks "b"; C16_mex.ks "x"] = true) by (vm_compute; reflexivity).
  assert (Oby : forallb ordinary_key [C16_mex.ks "b"; C16_mex.ks "y"] = true) by (vm_compute; reflexivity).
  assert (Oa : forallb ordinary_key [C16_mex.ks "a"] = true) by (vm_compute; reflexivity).
  assert (Oc : ordinary_key (C16_mex.ks "c") = true) by (vm_compute; reflexivity).
  assert (Ca : match [C16_mex.ks "a"] with [k] => circular k (Leaf (SInt 1)) | _ => false end = false) by (vm_compute; reflexivity).
  assert (Dc : alookup (C16_mex.ks "c") C16_mex.d_typed = Some (Leaf (SInt 7))) by (vm_compute; reflexivity).
  assert (Nc : forall kvs, Leaf (SInt 7) <> Dict kvs) by (intros kvs; discriminate).
  assert (Dbx : get_dpath (Dict C16_mex.d_typed) [C16_mex.ks "b"; C16_mex.ks "x"] = Some (Leaf (SInt 9))) by (vm_compute; reflexivity).
  exact (conj H1 (conj H2 (conj Hwd (conj H3 (conj Dbx (conj H6
           (conj (Hkeep _ _ Obx H3 eq_refl) (conj (Hkeep _ _ Oby H4 eq_refl)
           (conj (Hkeep _ _ Oa H5 Ca) (Hadd _ _ Oc Hwd H6 Dc Nc)))))))))).
Qed.

(* non-vacuity of C16_read_back_wf: the two-file tree of C06 is not available here; the single file above, and a file
   that repeats a key at two levels (the second assignment wins, the keys stay unique) *)
Example C16_read_back_wf_nonvacuous :
  let fs := [(norm_path C16_mex.pth, FNative (of_string "a 1; a 2; b { x 1; x 2; } b { y 3; }"))] in
  native_fs fs = true /\
  exists s c, read_plain fs C16_mex.pth true true (-1)%Z = Ok (s, c) /\
    sd_data s = [(C16_mex.ks "a", Leaf (SInt 2)); (C16_mex.ks "b", Dict [(C16_mex.ks "y", Leaf (SInt 3))])] /\
    wf (Dict (sd_data s)) = true.
Proof.
  intros fs. assert (Hn : native_fs fs = true) by (vm_compute; reflexivity). split; [exact Hn|].
  destruct (read_plain fs C16_mex.pth true true (-1)%Z) as [[s c]|e] eqn:E; [|vm_compute in E; discriminate E].
  exists s, c. split; [reflexivity|]. split; [vm_compute in E; injection E as <- _; reflexivity|].
  exact (C16_read_back_wf _ _ _ _ _ _ _ Hn E).
Qed.

(* ================================================================================================== *)
(* added from Properties/C16_add.v (2026-10-01)                                              *)
(* ================================================================================================== *)
(* C16, continued: the composition through RE-PARSING.  What DictWriter.write leaves in the target, read back with
   DictReader.read (includes and comments on, as DictWriter itself reads the target in append mode), for one write and
   for any number of writes.  Model functions: Reader.write_text / writer_run (the write step, text level) and
   Reader.read_plain (the read).  The mode is a bool in the model (append / not append): the Python code tests
   mode == 'a' only, so every other mode string, recognised or not, takes the overwrite branch (wiring fact of
   DictWriter.write, not a theorem here). *)
From Coq Require Import String.
From Coq Require Import NArith ZArith List Bool Lia.
From DictIO Require Import Chars Str Value Scalar KeyPath SDict Layout Lexer TokParser Reader TreeSpec NativeSpec E2ESpec MiscSpec.
From DictIO Require Import SDictProofs WriteProofs E2EFullProofs RereadPlain RereadTree AppendSeq.
Import ListNotations.

(* three source dicts (leaves still strings, as a caller passes them): overlapping nested dicts, a string leaf with
   blanks, leaves that are re-typed (007 -> 7, 2.5, true), an apostrophe, a list *)
Module C16_sq.
  Definition ks (s : string) : key := KS (of_string s).
  Definition sv (s : string) : tree := Leaf (SStr (of_string s)).
  Definition pth := of_string "/r/out.dict".
  Definition d1 : list (key * tree) :=
    [(ks "a", sv "007"); (ks "sub", Dict [(ks "x", sv "two words"); (ks "n", Dict [(ks "p", sv "1")])])].
  Definition d2 : list (key * tree) :=
    [(ks "a", sv "9"); (ks "sub", Dict [(ks "x", sv "other"); (ks "y", sv "2.5"); (ks "n", Dict [(ks "q", sv "it's")])]); (ks "b", sv "true")].
  Definition d3 : list (key * tree) :=
    [(ks "sub", Dict [(ks "n", Dict [(ks "p", sv "5"); (ks "r", sv "x y")]); (ks "z", Lst [sv "1"; sv "a b"])]); (ks "c", sv "last")].
  Definition t1 : str := of_string "a                             7;
sub
{
    x                         'two words';
    n
    {
        p                     1;
    }
}
".
End C16_sq.

(* (1) After an overwrite -- or a first write to a target that does not exist, in either mode -- of a dict of the writer
   domain, the file read back is EXACTLY the new dict, every leaf as the reader classifies its written form
   (classified d = written_value on every leaf of parse_values d): no comment, no include, no expression, whatever the
   target held before.  Domain: parse_values succeeds (pv_ok); the typed dict has unique keys, simple keys, writable
   leaves, quoted literals at most ten keys deep (wdom: the side conditions of C01_roundtrip); at most a million quoted
   literals (six-digit placeholders). *)
Theorem C16_overwrite_reads_back : forall path existing d,
  pv_ok d = true -> wdom (typed d) = true -> (Z.of_nat (nq (Dict (typed d))) <= 1000000)%Z ->
  exists txt c,
    write_text false path existing false d = Ok txt /\ write_text false path None true d = Ok txt /\
    txt = to_string_plain (typed d) /\
    read_plain [(norm_path path, FNative txt)] path true true (-1)%Z = Ok (mkSD (classified d) [] [] [] [], c).
Proof. exact overwrite_reads_back. Qed.
Print Assumptions C16_overwrite_reads_back.

Example C16_overwrite_reads_back_nonvacuous :
  pv_ok C16_sq.d1 = true /\ wdom (typed C16_sq.d1) = true /\ (Z.of_nat (nq (Dict (typed C16_sq.d1))) <= 1000000)%Z /\
  classified C16_sq.d1 = [(C16_sq.ks "a", Leaf (SInt 7));
                          (C16_sq.ks "sub", Dict [(C16_sq.ks "x", C16_sq.sv "two words"); (C16_sq.ks "n", Dict [(C16_sq.ks "p", Leaf (SInt 1))])])] /\
  exists c,
    write_text false C16_sq.pth (Some (of_string "{{{ garbage")) false C16_sq.d1 = Ok C16_sq.t1 /\
    write_text false C16_sq.pth None true C16_sq.d1 = Ok C16_sq.t1 /\
    read_plain [(norm_path C16_sq.pth, FNative C16_sq.t1)] C16_sq.pth true true (-1)%Z = Ok (mkSD (classified C16_sq.d1) [] [] [] [], c).
Proof.
  assert (H0 : pv_ok C16_sq.d1 = true) by (vm_compute; reflexivity).
  assert (H1 : wdom (typed C16_sq.d1) = true) by (vm_compute; reflexivity).
  assert (H2 : (Z.of_nat (nq (Dict (typed C16_sq.d1))) <= 1000000)%Z) by (vm_compute; discriminate).
  refine (conj H0 (conj H1 (conj H2 (conj _ _)))); [vm_compute; reflexivity|].
  destruct (C16_overwrite_reads_back C16_sq.pth (Some (of_string "{{{ garbage")) C16_sq.d1 H0 H1 H2) as (txt & c & W1 & W2 & Et & Er).
  assert (E : txt = C16_sq.t1) by (rewrite Et; vm_compute; reflexivity). subst txt.
  exists c. exact (conj W1 (conj W2 Er)).
Qed.

(* the entry AB000001 = 'AB000001', excluded from the append theorems below (C16_self_named_finding), is no obstacle here *)
Example C16_overwrite_reads_back_self_named :
  let d := [(C16_sq.ks "AB000001", C16_sq.sv "AB000001")] in
  pv_ok d = true /\ wdom (typed d) = true /\ writable_src d = false /\
  exists txt c, write_text false C16_sq.pth None true d = Ok txt /\
    read_plain [(norm_path C16_sq.pth, FNative txt)] C16_sq.pth true true (-1)%Z = Ok (mkSD d [] [] [] [], c).
Proof.
  intros d. assert (H0 : pv_ok d = true) by (vm_compute; reflexivity). assert (H1 : wdom (typed d) = true) by (vm_compute; reflexivity).
  refine (conj H0 (conj H1 (conj _ _))); [vm_compute; reflexivity|].
  destruct (C16_overwrite_reads_back C16_sq.pth None d H0 H1 ltac:(vm_compute; discriminate)) as (txt & c & _ & W & _ & Er).
  exists txt, c. split; [exact W|]. assert (E : classified d = d) by (vm_compute; reflexivity). rewrite E in Er. exact Er.
Qed.

(* (2) Any number of writes in append mode onto a target that does not exist at first: every write succeeds, and the data
   read back after the last one is the fold of the first-wins recursive merge (TreeSpec.merge_spec, the specification
   of SDict.merge) over the dicts as the reader classifies them -- behind the entry of the default header block comment
   (BLOCKCOMMENT000000, the only comment: st_of true) from the second write on, which is when DictWriter first formats
   an SDict instead of the plain source dict.  Proved by induction over the list: each read-back state is again in the
   writer domain and a fixed point of reading back (C03), so that the next step applies.
   Domain, per dict (writable_src): as for C16_overwrite_reads_back, and
     no_self_named (classified d)   no top-level entry whose value is a string equal to its own key, the key having the
                                    shape of a placeholder (upper case letters + six digits): SDict.merge REPLACES such
                                    an entry of the existing file by the new value (C16_self_named_finding below);
   over the whole list: at most a million quoted literals in all (nq_total).
   The domain is closed under the merge (unique keys, simple keys, writable leaves, quoted literals at most ten keys
   deep, no self-named entry; the numbers of quoted literals add up), so nothing else is asked of the list. *)
Theorem C16_append_sequence : forall path w ds,
  w_get path w = None -> ds <> [] ->
  forallb writable_src ds = true ->
  (Z.of_nat (nq_total ds) <= 1000000)%Z ->
  let F := fold_left merge_spec (map classified ds) [] in
  exists txt c,
    w_get path (writer_run false w path (appends ds)) = Some txt /\
    read_plain [(norm_path path, FNative txt)] path true true (-1)%Z = Ok (st_of (Nat.ltb 1 (length ds)) F, c) /\
    wdom F = true /\ reread_plain F = F.
Proof. exact append_sequence_reads_back. Qed.
Print Assumptions C16_append_sequence.

Module C16_sq2.
  Import C16_sq.
  Definition t3 : str := native_header ++ of_string "a                             7;
sub
{
    x                         'two words';
    n
    {
        p                     1;
        q                     ""it's"";
        r                     'x y';
    }
    y                         2.5;
    z
    (
        1                 'a b'
    );
}
b                             true;
c                             last;
".
  (* the first value of a, sub.x and sub.n.p wins; sub.n.q, sub.y, b come from d2; sub.n.r, sub.z, c from d3 *)
  Definition F3 : list (key * tree) :=
    [(ks "a", Leaf (SInt 7));
     (ks "sub", Dict [(ks "x", sv "two words");
                      (ks "n", Dict [(ks "p", Leaf (SInt 1)); (ks "q", sv "it's"); (ks "r", sv "x y")]);
                      (ks "y", Leaf (SFloat (of_string "2.5")));
                      (ks "z", Lst [Leaf (SInt 1); sv "a b"])]);
     (ks "b", Leaf (SBool true)); (ks "c", sv "last")].
End C16_sq2.

Example C16_append_sequence_nonvacuous :
  let ds := [C16_sq.d1; C16_sq.d2; C16_sq.d3] in
  forallb writable_src ds = true /\ (Z.of_nat (nq_total ds) <= 1000000)%Z /\
  fold_left merge_spec (map classified ds) [] = C16_sq2.F3 /\
  exists c,
    w_get C16_sq.pth (writer_run false [] C16_sq.pth (appends ds)) = Some C16_sq2.t3 /\
    read_plain [(norm_path C16_sq.pth, FNative C16_sq2.t3)] C16_sq.pth true true (-1)%Z = Ok (st_hdr C16_sq2.F3, c) /\
    sd_data (st_hdr C16_sq2.F3) = (KS (of_string "BLOCKCOMMENT000000"), Leaf (SStr (of_string "BLOCKCOMMENT000000"))) :: C16_sq2.F3.
Proof.
  intros ds.
  assert (H1 : forallb writable_src ds = true) by (vm_compute; reflexivity).
  assert (H2 : (Z.of_nat (nq_total ds) <= 1000000)%Z) by (vm_compute; discriminate).
  assert (H3 : fold_left merge_spec (map classified ds) [] = C16_sq2.F3) by (vm_compute; reflexivity).
  refine (conj H1 (conj H2 (conj H3 _))).
  destruct (C16_append_sequence C16_sq.pth [] ds eq_refl ltac:(discriminate) H1 H2) as (txt & c & E1 & E2 & _).
  rewrite H3 in E2. change (Nat.ltb 1 (length ds)) with true in E2. cbn [st_of] in E2.
  assert (Et : txt = C16_sq2.t3).
  { assert (Ew : w_get C16_sq.pth (writer_run false [] C16_sq.pth (appends ds)) = Some C16_sq2.t3) by (vm_compute; reflexivity).
    rewrite Ew in E1. injection E1 as <-. reflexivity. }
  subst txt. exists c. refine (conj E1 (conj E2 _)). vm_compute. reflexivity.
Qed.

(* (2), mixed sequences: append and overwrite steps in any order.  The file read back after the last write holds exactly
   the state of the specification fold MiscSpec.spec_writes over the classified dicts: an overwrite (and the first
   write) restarts the fold with the new dict, an append merges first-wins into it.  hdr_run says whether the header
   entry is there (exactly when the last write was an append onto an existing file). *)
Theorem C16_write_sequence : forall path w ops,
  w_get path w = None -> ops <> [] ->
  forallb (fun op => writable_src (snd op)) ops = true ->
  (Z.of_nat (nq_total (map snd ops)) <= 1000000)%Z ->
  exists txt F c,
    w_get path (writer_run false w path ops) = Some txt /\
    spec_writes (spec_ops ops) None = Some F /\
    read_plain [(norm_path path, FNative txt)] path true true (-1)%Z = Ok (st_of (hdr_run ops None false) F, c) /\
    wdom F = true /\ reread_plain F = F.
Proof. exact write_sequence_reads_back. Qed.
Print Assumptions C16_write_sequence.

(* non-vacuity: append d1, append d2, OVERWRITE with d3, append d1: d3 wins over d1 where both have a leaf (sub.n.p = 5),
   nothing of d2 is left, and d1 adds a, sub.x *)
Example C16_write_sequence_nonvacuous :
  let ops := [(true, C16_sq.d1); (true, C16_sq.d2); (false, C16_sq.d3); (true, C16_sq.d1)] in
  forallb (fun op => writable_src (snd op)) ops = true /\ (Z.of_nat (nq_total (map snd ops)) <= 1000000)%Z /\
  exists txt F c,
    w_get C16_sq.pth (writer_run false [] C16_sq.pth ops) = Some txt /\
    spec_writes (spec_ops ops) None = Some F /\
    F = merge_spec (classified C16_sq.d3) (classified C16_sq.d1) /\
    read_plain [(norm_path C16_sq.pth, FNative txt)] C16_sq.pth true true (-1)%Z = Ok (st_hdr F, c) /\
    get_dpath (Dict F) [C16_sq.ks "sub"; C16_sq.ks "n"; C16_sq.ks "p"] = Some (Leaf (SInt 5)) /\
    get_dpath (Dict F) [C16_sq.ks "a"] = Some (Leaf (SInt 7)) /\
    get_dpath (Dict F) [C16_sq.ks "b"] = None.
Proof.
  intros ops.
  assert (H1 : forallb (fun op => writable_src (snd op)) ops = true) by (vm_compute; reflexivity).
  assert (H2 : (Z.of_nat (nq_total (map snd ops)) <= 1000000)%Z) by (vm_compute; discriminate).
  refine (conj H1 (conj H2 _)).
  destruct (C16_write_sequence C16_sq.pth [] ops eq_refl ltac:(discriminate) H1 H2) as (txt & F & c & E1 & E2 & E3 & _).
  assert (EF : F = merge_spec (classified C16_sq.d3) (classified C16_sq.d1)).
  { assert (E : spec_writes (spec_ops ops) None = Some (merge_spec (classified C16_sq.d3) (classified C16_sq.d1))) by reflexivity.
    rewrite E in E2. injection E2 as <-. reflexivity. }
  change (hdr_run ops None false) with true in E3. cbn [st_of] in E3.
  exists txt, F, c. refine (conj E1 (conj E2 (conj EF (conj E3 _)))). rewrite EF. vm_compute. repeat split; reflexivity.
Qed.

(* (3) In the words of the property.  Appends ds1 (at least one write), then d, then ds2, onto a target that does not
   exist at first; s1 and s3 are the states read back after ds1 and after the whole sequence:
   - "leaves every key path already in the file with its value": every leaf path of s1 is a leaf path of s3 with the same
     value -- for ANY later step, ds2 being arbitrary (monotone in the number of writes);
   - "adds every key path of the new dict that was absent": a leaf path of d (classified) that is absent from s1
     (addable: walking down the path through dicts, a key is missing) is a leaf path of s3 with the value of d. *)
Theorem C16_append_sequence_monotone : forall path w ds1 d ds2,
  w_get path w = None -> ds1 <> [] ->
  forallb writable_src (ds1 ++ d :: ds2) = true ->
  (Z.of_nat (nq_total (ds1 ++ d :: ds2)) <= 1000000)%Z ->
  exists txt1 txt3 s1 s3 c1 c3,
    w_get path (writer_run false w path (appends ds1)) = Some txt1 /\
    w_get path (writer_run false (writer_run false w path (appends ds1)) path (appends (d :: ds2))) = Some txt3 /\
    read_plain [(norm_path path, FNative txt1)] path true true (-1)%Z = Ok (s1, c1) /\
    read_plain [(norm_path path, FNative txt3)] path true true (-1)%Z = Ok (s3, c3) /\
    (forall p v, get_dpath (Dict (sd_data s1)) p = Some (Leaf v) -> get_dpath (Dict (sd_data s3)) p = Some (Leaf v)) /\
    (forall p v, get_dpath (Dict (classified d)) p = Some (Leaf v) -> addable (Dict (sd_data s1)) p = true ->
                 get_dpath (Dict (sd_data s3)) p = Some (Leaf v)).
Proof. exact append_sequence_monotone. Qed.
Print Assumptions C16_append_sequence_monotone.

(* non-vacuity: d1, then d2, then d3.  sub.x of d1 survives both later writes (d2 has another value for it); sub.y and
   b of d2 are absent after d1 and are there at the end; a of d2 is NOT absent (addable false) and a keeps the value of d1 *)
Example C16_append_sequence_monotone_nonvacuous :
  let sub_x := [C16_sq.ks "sub"; C16_sq.ks "x"] in let sub_y := [C16_sq.ks "sub"; C16_sq.ks "y"] in
  forallb writable_src ([C16_sq.d1] ++ C16_sq.d2 :: [C16_sq.d3]) = true /\
  (Z.of_nat (nq_total ([C16_sq.d1] ++ C16_sq.d2 :: [C16_sq.d3])) <= 1000000)%Z /\
  exists s1 s3,
    sd_data s1 = classified C16_sq.d1 /\
    get_dpath (Dict (sd_data s1)) sub_x = Some (C16_sq.sv "two words") /\
    get_dpath (Dict (classified C16_sq.d2)) sub_x = Some (C16_sq.sv "other") /\
    get_dpath (Dict (classified C16_sq.d2)) sub_y = Some (Leaf (SFloat (of_string "2.5"))) /\
    addable (Dict (sd_data s1)) sub_y = true /\ addable (Dict (sd_data s1)) [C16_sq.ks "b"] = true /\
    addable (Dict (sd_data s1)) [C16_sq.ks "a"] = false /\
    get_dpath (Dict (sd_data s3)) sub_x = Some (C16_sq.sv "two words") /\
    get_dpath (Dict (sd_data s3)) sub_y = Some (Leaf (SFloat (of_string "2.5"))) /\
    get_dpath (Dict (sd_data s3)) [C16_sq.ks "b"] = Some (Leaf (SBool true)) /\
    get_dpath (Dict (sd_data s3)) [C16_sq.ks "a"] = Some (Leaf (SInt 7)).
Proof.
  intros sub_x sub_y.
  assert (H1 : forallb writable_src ([C16_sq.d1] ++ C16_sq.d2 :: [C16_sq.d3]) = true) by (vm_compute; reflexivity).
  assert (H2 : (Z.of_nat (nq_total ([C16_sq.d1] ++ C16_sq.d2 :: [C16_sq.d3])) <= 1000000)%Z) by (vm_compute; discriminate).
  refine (conj H1 (conj H2 _)).
  destruct (C16_append_sequence_monotone C16_sq.pth [] [C16_sq.d1] C16_sq.d2 [C16_sq.d3] eq_refl ltac:(discriminate) H1 H2)
    as (txt1 & txt3 & s1 & s3 & c1 & c3 & E1 & E3 & R1 & R3 & Hkeep & Hadd).
  assert (Es1 : sd_data s1 = classified C16_sq.d1).
  { assert (Ew : w_get C16_sq.pth (writer_run false [] C16_sq.pth (appends [C16_sq.d1])) = Some C16_sq.t1) by (vm_compute; reflexivity).
    rewrite Ew in E1. injection E1 as <-.
    assert (Er : exists c, read_plain [(norm_path C16_sq.pth, FNative C16_sq.t1)] C16_sq.pth true true (-1)%Z = Ok (st_plain (classified C16_sq.d1), c))
      by (eexists; vm_compute; reflexivity).
    destruct Er as [c Er]. rewrite Er in R1. injection R1 as <- _. reflexivity. }
  exists s1, s3. split; [exact Es1|].
  assert (G1 : get_dpath (Dict (sd_data s1)) sub_x = Some (C16_sq.sv "two words")) by (rewrite Es1; vm_compute; reflexivity).
  assert (G2 : get_dpath (Dict (classified C16_sq.d2)) sub_y = Some (Leaf (SFloat (of_string "2.5")))) by (vm_compute; reflexivity).
  assert (G3 : get_dpath (Dict (classified C16_sq.d2)) [C16_sq.ks "b"] = Some (Leaf (SBool true))) by (vm_compute; reflexivity).
  assert (G4 : get_dpath (Dict (sd_data s1)) [C16_sq.ks "a"] = Some (Leaf (SInt 7))) by (rewrite Es1; vm_compute; reflexivity).
  assert (A1 : addable (Dict (sd_data s1)) sub_y = true) by (rewrite Es1; vm_compute; reflexivity).
  assert (A2 : addable (Dict (sd_data s1)) [C16_sq.ks "b"] = true) by (rewrite Es1; vm_compute; reflexivity).
  assert (A3 : addable (Dict (sd_data s1)) [C16_sq.ks "a"] = false) by (rewrite Es1; vm_compute; reflexivity).
  pose proof (Hkeep _ _ G1) as K1. pose proof (Hadd _ _ G2 A1) as K2. pose proof (Hadd _ _ G3 A2) as K3. pose proof (Hkeep _ _ G4) as K4.
  refine (conj G1 (conj _ (conj G2 (conj A1 (conj A2 (conj A3 (conj K1 (conj K2 (conj K3 K4))))))))).
  vm_compute. reflexivity.
Qed.

(* FINDING (forces no_self_named): an entry of the existing file whose value spells its own key, the key having the shape
   of a placeholder (upper case letters and six digits), does NOT keep its value in append mode: SDict.merge takes it for
   a left-over placeholder and replaces it by the value of the new dict.  Same behaviour of the library (checked:
   DictWriter.write({'AB000001': 'AB000001', 'k': 'k'}, f); DictWriter.write({'AB000001': 5, 'k': 6}, f); the file then
   holds AB000001 5; k k;).  Everything else of the domain holds for both dicts; the lower-case / short key k, equally
   self-named, is kept. *)
Example C16_self_named_finding :
  let d0 := [(C16_sq.ks "AB000001", C16_sq.sv "AB000001"); (C16_sq.ks "k", C16_sq.sv "k")] in
  let d' := [(C16_sq.ks "AB000001", C16_sq.sv "5"); (C16_sq.ks "k", C16_sq.sv "6")] in
  pv_ok d0 && wdom (typed d0) = true /\ no_self_named (classified d0) = false /\ writable_src d' = true /\
  get_dpath (Dict (fold_left merge_spec (map classified [d0; d']) [])) [C16_sq.ks "AB000001"] = Some (C16_sq.sv "AB000001") /\
  exists txt s c,
    w_get C16_sq.pth (writer_run false [] C16_sq.pth (appends [d0; d'])) = Some txt /\
    read_plain [(norm_path C16_sq.pth, FNative txt)] C16_sq.pth true true (-1)%Z = Ok (s, c) /\
    get_dpath (Dict (sd_data s)) [C16_sq.ks "AB000001"] = Some (Leaf (SInt 5)) /\
    get_dpath (Dict (sd_data s)) [C16_sq.ks "k"] = Some (C16_sq.sv "k").
Proof.
  intros d0 d'. split; [vm_compute; reflexivity|]. split; [vm_compute; reflexivity|]. split; [vm_compute; reflexivity|].
  split; [vm_compute; reflexivity|].
  set (txt := match w_get C16_sq.pth (writer_run false [] C16_sq.pth (appends [d0; d'])) with Some t => t | None => [] end).
  set (r := read_plain [(norm_path C16_sq.pth, FNative txt)] C16_sq.pth true true (-1)%Z).
  exists txt, (match r with Ok sc => fst sc | Raise _ => sd_empty end), (match r with Ok sc => snd sc | Raise _ => 0%Z end).
  split; [vm_compute; reflexivity|]. split; [vm_compute; reflexivity|]. split; vm_compute; reflexivity.
Qed.

(* (2), when the target exists with ANY content (not even parseable): a sequence that begins with an overwrite *)
Theorem C16_write_sequence_after_overwrite : forall path w d ops,
  forallb (fun op => writable_src (snd op)) ((false, d) :: ops) = true ->
  (Z.of_nat (nq_total (map snd ((false, d) :: ops))) <= 1000000)%Z ->
  exists txt F c,
    w_get path (writer_run false w path ((false, d) :: ops)) = Some txt /\
    spec_writes (spec_ops ops) (Some (classified d)) = Some F /\
    read_plain [(norm_path path, FNative txt)] path true true (-1)%Z = Ok (st_of (hdr_run ops (Some []) false) F, c) /\
    wdom F = true /\ reread_plain F = F.
Proof. exact write_sequence_after_overwrite. Qed.
Print Assumptions C16_write_sequence_after_overwrite.

Example C16_write_sequence_after_overwrite_nonvacuous :
  let w := [(C16_sq.pth, of_string "{{{ garbage")] in let ops := [(true, C16_sq.d2)] in
  forallb (fun op => writable_src (snd op)) ((false, C16_sq.d1) :: ops) = true /\
  (Z.of_nat (nq_total (map snd ((false, C16_sq.d1) :: ops))) <= 1000000)%Z /\
  exists txt c,
    w_get C16_sq.pth (writer_run false w C16_sq.pth ((false, C16_sq.d1) :: ops)) = Some txt /\
    read_plain [(norm_path C16_sq.pth, FNative txt)] C16_sq.pth true true (-1)%Z =
      Ok (st_hdr (merge_spec (classified C16_sq.d1) (classified C16_sq.d2)), c).
Proof.
  intros w ops.
  assert (H1 : forallb (fun op => writable_src (snd op)) ((false, C16_sq.d1) :: ops) = true) by (vm_compute; reflexivity).
  assert (H2 : (Z.of_nat (nq_total (map snd ((false, C16_sq.d1) :: ops))) <= 1000000)%Z) by (vm_compute; discriminate).
  refine (conj H1 (conj H2 _)).
  destruct (C16_write_sequence_after_overwrite C16_sq.pth w C16_sq.d1 ops H1 H2) as (txt & F & c & E1 & E2 & E3 & _).
  assert (E : spec_writes (spec_ops ops) (Some (classified C16_sq.d1)) = Some (merge_spec (classified C16_sq.d1) (classified C16_sq.d2))) by reflexivity.
  rewrite E in E2. injection E2 as <-. change (hdr_run ops (Some []) false) with true in E3. exists txt, c. exact (conj E1 E3).
Qed.

(* (1) on the model of DictWriter.write for an SDict source and of DictReader.read with all its options (Model/Parse.v:
   write_sd, read_opts; order off, no scope): overwrite mode, or append mode when the target is not in the file tree.
   An SDict source is always formatted with the default header, so the file read back holds exactly the new dict behind
   the header entry; the placeholder counter is handed on unchanged by the write. *)
Theorem C16_overwrite_reads_back_sd : forall fs target ap d count,
  pv_ok d = true -> wdom (typed d) = true -> (Z.of_nat (nq (Dict (typed d))) <= 1000000)%Z -> (-1 <= count)%Z ->
  (ap = false \/ fs_lookup (norm_path target) fs = None) ->
  exists txt c',
    Parse.write_sd fs false target ap false (st_plain d) count = Some (Ok (txt, count)) /\
    txt = to_string_sd (st_plain (typed d)) /\
    Parse.read_opts [(norm_path target, FNative txt)] target true false true [] count = Some (Ok (st_hdr (classified d), c')).
Proof. exact overwrite_reads_back_sd. Qed.
Print Assumptions C16_overwrite_reads_back_sd.

Example C16_overwrite_reads_back_sd_nonvacuous :
  let fs := [(norm_path C16_sq.pth, FNative (of_string "{{{ garbage"))] in
  pv_ok C16_sq.d1 = true /\ wdom (typed C16_sq.d1) = true /\ (Z.of_nat (nq (Dict (typed C16_sq.d1))) <= 1000000)%Z /\
  exists txt c',
    Parse.write_sd fs false C16_sq.pth false false (st_plain C16_sq.d1) 41 = Some (Ok (txt, 41%Z)) /\
    txt = native_header ++ C16_sq.t1 /\
    Parse.read_opts [(norm_path C16_sq.pth, FNative txt)] C16_sq.pth true false true [] 41 = Some (Ok (st_hdr (classified C16_sq.d1), c')).
Proof.
  intros fs.
  assert (H0 : pv_ok C16_sq.d1 = true) by (vm_compute; reflexivity).
  assert (H1 : wdom (typed C16_sq.d1) = true) by (vm_compute; reflexivity).
  assert (H2 : (Z.of_nat (nq (Dict (typed C16_sq.d1))) <= 1000000)%Z) by (vm_compute; discriminate).
  refine (conj H0 (conj H1 (conj H2 _))).
  destruct (C16_overwrite_reads_back_sd fs C16_sq.pth false C16_sq.d1 41%Z H0 H1 H2 ltac:(lia) (or_introl eq_refl)) as (txt & c' & W & Et & R).
  exists txt, c'. refine (conj W (conj _ R)). rewrite Et. vm_compute. reflexivity.
Qed.

(* ================================================================================================== *)
(* added from Properties/C16_add.v (2026-10-01)                                              *)
(* ================================================================================================== *)
(* C16, continued: append mode onto a file WITH comments (line and block comments at any dict level).
   Vocabulary (C03.v / C12.v, Proofs/RereadTree.v, RereadProofs.v): rereadable s (the class of SDicts with comment
   placeholder entries), canon s (the data with every placeholder entry replaced by an id-free entry that carries the
   comment text), written_doc s = hdr (canon s) (block comments first, the header in front), cwv c (leaves as the reader
   classifies their written form), number count c (the SDict the reader returns for the text of the canonical document c),
   cms t (the comment entries of a document in text order: dict level, name, text), cstrip t (the ordinary data).
   From Proofs/AppendSeq.v: pv_ok / typed / classified (the source dict after DictWriter's parse_values pass / as the
   reader classifies what is written for it), wdom (the writer domain of C01_roundtrip), writable_src, addable.
   Model functions: SDict.sd_merge (SDict.merge), Reader.write_text / writer_run (DictWriter.write), Reader.read_plain
   (DictReader.read, includes and comments on, as DictWriter itself reads the target in append mode). *)
From Coq Require Import String.
From Coq Require Import NArith ZArith List Bool Lia.
From DictIO Require Import Chars Str Value Scalar KeyPath SDict Layout Lexer TokParser Reader TreeSpec NativeSpec LayoutSpec E2ESpec MiscSpec.
From DictIO Require Import SDictProofs WriteProofs E2EFullProofs RereadPlain RereadTree RereadNum RereadProofs AppendSeq AppendCommented.
Import ListNotations.
Open Scope N_scope.

(* The example: an SDict with the default header, a line comment at the top level, a nested dict with a line comment and
   a two-line block comment, a trailing line comment; the text the library writes for it (file0); a source dict d that
   tries to change the existing leaves a and sub.b, adds sub.z (written 007, read back as 7) inside the nested dict and c
   at the top level; a second source dict d2 *)
Module C16_cm.
  Definition ph (w : str) (i : N) : key * tree := (KS (placeholder w i), Leaf (SStr (placeholder w i))).
  Definition ks (s : string) : key := KS (of_string s).
  Definition sv (s : string) : tree := Leaf (SStr (of_string s)).
  Definition pth := of_string "/r/out.dict".
  Definition s0 : sdict :=
    mkSD [ ph w_BLOCKCOMMENT 0; ph w_LINECOMMENT 7;
           (ks "a", Leaf (SInt 1));
           (ks "sub", Dict [ph w_LINECOMMENT 2; (ks "b", Leaf (SInt 5)); ph w_BLOCKCOMMENT 5; (ks "y", sv "hello world")]);
           ph w_LINECOMMENT 4 ]
         [(2, of_string "// two"); (4, of_string "// four"); (7, of_string "// seven")]
         [(0, nh_txt); (5, of_string "/* five
   more */")] [] [].
  Definition file0 : str := native_header ++ of_string "// seven
a                             1;
sub
{
    // two
    b                         5;
    /* five
   more */
    y                         'hello world';
}
// four
".
  Definition d : list (key * tree) := [(ks "a", sv "9"); (ks "sub", Dict [(ks "b", sv "6"); (ks "z", sv "007")]); (ks "c", sv "new one")].
  Definition d2 : list (key * tree) := [(ks "c", sv "x"); (ks "sub", Dict [(ks "z", sv "1"); (ks "w", Dict [(ks "q", sv "true")])])].
  Definition file1 : str := native_header ++ of_string "// seven
a                             1;
sub
{
    // two
    b                         5;
    /* five
   more */
    y                         'hello world';
    z                         7;
}
// four
c                             'new one';
".
  Definition file2 : str := native_header ++ of_string "// seven
a                             1;
sub
{
    // two
    b                         5;
    /* five
   more */
    y                         'hello world';
    z                         7;
    w
    {
        q                     true;
    }
}
// four
c                             'new one';
".
  (* the state DictReader.read returns for file0: comments renumbered in text order *)
  Definition s1 : sdict :=
    mkSD [ ph w_BLOCKCOMMENT 0; ph w_LINECOMMENT 0;
           (ks "a", Leaf (SInt 1));
           (ks "sub", Dict [ph w_LINECOMMENT 1; (ks "b", Leaf (SInt 5)); ph w_BLOCKCOMMENT 1; (ks "y", sv "hello world")]);
           ph w_LINECOMMENT 2 ]
         [(0, of_string "// seven"); (1, of_string "// two"); (2, of_string "// four")]
         [(0, nh_txt); (1, of_string "/* five
   more */")] [] [].
  (* a file NOT written by the library: no header, several statements on a line, a comment behind a statement *)
  Definition hand : str := of_string "// first comment
a 1;
b { x 2; // inner
 /* blk
 two */
 y 'hello'; }
".
  Definition dh : list (key * tree) := [(ks "a", sv "5"); (ks "c", sv "7"); (ks "b", Dict [(ks "x", sv "9"); (ks "z", sv "3")])].
  Definition hand1 : str := native_header ++ of_string "// first comment
a                             1;
b
{
    x                         2;
    // inner
    /* blk
 two */
    y                         hello;
    z                         3;
}
c                             7;
".
End C16_cm.

(* (1) The class of re-readable SDicts is closed under SDict.merge of a plain dict of the writer domain -- what
   DictWriter.write does in append mode after reading the target.  The result is the SDict with the dict merged
   first-wins (TreeSpec.merge_spec, the specification of SDict.merge) into its data and its comment tables as they are;
   it is in the class again; its canonical form and its written document are the first-wins merge of the dict into those
   of s: every comment entry where it was with its text, every ordinary leaf kept, every absent key path added behind
   the existing entries of its dict level; the comment entries (level, name, text, in text order) are the same; the
   ordinary data is the first-wins merge into the ordinary data.
   Hypotheses, found by evaluating the model: m in the writer domain (wdom); merge_safe: no entry of s that m addresses
   at the TOP level refers to its own key or spells its own key in the form of a placeholder -- SDict.merge replaces
   such an entry (C16_commented_self_named_finding below).  The comment placeholder entries of s have this form by
   construction, but m, having simple keys, never addresses them. *)
Theorem C16_merge_keeps_class : forall s m, rereadable s = true -> wdom m = true -> merge_safe (sd_data s) m = true ->
  let s' := mkSD (merge_spec (sd_data s) m) (sd_lc s) (sd_bc s) [] [] in
  sd_merge s m None = s' /\ rereadable s' = true /\
  canon s' = merge_spec (canon s) m /\ written_doc s' = merge_spec (written_doc s) m /\
  cms (Dict (sd_data s')) = cms (Dict (sd_data s)) /\
  cstrip (Dict (sd_data s')) = Dict (merge_spec (kvs_of (cstrip (Dict (sd_data s)))) m).
Proof. exact rereadable_merge_closed. Qed.
Print Assumptions C16_merge_keeps_class.

Example C16_merge_keeps_class_nonvacuous :
  let m := typed C16_cm.d in
  rereadable C16_cm.s0 = true /\ wdom m = true /\ merge_safe (sd_data C16_cm.s0) m = true /\
  (* the nested dict of s0 that m also has holds a line comment and a block comment *)
  cms (Dict (sd_data C16_cm.s0)) =
    [(0%nat, placeholder w_BLOCKCOMMENT 0, placeholder w_BLOCKCOMMENT 0); (0%nat, placeholder w_LINECOMMENT 7, placeholder w_LINECOMMENT 7);
     (1%nat, placeholder w_LINECOMMENT 2, placeholder w_LINECOMMENT 2); (1%nat, placeholder w_BLOCKCOMMENT 5, placeholder w_BLOCKCOMMENT 5);
     (0%nat, placeholder w_LINECOMMENT 4, placeholder w_LINECOMMENT 4)] /\
  exists s', sd_merge C16_cm.s0 m None = s' /\ rereadable s' = true /\
    cms (Dict (sd_data s')) = cms (Dict (sd_data C16_cm.s0)) /\
    sd_data s' =
      [ C16_cm.ph w_BLOCKCOMMENT 0; C16_cm.ph w_LINECOMMENT 7;
        (C16_cm.ks "a", Leaf (SInt 1));
        (C16_cm.ks "sub", Dict [C16_cm.ph w_LINECOMMENT 2; (C16_cm.ks "b", Leaf (SInt 5)); C16_cm.ph w_BLOCKCOMMENT 5;
                                (C16_cm.ks "y", C16_cm.sv "hello world"); (C16_cm.ks "z", Leaf (SInt 7))]);
        C16_cm.ph w_LINECOMMENT 4; (C16_cm.ks "c", C16_cm.sv "new one") ] /\
    written_doc s' = merge_spec (written_doc C16_cm.s0) m.
Proof.
  intros m.
  assert (H0 : rereadable C16_cm.s0 = true) by (vm_compute; reflexivity).
  assert (H1 : wdom m = true) by (vm_compute; reflexivity).
  assert (H2 : merge_safe (sd_data C16_cm.s0) m = true) by (vm_compute; reflexivity).
  refine (conj H0 (conj H1 (conj H2 (conj _ _)))); [vm_compute; reflexivity|].
  destruct (C16_merge_keeps_class C16_cm.s0 m H0 H1 H2) as (E1 & E2 & _ & E4 & E5 & _).
  eexists. split; [exact E1|]. split; [exact E2|]. split; [exact E5|]. split; [vm_compute; reflexivity|exact E4].
Qed.

(* (2) One append onto an existing file whose text the library wrote from a re-readable (commented) SDict s.  With
   s1 = the state DictReader.read returns for the file as it is (= number (-1) (written_doc s), C03_reread_partial) and
   s2 = the state it returns after DictWriter.write d in append mode:
   - the write succeeds;
   - every key path already in the file keeps its value (the comment placeholder entries included);
   - every key path of the new dict, as the reader classifies it, that was absent (addable) is added with its value;
   - every comment of the file is still there: same tables (ids and exact texts), the same comment entries at the same
     dict levels in the same order, and the canonical form of s2 is that of s1 with the classified dict merged
     first-wins -- every comment entry at its place among the entries of its dict level.
   Side conditions: the source dict in the domain of C16_overwrite_reads_back (pv_ok, wdom); merge_safe on the state
   read back (see (1)); at most a million comments of each kind and quoted literals (six-digit placeholders). *)
Theorem C16_append_onto_commented_file : forall path s d,
  rereadable s = true -> pv_ok d = true -> wdom (typed d) = true ->
  let W := written_doc s in let s1 := number (-1) W in
  merge_safe (sd_data s1) (typed d) = true ->
  (Z.of_nat (length (lc_list W)) <= 1000000)%Z -> (Z.of_nat (length (bc_list W)) <= 1000000)%Z ->
  (Z.of_nat (length (lit_list W) + nq (Dict (typed d))) <= 1000000)%Z ->
  exists c1 txt s2 c2,
    read_plain [(norm_path path, FNative (to_string_sd s))] path true true (-1)%Z = Ok (s1, c1) /\
    write_text false path (Some (to_string_sd s)) true d = Ok txt /\
    read_plain [(norm_path path, FNative txt)] path true true (-1)%Z = Ok (s2, c2) /\
    (forall p v, get_dpath (Dict (sd_data s1)) p = Some (Leaf v) -> get_dpath (Dict (sd_data s2)) p = Some (Leaf v)) /\
    (forall p x, get_dpath (Dict (classified d)) p = Some x -> addable (Dict (sd_data s1)) p = true ->
                 get_dpath (Dict (sd_data s2)) p = Some x) /\
    sd_lc s2 = sd_lc s1 /\ sd_bc s2 = sd_bc s1 /\ cms (Dict (sd_data s2)) = cms (Dict (sd_data s1)) /\
    canon s1 = cwv W /\ canon s2 = merge_spec (cwv W) (classified d) /\ cms (Dict (canon s2)) = cms (Dict W).
Proof. exact append_onto_commented_paths. Qed.
Print Assumptions C16_append_onto_commented_file.

(* non-vacuity: file0 is the text of s0; d tries to change a (9) and sub.b (6): both keep their values; sub.z and c are
   absent and are added; the three line comments and the two block comments are there with their texts *)
Example C16_append_onto_commented_file_nonvacuous :
  let a := [C16_cm.ks "a"] in let sub_b := [C16_cm.ks "sub"; C16_cm.ks "b"] in
  let sub_z := [C16_cm.ks "sub"; C16_cm.ks "z"] in let c := [C16_cm.ks "c"] in
  rereadable C16_cm.s0 = true /\ pv_ok C16_cm.d = true /\ wdom (typed C16_cm.d) = true /\
  to_string_sd C16_cm.s0 = C16_cm.file0 /\ number (-1) (written_doc C16_cm.s0) = C16_cm.s1 /\
  merge_safe (sd_data C16_cm.s1) (typed C16_cm.d) = true /\
  get_dpath (Dict (classified C16_cm.d)) a = Some (Leaf (SInt 9)) /\ get_dpath (Dict (classified C16_cm.d)) sub_b = Some (Leaf (SInt 6)) /\
  get_dpath (Dict (classified C16_cm.d)) sub_z = Some (Leaf (SInt 7)) /\ get_dpath (Dict (classified C16_cm.d)) c = Some (C16_cm.sv "new one") /\
  addable (Dict (sd_data C16_cm.s1)) a = false /\ addable (Dict (sd_data C16_cm.s1)) sub_z = true /\ addable (Dict (sd_data C16_cm.s1)) c = true /\
  exists c1 s2 c2,
    read_plain [(norm_path C16_cm.pth, FNative C16_cm.file0)] C16_cm.pth true true (-1)%Z = Ok (C16_cm.s1, c1) /\
    write_text false C16_cm.pth (Some C16_cm.file0) true C16_cm.d = Ok C16_cm.file1 /\
    read_plain [(norm_path C16_cm.pth, FNative C16_cm.file1)] C16_cm.pth true true (-1)%Z = Ok (s2, c2) /\
    get_dpath (Dict (sd_data s2)) a = Some (Leaf (SInt 1)) /\ get_dpath (Dict (sd_data s2)) sub_b = Some (Leaf (SInt 5)) /\
    get_dpath (Dict (sd_data s2)) sub_z = Some (Leaf (SInt 7)) /\ get_dpath (Dict (sd_data s2)) c = Some (C16_cm.sv "new one") /\
    sd_lc s2 = [(0, of_string "// seven"); (1, of_string "// two"); (2, of_string "// four")] /\
    sd_bc s2 = [(0, nh_txt); (1, of_string "/* five
   more */")] /\
    cms (Dict (canon s2)) =
      [(0%nat, w_BLOCKCOMMENT, nh_txt); (0%nat, w_LINECOMMENT, of_string "// seven"); (1%nat, w_LINECOMMENT, of_string "// two");
       (1%nat, w_BLOCKCOMMENT, of_string "/* five
   more */"); (0%nat, w_LINECOMMENT, of_string "// four")].
Proof.
  intros a sub_b sub_z c.
  assert (H0 : rereadable C16_cm.s0 = true) by (vm_compute; reflexivity).
  assert (H1 : pv_ok C16_cm.d = true) by (vm_compute; reflexivity).
  assert (H2 : wdom (typed C16_cm.d) = true) by (vm_compute; reflexivity).
  assert (Et : to_string_sd C16_cm.s0 = C16_cm.file0) by (vm_compute; reflexivity).
  assert (Es : number (-1) (written_doc C16_cm.s0) = C16_cm.s1) by (vm_compute; reflexivity).
  assert (H3 : merge_safe (sd_data C16_cm.s1) (typed C16_cm.d) = true) by (vm_compute; reflexivity).
  assert (G1 : get_dpath (Dict (classified C16_cm.d)) sub_z = Some (Leaf (SInt 7))) by (vm_compute; reflexivity).
  assert (G2 : get_dpath (Dict (classified C16_cm.d)) c = Some (C16_cm.sv "new one")) by (vm_compute; reflexivity).
  assert (A1 : addable (Dict (sd_data C16_cm.s1)) sub_z = true) by (vm_compute; reflexivity).
  assert (A2 : addable (Dict (sd_data C16_cm.s1)) c = true) by (vm_compute; reflexivity).
  assert (K1 : get_dpath (Dict (sd_data C16_cm.s1)) a = Some (Leaf (SInt 1))) by (vm_compute; reflexivity).
  assert (K2 : get_dpath (Dict (sd_data C16_cm.s1)) sub_b = Some (Leaf (SInt 5))) by (vm_compute; reflexivity).
  refine (conj H0 (conj H1 (conj H2 (conj Et (conj Es (conj H3 _)))))).
  split; [vm_compute; reflexivity|]. split; [vm_compute; reflexivity|]. split; [exact G1|]. split; [exact G2|].
  split; [vm_compute; reflexivity|]. split; [exact A1|]. split; [exact A2|].
  assert (H3' : merge_safe (sd_data (number (-1) (written_doc C16_cm.s0))) (typed C16_cm.d) = true) by (rewrite Es; exact H3).
  destruct (C16_append_onto_commented_file C16_cm.pth C16_cm.s0 C16_cm.d H0 H1 H2 H3'
              ltac:(vm_compute; discriminate) ltac:(vm_compute; discriminate) ltac:(vm_compute; discriminate))
    as (c1 & txt & s2 & c2 & R1 & Wt & R2 & Hkeep & Hadd & L1 & L2 & _ & _ & _ & C3).
  rewrite Es in R1, Hkeep, Hadd, L1, L2. rewrite Et in R1, Wt.
  assert (Ew : write_text false C16_cm.pth (Some C16_cm.file0) true C16_cm.d = Ok C16_cm.file1) by (vm_compute; reflexivity).
  rewrite Ew in Wt. injection Wt as <-.
  exists c1, s2, c2. split; [exact R1|]. split; [exact Ew|]. split; [exact R2|].
  split; [exact (Hkeep _ _ K1)|]. split; [exact (Hkeep _ _ K2)|]. split; [exact (Hadd _ _ G1 A1)|]. split; [exact (Hadd _ _ G2 A2)|].
  split; [rewrite L1; reflexivity|]. split; [rewrite L2; reflexivity|]. rewrite C3. vm_compute. reflexivity.
Qed.

(* (2'), for the parse result of ANY text in the class -- a file not written by the library (other layout, no header,
   comments behind statements): if the state S read back from the target is re-readable, the append succeeds, the text is
   that of S with the (typed) dict merged into its data, and the state read back afterwards is the state of the document
   merge (written_doc S) (typed d): its canonical form is the canonical form of S as the writer lays it out (block
   comments first, the header in front, leaves read back) with the classified dict merged first-wins; the comments
   (level, name, exact text, order) are those of written_doc S; the ordinary data is the ordinary data of S, leaves read
   back, with the classified dict merged first-wins.  (Placeholder ids may change here: the header gets id 0.) *)
Theorem C16_append_onto_commented_state : forall path txt0 S c0 d,
  read_plain [(norm_path path, FNative txt0)] path true true (-1)%Z = Ok (S, c0) -> rereadable S = true ->
  pv_ok d = true -> wdom (typed d) = true -> merge_safe (sd_data S) (typed d) = true ->
  let W := written_doc S in
  (Z.of_nat (length (lc_list W)) <= 1000000)%Z -> (Z.of_nat (length (bc_list W)) <= 1000000)%Z ->
  (Z.of_nat (length (lit_list W) + nq (Dict (typed d))) <= 1000000)%Z ->
  let S2 := number (-1) (merge_spec W (typed d)) in
  exists txt c2,
    write_text false path (Some txt0) true d = Ok txt /\
    txt = to_string_sd (mkSD (merge_spec (sd_data S) (typed d)) (sd_lc S) (sd_bc S) [] []) /\
    read_plain [(norm_path path, FNative txt)] path true true (-1)%Z = Ok (S2, c2) /\
    rereadable S2 = true /\
    canon S2 = merge_spec (cwv W) (classified d) /\
    cms (Dict (canon S2)) = cms (Dict W) /\
    cstrip (Dict (sd_data S2)) = Dict (merge_spec (reread_plain (kvs_of (cstrip (Dict (sd_data S))))) (classified d)).
Proof. exact append_onto_rereadable_state. Qed.
Print Assumptions C16_append_onto_commented_state.

Example C16_append_onto_commented_state_nonvacuous :
  exists S c0,
    read_plain [(norm_path C16_cm.pth, FNative C16_cm.hand)] C16_cm.pth true true (-1)%Z = Ok (S, c0) /\ rereadable S = true /\
    pv_ok C16_cm.dh = true /\ wdom (typed C16_cm.dh) = true /\ merge_safe (sd_data S) (typed C16_cm.dh) = true /\
    has_header (csort (canon S)) = false /\
    cstrip (Dict (sd_data S)) = Dict [(C16_cm.ks "a", Leaf (SInt 1)); (C16_cm.ks "b", Dict [(C16_cm.ks "x", Leaf (SInt 2)); (C16_cm.ks "y", C16_cm.sv "hello")])] /\
    exists S2 c2,
      write_text false C16_cm.pth (Some C16_cm.hand) true C16_cm.dh = Ok C16_cm.hand1 /\
      read_plain [(norm_path C16_cm.pth, FNative C16_cm.hand1)] C16_cm.pth true true (-1)%Z = Ok (S2, c2) /\
      rereadable S2 = true /\
      cstrip (Dict (sd_data S2)) =
        Dict [(C16_cm.ks "a", Leaf (SInt 1));
              (C16_cm.ks "b", Dict [(C16_cm.ks "x", Leaf (SInt 2)); (C16_cm.ks "y", C16_cm.sv "hello"); (C16_cm.ks "z", Leaf (SInt 3))]);
              (C16_cm.ks "c", Leaf (SInt 7))] /\
      cms (Dict (canon S2)) =
        [(0%nat, w_BLOCKCOMMENT, nh_txt); (0%nat, w_LINECOMMENT, of_string "// first comment"); (1%nat, w_LINECOMMENT, of_string "// inner");
         (1%nat, w_BLOCKCOMMENT, of_string "/* blk
 two */")].
Proof.
  set (r := read_plain [(norm_path C16_cm.pth, FNative C16_cm.hand)] C16_cm.pth true true (-1)%Z).
  set (S := match r with Ok sc => fst sc | Raise _ => sd_empty end).
  set (c0 := match r with Ok sc => snd sc | Raise _ => 0%Z end).
  assert (Er : r = Ok (S, c0)) by (vm_compute; reflexivity).
  assert (H0 : rereadable S = true) by (vm_compute; reflexivity).
  assert (H1 : pv_ok C16_cm.dh = true) by (vm_compute; reflexivity).
  assert (H2 : wdom (typed C16_cm.dh) = true) by (vm_compute; reflexivity).
  assert (H3 : merge_safe (sd_data S) (typed C16_cm.dh) = true) by (vm_compute; reflexivity).
  exists S, c0. refine (conj Er (conj H0 (conj H1 (conj H2 (conj H3 _))))).
  split; [vm_compute; reflexivity|]. split; [vm_compute; reflexivity|].
  destruct (C16_append_onto_commented_state C16_cm.pth C16_cm.hand S c0 C16_cm.dh Er H0 H1 H2 H3
              ltac:(vm_compute; discriminate) ltac:(vm_compute; discriminate) ltac:(vm_compute; discriminate))
    as (txt & c2 & Wt & _ & R2 & Q & _ & C2 & D2).
  assert (Ew : write_text false C16_cm.pth (Some C16_cm.hand) true C16_cm.dh = Ok C16_cm.hand1) by (vm_compute; reflexivity).
  rewrite Ew in Wt. injection Wt as <-.
  eexists. exists c2. split; [exact Ew|]. split; [exact R2|]. split; [exact Q|]. split.
  - rewrite D2. vm_compute. reflexivity.
  - rewrite C2. vm_compute. reflexivity.
Qed.

(* (2), sequence version: any number of appends onto an existing file whose text the library wrote from a re-readable
   (commented) SDict s.  Every write succeeds (the target is there after each step); the state read back after the last
   one is the state s1 read from the file before, with the dicts -- as the reader classifies them -- merged first-wins,
   one after the other, into its data (fold of TreeSpec.merge_spec, as in C16_append_sequence); the comment tables are
   those of s1 and the comment entries are where they were; it is re-readable again (the induction invariant).
   Proved by induction over the list, the invariant being "the target is read back as the state of a canonical document
   with a marked header, block comments first" (generalises the two shapes st_plain / st_hdr of C16_append_sequence).
   Side conditions: per dict writable_src (as in C16_append_sequence); ord_nsn: no ORDINARY top-level entry of s1 is
   self-named (closed under the merge; implies merge_safe at every step); at most a million comments of each kind, and
   quoted literals in all. *)
Theorem C16_append_sequence_onto_commented : forall path w s ds,
  rereadable s = true -> w_get path w = Some (to_string_sd s) ->
  let W := written_doc s in let s1 := number (-1) W in
  ord_nsn (sd_data s1) = true -> forallb writable_src ds = true ->
  (Z.of_nat (length (lc_list W)) <= 1000000)%Z -> (Z.of_nat (length (bc_list W)) <= 1000000)%Z ->
  (Z.of_nat (length (lit_list W) + nq_total ds) <= 1000000)%Z ->
  let sN := mkSD (fold_left merge_spec (map classified ds) (sd_data s1)) (sd_lc s1) (sd_bc s1) [] [] in
  exists c1 txt cN,
    read_plain [(norm_path path, FNative (to_string_sd s))] path true true (-1)%Z = Ok (s1, c1) /\
    w_get path (writer_run false w path (appends ds)) = Some txt /\
    read_plain [(norm_path path, FNative txt)] path true true (-1)%Z = Ok (sN, cN) /\
    rereadable sN = true /\
    (forall p v, get_dpath (Dict (sd_data s1)) p = Some (Leaf v) -> get_dpath (Dict (sd_data sN)) p = Some (Leaf v)) /\
    cms (Dict (sd_data sN)) = cms (Dict (sd_data s1)).
Proof. exact append_sequence_onto_commented. Qed.
Print Assumptions C16_append_sequence_onto_commented.

(* non-vacuity: d, then d2 onto file0: c of d2 (x) does not replace the c added by d; sub.z of d2 (1) does not replace 7;
   sub.w.q is added; the comments stay *)
Example C16_append_sequence_onto_commented_nonvacuous :
  let ds := [C16_cm.d; C16_cm.d2] in let w := [(C16_cm.pth, C16_cm.file0)] in
  rereadable C16_cm.s0 = true /\ to_string_sd C16_cm.s0 = C16_cm.file0 /\ number (-1) (written_doc C16_cm.s0) = C16_cm.s1 /\
  ord_nsn (sd_data C16_cm.s1) = true /\ forallb writable_src ds = true /\
  exists cN,
    w_get C16_cm.pth (writer_run false w C16_cm.pth (appends ds)) = Some C16_cm.file2 /\
    read_plain [(norm_path C16_cm.pth, FNative C16_cm.file2)] C16_cm.pth true true (-1)%Z =
      Ok (mkSD [ C16_cm.ph w_BLOCKCOMMENT 0; C16_cm.ph w_LINECOMMENT 0;
                 (C16_cm.ks "a", Leaf (SInt 1));
                 (C16_cm.ks "sub", Dict [C16_cm.ph w_LINECOMMENT 1; (C16_cm.ks "b", Leaf (SInt 5)); C16_cm.ph w_BLOCKCOMMENT 1;
                                         (C16_cm.ks "y", C16_cm.sv "hello world"); (C16_cm.ks "z", Leaf (SInt 7));
                                         (C16_cm.ks "w", Dict [(C16_cm.ks "q", Leaf (SBool true))])]);
                 C16_cm.ph w_LINECOMMENT 2; (C16_cm.ks "c", C16_cm.sv "new one") ]
               (sd_lc C16_cm.s1) (sd_bc C16_cm.s1) [] [], cN).
Proof.
  intros ds w.
  assert (H0 : rereadable C16_cm.s0 = true) by (vm_compute; reflexivity).
  assert (Et : to_string_sd C16_cm.s0 = C16_cm.file0) by (vm_compute; reflexivity).
  assert (Es : number (-1) (written_doc C16_cm.s0) = C16_cm.s1) by (vm_compute; reflexivity).
  assert (H1 : ord_nsn (sd_data C16_cm.s1) = true) by (vm_compute; reflexivity).
  assert (H2 : forallb writable_src ds = true) by (vm_compute; reflexivity).
  refine (conj H0 (conj Et (conj Es (conj H1 (conj H2 _))))).
  assert (Hg : w_get C16_cm.pth w = Some (to_string_sd C16_cm.s0)) by (rewrite Et; vm_compute; reflexivity).
  assert (H1' : ord_nsn (sd_data (number (-1) (written_doc C16_cm.s0))) = true) by (rewrite Es; exact H1).
  destruct (C16_append_sequence_onto_commented C16_cm.pth w C16_cm.s0 ds H0 Hg H1' H2
              ltac:(vm_compute; discriminate) ltac:(vm_compute; discriminate) ltac:(vm_compute; discriminate))
    as (c1 & txt & cN & _ & G & R & _).
  assert (Ew : w_get C16_cm.pth (writer_run false w C16_cm.pth (appends ds)) = Some C16_cm.file2) by (vm_compute; reflexivity).
  rewrite Ew in G. injection G as <-. rewrite Es in R.
  exists cN. split; [exact Ew|]. rewrite R. f_equal.
Qed.

(* FINDING (forces merge_safe / ord_nsn): an ORDINARY top-level entry of the commented file whose value spells its own
   key, the key having the shape of a placeholder, does not keep its value in append mode (as in C16_self_named_finding
   for files without comments); the comment and the equally self-named entry k are kept.  Same behaviour of the library
   (checked: the file "// note / AB000001 AB000001; / k k;", then DictWriter.write({'AB000001': 5, 'k': 6}, f, mode='a'):
   the file holds the header, // note, AB000001 5; k k;). *)
Example C16_commented_self_named_finding :
  let txt0 := of_string "// note
AB000001 AB000001;
k k;
" in
  let d' := [(C16_cm.ks "AB000001", C16_cm.sv "5"); (C16_cm.ks "k", C16_cm.sv "6")] in
  exists S c0 txt S2 c2,
    read_plain [(norm_path C16_cm.pth, FNative txt0)] C16_cm.pth true true (-1)%Z = Ok (S, c0) /\ rereadable S = true /\
    pv_ok d' = true /\ wdom (typed d') = true /\ merge_safe (sd_data S) (typed d') = false /\
    get_dpath (Dict (sd_data S)) [C16_cm.ks "AB000001"] = Some (C16_cm.sv "AB000001") /\
    write_text false C16_cm.pth (Some txt0) true d' = Ok txt /\
    read_plain [(norm_path C16_cm.pth, FNative txt)] C16_cm.pth true true (-1)%Z = Ok (S2, c2) /\
    get_dpath (Dict (sd_data S2)) [C16_cm.ks "AB000001"] = Some (Leaf (SInt 5)) /\
    get_dpath (Dict (sd_data S2)) [C16_cm.ks "k"] = Some (C16_cm.sv "k") /\
    sd_lc S2 = [(0, of_string "// note")].
Proof.
  intros txt0 d'.
  set (r := read_plain [(norm_path C16_cm.pth, FNative txt0)] C16_cm.pth true true (-1)%Z).
  set (txt := match write_text false C16_cm.pth (Some txt0) true d' with Ok t => t | Raise _ => [] end).
  set (r2 := read_plain [(norm_path C16_cm.pth, FNative txt)] C16_cm.pth true true (-1)%Z).
  exists (match r with Ok sc => fst sc | Raise _ => sd_empty end), (match r with Ok sc => snd sc | Raise _ => 0%Z end), txt,
         (match r2 with Ok sc => fst sc | Raise _ => sd_empty end), (match r2 with Ok sc => snd sc | Raise _ => 0%Z end).
  split; [vm_compute; reflexivity|]. split; [vm_compute; reflexivity|]. split; [vm_compute; reflexivity|].
  split; [vm_compute; reflexivity|]. split; [vm_compute; reflexivity|]. split; [vm_compute; reflexivity|].
  split; [vm_compute; reflexivity|]. split; [vm_compute; reflexivity|]. split; [vm_compute; reflexivity|].
  split; vm_compute; reflexivity.
Qed.

(* ================================================================================================== *)
(* non-vacuity examples added after the reviewer's audit (Properties/C16_nv.v, 2026-10-01)         *)
(* ================================================================================================== *)

(* ==== non-vacuity instance obtained BY APPLYING the theorem above (added after review) ================== *)

(* C16_overwrite: overwriting an existing file that shares keys with the new dict (nested, a list in the way), overwriting
   a missing file, appending to a missing file; by contrast the append to the existing file gives something else *)
Example C16_overwrite_nonvacuous :
  spec_write (Some C16_ex.s) (C16_ex.d1, false) = Some C16_ex.d1 /\ spec_write None (C16_ex.d1, false) = Some C16_ex.d1 /\
  spec_write None (C16_ex.d1, true) = Some C16_ex.d1 /\
  spec_write (Some C16_ex.s) (C16_ex.d1, true) <> Some C16_ex.d1 /\
  get_dpath (Dict C16_ex.s) [C16_ex.ka; C16_ex.kb] = Some C16_ex.one /\ get_dpath (Dict C16_ex.d1) [C16_ex.ka; C16_ex.kb] = Some C16_ex.two.
Proof.
  refine (conj (proj1 (C16_overwrite (Some C16_ex.s) C16_ex.d1)) (conj (proj1 (C16_overwrite None C16_ex.d1))
         (conj (proj2 (C16_overwrite None C16_ex.d1)) _))).
  split; [vm_compute; discriminate|]. split; vm_compute; reflexivity.
Qed.

(* ================================================================================================== *)
(* added from Properties/C16_add.v (2026-10-01)                                              *)
(* ================================================================================================== *)
(* ================================================================================================== *)
(* C16, continued: the OpenFOAM format.  DictWriter.write with the FoamFormatter (Reader.write_text true /
   writer_run true), read back with DictReader.read.  A first write or an overwrite leaves the Foam body of the dict and
   NO header; every append onto an existing file formats an SDict: banner, FoamFile block, rule, body.  The reader
   returns the banner as block comment 0, the FoamFile block as DATA (an ordinary nested dict under the key FoamFile)
   and the rule as line comment 0; the next append writes all three back in place, so the texts of the second, third,
   ... append have the same shape: neither the banner nor the FoamFile block is ever doubled (C16_foam_state_text).
   Underscore keys are dropped by the formatter, i.e. AFTER the merge with the existing file; as a Foam file never
   holds an underscore key this is the same as dropping them from the new dict first (C16_foam_underscore_merge). *)
From Coq Require Import String.
From Coq Require Import NArith ZArith List Bool Lia.
From DictIO Require Import Chars Str Value Scalar KeyPath SDict Layout Lexer TokParser Reader TreeSpec NativeSpec E2ESpec MiscSpec.
From DictIO Require Import SDictProofs WriteProofs E2EKeyTok E2EFullProofs RereadPlain RereadTree FoamProofs FoamSdProofs AppendSeq AppendFoam.
Import ListNotations.

(* three source dicts (leaves still strings, as a caller passes them): overlapping nested dicts, underscore keys at the
   top level and inside a nested dict, a string leaf with blanks, leaves that are re-typed (007 -> 7, 2.5, true), an
   apostrophe, a list *)
Module C16_fm.
  Definition ks (s : string) : key := KS (of_string s).
  Definition sv (s : string) : tree := Leaf (SStr (of_string s)).
  Definition pth := of_string "/r/out.foam".
  Definition d1 : list (key * tree) :=
    [(ks "a", sv "007"); (ks "_meta", Dict [(ks "who", sv "me")]);
     (ks "sub", Dict [(ks "x", sv "two words"); (ks "_hid", sv "1"); (ks "n", Dict [(ks "p", sv "1")])])].
  Definition d2 : list (key * tree) :=
    [(ks "a", sv "9"); (ks "sub", Dict [(ks "x", sv "other"); (ks "_y", sv "2"); (ks "y", sv "2.5"); (ks "n", Dict [(ks "q", sv "it's")])]); (ks "b", sv "true")].
  Definition d3 : list (key * tree) :=
    [(ks "sub", Dict [(ks "n", Dict [(ks "p", sv "5"); (ks "r", sv "x y")]); (ks "z", Lst [sv "1"; sv "a b"])]); (ks "_c", sv "gone"); (ks "c", sv "last")].
  (* the first write: no header, no underscore key, double quotes *)
  Definition t1 : str := of_string "a                             7;
sub
{
    x                         ""two words"";
    n
    {
        p                     1;
    }
}
".
  Definition F1 : list (key * tree) :=
    [(ks "a", Leaf (SInt 7)); (ks "sub", Dict [(ks "x", sv "two words"); (ks "n", Dict [(ks "p", Leaf (SInt 1))])])].
  (* after the third append: ONE banner, ONE FoamFile block *)
  Definition t3 : str := foam_header ++ of_string "a                             7;
sub
{
    x                         ""two words"";
    n
    {
        p                     1;
        q                     ""it's"";
        r                     ""x y"";
    }
    y                         2.5;
    z
    (
        1                 ""a b""
    );
}
b                             true;
c                             last;
".
  (* the first value of a, sub.x and sub.n.p wins; sub.n.q, sub.y, b come from d2; sub.n.r, sub.z, c from d3; _meta,
     sub._hid, sub._y, _c are nowhere *)
  Definition F3 : list (key * tree) :=
    [(ks "a", Leaf (SInt 7));
     (ks "sub", Dict [(ks "x", sv "two words");
                      (ks "n", Dict [(ks "p", Leaf (SInt 1)); (ks "q", sv "it's"); (ks "r", sv "x y")]);
                      (ks "y", Leaf (SFloat (of_string "2.5")));
                      (ks "z", Lst [Leaf (SInt 1); sv "a b"])]);
     (ks "b", Leaf (SBool true)); (ks "c", sv "last")].
End C16_fm.

(* (1) After an overwrite -- or a first write to a target that does not exist, in either mode -- of a dict of the Foam
   writer domain, the text is FoamFormatter.to_string on the plain dict (no banner, no FoamFile entry) and the file read
   back is EXACTLY the new dict without its underscore keys (dropped at every level: stripped), every leaf as the reader
   classifies its written form:  fclassified d = reread_plain (stripped (typed d)) = stripped (classified d)
   (C16_foam_classified).  No comment, no header entry, whatever the target held before.  Domain: parse_values succeeds;
   unique keys; every key that does not start with an underscore is simple and its value is in the domain, every string
   leaf free of double quotes (foam_writable_tree: the domain of C10_roundtrip; what is under an underscore key is
   unconstrained); quoted literals at most ten keys deep, at most a million of them. *)
Theorem C16_foam_overwrite_reads_back : forall path existing d,
  pv_ok d = true -> wf (Dict (typed d)) = true -> foam_writable_tree (Dict (typed d)) = true ->
  quoted_within 11 (Dict (typed d)) = true -> (Z.of_nat (nq (Dict (typed d))) <= 1000000)%Z ->
  exists txt c,
    write_text true path existing false d = Ok txt /\ write_text true path None true d = Ok txt /\
    txt = foam_to_string_plain (typed d) /\
    read_plain [(norm_path path, FNative txt)] path true true (-1)%Z = Ok (mkSD (fclassified d) [] [] [] [], c).
Proof. exact foam_overwrite_reads_back. Qed.
Print Assumptions C16_foam_overwrite_reads_back.

Theorem C16_foam_classified : forall d, fclassified d = stripped (classified d).
Proof. exact fclassified_stripped. Qed.
Print Assumptions C16_foam_classified.

Example C16_foam_overwrite_reads_back_nonvacuous :
  pv_ok C16_fm.d1 = true /\ wf (Dict (typed C16_fm.d1)) = true /\ foam_writable_tree (Dict (typed C16_fm.d1)) = true /\
  quoted_within 11 (Dict (typed C16_fm.d1)) = true /\ (Z.of_nat (nq (Dict (typed C16_fm.d1))) <= 1000000)%Z /\
  fclassified C16_fm.d1 = C16_fm.F1 /\ stripped (classified C16_fm.d1) = C16_fm.F1 /\
  exists c,
    write_text true C16_fm.pth (Some (of_string "{{{ garbage")) false C16_fm.d1 = Ok C16_fm.t1 /\
    write_text true C16_fm.pth None true C16_fm.d1 = Ok C16_fm.t1 /\
    read_plain [(norm_path C16_fm.pth, FNative C16_fm.t1)] C16_fm.pth true true (-1)%Z = Ok (mkSD C16_fm.F1 [] [] [] [], c).
Proof.
  assert (H0 : pv_ok C16_fm.d1 = true) by (vm_compute; reflexivity).
  assert (H1 : wf (Dict (typed C16_fm.d1)) = true) by (vm_compute; reflexivity).
  assert (H2 : foam_writable_tree (Dict (typed C16_fm.d1)) = true) by (vm_compute; reflexivity).
  assert (H3 : quoted_within 11 (Dict (typed C16_fm.d1)) = true) by (vm_compute; reflexivity).
  assert (H4 : (Z.of_nat (nq (Dict (typed C16_fm.d1))) <= 1000000)%Z) by (vm_compute; discriminate).
  assert (H5 : fclassified C16_fm.d1 = C16_fm.F1) by (vm_compute; reflexivity).
  refine (conj H0 (conj H1 (conj H2 (conj H3 (conj H4 (conj H5 (conj _ _))))))); [rewrite <- C16_foam_classified; exact H5|].
  destruct (C16_foam_overwrite_reads_back C16_fm.pth (Some (of_string "{{{ garbage")) C16_fm.d1 H0 H1 H2 H3 H4) as (txt & c & W1 & W2 & Et & Er).
  assert (E : txt = C16_fm.t1) by (rewrite Et; vm_compute; reflexivity). subst txt. rewrite H5 in Er.
  exists c. exact (conj W1 (conj W2 Er)).
Qed.

(* The text FoamFormatter.to_string writes for a state READ BACK from a Foam file with header (st_foam M: banner entry,
   FoamFile dict, rule entry in front of the data M; the rule in the line comment table, the banner in the block comment
   table): the default header ONCE, then the Foam body of the data -- the same text as for the data alone (st_plain M).
   The banner is recognised as the file's header (C++ mark, the word OpenFOAM), so no default header is put in front of
   it; the FoamFile dict is laid out by format_dict exactly as the header template spells it. *)
Theorem C16_foam_state_text : forall M, ktree foam_leaf (Dict (stripped M)) = true ->
  foam_to_string_sd (st_foam M) = foam_header ++ remove_trailing_spaces (foam_body (stripped M)) /\
  foam_to_string_sd (st_foam M) = foam_to_string_sd (st_plain M).
Proof.
  intros M H. split; [exact (st_foam_text M H)|]. rewrite (fst_text true M H : foam_to_string_sd (st_foam M) = _). symmetry. exact (fst_text false M H).
Qed.
Print Assumptions C16_foam_state_text.

Example C16_foam_state_text_nonvacuous :
  ktree foam_leaf (Dict (stripped C16_fm.F3)) = true /\
  sd_data (st_foam C16_fm.F3) =
    [(KS (of_string "BLOCKCOMMENT000000"), Leaf (SStr (of_string "BLOCKCOMMENT000000"))); (k_FoamFile, foam_file_dict);
     (KS (of_string "LINECOMMENT000000"), Leaf (SStr (of_string "LINECOMMENT000000")))] ++ C16_fm.F3 /\
  sd_lc (st_foam C16_fm.F3) = [(0%N, foam_rule)] /\ sd_bc (st_foam C16_fm.F3) = [(0%N, foam_banner)] /\
  foam_to_string_sd (st_foam C16_fm.F3) = C16_fm.t3 /\ foam_to_string_sd (st_plain C16_fm.F3) = C16_fm.t3.
Proof.
  assert (H : ktree foam_leaf (Dict (stripped C16_fm.F3)) = true) by (vm_compute; reflexivity).
  refine (conj H (conj eq_refl (conj eq_refl (conj eq_refl _)))).
  destruct (C16_foam_state_text C16_fm.F3 H) as [E1 E2]. rewrite <- E2.
  assert (E : foam_header ++ remove_trailing_spaces (foam_body (stripped C16_fm.F3)) = C16_fm.t3) by (vm_compute; reflexivity).
  rewrite E in E1. split; exact E1.
Qed.

(* Dropping the underscore keys is a homomorphism of the first-wins merge; so for a target without underscore keys
   (every Foam file) merging and then dropping is merging the dict without its underscore keys.  An underscore key of
   the new dict can therefore never shadow or displace an entry of the file. *)
Theorem C16_foam_underscore_merge : forall F m,
  stripped (merge_spec F m) = merge_spec (stripped F) (stripped m) /\
  (us_free F = true -> stripped (merge_spec F m) = merge_spec F (stripped m)).
Proof. intros F m. split; [exact (stripped_merge F m)|]. intros H. rewrite stripped_merge, (us_free_stripped F H). reflexivity. Qed.
Print Assumptions C16_foam_underscore_merge.

Example C16_foam_underscore_merge_nonvacuous :
  let F := [(C16_fm.ks "a", Dict [(C16_fm.ks "x", Leaf (SInt 1))])] in
  let m := [(C16_fm.ks "a", Dict [(C16_fm.ks "_y", Leaf (SInt 2)); (C16_fm.ks "z", Leaf (SInt 3))])] in
  us_free F = true /\ us_free m = false /\
  merge_spec F m = [(C16_fm.ks "a", Dict [(C16_fm.ks "x", Leaf (SInt 1)); (C16_fm.ks "_y", Leaf (SInt 2)); (C16_fm.ks "z", Leaf (SInt 3))])] /\
  stripped (merge_spec F m) = [(C16_fm.ks "a", Dict [(C16_fm.ks "x", Leaf (SInt 1)); (C16_fm.ks "z", Leaf (SInt 3))])] /\
  stripped (merge_spec F m) = merge_spec F (stripped m).
Proof.
  intros F m. assert (H : us_free F = true) by (vm_compute; reflexivity).
  refine (conj H (conj _ (conj _ (conj _ (proj2 (C16_foam_underscore_merge F m) H))))); vm_compute; reflexivity.
Qed.

(* (2) Any number of Foam writes in append mode onto a target that does not exist at first: every write succeeds, and
   the data read back after the last one is the fold of the first-wins recursive merge over the dicts WITHOUT their
   underscore keys, leaves classified (fclassified) -- bare after the first write (fst_of false = st_plain), and from the
   second write on behind the three entries the reader makes of the Foam header (fst_of true = st_foam: banner entry
   BLOCKCOMMENT000000, the FoamFile dict as data, rule entry LINECOMMENT000000; sd_bc = [(0, banner)], sd_lc =
   [(0, rule)]).  Invariant of the induction: the state read back is of one of the two shapes, its data part is in the
   domain, free of underscore keys, a fixed point of reading back.
   Domain, per dict (foam_src):  parse_values succeeds; wdom (typed d): unique keys, simple keys, writable leaves, quoted
   literals at most ten keys deep -- of the WHOLE dict, what is under an underscore key included (it takes part in
   SDict.merge before the formatter drops it);  foam_writable_tree: no double quote in a string leaf outside the
   underscore keys;  no_FoamFile_key: no top-level key FoamFile (C16_foam_FoamFile_key_finding);  no_self_named
   (fclassified d): as for the native format.  Over the list: at most a million quoted literals (nq_total). *)
Theorem C16_foam_append_sequence : forall path w ds,
  w_get path w = None -> ds <> [] ->
  forallb foam_src ds = true ->
  (Z.of_nat (nq_total ds) <= 1000000)%Z ->
  let F := fold_left merge_spec (map fclassified ds) [] in
  exists txt c,
    w_get path (writer_run true w path (appends ds)) = Some txt /\
    read_plain [(norm_path path, FNative txt)] path true true (-1)%Z = Ok (fst_of (Nat.ltb 1 (length ds)) F, c) /\
    fdom F = true /\ us_free F = true /\ reread_plain F = F.
Proof. exact foam_append_sequence_reads_back. Qed.
Print Assumptions C16_foam_append_sequence.

Example C16_foam_append_sequence_nonvacuous :
  let ds := [C16_fm.d1; C16_fm.d2; C16_fm.d3] in
  forallb foam_src ds = true /\ (Z.of_nat (nq_total ds) <= 1000000)%Z /\
  fold_left merge_spec (map fclassified ds) [] = C16_fm.F3 /\
  exists c,
    w_get C16_fm.pth (writer_run true [] C16_fm.pth (appends ds)) = Some C16_fm.t3 /\
    read_plain [(norm_path C16_fm.pth, FNative C16_fm.t3)] C16_fm.pth true true (-1)%Z = Ok (st_foam C16_fm.F3, c) /\
    sd_data (st_foam C16_fm.F3) =
      [(KS (of_string "BLOCKCOMMENT000000"), Leaf (SStr (of_string "BLOCKCOMMENT000000"))); (k_FoamFile, foam_file_dict);
       (KS (of_string "LINECOMMENT000000"), Leaf (SStr (of_string "LINECOMMENT000000")))] ++ C16_fm.F3.
Proof.
  intros ds.
  assert (H1 : forallb foam_src ds = true) by (vm_compute; reflexivity).
  assert (H2 : (Z.of_nat (nq_total ds) <= 1000000)%Z) by (vm_compute; discriminate).
  assert (H3 : fold_left merge_spec (map fclassified ds) [] = C16_fm.F3) by (vm_compute; reflexivity).
  refine (conj H1 (conj H2 (conj H3 _))).
  destruct (C16_foam_append_sequence C16_fm.pth [] ds eq_refl ltac:(discriminate) H1 H2) as (txt & c & E1 & E2 & _).
  rewrite H3 in E2. change (Nat.ltb 1 (length ds)) with true in E2. cbn [fst_of] in E2.
  assert (Et : txt = C16_fm.t3).
  { assert (Ew : w_get C16_fm.pth (writer_run true [] C16_fm.pth (appends ds)) = Some C16_fm.t3) by (vm_compute; reflexivity).
    rewrite Ew in E1. injection E1 as <-. reflexivity. }
  subst txt. exists c. refine (conj E1 (conj E2 _)). reflexivity.
Qed.

(* (2), mixed sequences: append and overwrite steps in any order; the specification fold MiscSpec.spec_writes over the
   dicts without underscore keys, leaves classified; hdr_run says whether the header entries are there (exactly when
   the last write was an append onto an existing file) *)
Theorem C16_foam_write_sequence : forall path w ops,
  w_get path w = None -> ops <> [] ->
  forallb (fun op => foam_src (snd op)) ops = true ->
  (Z.of_nat (nq_total (map snd ops)) <= 1000000)%Z ->
  exists txt F c,
    w_get path (writer_run true w path ops) = Some txt /\
    spec_writes (fspec_ops ops) None = Some F /\
    read_plain [(norm_path path, FNative txt)] path true true (-1)%Z = Ok (fst_of (hdr_run ops None false) F, c) /\
    fdom F = true /\ us_free F = true /\ reread_plain F = F.
Proof. exact foam_write_sequence_reads_back. Qed.
Print Assumptions C16_foam_write_sequence.

Example C16_foam_write_sequence_nonvacuous :
  let ops := [(true, C16_fm.d1); (true, C16_fm.d2); (false, C16_fm.d3); (true, C16_fm.d1)] in
  forallb (fun op => foam_src (snd op)) ops = true /\ (Z.of_nat (nq_total (map snd ops)) <= 1000000)%Z /\
  hdr_run ops None false = true /\
  exists txt F c,
    w_get C16_fm.pth (writer_run true [] C16_fm.pth ops) = Some txt /\
    F = merge_spec (fclassified C16_fm.d3) (fclassified C16_fm.d1) /\
    read_plain [(norm_path C16_fm.pth, FNative txt)] C16_fm.pth true true (-1)%Z = Ok (st_foam F, c) /\
    get_dpath (Dict F) [C16_fm.ks "sub"; C16_fm.ks "n"; C16_fm.ks "p"] = Some (Leaf (SInt 5)) /\
    get_dpath (Dict F) [C16_fm.ks "sub"; C16_fm.ks "y"] = None /\
    get_dpath (Dict F) [C16_fm.ks "a"] = Some (Leaf (SInt 7)).
Proof.
  intros ops.
  assert (H1 : forallb (fun op => foam_src (snd op)) ops = true) by (vm_compute; reflexivity).
  assert (H2 : (Z.of_nat (nq_total (map snd ops)) <= 1000000)%Z) by (vm_compute; discriminate).
  assert (H3 : hdr_run ops None false = true) by (vm_compute; reflexivity).
  refine (conj H1 (conj H2 (conj H3 _))).
  destruct (C16_foam_write_sequence C16_fm.pth [] ops eq_refl ltac:(discriminate) H1 H2) as (txt & F & c & E1 & E2 & E3 & _).
  rewrite H3 in E3. cbn [fst_of] in E3.
  assert (EF : F = merge_spec (fclassified C16_fm.d3) (fclassified C16_fm.d1)).
  { cbn [ops fspec_ops map spec_writes fold_left spec_write fst snd] in E2. injection E2 as <-. reflexivity. }
  exists txt, F, c. refine (conj E1 (conj EF (conj E3 _))). rewrite EF. vm_compute. repeat split; reflexivity.
Qed.

(* (3) Monotonicity over a whole Foam sequence, in the words of the property: appends ds1 (at least one), then d, then
   ds2.  Every leaf path of the state read back after ds1 -- the header entries and the leaves of the FoamFile dict
   included -- is in the state read back after the last write, with the same value; every key path of d (underscore keys
   dropped, leaves classified) that is absent from the earlier state arrives with the value it has in d when that value
   is a leaf. *)
Theorem C16_foam_append_sequence_monotone : forall path w ds1 d ds2,
  w_get path w = None -> ds1 <> [] ->
  forallb foam_src (ds1 ++ d :: ds2) = true ->
  (Z.of_nat (nq_total (ds1 ++ d :: ds2)) <= 1000000)%Z ->
  exists txt1 txt3 s1 s3 c1 c3,
    w_get path (writer_run true w path (appends ds1)) = Some txt1 /\
    w_get path (writer_run true (writer_run true w path (appends ds1)) path (appends (d :: ds2))) = Some txt3 /\
    read_plain [(norm_path path, FNative txt1)] path true true (-1)%Z = Ok (s1, c1) /\
    read_plain [(norm_path path, FNative txt3)] path true true (-1)%Z = Ok (s3, c3) /\
    (forall p v, get_dpath (Dict (sd_data s1)) p = Some (Leaf v) -> get_dpath (Dict (sd_data s3)) p = Some (Leaf v)) /\
    (forall p v, get_dpath (Dict (fclassified d)) p = Some (Leaf v) -> addable (Dict (sd_data s1)) p = true ->
                 get_dpath (Dict (sd_data s3)) p = Some (Leaf v)).
Proof. exact foam_append_sequence_monotone. Qed.
Print Assumptions C16_foam_append_sequence_monotone.

Example C16_foam_append_sequence_monotone_nonvacuous :
  let ds1 := [C16_fm.d1] in let d := C16_fm.d2 in let ds2 := [C16_fm.d3] in
  forallb foam_src (ds1 ++ d :: ds2) = true /\ (Z.of_nat (nq_total (ds1 ++ d :: ds2)) <= 1000000)%Z /\
  exists s1 s3 c1 c3 txt1,
    w_get C16_fm.pth (writer_run true [] C16_fm.pth (appends ds1)) = Some txt1 /\
    read_plain [(norm_path C16_fm.pth, FNative txt1)] C16_fm.pth true true (-1)%Z = Ok (s1, c1) /\
    read_plain [(norm_path C16_fm.pth, FNative C16_fm.t3)] C16_fm.pth true true (-1)%Z = Ok (s3, c3) /\
    (* sub.x was in the file before d2 ('two words'; d2 offers 'other'): kept *)
    get_dpath (Dict (sd_data s1)) [C16_fm.ks "sub"; C16_fm.ks "x"] = Some (C16_fm.sv "two words") /\
    get_dpath (Dict (sd_data s3)) [C16_fm.ks "sub"; C16_fm.ks "x"] = Some (C16_fm.sv "two words") /\
    (* sub.y is new in d2 and absent before: added *)
    addable (Dict (sd_data s1)) [C16_fm.ks "sub"; C16_fm.ks "y"] = true /\
    get_dpath (Dict (sd_data s3)) [C16_fm.ks "sub"; C16_fm.ks "y"] = Some (Leaf (SFloat (of_string "2.5"))) /\
    (* sub._y of d2 is no path of the dict the theorem speaks about *)
    get_dpath (Dict (fclassified d)) [C16_fm.ks "sub"; C16_fm.ks "_y"] = None.
Proof.
  intros ds1 d ds2.
  assert (H1 : forallb foam_src (ds1 ++ d :: ds2) = true) by (vm_compute; reflexivity).
  assert (H2 : (Z.of_nat (nq_total (ds1 ++ d :: ds2)) <= 1000000)%Z) by (vm_compute; discriminate).
  refine (conj H1 (conj H2 _)).
  destruct (C16_foam_append_sequence_monotone C16_fm.pth [] ds1 d ds2 eq_refl ltac:(discriminate) H1 H2)
    as (txt1 & txt3 & s1 & s3 & c1 & c3 & E1 & E3 & R1 & R3 & Hkeep & Hadd).
  assert (Et3 : txt3 = C16_fm.t3).
  { assert (Ew : w_get C16_fm.pth (writer_run true (writer_run true [] C16_fm.pth (appends ds1)) C16_fm.pth (appends (d :: ds2))) = Some C16_fm.t3) by (vm_compute; reflexivity).
    rewrite Ew in E3. injection E3 as <-. reflexivity. }
  subst txt3.
  assert (Es1 : sd_data s1 = C16_fm.F1).
  { assert (Ew : w_get C16_fm.pth (writer_run true [] C16_fm.pth (appends ds1)) = Some C16_fm.t1) by (vm_compute; reflexivity).
    rewrite Ew in E1. injection E1 as <-.
    assert (Er : exists c, read_plain [(norm_path C16_fm.pth, FNative C16_fm.t1)] C16_fm.pth true true (-1)%Z = Ok (mkSD C16_fm.F1 [] [] [] [], c)).
    { destruct C16_foam_overwrite_reads_back_nonvacuous as (_ & _ & _ & _ & _ & _ & _ & c & _ & _ & Er). exists c. exact Er. }
    destruct Er as [c Er]. rewrite Er in R1. injection R1 as <- _. reflexivity. }
  exists s1, s3, c1, c3, txt1. refine (conj E1 (conj R1 (conj R3 _))).
  assert (G1 : get_dpath (Dict (sd_data s1)) [C16_fm.ks "sub"; C16_fm.ks "x"] = Some (C16_fm.sv "two words")) by (rewrite Es1; vm_compute; reflexivity).
  assert (G2 : addable (Dict (sd_data s1)) [C16_fm.ks "sub"; C16_fm.ks "y"] = true) by (rewrite Es1; vm_compute; reflexivity).
  refine (conj G1 (conj (Hkeep _ _ G1) (conj G2 (conj (Hadd _ _ _ G2) _)))); vm_compute; reflexivity.
Qed.

(* ... and when the sequence begins with an overwrite, whatever the target held *)
Theorem C16_foam_write_sequence_after_overwrite : forall path w d ops,
  forallb (fun op => foam_src (snd op)) ((false, d) :: ops) = true ->
  (Z.of_nat (nq_total (map snd ((false, d) :: ops))) <= 1000000)%Z ->
  exists txt F c,
    w_get path (writer_run true w path ((false, d) :: ops)) = Some txt /\
    spec_writes (fspec_ops ops) (Some (fclassified d)) = Some F /\
    read_plain [(norm_path path, FNative txt)] path true true (-1)%Z = Ok (fst_of (hdr_run ops (Some []) false) F, c) /\
    fdom F = true /\ us_free F = true /\ reread_plain F = F.
Proof. exact foam_write_sequence_after_overwrite. Qed.
Print Assumptions C16_foam_write_sequence_after_overwrite.

Example C16_foam_write_sequence_after_overwrite_nonvacuous :
  let w := [(C16_fm.pth, of_string "{{{ garbage")] in
  let ops := [(true, C16_fm.d2); (true, C16_fm.d3)] in
  forallb (fun op => foam_src (snd op)) ((false, C16_fm.d1) :: ops) = true /\
  (Z.of_nat (nq_total (map snd ((false, C16_fm.d1) :: ops))) <= 1000000)%Z /\
  exists c,
    w_get C16_fm.pth (writer_run true w C16_fm.pth ((false, C16_fm.d1) :: ops)) = Some C16_fm.t3 /\
    read_plain [(norm_path C16_fm.pth, FNative C16_fm.t3)] C16_fm.pth true true (-1)%Z = Ok (st_foam C16_fm.F3, c).
Proof.
  intros w ops.
  assert (H1 : forallb (fun op => foam_src (snd op)) ((false, C16_fm.d1) :: ops) = true) by (vm_compute; reflexivity).
  assert (H2 : (Z.of_nat (nq_total (map snd ((false, C16_fm.d1) :: ops))) <= 1000000)%Z) by (vm_compute; discriminate).
  refine (conj H1 (conj H2 _)).
  destruct (C16_foam_write_sequence_after_overwrite C16_fm.pth w C16_fm.d1 ops H1 H2) as (txt & F & c & E1 & E2 & E3 & _).
  assert (EF : F = C16_fm.F3).
  { assert (Es : spec_writes (fspec_ops ops) (Some (fclassified C16_fm.d1)) = Some C16_fm.F3) by (vm_compute; reflexivity).
    rewrite Es in E2. injection E2 as <-. reflexivity. }
  subst F. change (hdr_run ops (Some []) false) with true in E3. cbn [fst_of] in E3.
  assert (Et : txt = C16_fm.t3).
  { assert (Ew : w_get C16_fm.pth (writer_run true w C16_fm.pth ((false, C16_fm.d1) :: ops)) = Some C16_fm.t3) by (vm_compute; reflexivity).
    rewrite Ew in E1. injection E1 as <-. reflexivity. }
  subst txt. exists c. exact (conj E1 E3).
Qed.

(* FINDING (excluded by no_FoamFile_key; the real library behaves the same).  A source dict with a top-level key
   FoamFile: the first write leaves it as data; the first append onto the file puts the default header in front, so the
   text holds TWO FoamFile blocks; reading that back, the later (the user's) replaces the header's -- version 2.0,
   format, class, object are gone -- and the next append writes the user's dict in the place of the FoamFile block of
   the header.  No user data is lost, but the state is not of the shape st_foam and the file has no valid OpenFOAM
   FoamFile entry any more. *)
Example C16_foam_FoamFile_key_finding :
  let e1 := [(k_FoamFile, Dict [(C16_fm.ks "version", Leaf (SInt 3)); (C16_fm.ks "mine", Leaf (SInt 1))]); (C16_fm.ks "a", Leaf (SInt 1))] in
  let e2 := [(C16_fm.ks "b", Leaf (SInt 2))] in
  foam_src e1 = false /\ pv_ok e1 && wdom (typed e1) && foam_writable_tree (Dict (typed e1)) && no_self_named (fclassified e1) = true /\
  foam_src e2 = true /\
  (* after the second write: two FoamFile blocks in the text *)
  w_get C16_fm.pth (writer_run true [] C16_fm.pth (appends [e1; e2])) =
    Some (foam_header ++ of_string "FoamFile
{
    version                   3;
    mine                      1;
}
a                             1;
b                             2;
") /\
  (* read back: the user's FoamFile dict has replaced the header's *)
  (exists s c, match w_get C16_fm.pth (writer_run true [] C16_fm.pth (appends [e1; e2])) with
               | Some t => read_plain [(norm_path C16_fm.pth, FNative t)] C16_fm.pth true true (-1)%Z | None => Raise 0%N end = Ok (s, c) /\
     get_dpath (Dict (sd_data s)) [k_FoamFile; C16_fm.ks "version"] = Some (Leaf (SInt 3)) /\
     get_dpath (Dict (sd_data s)) [k_FoamFile; C16_fm.ks "format"] = None /\
     get_dpath (Dict (sd_data s)) [C16_fm.ks "a"] = Some (Leaf (SInt 1)) /\
     get_dpath (Dict (sd_data s)) [C16_fm.ks "b"] = Some (Leaf (SInt 2))) /\
  (* after the third write: the user's dict in the header position *)
  w_get C16_fm.pth (writer_run true [] C16_fm.pth (appends [e1; e2; e2])) =
    Some (foam_banner ++ of_string "
FoamFile
{
    version                   3;
    mine                      1;
}
" ++ foam_rule ++ of_string "
a                             1;
b                             2;
").
Proof.
  intros e1 e2. split; [vm_compute; reflexivity|]. split; [vm_compute; reflexivity|]. split; [vm_compute; reflexivity|].
  split; [vm_compute; reflexivity|]. split; [|vm_compute; reflexivity].
  eexists. eexists. split; [vm_compute; reflexivity|]. vm_compute. repeat split; reflexivity.
Qed.

(* ---- DictWriter.write for an SDict source (Parse.write_sd, FoamFormatter) and DictReader.read with all options ---- *)
From DictIO Require Parse.

(* (1) for an SDict source without comments, in overwrite mode or onto a target that does not exist: an SDict is always
   formatted with the default header, so the text is the header followed by the plain Foam text, and the state read
   back (fresh counter) has the header entries in front already after the first write *)
Theorem C16_foam_overwrite_reads_back_sd : forall fs target ap d,
  pv_ok d = true -> wf (Dict (typed d)) = true -> foam_writable_tree (Dict (typed d)) = true -> no_FoamFile_key (typed d) = true ->
  quoted_within 11 (Dict (typed d)) = true -> (Z.of_nat (nq (Dict (typed d))) <= 1000000)%Z ->
  (ap = false \/ fs_lookup (norm_path target) fs = None) ->
  exists txt c',
    Parse.write_sd fs true target ap false (st_plain d) (-1)%Z = Some (Ok (txt, (-1)%Z)) /\
    txt = foam_header ++ foam_to_string_plain (typed d) /\
    Parse.read_opts [(norm_path target, FNative txt)] target true false true [] (-1)%Z = Some (Ok (st_foam (fclassified d), c')).
Proof. exact foam_overwrite_reads_back_sd. Qed.
Print Assumptions C16_foam_overwrite_reads_back_sd.

(* (2), one step, for an SDict source: an append onto a target whose read gives a state of either shape (data part in
   the domain, free of underscore keys, a fixed point of reading back, no self-named entry): the text is the header and
   the Foam body of the merged data, the state read back is st_foam of the first-wins merge, and the invariant holds
   again (so the step can be iterated) *)
Theorem C16_foam_append_sd_step : forall fs target u hd F c0 d,
  fs_lookup (norm_path target) fs = Some u ->
  Parse.read_opts fs target true false true [] (-1)%Z = Some (Ok (fst_of hd F, c0)) ->
  fdom F = true -> us_free F = true -> reread_plain F = F -> no_self_named F = true ->
  foam_src d = true -> (Z.of_nat (nq (Dict F) + nq (Dict (typed d))) <= 1000000)%Z ->
  exists txt c',
    Parse.write_sd fs true target true false (st_plain d) (-1)%Z = Some (Ok (txt, c0)) /\
    txt = foam_header ++ remove_trailing_spaces (foam_body (merge_spec F (stripped (typed d)))) /\
    Parse.read_opts [(norm_path target, FNative txt)] target true false true [] (-1)%Z =
      Some (Ok (st_foam (merge_spec F (fclassified d)), c')) /\
    fdom (merge_spec F (fclassified d)) = true /\ us_free (merge_spec F (fclassified d)) = true /\
    reread_plain (merge_spec F (fclassified d)) = merge_spec F (fclassified d) /\ no_self_named (merge_spec F (fclassified d)) = true.
Proof. exact foam_append_sd_step. Qed.
Print Assumptions C16_foam_append_sd_step.

Example C16_foam_sd_nonvacuous :
  exists txt1 txt2 c1 c2,
    (* first write of d1 (append mode, target absent) *)
    Parse.write_sd [] true C16_fm.pth true false (st_plain C16_fm.d1) (-1)%Z = Some (Ok (txt1, (-1)%Z)) /\
    txt1 = foam_header ++ C16_fm.t1 /\
    Parse.read_opts [(norm_path C16_fm.pth, FNative txt1)] C16_fm.pth true false true [] (-1)%Z = Some (Ok (st_foam C16_fm.F1, c1)) /\
    (* append of d2 onto it *)
    Parse.write_sd [(norm_path C16_fm.pth, FNative txt1)] true C16_fm.pth true false (st_plain C16_fm.d2) (-1)%Z = Some (Ok (txt2, c1)) /\
    Parse.read_opts [(norm_path C16_fm.pth, FNative txt2)] C16_fm.pth true false true [] (-1)%Z =
      Some (Ok (st_foam (merge_spec C16_fm.F1 (fclassified C16_fm.d2)), c2)) /\
    get_dpath (Dict (merge_spec C16_fm.F1 (fclassified C16_fm.d2))) [C16_fm.ks "sub"; C16_fm.ks "x"] = Some (C16_fm.sv "two words") /\
    get_dpath (Dict (merge_spec C16_fm.F1 (fclassified C16_fm.d2))) [C16_fm.ks "sub"; C16_fm.ks "y"] = Some (Leaf (SFloat (of_string "2.5"))) /\
    get_dpath (Dict (merge_spec C16_fm.F1 (fclassified C16_fm.d2))) [C16_fm.ks "sub"; C16_fm.ks "_y"] = None.
Proof.
  assert (A0 : pv_ok C16_fm.d1 = true) by (vm_compute; reflexivity).
  assert (A1 : wf (Dict (typed C16_fm.d1)) = true) by (vm_compute; reflexivity).
  assert (A2 : foam_writable_tree (Dict (typed C16_fm.d1)) = true) by (vm_compute; reflexivity).
  assert (A3 : no_FoamFile_key (typed C16_fm.d1) = true) by (vm_compute; reflexivity).
  assert (A4 : quoted_within 11 (Dict (typed C16_fm.d1)) = true) by (vm_compute; reflexivity).
  assert (A5 : (Z.of_nat (nq (Dict (typed C16_fm.d1))) <= 1000000)%Z) by (vm_compute; discriminate).
  destruct (C16_foam_overwrite_reads_back_sd [] C16_fm.pth true C16_fm.d1 A0 A1 A2 A3 A4 A5 (or_intror eq_refl)) as (txt1 & c1 & W1 & Et1 & R1).
  assert (EF : fclassified C16_fm.d1 = C16_fm.F1) by (vm_compute; reflexivity). rewrite EF in R1.
  assert (Et : txt1 = foam_header ++ C16_fm.t1) by (rewrite Et1; vm_compute; reflexivity).
  assert (B0 : fs_lookup (norm_path C16_fm.pth) [(norm_path C16_fm.pth, FNative txt1)] = Some (FNative txt1)) by (cbn [fs_lookup]; rewrite str_eqb_refl'; reflexivity).
  assert (B1 : fdom C16_fm.F1 = true) by (vm_compute; reflexivity).
  assert (B2 : us_free C16_fm.F1 = true) by (vm_compute; reflexivity).
  assert (B3 : reread_plain C16_fm.F1 = C16_fm.F1) by (vm_compute; reflexivity).
  assert (B4 : no_self_named C16_fm.F1 = true) by (vm_compute; reflexivity).
  assert (B5 : foam_src C16_fm.d2 = true) by (vm_compute; reflexivity).
  assert (B6 : (Z.of_nat (nq (Dict C16_fm.F1) + nq (Dict (typed C16_fm.d2))) <= 1000000)%Z) by (vm_compute; discriminate).
  destruct (C16_foam_append_sd_step [(norm_path C16_fm.pth, FNative txt1)] C16_fm.pth (FNative txt1) true C16_fm.F1 c1 C16_fm.d2 B0 R1 B1 B2 B3 B4 B5 B6)
    as (txt2 & c2 & W2 & _ & R2 & _).
  exists txt1, txt2, c1, c2. refine (conj W1 (conj Et (conj R1 (conj W2 (conj R2 _))))). vm_compute. repeat split; reflexivity.
Qed.
