(* C18  Relative paths and generated include directives lead to the file they name. *)
From Coq Require Import String.   (* string literals of the examples; imported first so the list names win *)
From Coq Require Import NArith ZArith List Bool.
From DictIO Require Import Chars Str Value Scalar Paths MiscSpec PathsProofs.
Import ListNotations.

Module C18_ex.
  Definition a : comps := [of_string "t"; of_string "d1"; of_string "s1"; of_string "deep"].
  Definition b : comps := [of_string "t"; of_string "d1"; of_string "s2"; of_string "x.y"; of_string "b"].
  Definition c : comps := [of_string "t"; of_string "d1"; of_string "s1"; of_string "deep"; of_string "er"; of_string "..."].
  Definition d : comps := [of_string "t"; of_string "d1"].
End C18_ex.
Ltac nodots_tac := repeat (constructor; [reflexivity|]); constructor.

(* the relative path joined to the start location denotes the target: below, above and beside the start *)
Theorem C18_rel_join : forall from to, nodots from -> nodots to -> norm_join from (relative_path from to) = to.
Proof. exact rel_join. Qed.
Print Assumptions C18_rel_join.

(* non-vacuity: target beside, below and above the start *)
Example C18_rel_join_nonvacuous :
  nodots C18_ex.a /\ nodots C18_ex.b /\ nodots C18_ex.c /\ nodots C18_ex.d /\
  (relative_path C18_ex.a C18_ex.b = [dotdot; dotdot; of_string "s2"; of_string "x.y"; of_string "b"] /\
   norm_join C18_ex.a (relative_path C18_ex.a C18_ex.b) = C18_ex.b) /\
  (relative_path C18_ex.a C18_ex.c = [of_string "er"; of_string "..."] /\ norm_join C18_ex.a (relative_path C18_ex.a C18_ex.c) = C18_ex.c) /\
  (relative_path C18_ex.a C18_ex.d = [dotdot; dotdot] /\ norm_join C18_ex.a (relative_path C18_ex.a C18_ex.d) = C18_ex.d).
Proof.
  assert (Ha : nodots C18_ex.a) by nodots_tac. assert (Hb : nodots C18_ex.b) by nodots_tac.
  assert (Hc : nodots C18_ex.c) by nodots_tac. assert (Hd : nodots C18_ex.d) by nodots_tac.
  refine (conj Ha (conj Hb (conj Hc (conj Hd (conj (conj _ (C18_rel_join _ _ Ha Hb))
            (conj (conj _ (C18_rel_join _ _ Ha Hc)) (conj _ (C18_rel_join _ _ Ha Hd)))))))); vm_compute; reflexivity.
Qed.

(* the common root is an ancestor of every path ... *)
Theorem C18_hcr_ancestor : forall l x, In x l -> is_prefix (common_prefix_all l) x = true.
Proof. exact hcr_ancestor. Qed.
Print Assumptions C18_hcr_ancestor.

Example C18_hcr_ancestor_nonvacuous :
  let l := [C18_ex.a; C18_ex.b; C18_ex.c] in
  In C18_ex.b l /\ common_prefix_all l = [of_string "t"; of_string "d1"] /\ is_prefix (common_prefix_all l) C18_ex.b = true.
Proof.
  intros l. assert (H : In C18_ex.b l) by (right; left; reflexivity).
  refine (conj H (conj _ (C18_hcr_ancestor l _ H))). vm_compute. reflexivity.
Qed.

(* ... and no deeper common ancestor exists *)
Theorem C18_hcr_deepest : forall l p, l <> [] -> (forall x, In x l -> is_prefix p x = true) ->
  is_prefix p (common_prefix_all l) = true.
Proof. exact hcr_deepest. Qed.
Print Assumptions C18_hcr_deepest.

Example C18_hcr_deepest_nonvacuous :
  let l := [C18_ex.a; C18_ex.b; C18_ex.c] in let p := [of_string "t"] in
  l <> [] /\ (forall x, In x l -> is_prefix p x = true) /\ is_prefix p (common_prefix_all l) = true.
Proof.
  intros l p. assert (H1 : l <> []) by discriminate.
  assert (H2 : forall x, In x l -> is_prefix p x = true).
  { intros x Hx. cbn [l In] in Hx. destruct Hx as [<-|[<-|[<-|[]]]]; vm_compute; reflexivity. }
  exact (conj H1 (conj H2 (C18_hcr_deepest l p H1 H2))).
Qed.

(* the directive written for an include names, when read again, exactly the relative path that was registered *)
Theorem C18_directive : forall n, has_char c_dollar n = false -> (has_char c_sq n && has_char c_dq n) = false ->
  directive_name (of_string "#include " ++ format_string n) = Some n.
Proof. exact directive_roundtrip. Qed.
Print Assumptions C18_directive.

(* non-vacuity: a relative path with a blank (written in single quotes), one with an apostrophe (double quotes), a
   plain one (bare) *)
Example C18_directive_nonvacuous :
  let n1 := of_string "../s 2/x.y/b" in let n2 := of_string "../it's/b" in let n3 := of_string "sub/b.dict" in
  (has_char c_dollar n1 = false /\ (has_char c_sq n1 && has_char c_dq n1) = false /\
   of_string "#include " ++ format_string n1 = of_string "#include '../s 2/x.y/b'" /\
   directive_name (of_string "#include " ++ format_string n1) = Some n1) /\
  (has_char c_dollar n2 = false /\ (has_char c_sq n2 && has_char c_dq n2) = false /\
   of_string "#include " ++ format_string n2 = of_string "#include ""../it's/b""" /\
   directive_name (of_string "#include " ++ format_string n2) = Some n2) /\
  (has_char c_dollar n3 = false /\ (has_char c_sq n3 && has_char c_dq n3) = false /\
   directive_name (of_string "#include " ++ format_string n3) = Some n3).
Proof.
  intros n1 n2 n3.
  assert (A1 : has_char c_dollar n1 = false) by (vm_compute; reflexivity).
  assert (B1 : (has_char c_sq n1 && has_char c_dq n1) = false) by (vm_compute; reflexivity).
  assert (A2 : has_char c_dollar n2 = false) by (vm_compute; reflexivity).
  assert (B2 : (has_char c_sq n2 && has_char c_dq n2) = false) by (vm_compute; reflexivity).
  assert (A3 : has_char c_dollar n3 = false) by (vm_compute; reflexivity).
  assert (B3 : (has_char c_sq n3 && has_char c_dq n3) = false) by (vm_compute; reflexivity).
  refine (conj (conj A1 (conj B1 (conj _ (C18_directive n1 A1 B1))))
         (conj (conj A2 (conj B2 (conj _ (C18_directive n2 A2 B2)))) (conj A3 (conj B3 (C18_directive n3 A3 B3)))));
  vm_compute; reflexivity.
Qed.

Example C18_example :
  let a := [of_string "t"; of_string "d1"; of_string "s1"; of_string "deep"] in
  let b := [of_string "t"; of_string "d1"; of_string "s2"; of_string "x.y"; of_string "b"] in
  relative_path a b = [dotdot; dotdot; of_string "s2"; of_string "x.y"; of_string "b"] /\ norm_join a (relative_path a b) = b.
Proof. vm_compute. split; reflexivity. Qed.

(* ================================================================================================== *)
(* added from Properties/C18_add.v (2026-10-01)                                              *)
(* ================================================================================================== *)
(* C18 additions: the chain from SDict.include + dump to the read, end to end on the model
   (proofs: Proofs/IncludeChainProofs.v).
   1. path STRINGS of the reader (norm_path, dir_of, path_join) against the component lists of C18_rel_join;
   2. the text the writer produces for a dict with one registered include, and what the lexer's include stage registers
      for the directive line of that text;
   3. reading the dumped file merges the included file, wherever the two files are. *)
From Coq Require Import NArith ZArith List Bool.
From DictIO Require Import Chars Str Value Scalar KeyPath SDict Layout Lexer TokParser Reader Paths TreeSpec MiscSpec.
From DictIO Require Import E2EHoles RereadStr PathsProofs IncludeChainProofs.
Import ListNotations.

(* ---- 1. strings <-> components -------------------------------------------------------------------------- *)
(* a normalised absolute path string is the string of its components, and these are ordinary components (not empty,
   not dot, not dot-dot, free of slashes); conversely such a component list is the component list of its string *)
Theorem C18_path_string_components : forall p, norm_path p = p -> p = path_str (comps_of p) /\ comps_ok (comps_of p) = true.
Proof. exact path_string_components. Qed.
Print Assumptions C18_path_string_components.

Theorem C18_components_path_string : forall c, comps_ok c = true -> norm_path (path_str c) = path_str c /\ comps_of (path_str c) = c.
Proof. exact components_path_string. Qed.
Print Assumptions C18_components_path_string.

Example C18_path_string_components_nonvacuous :
  let p := of_string "/r/run 1/v1.2/a.dict" in
  norm_path p = p /\ comps_of p = [of_string "r"; of_string "run 1"; of_string "v1.2"; of_string "a.dict"] /\
  p = path_str (comps_of p) /\ comps_ok (comps_of p) = true /\
  norm_path (path_str (comps_of p)) = path_str (comps_of p) /\ comps_of (path_str (comps_of p)) = comps_of p.
Proof.
  intros p. assert (H : norm_path p = p) by (vm_compute; reflexivity).
  destruct (C18_path_string_components p H) as [H1 H2]. destruct (C18_components_path_string _ H2) as [H3 H4].
  refine (conj H (conj _ (conj H1 (conj H2 (conj H3 H4))))). vm_compute. reflexivity.
Qed.

(* the reader's resolution of a relative name (textual join with the folder, then os.path.normpath) is norm_join on
   the components: dot-dot components of the name climb *)
Theorem C18_join_normalises : forall d rel, comps_ok d = true -> rel_ok rel = true ->
  norm_path (path_join (path_str d) (join_slash rel)) = path_str (norm_join d rel).
Proof. exact norm_path_joined. Qed.
Print Assumptions C18_join_normalises.

Example C18_join_normalises_nonvacuous :
  let d := [of_string "r"; of_string "run 1"; of_string "v1.2"] in
  let rel := [dotdot; dotdot; of_string "other dir"; of_string "b.dict"] in
  comps_ok d = true /\ rel_ok rel = true /\
  path_join (path_str d) (join_slash rel) = of_string "/r/run 1/v1.2/../../other dir/b.dict" /\
  norm_path (path_join (path_str d) (join_slash rel)) = path_str (norm_join d rel) /\
  path_str (norm_join d rel) = of_string "/r/other dir/b.dict".
Proof.
  intros d rel. assert (H1 : comps_ok d = true) by (vm_compute; reflexivity).
  assert (H2 : rel_ok rel = true) by (vm_compute; reflexivity).
  refine (conj H1 (conj H2 (conj _ (conj (C18_join_normalises d rel H1 H2) _)))); vm_compute; reflexivity.
Qed.

(* C18_rel_join lifted to the reader's string functions: the include name computed by SDict.include for the dict file
   pb in the dict file pa (relative path from pa's folder, POSIX separators), joined to pa's folder as the reader does
   and normalised, is pb.  For any two normalised absolute paths: same folder, below, above, beside. *)
Theorem C18_rel_join_strings : forall pa pb, norm_path pa = pa -> norm_path pb = pb ->
  norm_path (path_join (dir_of pa) (include_name pa pb)) = pb.
Proof. exact rel_join_str. Qed.
Print Assumptions C18_rel_join_strings.

(* the five placements of the non-vacuity checks; folder names with a blank and with a dot *)
Module C18_chain_ex.
  Definition a_top := of_string "/r/run 1/a.dict".
  Definition a_deep := of_string "/r/run 1/v1.2/a.dict".
  Definition b_same := of_string "/r/run 1/b.dict".                (* same folder as a_top; parent folder of a_deep *)
  Definition b_child := of_string "/r/run 1/v1.2/b.dict".          (* below a_top *)
  Definition b_sibling := of_string "/r/other dir/b.dict".         (* beside a_top *)
  Definition b_cousin := of_string "/r/other dir/v1.2/b.dict".     (* beside a_deep, two levels up and down *)
  (* the data of the including dict (a) and of the included file (b): x is in both *)
  Definition da : list (key * tree) :=
    [(KS (of_string "x"), Leaf (SInt 1)); (KS (of_string "d"), Dict [(KS (of_string "y"), Leaf (SStr (of_string "two words")))])].
  Definition db : list (key * tree) := [(KS (of_string "x"), Leaf (SInt 9)); (KS (of_string "z"), Leaf (SInt 3))].
  Definition tb : str := to_string_plain db.
End C18_chain_ex.
Import C18_chain_ex.

Example C18_rel_join_strings_nonvacuous :
  (norm_path a_top = a_top /\ norm_path a_deep = a_deep /\ norm_path b_same = b_same /\ norm_path b_child = b_child /\
   norm_path b_sibling = b_sibling /\ norm_path b_cousin = b_cousin) /\
  (include_name a_top b_same = of_string "b.dict" /\ norm_path (path_join (dir_of a_top) (include_name a_top b_same)) = b_same) /\
  (include_name a_top b_child = of_string "v1.2/b.dict" /\ norm_path (path_join (dir_of a_top) (include_name a_top b_child)) = b_child) /\
  (include_name a_deep b_same = of_string "../b.dict" /\ norm_path (path_join (dir_of a_deep) (include_name a_deep b_same)) = b_same) /\
  (include_name a_top b_sibling = of_string "../other dir/b.dict" /\
   norm_path (path_join (dir_of a_top) (include_name a_top b_sibling)) = b_sibling) /\
  (include_name a_deep b_cousin = of_string "../../other dir/v1.2/b.dict" /\
   path_join (dir_of a_deep) (include_name a_deep b_cousin) = of_string "/r/run 1/v1.2/../../other dir/v1.2/b.dict" /\
   norm_path (path_join (dir_of a_deep) (include_name a_deep b_cousin)) = b_cousin).
Proof.
  assert (A1 : norm_path a_top = a_top) by (vm_compute; reflexivity).
  assert (A2 : norm_path a_deep = a_deep) by (vm_compute; reflexivity).
  assert (B1 : norm_path b_same = b_same) by (vm_compute; reflexivity).
  assert (B2 : norm_path b_child = b_child) by (vm_compute; reflexivity).
  assert (B3 : norm_path b_sibling = b_sibling) by (vm_compute; reflexivity).
  assert (B4 : norm_path b_cousin = b_cousin) by (vm_compute; reflexivity).
  refine (conj (conj A1 (conj A2 (conj B1 (conj B2 (conj B3 B4)))))
         (conj (conj _ (C18_rel_join_strings _ _ A1 B1)) (conj (conj _ (C18_rel_join_strings _ _ A1 B2))
         (conj (conj _ (C18_rel_join_strings _ _ A2 B1)) (conj (conj _ (C18_rel_join_strings _ _ A1 B3))
         (conj _ (conj _ (C18_rel_join_strings _ _ A2 B4)))))))); vm_compute; reflexivity.
Qed.

(* ---- 2. the dumped text and the lexer's include stage ---------------------------------------------------- *)
(* sd_with_include da i name path: what SDict.include leaves in a dict built in memory (the placeholder entry
   INCLUDE<i> appended to the data da, the entry (directive, name, path) in the include table; no comments).
   NativeFormatter.to_string writes the default header, the directive line `#include <formatted name>` and then the
   text of the data.  Side conditions: name_ok = no line break in the name (the only condition on the name in this chain:
   dollars, blanks, dots, hashes, quotes of both kinds are fine, C18_include_dump_read_nonvacuous_quotes_dollar; a line
   break cuts the directive, C18_line_break_finding); i below a million (six-digit placeholders);
   plain_top da: no top-level key of da spells a block comment or include placeholder (the writer moves such entries to
   the front); the data text of da does not spell the placeholder INCLUDE<i> itself. *)
Theorem C18_dumped_text : forall da i name path,
  name_ok name = true -> (i < 1000000)%N -> plain_top da = true -> contains (iph i) (native_body da) = false ->
  to_string_sd (sd_with_include da i name path) =
  native_header ++ (of_string "#include " ++ format_string name) ++ c_lf :: to_string_plain da.
Proof. exact sd_include_text. Qed.
Print Assumptions C18_dumped_text.

Example C18_dumped_text_nonvacuous :
  let name := include_name a_top b_sibling in
  name_ok name = true /\ (7 < 1000000)%N /\ plain_top da = true /\ contains (iph 7) (native_body da) = false /\
  to_string_sd (sd_with_include da 7 name b_sibling) =
    native_header ++ (of_string "#include " ++ format_string name) ++ c_lf :: to_string_plain da /\
  to_string_sd (sd_with_include da 7 name b_sibling) = of_string
"/*---------------------------------*- C++ -*----------------------------------*\
filetype dictionary; coding utf-8; version 0.1; local --; purpose --;
\*----------------------------------------------------------------------------*/
#include '../other dir/b.dict'
x                             1;
d
{
    y                         'two words';
}
".
Proof.
  intros name. assert (H1 : name_ok name = true) by (vm_compute; reflexivity).
  assert (H2 : (7 < 1000000)%N) by reflexivity. assert (H3 : plain_top da = true) by (vm_compute; reflexivity).
  assert (H4 : contains (iph 7) (native_body da) = false) by (vm_compute; reflexivity).
  refine (conj H1 (conj H2 (conj H3 (conj H4 (conj (C18_dumped_text da 7 name b_sibling H1 H2 H3 H4) _))))).
  vm_compute. reflexivity.
Qed.

(* the include stage of the lexer (any comments flag, any counter) on a text made of complete lines P, the directive
   line written for the relative path rel, and a rest T: it registers exactly one include, with the directive text, the
   name  join_slash rel  and the path  path_join dir name  anchored at the folder of the file being read.
   Side conditions: no other hash sign in the text (a hash may start another directive) and no double slash (the line
   comment stage runs first and would cut the line there). *)
Theorem C18_lexer_registers_directive : forall com dir c P T rel,
  name_ok (join_slash rel) = true ->
  ends_lf P -> has_char c_cr P = false -> has_char c_hash P = false -> has_char c_hash T = false ->
  nopair c_slash c_slash (P ++ include_directive_text rel ++ c_lf :: T) = true ->
  lxd_inc (lex com dir c (P ++ include_directive_text rel ++ c_lf :: T)) =
    [(Z.to_N (counter_next c), (include_directive_text rel, join_slash rel, path_join dir (join_slash rel)))].
Proof. exact lex_include_directive. Qed.
Print Assumptions C18_lexer_registers_directive.

Example C18_lexer_registers_directive_nonvacuous :
  let rel := [dotdot; of_string "other dir"; of_string "b.dict"] in
  let P := native_header in let T := to_string_plain da in let dir := of_string "/r/run 1" in
  name_ok (join_slash rel) = true /\ ends_lf P /\ has_char c_cr P = false /\ has_char c_hash P = false /\
  has_char c_hash T = false /\ nopair c_slash c_slash (P ++ include_directive_text rel ++ c_lf :: T) = true /\
  lxd_inc (lex true dir 41 (P ++ include_directive_text rel ++ c_lf :: T)) =
    [(42%N, (of_string "#include '../other dir/b.dict'", of_string "../other dir/b.dict", of_string "/r/run 1/../other dir/b.dict"))].
Proof.
  intros rel P T dir. assert (H1 : name_ok (join_slash rel) = true) by (vm_compute; reflexivity).
  assert (H2 : ends_lf P) by (right; exists (removelast P); vm_compute; reflexivity).
  assert (H3 : has_char c_cr P = false) by (vm_compute; reflexivity).
  assert (H4 : has_char c_hash P = false) by (vm_compute; reflexivity).
  assert (H5 : has_char c_hash T = false) by (vm_compute; reflexivity).
  assert (H6 : nopair c_slash c_slash (P ++ include_directive_text rel ++ c_lf :: T) = true) by (vm_compute; reflexivity).
  refine (conj H1 (conj H2 (conj H3 (conj H4 (conj H5 (conj H6 _)))))).
  rewrite (C18_lexer_registers_directive true dir 41%Z P T rel H1 H2 H3 H4 H5 H6). vm_compute. reflexivity.
Qed.

(* ---- 3. reading the dumped file merges the included file ---------------------------------------------------- *)
(* Given the include entry in the table of the parsed file a (name = the relative path computed by SDict.include, path =
   that name joined to a's folder: what the include stage registers), for ANY two normalised absolute paths pa, pb:
   the entry resolves to pb, so the read of a parses the file at pb and every ordinary top-level key of it is a key of
   the result, and every ordinary leaf of a itself is kept (the including file wins).  C06 composed with
   C18_rel_join_strings. *)
Theorem C18_include_read : forall fs pa pb com c s c' ua pra i d ub,
  norm_path pa = pa -> norm_path pb = pb ->
  read_plain fs pa true com c = Ok (s, c') ->
  fs_lookup pa fs = Some ua -> parse_unit com pa c ua = Ok pra ->
  In (i, (d, include_name pa pb, path_join (dir_of pa) (include_name pa pb))) (sd_inc (pr_sd pra)) ->
  fs_lookup pb fs = Some ub ->
  (exists c1 prb, parse_unit com (path_join (dir_of pa) (include_name pa pb)) c1 ub = Ok prb /\
     forall k, ordinary_key k = true -> alookup k (sd_data (pr_sd prb)) <> None -> alookup k (sd_data s) <> None) /\
  (forall k v, ordinary_key k = true -> ordinary_leaf v = true ->
     alookup k (sd_data (pr_sd pra)) = Some (Leaf v) -> alookup k (sd_data s) = Some (Leaf v)).
Proof. exact include_read_merges. Qed.
Print Assumptions C18_include_read.

(* non-vacuity: a hand-written including file (no header, short layout) beside the included one *)
Example C18_include_read_nonvacuous :
  let ta := of_string "#include '../other dir/b.dict'
x 1;
" in
  let fs := [(a_top, FNative ta); (b_sibling, FNative tb)] in
  exists s c' pra i d,
    norm_path a_top = a_top /\ norm_path b_sibling = b_sibling /\
    read_plain fs a_top true true 0 = Ok (s, c') /\ fs_lookup a_top fs = Some (FNative ta) /\
    parse_unit true a_top 0 (FNative ta) = Ok pra /\
    In (i, (d, include_name a_top b_sibling, path_join (dir_of a_top) (include_name a_top b_sibling))) (sd_inc (pr_sd pra)) /\
    fs_lookup b_sibling fs = Some (FNative tb) /\
    ((exists c1 prb, parse_unit true (path_join (dir_of a_top) (include_name a_top b_sibling)) c1 (FNative tb) = Ok prb /\
        forall k, ordinary_key k = true -> alookup k (sd_data (pr_sd prb)) <> None -> alookup k (sd_data s) <> None) /\
     (forall k v, ordinary_key k = true -> ordinary_leaf v = true ->
        alookup k (sd_data (pr_sd pra)) = Some (Leaf v) -> alookup k (sd_data s) = Some (Leaf v))) /\
    alookup (KS (of_string "z")) (sd_data s) = Some (Leaf (SInt 3)) /\ alookup (KS (of_string "x")) (sd_data s) = Some (Leaf (SInt 1)).
Proof.
  intros ta fs.
  destruct (read_plain fs a_top true true 0) as [[s c']|e] eqn:E; [|vm_compute in E; discriminate E].
  destruct (parse_unit true a_top 0 (FNative ta)) as [pra|e] eqn:Epa; [|vm_compute in Epa; discriminate Epa].
  exists s, c', pra, 1%N, (of_string "#include '../other dir/b.dict'").
  assert (H1 : norm_path a_top = a_top) by (vm_compute; reflexivity).
  assert (H2 : norm_path b_sibling = b_sibling) by (vm_compute; reflexivity).
  assert (H4 : fs_lookup a_top fs = Some (FNative ta)) by (vm_compute; reflexivity).
  assert (H7 : fs_lookup b_sibling fs = Some (FNative tb)) by (vm_compute; reflexivity).
  assert (H6 : In (1%N, (of_string "#include '../other dir/b.dict'", include_name a_top b_sibling,
                         path_join (dir_of a_top) (include_name a_top b_sibling))) (sd_inc (pr_sd pra))).
  { pose proof Epa as Epa'. vm_compute in Epa'. injection Epa' as Epa'. rewrite <- Epa'. vm_compute. left. reflexivity. }
  refine (conj H1 (conj H2 (conj eq_refl (conj H4 (conj eq_refl (conj H6 (conj H7
            (conj (C18_include_read fs a_top b_sibling true 0%Z s c' _ pra _ _ _ H1 H2 E H4 Epa H6 H7) _)))))))).
  vm_compute in E. injection E as Es _. rewrite <- Es. vm_compute. split; reflexivity.
Qed.

(* FULL STATEMENT (C18_include_dump_read): the theorem below without the hypothesis  sd_inc (pr_sd pra) <> [].
   It is FALSE of the model and of the library as it stands (C18_include_dropped_finding below): the clean-up that the
   parser runs on the parsed dict (_clean: duplicate placeholder entries are dropped) deletes the only include entry
   when two keys of one nested dict of a's data spell an INCLUDE placeholder with the id the directive is given on
   re-reading.  The hypothesis says that the include table of the parsed file is not empty (boolean on examples); with it
   the lexer stage theorem fixes the entry.  Proved here: everything else of the chain.  Missing for discharging the
   hypothesis on the class "no key of da at any level spells an INCLUDE placeholder": the token parser on the token
   stream  header-comment token, include token, tokens of da  (RereadParse.dict_spec needs its prefix to end in a
   semicolon, a closing brace or a comment token; an include token also stops the look-back but is not among the tokens allowed there).

   pa, pb: any two normalised absolute paths (same folder, child, parent, sibling, cousin).  The dict a is built in
   memory with ordinary data da, b is included (SDict.include: id i, name include_name pa pb, path pb), a is dumped
   (NativeFormatter) to pa; fs holds that text at pa and any unit ub at pb.  Reading pa with include merging:
   every ordinary top-level key of b's parse is a key of the result, every ordinary leaf of a's parse is kept.
   Side conditions: name_ok (no line break in folder / file names; blanks, dots, dollars, hashes, quotes of both kinds
   are fine: the reader strips one leading and one trailing quote character whatever is between), i < 10^6, plain_top da, da's text does not spell INCLUDE<i>, contains no hash sign
   (another directive) and no double slash (cut as a line comment before the include stage), the read and the parse of
   a succeed. *)
Theorem C18_include_dump_read_partial : forall fs pa pb da i c s c' pra ub,
  norm_path pa = pa -> norm_path pb = pb -> name_ok (include_name pa pb) = true ->
  (i < 1000000)%N -> plain_top da = true -> contains (iph i) (native_body da) = false ->
  has_char c_hash (to_string_plain da) = false -> nopair c_slash c_slash (to_string_plain da) = true ->
  let ta := to_string_sd (sd_with_include da i (include_name pa pb) pb) in
  fs_lookup pa fs = Some (FNative ta) -> fs_lookup pb fs = Some ub ->
  parse_unit true pa c (FNative ta) = Ok pra -> sd_inc (pr_sd pra) <> [] ->
  read_plain fs pa true true c = Ok (s, c') ->
  (exists c1 prb, parse_unit true (path_join (dir_of pa) (include_name pa pb)) c1 ub = Ok prb /\
     forall k, ordinary_key k = true -> alookup k (sd_data (pr_sd prb)) <> None -> alookup k (sd_data s) <> None) /\
  (forall k v, ordinary_key k = true -> ordinary_leaf v = true ->
     alookup k (sd_data (pr_sd pra)) = Some (Leaf v) -> alookup k (sd_data s) = Some (Leaf v)).
Proof. exact include_dump_read_sd_partial. Qed.
Print Assumptions C18_include_dump_read_partial.

(* one placement: every hypothesis of the theorem, its conclusion, and what the read returns concretely: z (only in b)
   arrives, x (in both) keeps a's value, the nested entry of a is kept *)
Definition C18_chain_case (pa pb : str) : Prop :=
  let ta := to_string_sd (sd_with_include da 7 (include_name pa pb) pb) in
  let fs := [(pa, FNative ta); (pb, FNative tb)] in
  exists s c' pra,
    norm_path pa = pa /\ norm_path pb = pb /\ name_ok (include_name pa pb) = true /\
    (7 < 1000000)%N /\ plain_top da = true /\ contains (iph 7) (native_body da) = false /\
    has_char c_hash (to_string_plain da) = false /\ nopair c_slash c_slash (to_string_plain da) = true /\
    fs_lookup pa fs = Some (FNative ta) /\ fs_lookup pb fs = Some (FNative tb) /\
    parse_unit true pa 0 (FNative ta) = Ok pra /\ sd_inc (pr_sd pra) <> [] /\
    read_plain fs pa true true 0 = Ok (s, c') /\
    ((exists c1 prb, parse_unit true (path_join (dir_of pa) (include_name pa pb)) c1 (FNative tb) = Ok prb /\
        forall k, ordinary_key k = true -> alookup k (sd_data (pr_sd prb)) <> None -> alookup k (sd_data s) <> None) /\
     (forall k v, ordinary_key k = true -> ordinary_leaf v = true ->
        alookup k (sd_data (pr_sd pra)) = Some (Leaf v) -> alookup k (sd_data s) = Some (Leaf v))) /\
    alookup (KS (of_string "z")) (sd_data s) = Some (Leaf (SInt 3)) /\
    alookup (KS (of_string "x")) (sd_data s) = Some (Leaf (SInt 1)) /\
    alookup (KS (of_string "d")) (sd_data s) = Some (Dict [(KS (of_string "y"), Leaf (SStr (of_string "two words")))]).

Ltac C18_chain_tac :=
  unfold C18_chain_case; cbv zeta;
  let E := fresh "E" in let Epa := fresh "Epa" in let Epa' := fresh "Epa'" in let Es := fresh "Es" in
  let s := fresh "s" in let c' := fresh "c'" in let pra := fresh "pra" in
  let H1 := fresh "H" in let H2 := fresh "H" in let H3 := fresh "H" in let H4 := fresh "H" in let H5 := fresh "H" in
  let H6 := fresh "H" in let H7 := fresh "H" in let H8 := fresh "H" in let H9 := fresh "H" in let H10 := fresh "H" in
  let H12 := fresh "H" in let Hn := fresh "Hn" in
  match goal with
  | |- exists _ _ _, _ /\ _ /\ _ /\ _ /\ _ /\ _ /\ _ /\ _ /\ _ /\ _ /\ parse_unit true ?pa 0%Z ?ua = _ /\ _ /\ read_plain ?fs _ _ _ _ = _ /\ _ =>
      destruct (read_plain fs pa true true 0%Z) as [[s c']|?] eqn:E; [|vm_compute in E; discriminate E];
      destruct (parse_unit true pa 0%Z ua) as [pra|?] eqn:Epa; [|vm_compute in Epa; discriminate Epa];
      exists s, c', pra
  end;
  match goal with
  | |- ?h1 /\ ?h2 /\ ?h3 /\ ?h4 /\ ?h5 /\ ?h6 /\ ?h7 /\ ?h8 /\ ?h9 /\ ?h10 /\ _ /\ ?h12 /\ _ /\ _ =>
      assert (H1 : h1) by (vm_compute; reflexivity); assert (H2 : h2) by (vm_compute; reflexivity);
      assert (H3 : h3) by (vm_compute; reflexivity); assert (H4 : h4) by reflexivity;
      assert (H5 : h5) by (vm_compute; reflexivity); assert (H6 : h6) by (vm_compute; reflexivity);
      assert (H7 : h7) by (vm_compute; reflexivity); assert (H8 : h8) by (vm_compute; reflexivity);
      assert (H9 : h9) by (vm_compute; reflexivity); assert (H10 : h10) by (vm_compute; reflexivity);
      assert (H12 : h12) by (intro Hn; pose proof Epa as Epa'; vm_compute in Epa';
                             injection Epa' as Epa'; rewrite <- Epa' in Hn; vm_compute in Hn; discriminate Hn)
  end;
  refine (conj H1 (conj H2 (conj H3 (conj H4 (conj H5 (conj H6 (conj H7 (conj H8 (conj H9 (conj H10 (conj eq_refl (conj H12
            (conj eq_refl (conj (C18_include_dump_read_partial _ _ _ _ _ _ _ _ _ _ H1 H2 H3 H4 H5 H6 H7 H8 H9 H10 Epa H12 E) _))))))))))))));
  vm_compute in E; injection E as Es _; rewrite <- Es; vm_compute; repeat split; reflexivity.

(* non-vacuity: the five placements *)
Example C18_include_dump_read_nonvacuous_same_folder : C18_chain_case a_top b_same.
Proof. C18_chain_tac. Qed.
Example C18_include_dump_read_nonvacuous_child : C18_chain_case a_top b_child.
Proof. C18_chain_tac. Qed.
Example C18_include_dump_read_nonvacuous_parent : C18_chain_case a_deep b_same.
Proof. C18_chain_tac. Qed.
Example C18_include_dump_read_nonvacuous_sibling : C18_chain_case a_top b_sibling.
Proof. C18_chain_tac. Qed.
Example C18_include_dump_read_nonvacuous_cousin : C18_chain_case a_deep b_cousin.
Proof. C18_chain_tac. Qed.

(* folder names with a dollar, an apostrophe and double quotes, a hash: the name is written in single quotes although it
   contains one; the reader strips the outer pair only *)
Example C18_include_dump_read_nonvacuous_quotes_dollar :
  C18_chain_case (of_string "/r/$v/a#1/a.dict") (of_string "/r/it's ""q""/b.dict") /\
  include_name (of_string "/r/$v/a#1/a.dict") (of_string "/r/it's ""q""/b.dict") = of_string "../../it's ""q""/b.dict" /\
  format_string (of_string "../../it's ""q""/b.dict") = of_string "'../../it's ""q""/b.dict'".
Proof. split; [C18_chain_tac|split; vm_compute; reflexivity]. Qed.

(* the dumped text and the read result of the cousin placement, computed *)
Example C18_include_dump_read_computed :
  let ta := to_string_sd (sd_with_include da 7 (include_name a_deep b_cousin) b_cousin) in
  ta = of_string
"/*---------------------------------*- C++ -*----------------------------------*\
filetype dictionary; coding utf-8; version 0.1; local --; purpose --;
\*----------------------------------------------------------------------------*/
#include '../../other dir/v1.2/b.dict'
x                             1;
d
{
    y                         'two words';
}
" /\
  match read_plain [(a_deep, FNative ta); (b_cousin, FNative tb)] a_deep true true 0 with
  | Ok (s, c) => map fst (sd_data s) = [KS (of_string "BLOCKCOMMENT000000"); KS (of_string "INCLUDE000001"); KS (of_string "x");
                                        KS (of_string "d"); KS (of_string "z")] /\
                 sd_inc s = [(1%N, (of_string "#include '../../other dir/v1.2/b.dict'", of_string "../../other dir/v1.2/b.dict",
                                    of_string "/r/run 1/v1.2/../../other dir/v1.2/b.dict"))] /\ c = 2%Z
  | Raise _ => False
  end.
Proof. vm_compute. repeat split; reflexivity. Qed.

(* FINDING (same on the library: DictReader.read returns includes == {} and no key of b): every hypothesis of
   C18_include_dump_read_partial except the non-empty include table holds, and the included file is NOT merged.
   a's data has a nested dict with two keys that spell INCLUDE000001, the id the directive gets when the dumped file is
   read with the counter at 0; _clean takes the second for a doublette of the first and deletes the table entry. *)
Example C18_include_dropped_finding :
  let da' := [(KS (of_string "x"), Leaf (SInt 1));
              (KS (of_string "d"), Dict [(KS (of_string "aINCLUDE000001"), Leaf (SInt 1)); (KS (of_string "bINCLUDE000001"), Leaf (SInt 2))])] in
  let pa := a_top in let pb := b_same in
  let ta := to_string_sd (sd_with_include da' 7 (include_name pa pb) pb) in
  let fs := [(pa, FNative ta); (pb, FNative tb)] in
  norm_path pa = pa /\ norm_path pb = pb /\ name_ok (include_name pa pb) = true /\
  plain_top da' = true /\ contains (iph 7) (native_body da') = false /\
  has_char c_hash (to_string_plain da') = false /\ nopair c_slash c_slash (to_string_plain da') = true /\
  match parse_unit true pa 0 (FNative ta), read_plain fs pa true true 0 with
  | Ok pra, Ok (s, _) => sd_inc (pr_sd pra) = [] /\ alookup (KS (of_string "z")) (sd_data s) = None /\
                         alookup (KS (of_string "z")) db = Some (Leaf (SInt 3))
  | _, _ => False
  end.
Proof. vm_compute. repeat split; reflexivity. Qed.

(* FINDING (same on the library): a line break in a folder name.  name_ok fails, the directive is cut at the line break,
   the include stage registers the name up to there, nothing is merged and a's own entry x is lost as well. *)
Example C18_line_break_finding :
  let pa := a_top in let pb := of_string "/r/run 1/li
ne/b.dict" in
  let ta := to_string_sd (sd_with_include da 7 (include_name pa pb) pb) in
  let fs := [(pa, FNative ta); (pb, FNative tb)] in
  norm_path pa = pa /\ norm_path pb = pb /\ name_ok (include_name pa pb) = false /\
  match parse_unit true pa 0 (FNative ta), read_plain fs pa true true 0 with
  | Ok pra, Ok (s, _) => map (fun e => snd (fst (snd e))) (sd_inc (pr_sd pra)) = [of_string "li"] /\
                         alookup (KS (of_string "z")) (sd_data s) = None /\ alookup (KS (of_string "x")) (sd_data s) = None
  | _, _ => False
  end.
Proof. vm_compute. repeat split; reflexivity. Qed.

(* ---- added from Properties/C18_add2.v: composition with the document-level include theorem of C12 ---- *)
(* C18 additions, part 2: the chain SDict.include + dump + read end to end WITHOUT a hypothesis on the parsed include
   table (proof: Proofs/IncludeChainFull.v = Proofs/IncludeChainProofs.v composed with the document-level include
   theorem of C12 / C03, Proofs/RereadIncProofs.v).  To be appended behind C18_add.v once Proofs/RereadInc*.v are in. *)
From Coq Require Import NArith ZArith List Bool.
From DictIO Require Import Chars Str Value Scalar KeyPath SDict Layout Lexer TokParser Reader Paths TreeSpec NativeSpec MiscSpec E2ESpec.
From DictIO Require RereadTree RereadProofs RereadIncWrite RereadIncProofs.
From DictIO Require Import IncludeChainProofs IncludeChainFull.
Import ListNotations.

(* pa, pb: ANY two normalised absolute paths (same folder, below, above, beside).  The dict a is built in memory with
   data da, b is included (SDict.include: placeholder entry INCLUDE<i>, table entry (directive, name, pb) with
   name = the relative path from pa's folder to pb), a is dumped with NativeFormatter to pa; fs holds the dumped text at
   pa and any unit ub at pb.  Then: the dumped text parses; reading pa with include merging parses the unit at pb
   (through the path  pa's folder / name, which normalises to pb) and every ordinary top-level key of it is a key of the
   result; every ordinary leaf of the parsed a is kept (the including file wins); and the data of the parsed a, comment
   and include entries aside, are da with every leaf as written and re-read.
   Side conditions: rereadable_inc (the class of C12_includes_survive_partial: da in the writer's re-readable class -
   simple keys without the reserved words, hence none spelling a placeholder, which excludes C18_include_dropped_finding;
   the name without line break, double slash or placeholder word, which the class needs for its second write/read cycle;
   id below a million), plain_top da (da has no include entry of its own), the counter at least -1, at most a million
   comments / quoted literals.  No hypothesis on the parse result. *)
Theorem C18_include_dump_read : forall fs pa pb da i c s c' ub,
  norm_path pa = pa -> norm_path pb = pb ->
  let sa := sd_with_include da i (include_name pa pb) pb in
  plain_top da = true -> RereadIncWrite.rereadable_inc sa = true -> (-1 <= c)%Z ->
  (Z.of_nat (List.length (RereadProofs.lc_list (RereadIncProofs.written_doc_inc sa))) <= 1000000)%Z ->
  (Z.of_nat (List.length (RereadProofs.bc_list (RereadIncProofs.written_doc_inc sa))) <= 1000000)%Z ->
  (Z.of_nat (List.length (RereadProofs.lit_list (RereadIncProofs.written_doc_inc sa))) <= 1000000)%Z ->
  fs_lookup pa fs = Some (FNative (to_string_sd sa)) -> fs_lookup pb fs = Some ub ->
  read_plain fs pa true true c = Ok (s, c') ->
  exists pra,
    parse_unit true pa c (FNative (to_string_sd sa)) = Ok pra /\
    (exists c1 prb, parse_unit true (path_join (dir_of pa) (include_name pa pb)) c1 ub = Ok prb /\
       forall k, ordinary_key k = true -> alookup k (sd_data (pr_sd prb)) <> None -> alookup k (sd_data s) <> None) /\
    (forall k v, ordinary_key k = true -> ordinary_leaf v = true ->
       alookup k (sd_data (pr_sd pra)) = Some (Leaf v) -> alookup k (sd_data s) = Some (Leaf v)) /\
    RereadTree.cstrip (Dict (sd_data (RereadIncWrite.strip_inc (pr_sd pra)))) =
      map_leaves written_value (RereadTree.cstrip (Dict da)).
Proof. exact include_dump_read_full. Qed.
Print Assumptions C18_include_dump_read.

(* the five placements again (self-contained copy of the example data of part 1) *)
Module C18_full_ex.
  Definition a_top := of_string "/r/run 1/a.dict".
  Definition a_deep := of_string "/r/run 1/v1.2/a.dict".
  Definition b_same := of_string "/r/run 1/b.dict".
  Definition b_child := of_string "/r/run 1/v1.2/b.dict".
  Definition b_sibling := of_string "/r/other dir/b.dict".
  Definition b_cousin := of_string "/r/other dir/v1.2/b.dict".
  Definition da : list (key * tree) :=
    [(KS (of_string "x"), Leaf (SInt 1)); (KS (of_string "d"), Dict [(KS (of_string "y"), Leaf (SStr (of_string "two words")))])].
  Definition db : list (key * tree) := [(KS (of_string "x"), Leaf (SInt 9)); (KS (of_string "z"), Leaf (SInt 3))].
  Definition tb : str := to_string_plain db.
End C18_full_ex.

(* one placement: every hypothesis, the conclusion, and the concrete result (z of b arrives, x keeps a's value) *)
Definition C18_full_case (pa pb : str) : Prop :=
  let sa := sd_with_include C18_full_ex.da 7 (include_name pa pb) pb in
  let fs := [(pa, FNative (to_string_sd sa)); (pb, FNative C18_full_ex.tb)] in
  exists s c',
    norm_path pa = pa /\ norm_path pb = pb /\ plain_top C18_full_ex.da = true /\ RereadIncWrite.rereadable_inc sa = true /\
    (-1 <= 0)%Z /\
    (Z.of_nat (List.length (RereadProofs.lc_list (RereadIncProofs.written_doc_inc sa))) <= 1000000)%Z /\
    (Z.of_nat (List.length (RereadProofs.bc_list (RereadIncProofs.written_doc_inc sa))) <= 1000000)%Z /\
    (Z.of_nat (List.length (RereadProofs.lit_list (RereadIncProofs.written_doc_inc sa))) <= 1000000)%Z /\
    fs_lookup pa fs = Some (FNative (to_string_sd sa)) /\ fs_lookup pb fs = Some (FNative C18_full_ex.tb) /\
    read_plain fs pa true true 0 = Ok (s, c') /\
    (exists pra,
      parse_unit true pa 0 (FNative (to_string_sd sa)) = Ok pra /\
      (exists c1 prb, parse_unit true (path_join (dir_of pa) (include_name pa pb)) c1 (FNative C18_full_ex.tb) = Ok prb /\
         forall k, ordinary_key k = true -> alookup k (sd_data (pr_sd prb)) <> None -> alookup k (sd_data s) <> None) /\
      (forall k v, ordinary_key k = true -> ordinary_leaf v = true ->
         alookup k (sd_data (pr_sd pra)) = Some (Leaf v) -> alookup k (sd_data s) = Some (Leaf v)) /\
      RereadTree.cstrip (Dict (sd_data (RereadIncWrite.strip_inc (pr_sd pra)))) =
        map_leaves written_value (RereadTree.cstrip (Dict C18_full_ex.da))) /\
    alookup (KS (of_string "z")) (sd_data s) = Some (Leaf (SInt 3)) /\
    alookup (KS (of_string "x")) (sd_data s) = Some (Leaf (SInt 1)).

Ltac C18_full_tac :=
  unfold C18_full_case; cbv zeta;
  let E := fresh "E" in let Es := fresh "Es" in let s := fresh "s" in let c' := fresh "c'" in
  let H1 := fresh "H" in let H2 := fresh "H" in let H3 := fresh "H" in let H4 := fresh "H" in let H5 := fresh "H" in
  let H6 := fresh "H" in let H7 := fresh "H" in let H8 := fresh "H" in let H9 := fresh "H" in let H10 := fresh "H" in
  match goal with
  | |- exists _ _, _ /\ _ /\ _ /\ _ /\ _ /\ _ /\ _ /\ _ /\ _ /\ _ /\ read_plain ?fs ?pa _ _ _ = _ /\ _ =>
      destruct (read_plain fs pa true true 0%Z) as [[s c']|?] eqn:E; [|vm_compute in E; discriminate E];
      exists s, c'
  end;
  match goal with
  | |- ?h1 /\ ?h2 /\ ?h3 /\ ?h4 /\ ?h5 /\ ?h6 /\ ?h7 /\ ?h8 /\ ?h9 /\ ?h10 /\ _ /\ _ =>
      assert (H1 : h1) by (vm_compute; reflexivity); assert (H2 : h2) by (vm_compute; reflexivity);
      assert (H3 : h3) by (vm_compute; reflexivity); assert (H4 : h4) by (vm_compute; reflexivity);
      assert (H5 : h5) by (vm_compute; discriminate); assert (H6 : h6) by (vm_compute; discriminate);
      assert (H7 : h7) by (vm_compute; discriminate); assert (H8 : h8) by (vm_compute; discriminate);
      assert (H9 : h9) by (vm_compute; reflexivity); assert (H10 : h10) by (vm_compute; reflexivity)
  end;
  refine (conj H1 (conj H2 (conj H3 (conj H4 (conj H5 (conj H6 (conj H7 (conj H8 (conj H9 (conj H10 (conj eq_refl
            (conj (C18_include_dump_read _ _ _ _ _ _ _ _ _ H1 H2 H3 H4 H5 H6 H7 H8 H9 H10 E) _))))))))))));
  vm_compute in E; injection E as Es _; rewrite <- Es; vm_compute; split; reflexivity.

(* non-vacuity: the five placements of C18_add.v *)
Example C18_include_dump_read_full_nonvacuous_same_folder : C18_full_case C18_full_ex.a_top C18_full_ex.b_same.
Proof. C18_full_tac. Qed.
Example C18_include_dump_read_full_nonvacuous_child : C18_full_case C18_full_ex.a_top C18_full_ex.b_child.
Proof. C18_full_tac. Qed.
Example C18_include_dump_read_full_nonvacuous_parent : C18_full_case C18_full_ex.a_deep C18_full_ex.b_same.
Proof. C18_full_tac. Qed.
Example C18_include_dump_read_full_nonvacuous_sibling : C18_full_case C18_full_ex.a_top C18_full_ex.b_sibling.
Proof. C18_full_tac. Qed.
Example C18_include_dump_read_full_nonvacuous_cousin : C18_full_case C18_full_ex.a_deep C18_full_ex.b_cousin.
Proof. C18_full_tac. Qed.
(* folder names with a dollar, a hash, an apostrophe and double quotes *)
Example C18_include_dump_read_full_nonvacuous_quotes_dollar :
  C18_full_case (of_string "/r/$v/a#1/a.dict") (of_string "/r/it's ""q""/b.dict").
Proof. C18_full_tac. Qed.

(* ================================================================================================== *)
(* added from Properties/C18_add2.v (2026-10-01)                                              *)
(* ================================================================================================== *)
(* ---- C18 additions: the executable model of SDict.include (Paths.sd_include) ------------------------------- *)
(* Proofs: Proofs/IncludeModel.v.  So far the chain theorems of C18 talk about the hand-written stand-in
   sd_with_include da i name path; here the stand-in is tied to the model definition Paths.sd_include (id draw loop,
   placeholder entry, include table row, counter), the definition is specified on any state and counter, shown total,
   and the chain theorems are restated with it. *)
From Coq Require Import String.
From Coq Require Import NArith ZArith List Bool.
From DictIO Require Import Chars Str Value Scalar KeyPath SDict Layout Lexer TokParser Reader Paths TreeSpec NativeSpec MiscSpec E2ESpec.
From DictIO Require RereadTree RereadProofs RereadIncWrite RereadIncProofs E2EHoles.
From DictIO Require Import IncludeChainProofs IncludeChainFull IncludeModel.
Import ListNotations.

Module C18_model_ex.
  Definition a_top := of_string "/r/run 1/a.dict".
  Definition a_deep := of_string "/r/run 1/v1.2/a.dict".
  Definition b_same := of_string "/r/run 1/b.dict".
  Definition b_sibling := of_string "/r/other dir/b.dict".
  Definition b_cousin := of_string "/r/other dir/v1.2/b.dict".
  Definition b_bsl := of_string "/r/o\d/b.dict".
  Definition da : list (key * tree) :=
    [(KS (of_string "x"), Leaf (SInt 1)); (KS (of_string "d"), Dict [(KS (of_string "y"), Leaf (SStr (of_string "two words")))])].
  Definition db : list (key * tree) := [(KS (of_string "x"), Leaf (SInt 9)); (KS (of_string "z"), Leaf (SInt 3))].
  Definition tb : str := to_string_plain db.
  (* a state with comments, an expression, one include registered under id 3 and the placeholders 7 and 8 taken *)
  Definition s_busy : sdict :=
    mkSD [(KS (of_string "x"), Leaf (SInt 1));
          (KS (of_string "INCLUDE000003"), Leaf (SStr (of_string "INCLUDE000003")));
          (KS (of_string "INCLUDE000007"), Leaf (SInt 5));
          (KS (of_string "d"), Dict [(KS (of_string "y"), Leaf (SInt 2))]);
          (KS (of_string "INCLUDE000008"), Leaf (SStr (of_string "INCLUDE000008")));
          (KS (of_string "LINECOMMENT000001"), Leaf (SStr (of_string "LINECOMMENT000001")))]
         [(1%N, of_string "// note")] [(0%N, of_string "/* head */")]
         [(3%N, (of_string "#include 'c.dict'", of_string "c.dict", of_string "/r/run 1/c.dict"))]
         [(4%N, (of_string "$x + 1", of_string "EXPRESSION000004"))].
  (* the placeholders on both sides of the wrap-around taken *)
  Definition s_wrap : sdict :=
    mkSD [(KS (of_string "INCLUDE999999"), Leaf (SInt 1)); (KS (of_string "INCLUDE000000"), Leaf (SInt 2));
          (KS (of_string "x"), Leaf (SInt 3))] [] [] [] [].
End C18_model_ex.

(* ---- 1. a dict built in memory: sd_include returns the stand-in ------------------------------------------------ *)
(* da = the data of a dict built in memory (no comments, no includes, no expressions), c = the counter, pa / pb = the
   source files of the including and the included dict.  SDict.include draws the id i = counter_next c, appends the
   placeholder entry INCLUDE<i>, registers (directive, name, pb) under i and leaves the counter at i: exactly
   sd_with_include da i (include_name pa pb) pb.
   Side conditions (each forced by a finding below): the placeholder INCLUDE<i> is not a key of da (otherwise the loop
   draws again and another id is used); the name contains no backslash (otherwise the directive text kept in the table
   has every backslash doubled, unlike the stand-in's).  No condition on the counter, the paths or the data otherwise. *)
Theorem C18_model_include_fresh : forall da c pa pb,
  amem (KS (iph (Z.to_N (counter_next c)))) da = false -> has_char 92%N (include_name pa pb) = false ->
  sd_include (mkSD da [] [] [] []) c (dir_comps pa) (comps_of pb) pb =
  Ok (sd_with_include da (Z.to_N (counter_next c)) (include_name pa pb) pb, counter_next c).
Proof. exact model_include_fresh. Qed.
Print Assumptions C18_model_include_fresh.

Example C18_model_include_fresh_nonvacuous :
  let da := C18_model_ex.da in let pa := C18_model_ex.a_deep in let pb := C18_model_ex.b_cousin in
  amem (KS (iph (Z.to_N (counter_next 6)))) da = false /\ has_char 92%N (include_name pa pb) = false /\
  sd_include (mkSD da [] [] [] []) 6 (dir_comps pa) (comps_of pb) pb =
    Ok (sd_with_include da (Z.to_N (counter_next 6)) (include_name pa pb) pb, counter_next 6) /\
  Z.to_N (counter_next 6) = 7%N /\ include_name pa pb = of_string "../../other dir/v1.2/b.dict" /\
  (* across the wrap-around of the counter *)
  sd_include (mkSD da [] [] [] []) 999999 (dir_comps pa) (comps_of pb) pb = Ok (sd_with_include da 0 (include_name pa pb) pb, 0%Z).
Proof.
  intros da pa pb.
  assert (H1 : amem (KS (iph (Z.to_N (counter_next 6)))) da = false) by (vm_compute; reflexivity).
  assert (H2 : has_char 92%N (include_name pa pb) = false) by (vm_compute; reflexivity).
  refine (conj H1 (conj H2 (conj (C18_model_include_fresh da 6%Z pa pb H1 H2) (conj _ (conj _ _))))); [vm_compute; reflexivity ..|].
  assert (H3 : amem (KS (iph (Z.to_N (counter_next 999999)))) da = false) by (vm_compute; reflexivity).
  exact (C18_model_include_fresh da 999999%Z pa pb H3 H2).
Qed.

(* FINDING (model = library: SDict.include skips a taken placeholder): the placeholder of the first id drawn is a key of
   the data; the include is registered under the NEXT id, so the result is not the stand-in with i = counter_next c
   (it is the stand-in with id 8, and the counter is left at 8). *)
Example C18_model_include_taken_finding :
  let da := (KS (of_string "INCLUDE000007"), Leaf (SInt 5)) :: C18_model_ex.da in
  let pa := C18_model_ex.a_top in let pb := C18_model_ex.b_sibling in
  amem (KS (iph (Z.to_N (counter_next 6)))) da = true /\ has_char 92%N (include_name pa pb) = false /\
  sd_include (mkSD da [] [] [] []) 6 (dir_comps pa) (comps_of pb) pb <>
    Ok (sd_with_include da (Z.to_N (counter_next 6)) (include_name pa pb) pb, counter_next 6) /\
  sd_include (mkSD da [] [] [] []) 6 (dir_comps pa) (comps_of pb) pb = Ok (sd_with_include da 8 (include_name pa pb) pb, 8%Z).
Proof. vm_compute. repeat split; try reflexivity. intros H. discriminate H. Qed.

(* FINDING (model = library): a backslash in a folder name.  The directive text stored in the include table has the
   backslash doubled ('../o\\d/b.dict'), the stand-in's has not; data, name, path and counter agree, and the writer
   does not use the stored directive text (it formats the name again), so the dumped texts agree as well. *)
Example C18_model_include_backslash_finding :
  let da := C18_model_ex.da in let pa := C18_model_ex.a_top in let pb := C18_model_ex.b_bsl in
  amem (KS (iph (Z.to_N (counter_next 6)))) da = false /\ has_char 92%N (include_name pa pb) = true /\
  match sd_include (mkSD da [] [] [] []) 6 (dir_comps pa) (comps_of pb) pb with
  | Ok (s, c') =>
      s <> sd_with_include da 7 (include_name pa pb) pb /\ c' = 7%Z /\
      sd_data s = sd_data (sd_with_include da 7 (include_name pa pb) pb) /\
      sd_inc s = [(7%N, (of_string "#include '../o\\d/b.dict'", of_string "../o\d/b.dict", pb))] /\
      sd_inc (sd_with_include da 7 (include_name pa pb) pb) = [(7%N, (of_string "#include '../o\d/b.dict'", of_string "../o\d/b.dict", pb))] /\
      to_string_sd s = to_string_sd (sd_with_include da 7 (include_name pa pb) pb)
  | Raise _ => False
  end.
Proof. vm_compute. repeat split; try reflexivity. intros H. discriminate H. Qed.

(* the first side condition is necessary as well: if sd_include leaves the counter at counter_next c (one draw), the
   placeholder of that id was not a key of the data *)
Theorem C18_model_include_fresh_only : forall da c from_dir to path s',
  sd_include (mkSD da [] [] [] []) c from_dir to path = Ok (s', counter_next c) ->
  amem (KS (iph (Z.to_N (counter_next c)))) da = false.
Proof. exact model_include_fresh_only. Qed.
Print Assumptions C18_model_include_fresh_only.

Example C18_model_include_fresh_only_nonvacuous :
  let da := C18_model_ex.da in let pa := C18_model_ex.a_top in let pb := C18_model_ex.b_sibling in
  sd_include (mkSD da [] [] [] []) 6 (dir_comps pa) (comps_of pb) pb = Ok (sd_with_include da 7 (include_name pa pb) pb, counter_next 6) /\
  amem (KS (iph (Z.to_N (counter_next 6)))) da = false.
Proof.
  intros da pa pb.
  assert (H : sd_include (mkSD da [] [] [] []) 6 (dir_comps pa) (comps_of pb) pb = Ok (sd_with_include da 7 (include_name pa pb) pb, counter_next 6))
    by (vm_compute; reflexivity).
  exact (conj H (C18_model_include_fresh_only da 6%Z _ _ pb _ H)).
Qed.

(* MODEL-VS-CODE FINDING (differs from the library): the included dict's source file IS the folder of the including
   file (to = from_dir).  The model's relative path is the empty component list: name "" and directive #include '';
   pathlib's relative_to returns Path('.'), so the library registers the name "." and the directive `#include .`. *)
Example C18_model_include_own_folder_finding :
  let pa := of_string "/r/run/a.dict" in let pb := of_string "/r/run" in
  include_name pa pb = [] /\
  match sd_include sd_empty 0 (dir_comps pa) (comps_of pb) pb with
  | Ok (s, _) => sd_inc s = [(1%N, (of_string "#include ''", [], pb))]
  | Raise _ => False
  end.
Proof. vm_compute. split; reflexivity. Qed.

(* ---- 2. the general specification: any state, any counter ------------------------------------------------------ *)
(* If sd_include returns (s', c'):  c' is reached from c by k+1 draws of the counter, k at most the number of keys of s,
   the first k ids drawn name INCLUDE placeholders that are keys of s and the last one does not;  the data of s' are
   the data of s with the placeholder entry appended at the end (assignment to an absent key);  the line comment, block
   comment and expression tables are unchanged;  the include table gets the row (directive, name, path) under the id
   i = c' - every other row is as before;  every key of s keeps its value, and every key path that does not start at
   the new entry leads to the same value as before.
   ikey z = KS (iph (Z.to_N z)), the INCLUDE placeholder key of a counter value. *)
Theorem C18_model_include_spec : forall s c from_dir to path s' c',
  sd_include s c from_dir to path = Ok (s', c') ->
  let name := join_slash (relative_path from_dir to) in
  let directive := (of_string "#include " ++ format_string (replace_all [92%N] [92%N; 92%N] name))%list in
  let i := Z.to_N c' in
  let ph := placeholder w_INCLUDE i in
  (exists k, (k <= List.length (sd_data s))%nat /\ c' = counter_iter (S k) c /\
     (forall j, (1 <= j <= k)%nat -> amem (ikey (counter_iter j c)) (sd_data s) = true)) /\
  amem (KS ph) (sd_data s) = false /\
  sd_data s' = (sd_data s ++ [(KS ph, Leaf (SStr ph))])%list /\
  sd_lc s' = sd_lc s /\ sd_bc s' = sd_bc s /\ sd_expr s' = sd_expr s /\
  sd_inc s' = tset i (directive, name, path) (sd_inc s) /\
  tlookup i (sd_inc s') = Some (directive, name, path) /\
  (forall j, j <> i -> tlookup j (sd_inc s') = tlookup j (sd_inc s)) /\
  alookup (KS ph) (sd_data s') = Some (Leaf (SStr ph)) /\
  (forall k, k <> KS ph -> alookup k (sd_data s') = alookup k (sd_data s)) /\
  (forall k v, alookup k (sd_data s) = Some v -> alookup k (sd_data s') = Some v) /\
  (forall k p, k <> KS ph -> get_path (Dict (sd_data s')) (k :: p) = get_path (Dict (sd_data s)) (k :: p)) /\
  (forall p v, p <> [] -> get_path (Dict (sd_data s)) p = Some v -> get_path (Dict (sd_data s')) p = Some v).
Proof. exact model_include_spec. Qed.
Print Assumptions C18_model_include_spec.

(* non-vacuity: the state s_busy (comments, an expression, an include under id 3, the placeholders 7 and 8 taken),
   counter at 6: two draws are skipped, the include gets id 9; the row of id 3, the nested entry d.y and the tables
   are as before *)
Example C18_model_include_spec_nonvacuous :
  let s := C18_model_ex.s_busy in let pa := C18_model_ex.a_top in let pb := C18_model_ex.b_sibling in
  exists s' c',
    sd_include s 6 (dir_comps pa) (comps_of pb) pb = Ok (s', c') /\
    c' = 9%Z /\ c' = counter_iter 3 6%Z /\
    amem (ikey (counter_iter 1 6%Z)) (sd_data s) = true /\ amem (ikey (counter_iter 2 6%Z)) (sd_data s) = true /\
    amem (KS (of_string "INCLUDE000009")) (sd_data s) = false /\
    sd_data s' = (sd_data s ++ [(KS (of_string "INCLUDE000009"), Leaf (SStr (of_string "INCLUDE000009")))])%list /\
    sd_lc s' = sd_lc s /\ sd_bc s' = sd_bc s /\ sd_expr s' = sd_expr s /\
    tlookup 9%N (sd_inc s') = Some (of_string "#include '../other dir/b.dict'", of_string "../other dir/b.dict", pb) /\
    tlookup 3%N (sd_inc s') = tlookup 3%N (sd_inc s) /\
    tlookup 3%N (sd_inc s') = Some (of_string "#include 'c.dict'", of_string "c.dict", of_string "/r/run 1/c.dict") /\
    get_path (Dict (sd_data s')) [KS (of_string "d"); KS (of_string "y")] = Some (Leaf (SInt 2)).
Proof.
  intros s pa pb.
  destruct (sd_include s 6 (dir_comps pa) (comps_of pb) pb) as [[s' c']|e] eqn:E; [|vm_compute in E; discriminate E].
  exists s', c'.
  pose proof (C18_model_include_spec s 6%Z _ _ pb s' c' E) as H. cbv zeta in H.
  assert (Ec : c' = 9%Z) by (vm_compute in E; injection E as _ Ec; symmetry; exact Ec).
  destruct H as (_ & H2 & H3 & H4 & H5 & H6 & _ & H8 & H9 & _ & _ & _ & _ & H14).
  subst c'. change (Z.to_N 9) with 9%N in *.
  change (placeholder w_INCLUDE 9) with (of_string "INCLUDE000009") in *.
  refine (conj eq_refl (conj eq_refl (conj _ (conj _ (conj _ (conj H2 (conj H3 (conj H4 (conj H5 (conj H6 (conj _ (conj (H9 3%N _) (conj _ _))))))))))))).
  - vm_compute. reflexivity.
  - vm_compute. reflexivity.
  - vm_compute. reflexivity.
  - rewrite H8. vm_compute. reflexivity.
  - discriminate.
  - rewrite (H9 3%N) by discriminate. vm_compute. reflexivity.
  - apply H14; [discriminate|vm_compute; reflexivity].
Qed.

(* a dict with pairwise distinct keys at every level (a Python dict) stays one *)
Theorem C18_model_include_wf : forall s c from_dir to path s' c',
  sd_include s c from_dir to path = Ok (s', c') -> wf (Dict (sd_data s)) = true -> wf (Dict (sd_data s')) = true.
Proof. exact model_include_wf. Qed.
Print Assumptions C18_model_include_wf.

Example C18_model_include_wf_nonvacuous :
  let s := C18_model_ex.s_busy in let pa := C18_model_ex.a_top in let pb := C18_model_ex.b_sibling in
  exists s' c', sd_include s 6 (dir_comps pa) (comps_of pb) pb = Ok (s', c') /\ wf (Dict (sd_data s)) = true /\
                wf (Dict (sd_data s')) = true /\ List.length (sd_data s') = 7%nat.
Proof.
  intros s pa pb.
  destruct (sd_include s 6 (dir_comps pa) (comps_of pb) pb) as [[s' c']|e] eqn:E; [|vm_compute in E; discriminate E].
  exists s', c'. assert (Hw : wf (Dict (sd_data s)) = true) by (vm_compute; reflexivity).
  refine (conj eq_refl (conj Hw (conj (C18_model_include_wf s 6%Z _ _ pb s' c' E Hw) _))).
  vm_compute in E. injection E as Es _. rewrite <- Es. reflexivity.
Qed.

(* the converse: the exact result when the first k ids drawn are taken and the next one is free *)
Theorem C18_model_include_skips : forall s c from_dir to path k,
  (k <= List.length (sd_data s))%nat ->
  (forall j, (1 <= j <= k)%nat -> amem (ikey (counter_iter j c)) (sd_data s) = true) ->
  amem (ikey (counter_iter (S k) c)) (sd_data s) = false ->
  let c' := counter_iter (S k) c in
  let i := Z.to_N c' in
  let name := join_slash (relative_path from_dir to) in
  let directive := (of_string "#include " ++ format_string (replace_all [92%N] [92%N; 92%N] name))%list in
  sd_include s c from_dir to path =
  Ok (mkSD (sd_data s ++ [inc_kv i]) (sd_lc s) (sd_bc s) (tset i (directive, name, path) (sd_inc s)) (sd_expr s), c').
Proof. exact model_include_skips. Qed.
Print Assumptions C18_model_include_skips.

(* non-vacuity: s_wrap holds INCLUDE999999 and INCLUDE000000, the counter is at 999998: two draws across the wrap-around
   are skipped and the include gets id 1 *)
Example C18_model_include_skips_nonvacuous :
  let s := C18_model_ex.s_wrap in let pa := C18_model_ex.a_top in let pb := C18_model_ex.b_same in
  (2 <= List.length (sd_data s))%nat /\
  (forall j, (1 <= j <= 2)%nat -> amem (ikey (counter_iter j 999998%Z)) (sd_data s) = true) /\
  amem (ikey (counter_iter 3 999998%Z)) (sd_data s) = false /\
  sd_include s 999998 (dir_comps pa) (comps_of pb) pb =
    Ok (mkSD (sd_data s ++ [inc_kv 1]) [] [] [(1%N, (of_string "#include b.dict", of_string "b.dict", pb))] [], 1%Z).
Proof.
  intros s pa pb.
  assert (H1 : (2 <= List.length (sd_data s))%nat) by (vm_compute; repeat constructor).
  assert (H2 : forall j, (1 <= j <= 2)%nat -> amem (ikey (counter_iter j 999998%Z)) (sd_data s) = true).
  { intros j [Ha Hb]. destruct j as [|[|[|j]]].
    - inversion Ha.
    - vm_compute. reflexivity.
    - vm_compute. reflexivity.
    - exfalso. apply le_S_n, le_S_n in Hb. inversion Hb. }
  assert (H3 : amem (ikey (counter_iter 3 999998%Z)) (sd_data s) = false) by (vm_compute; reflexivity).
  refine (conj H1 (conj H2 (conj H3 _))).
  rewrite (C18_model_include_skips s 999998%Z (dir_comps pa) (comps_of pb) pb 2 H1 H2 H3). vm_compute. reflexivity.
Qed.

(* ---- 3. totality ------------------------------------------------------------------------------------------------ *)
(* The id draw loop ends: on every state with fewer than 10^6 keys, from every counter value the library can reach
   (-1 is the start value, then 0..999999), sd_include returns Ok: the model's fuel (one more draw than s has keys) is
   never exhausted.  Pigeonhole: length+1 successive ids are pairwise distinct (the counter cycles through
   0..999999), so are their placeholder keys (pad6 is injective), and length+1 distinct keys are not all among the
   length keys of s.  No hypothesis that the keys of s are pairwise distinct is needed, and no upper bound on c (above
   999999 the counter falls back to 0 at the first draw).
   BOUNDARY (comment only): a dict holding all 10^6 keys INCLUDE000000..INCLUDE999999 has 10^6 keys or more; on it the
   model returns Raise E_Fuel, and the library's `while True` loop does not terminate (every id it draws is taken). *)
Theorem C18_model_include_total : forall s c from_dir to path,
  (-1 <= c)%Z -> (N.of_nat (List.length (sd_data s)) < 1000000)%N ->
  exists s' c', sd_include s c from_dir to path = Ok (s', c').
Proof. exact model_include_total. Qed.
Print Assumptions C18_model_include_total.

Theorem C18_model_include_no_fuel : forall s c from_dir to path,
  (-1 <= c)%Z -> (N.of_nat (List.length (sd_data s)) < 1000000)%N ->
  sd_include s c from_dir to path <> Raise E_Fuel.
Proof. exact model_include_no_fuel. Qed.
Print Assumptions C18_model_include_no_fuel.

Example C18_model_include_total_nonvacuous :
  let s := C18_model_ex.s_wrap in let pa := C18_model_ex.a_top in let pb := C18_model_ex.b_same in
  (-1 <= 999998)%Z /\ (N.of_nat (List.length (sd_data s)) < 1000000)%N /\
  (exists s' c', sd_include s 999998 (dir_comps pa) (comps_of pb) pb = Ok (s', c')) /\
  sd_include s 999998 (dir_comps pa) (comps_of pb) pb <> Raise E_Fuel /\
  (* all but the last draw of the fuel are used: three keys, INCLUDE000001 taken as well, counter at 999998 *)
  match sd_include (mkSD ((KS (of_string "INCLUDE000001"), Leaf (SInt 0)) :: sd_data s) [] [] [] []) 999998 (dir_comps pa) (comps_of pb) pb with
  | Ok (_, c') => c' = 2%Z
  | Raise _ => False
  end.
Proof.
  intros s pa pb.
  assert (H1 : (-1 <= 999998)%Z) by discriminate.
  assert (H2 : (N.of_nat (List.length (sd_data s)) < 1000000)%N) by reflexivity.
  refine (conj H1 (conj H2 (conj (C18_model_include_total s 999998%Z _ _ pb H1 H2) (conj (C18_model_include_no_fuel s 999998%Z _ _ pb H1 H2) _)))).
  vm_compute. reflexivity.
Qed.

(* FINDING (model only; the library's counter starts at -1 and never goes below): from a counter value below -1 the
   model's draws stay negative for a while, Z.to_N maps them all to the id 0, and with INCLUDE000000 taken the fuel
   runs out.  This is what forces -1 <= c. *)
Example C18_model_include_negative_counter_finding :
  let s := mkSD [(KS (of_string "INCLUDE000000"), Leaf (SInt 1))] [] [] [] [] in
  (N.of_nat (List.length (sd_data s)) < 1000000)%N /\
  sd_include s (-100) (dir_comps C18_model_ex.a_top) (comps_of C18_model_ex.b_same) C18_model_ex.b_same = Raise E_Fuel.
Proof. vm_compute. split; reflexivity. Qed.

(* ---- 4. the chain include + dump + read, with sd_include -------------------------------------------------------- *)
(* C18_include_dump_read_partial restated with the model's include: the dict a is built in memory with data da, the
   counter stands at c0, b is included with sd_include (from the folder of pa to pb), the result sa is dumped to pa; fs
   holds the dumped text at pa and any unit ub at pb; pa is read (counter at c, any value).  Then: the include got the
   id counter_next c0 (no draw was skipped), every ordinary top-level key of b's parse is a key of the read result,
   every ordinary leaf of the parsed a is kept.
   Side conditions = those of C18_include_dump_read_partial, minus `i < 10^6` (every id drawn is below a million) and
   with i = the returned counter value.  plain_top da makes the first id free.  No condition on backslashes: the writer
   formats the name again and does not use the directive text of the table row
   (C18_model_include_dump_read_nonvacuous_backslash). *)
Theorem C18_model_include_dump_read_partial : forall fs pa pb da c0 sa c0' c s c' pra ub,
  norm_path pa = pa -> norm_path pb = pb -> name_ok (include_name pa pb) = true ->
  plain_top da = true ->
  sd_include (mkSD da [] [] [] []) c0 (dir_comps pa) (comps_of pb) pb = Ok (sa, c0') ->
  contains (iph (Z.to_N c0')) (native_body da) = false ->
  has_char c_hash (to_string_plain da) = false -> E2EHoles.nopair c_slash c_slash (to_string_plain da) = true ->
  fs_lookup pa fs = Some (FNative (to_string_sd sa)) -> fs_lookup pb fs = Some ub ->
  parse_unit true pa c (FNative (to_string_sd sa)) = Ok pra -> sd_inc (pr_sd pra) <> [] ->
  read_plain fs pa true true c = Ok (s, c') ->
  c0' = counter_next c0 /\
  (exists c1 prb, parse_unit true (path_join (dir_of pa) (include_name pa pb)) c1 ub = Ok prb /\
     forall k, ordinary_key k = true -> alookup k (sd_data (pr_sd prb)) <> None -> alookup k (sd_data s) <> None) /\
  (forall k v, ordinary_key k = true -> ordinary_leaf v = true ->
     alookup k (sd_data (pr_sd pra)) = Some (Leaf v) -> alookup k (sd_data s) = Some (Leaf v)).
Proof. exact model_include_dump_read_partial. Qed.
Print Assumptions C18_model_include_dump_read_partial.

(* C18_include_dump_read restated with the model's include: no hypothesis on the parse.  Side conditions = those of
   C18_include_dump_read, stated on the SDict sa that sd_include returns. *)
Theorem C18_model_include_dump_read : forall fs pa pb da c0 sa c0' c s c' ub,
  norm_path pa = pa -> norm_path pb = pb -> plain_top da = true ->
  sd_include (mkSD da [] [] [] []) c0 (dir_comps pa) (comps_of pb) pb = Ok (sa, c0') ->
  RereadIncWrite.rereadable_inc sa = true -> (-1 <= c)%Z ->
  (Z.of_nat (List.length (RereadProofs.lc_list (RereadIncProofs.written_doc_inc sa))) <= 1000000)%Z ->
  (Z.of_nat (List.length (RereadProofs.bc_list (RereadIncProofs.written_doc_inc sa))) <= 1000000)%Z ->
  (Z.of_nat (List.length (RereadProofs.lit_list (RereadIncProofs.written_doc_inc sa))) <= 1000000)%Z ->
  fs_lookup pa fs = Some (FNative (to_string_sd sa)) -> fs_lookup pb fs = Some ub ->
  read_plain fs pa true true c = Ok (s, c') ->
  c0' = counter_next c0 /\
  exists pra,
    parse_unit true pa c (FNative (to_string_sd sa)) = Ok pra /\
    (exists c1 prb, parse_unit true (path_join (dir_of pa) (include_name pa pb)) c1 ub = Ok prb /\
       forall k, ordinary_key k = true -> alookup k (sd_data (pr_sd prb)) <> None -> alookup k (sd_data s) <> None) /\
    (forall k v, ordinary_key k = true -> ordinary_leaf v = true ->
       alookup k (sd_data (pr_sd pra)) = Some (Leaf v) -> alookup k (sd_data s) = Some (Leaf v)) /\
    RereadTree.cstrip (Dict (sd_data (RereadIncWrite.strip_inc (pr_sd pra)))) =
      map_leaves written_value (RereadTree.cstrip (Dict da)).
Proof. exact model_include_dump_read_full. Qed.
Print Assumptions C18_model_include_dump_read.

(* one placement: the dict is built at counter 6 (the include gets id 7), dumped, and read back at counter 0; every
   hypothesis of both theorems, their conclusions, and the concrete result: z (only in b) arrives, x keeps a's value *)
Definition C18_model_case (pa pb : str) : Prop :=
  let da := C18_model_ex.da in let tb := C18_model_ex.tb in
  exists sa c0' s c' pra,
    let fs := [(pa, FNative (to_string_sd sa)); (pb, FNative tb)] in
    norm_path pa = pa /\ norm_path pb = pb /\ name_ok (include_name pa pb) = true /\ plain_top da = true /\
    sd_include (mkSD da [] [] [] []) 6 (dir_comps pa) (comps_of pb) pb = Ok (sa, c0') /\
    contains (iph (Z.to_N c0')) (native_body da) = false /\
    has_char c_hash (to_string_plain da) = false /\ E2EHoles.nopair c_slash c_slash (to_string_plain da) = true /\
    fs_lookup pa fs = Some (FNative (to_string_sd sa)) /\ fs_lookup pb fs = Some (FNative tb) /\
    parse_unit true pa 0 (FNative (to_string_sd sa)) = Ok pra /\ sd_inc (pr_sd pra) <> [] /\
    read_plain fs pa true true 0 = Ok (s, c') /\
    RereadIncWrite.rereadable_inc sa = true /\ (-1 <= 0)%Z /\
    (Z.of_nat (List.length (RereadProofs.lc_list (RereadIncProofs.written_doc_inc sa))) <= 1000000)%Z /\
    (Z.of_nat (List.length (RereadProofs.bc_list (RereadIncProofs.written_doc_inc sa))) <= 1000000)%Z /\
    (Z.of_nat (List.length (RereadProofs.lit_list (RereadIncProofs.written_doc_inc sa))) <= 1000000)%Z /\
    (* conclusion of the partial theorem *)
    (c0' = counter_next 6 /\
     (exists c1 prb, parse_unit true (path_join (dir_of pa) (include_name pa pb)) c1 (FNative tb) = Ok prb /\
        forall k, ordinary_key k = true -> alookup k (sd_data (pr_sd prb)) <> None -> alookup k (sd_data s) <> None) /\
     (forall k v, ordinary_key k = true -> ordinary_leaf v = true ->
        alookup k (sd_data (pr_sd pra)) = Some (Leaf v) -> alookup k (sd_data s) = Some (Leaf v))) /\
    (* conclusion of the full theorem *)
    (c0' = counter_next 6 /\
     exists pra',
       parse_unit true pa 0 (FNative (to_string_sd sa)) = Ok pra' /\
       (exists c1 prb, parse_unit true (path_join (dir_of pa) (include_name pa pb)) c1 (FNative tb) = Ok prb /\
          forall k, ordinary_key k = true -> alookup k (sd_data (pr_sd prb)) <> None -> alookup k (sd_data s) <> None) /\
       (forall k v, ordinary_key k = true -> ordinary_leaf v = true ->
          alookup k (sd_data (pr_sd pra')) = Some (Leaf v) -> alookup k (sd_data s) = Some (Leaf v)) /\
       RereadTree.cstrip (Dict (sd_data (RereadIncWrite.strip_inc (pr_sd pra')))) =
         map_leaves written_value (RereadTree.cstrip (Dict da))) /\
    c0' = 7%Z /\
    alookup (KS (of_string "z")) (sd_data s) = Some (Leaf (SInt 3)) /\
    alookup (KS (of_string "x")) (sd_data s) = Some (Leaf (SInt 1)).

Ltac C18_model_tac :=
  unfold C18_model_case; cbv zeta;
  let Ei := fresh "Ei" in let E := fresh "E" in let Epa := fresh "Epa" in let Epa' := fresh "Epa'" in let Es := fresh "Es" in
  let sa := fresh "sa" in let c0' := fresh "c0'" in let s := fresh "s" in let c' := fresh "c'" in let pra := fresh "pra" in
  let Hn := fresh "Hn" in let Ei' := fresh "Ei'" in let Ev := fresh "Ev" in let Esa := fresh "Esa" in let Ec0 := fresh "Ec0" in
  let H1 := fresh "H" in let H2 := fresh "H" in let H3 := fresh "H" in let H4 := fresh "H" in let H6 := fresh "H" in
  let H7 := fresh "H" in let H8 := fresh "H" in let H9 := fresh "H" in let H10 := fresh "H" in let H12 := fresh "H" in
  let P1 := fresh "P" in let P2 := fresh "P" in let H14 := fresh "H" in let H15 := fresh "H" in let H16 := fresh "H" in let H17 := fresh "H" in let H18 := fresh "H" in
  match goal with
  | |- exists _ _ _ _ _, _ /\ _ /\ _ /\ _ /\ ?inc = _ /\ _ =>
      destruct inc as [[sa c0']|?] eqn:Ei; [|vm_compute in Ei; discriminate Ei]; exists sa, c0'
  end;
  match goal with
  | |- exists _ _ _, _ /\ _ /\ _ /\ _ /\ _ /\ _ /\ _ /\ _ /\ _ /\ _ /\ parse_unit true ?pa 0%Z ?ua = _ /\ _ /\ read_plain ?fs _ _ _ _ = _ /\ _ =>
      destruct (read_plain fs pa true true 0%Z) as [[s c']|?] eqn:E;
        [|pose proof Ei as Ei'; vm_compute in Ei'; injection Ei' as Ei' _; rewrite <- Ei' in E; vm_compute in E; discriminate E];
      destruct (parse_unit true pa 0%Z ua) as [pra|?] eqn:Epa;
        [|pose proof Ei as Ei'; vm_compute in Ei'; injection Ei' as Ei' _; rewrite <- Ei' in Epa; vm_compute in Epa; discriminate Epa];
      exists s, c', pra
  end;
  pose proof Ei as Ev; vm_compute in Ev; injection Ev as Esa Ec0;
  match goal with
  | |- ?h1 /\ ?h2 /\ ?h3 /\ ?h4 /\ _ /\ ?h6 /\ ?h7 /\ ?h8 /\ ?h9 /\ ?h10 /\ _ /\ ?h12 /\ _ /\ ?h14 /\ ?h15 /\ ?h16 /\ ?h17 /\ ?h18 /\ _ =>
      assert (H1 : h1) by (vm_compute; reflexivity); assert (H2 : h2) by (vm_compute; reflexivity);
      assert (H3 : h3) by (vm_compute; reflexivity); assert (H4 : h4) by (vm_compute; reflexivity);
      assert (H6 : h6) by (rewrite <- Ec0; vm_compute; reflexivity);
      assert (H7 : h7) by (vm_compute; reflexivity); assert (H8 : h8) by (vm_compute; reflexivity);
      assert (H9 : h9) by (rewrite <- Esa; vm_compute; reflexivity); assert (H10 : h10) by (rewrite <- Esa; vm_compute; reflexivity);
      assert (H12 : h12) by (intro Hn; pose proof Epa as Epa'; rewrite <- Esa in Epa'; vm_compute in Epa';
                             injection Epa' as Epa'; rewrite <- Epa' in Hn; vm_compute in Hn; discriminate Hn);
      assert (H14 : h14) by (rewrite <- Esa; vm_compute; reflexivity); assert (H15 : h15) by (vm_compute; discriminate);
      assert (H16 : h16) by (rewrite <- Esa; vm_compute; discriminate); assert (H17 : h17) by (rewrite <- Esa; vm_compute; discriminate);
      assert (H18 : h18) by (rewrite <- Esa; vm_compute; discriminate)
  end;
  pose proof (C18_model_include_dump_read_partial _ _ _ _ _ _ _ _ _ _ _ _ H1 H2 H3 H4 Ei H6 H7 H8 H9 H10 Epa H12 E) as P1;
  pose proof (C18_model_include_dump_read _ _ _ _ _ _ _ _ _ _ _ H1 H2 H4 Ei H14 H15 H16 H17 H18 H9 H10 E) as P2;
  rewrite Epa in P2;
  refine (conj H1 (conj H2 (conj H3 (conj H4 (conj eq_refl (conj H6 (conj H7 (conj H8 (conj H9 (conj H10 (conj eq_refl (conj H12
            (conj eq_refl (conj H14 (conj H15 (conj H16 (conj H17 (conj H18 (conj P1 (conj P2 _))))))))))))))))))));
  split; [symmetry; exact Ec0|];
  rewrite <- Esa in E; vm_compute in E; injection E as Es _; rewrite <- Es; vm_compute; split; reflexivity.

(* non-vacuity: same folder, parent, sibling, cousin *)
Example C18_model_include_dump_read_nonvacuous_same_folder : C18_model_case C18_model_ex.a_top C18_model_ex.b_same.
Proof. C18_model_tac. Qed.
Example C18_model_include_dump_read_nonvacuous_parent : C18_model_case C18_model_ex.a_deep C18_model_ex.b_same.
Proof. C18_model_tac. Qed.
Example C18_model_include_dump_read_nonvacuous_sibling : C18_model_case C18_model_ex.a_top C18_model_ex.b_sibling.
Proof. C18_model_tac. Qed.
Example C18_model_include_dump_read_nonvacuous_cousin : C18_model_case C18_model_ex.a_deep C18_model_ex.b_cousin.
Proof. C18_model_tac. Qed.
(* a backslash in a folder name: the stored directive text differs from the stand-in's (C18_model_include_backslash_finding),
   the chain holds all the same *)
Example C18_model_include_dump_read_nonvacuous_backslash : C18_model_case C18_model_ex.a_top C18_model_ex.b_bsl.
Proof. C18_model_tac. Qed.

(* ================================================================================================== *)
(* added from Properties/C18_add.v, job pj_fix (2026-10-01)                                   *)
(* ================================================================================================== *)
(* C18 (addition): the chain SDict.include + dump + read at the level of VALUES, and its totality when both files are
   outputs of the writer (proofs: Proofs/AuditFix.v).  To be appended to Properties/C18.v. *)
From Coq Require Import String.   (* string literals of the examples; imported first so the list names win *)
From Coq Require Import NArith ZArith List Bool.
From DictIO Require Import Chars Str Value Scalar KeyPath SDict Layout Lexer TokParser Reader Paths TreeSpec NativeSpec MiscSpec E2ESpec.
From DictIO Require RereadTree RereadProofs RereadIncWrite RereadIncProofs E2EFullProofs.
From DictIO Require Import IncludeProofs IncludeNested IncludeChainProofs IncludeChainFull AuditFix.
Import ListNotations.

(* VALUES.  C18_include_dump_read concludes that the top-level keys of the included file are PRESENT after the read.  Here:
   the hypotheses of C18_include_dump_read plus fs_wf fs (Proofs/IncludeNested.v: every JSON unit of fs has unique keys at
   every level, which is what json.loads returns; nothing is asked of native units).  pra: the parse of the dumped file;
   prb: the parse of the unit at pb, at the counter pra's parse left (the read succeeded, so this parse did).
   (1) every LEAF of prb at an ordinary key path p at which pra holds nothing (falls_off: nothing at p, and no leaf or list
       above p; in particular every path below a top-level key that pra does not have) is found at p in the result with
       the same value (leaf_ok: a top-level leaf must not be the self reference "$k", C06);
   (2) the top-level case of (1);
   (3) when the unit at pb has no include entries of its own, the data of the result are LITERALLY the model's merge of
       the two parses in the model's merge order, merged_two A B =
         let T := sd_merge sd_empty (sd_data B) (Some B) in let P := sd_merge A (sd_data T) (Some T) in
         sd_merge P (sd_data P) (Some P)
       and the counter is the one prb's parse left;
   (4) under the same condition the WHOLE value (a leaf, a list, or a dict with everything below it) that prb holds under
       a top-level key k which pra does not have is the value the result holds under k, provided that value is
       ordinary (TreeSpec.ordinary: no placeholder key and no dollar / EXPRESSION string at any depth below; sufficient,
       used for "clean-up leaves the subtree alone"; not shown necessary).
   (5) "pra does not have the key k" follows from "da does not have it" for ordinary keys without the word COMMENT
       (no_comment_word, AuditFix.v: the re-read theorems of C03 / C12 identify the parsed data up to comment entries, and a
       comment entry is a string leaf under a key that contains COMMENT).
   Without the condition "no include entries of its own" (3) and (4) are false: C18_values_own_includes_finding. *)
Theorem C18_include_dump_read_values : forall fs pa pb da i c s c' ub,
  norm_path pa = pa -> norm_path pb = pb ->
  let sa := sd_with_include da i (include_name pa pb) pb in
  plain_top da = true -> RereadIncWrite.rereadable_inc sa = true -> (-1 <= c)%Z ->
  (Z.of_nat (List.length (RereadProofs.lc_list (RereadIncProofs.written_doc_inc sa))) <= 1000000)%Z ->
  (Z.of_nat (List.length (RereadProofs.bc_list (RereadIncProofs.written_doc_inc sa))) <= 1000000)%Z ->
  (Z.of_nat (List.length (RereadProofs.lit_list (RereadIncProofs.written_doc_inc sa))) <= 1000000)%Z ->
  fs_wf fs = true ->
  fs_lookup pa fs = Some (FNative (to_string_sd sa)) -> fs_lookup pb fs = Some ub ->
  read_plain fs pa true true c = Ok (s, c') ->
  exists pra prb,
    parse_unit true pa c (FNative (to_string_sd sa)) = Ok pra /\
    parse_unit true (path_join (dir_of pa) (include_name pa pb)) (pr_count pra) ub = Ok prb /\
    (forall p v, forallb ordinary_key p = true -> leaf_ok p v = true ->
       falls_off (Dict (sd_data (pr_sd pra))) p = true ->
       get_dpath (Dict (sd_data (pr_sd prb))) p = Some (Leaf v) ->
       get_dpath (Dict (sd_data s)) p = Some (Leaf v)) /\
    (forall k v, ordinary_key k = true -> ordinary_leaf v = true ->
       alookup k (sd_data (pr_sd pra)) = None ->
       alookup k (sd_data (pr_sd prb)) = Some (Leaf v) -> alookup k (sd_data s) = Some (Leaf v)) /\
    (sd_inc (pr_sd prb) = [] -> sd_data s = sd_data (merged_two (pr_sd pra) (pr_sd prb)) /\ c' = pr_count prb) /\
    (forall k t, sd_inc (pr_sd prb) = [] -> ordinary_key k = true -> ordinary t = true ->
       alookup k (sd_data (pr_sd pra)) = None ->
       alookup k (sd_data (pr_sd prb)) = Some t -> alookup k (sd_data s) = Some t) /\
    (forall k, ordinary_key k = true -> no_comment_word k = true -> alookup k da = None ->
       alookup k (sd_data (pr_sd pra)) = None).
Proof. exact include_dump_read_values. Qed.
Print Assumptions C18_include_dump_read_values.

(* TOTALITY.  The "read succeeds" hypothesis discharged when both files are outputs of the writer: a is dumped with its
   include (NativeFormatter), the file at pb is the writer's text of a plain dict db of the round-trip class of C01
   (unique keys, writable, at most a million quoted literals, none more than ten keys deep).  The read of pa succeeds, and
   its data are the model's merge of the parse of the dumped file and of db with every leaf as written and re-read; and
   every ordinary whole value of db (leaves as written and re-read) under a top-level key that the parse of the dumped
   file does not have is the value of the result under that key. *)
Theorem C18_include_dump_read_total : forall fs pa pb da db i c,
  norm_path pa = pa -> norm_path pb = pb ->
  let sa := sd_with_include da i (include_name pa pb) pb in
  plain_top da = true -> RereadIncWrite.rereadable_inc sa = true -> (-1 <= c)%Z ->
  (Z.of_nat (List.length (RereadProofs.lc_list (RereadIncProofs.written_doc_inc sa))) <= 1000000)%Z ->
  (Z.of_nat (List.length (RereadProofs.bc_list (RereadIncProofs.written_doc_inc sa))) <= 1000000)%Z ->
  (Z.of_nat (List.length (RereadProofs.lit_list (RereadIncProofs.written_doc_inc sa))) <= 1000000)%Z ->
  wf (Dict db) = true -> writable_tree (Dict db) = true ->
  (Z.of_nat (E2EFullProofs.nq (Dict db)) <= 1000000)%Z -> E2EFullProofs.quoted_within 11 (Dict db) = true ->
  fs_lookup pa fs = Some (FNative (to_string_sd sa)) -> fs_lookup pb fs = Some (FNative (to_string_plain db)) ->
  exists pra s c',
    parse_unit true pa c (FNative (to_string_sd sa)) = Ok pra /\
    read_plain fs pa true true c = Ok (s, c') /\
    sd_data s = sd_data (merged_two (pr_sd pra) (mkSD (kvs_of (map_leaves written_value (Dict db))) [] [] [] [])) /\
    (forall k t, ordinary_key k = true -> ordinary t = true ->
       alookup k (sd_data (pr_sd pra)) = None ->
       alookup k (kvs_of (map_leaves written_value (Dict db))) = Some t -> alookup k (sd_data s) = Some t) /\
    (forall k, ordinary_key k = true -> no_comment_word k = true -> alookup k da = None ->
       alookup k (sd_data (pr_sd pra)) = None).
Proof. exact include_dump_read_total. Qed.
Print Assumptions C18_include_dump_read_total.

(* ---- non-vacuity ------------------------------------------------------------------------------------------ *)
(* the included dict: x and the dict d are in both files; z, the nested dict e (with a quoted literal) and the list l
   are in b only *)
Module C18_val_ex.
  Definition a_deep := of_string "/r/run 1/v1.2/a.dict".
  Definition b_cousin := of_string "/r/other dir/v1.2/b.dict".
  Definition da : list (key * tree) :=
    [(KS (of_string "x"), Leaf (SInt 1)); (KS (of_string "d"), Dict [(KS (of_string "y"), Leaf (SStr (of_string "two words")))])].
  Definition db : list (key * tree) :=
    [(KS (of_string "x"), Leaf (SInt 9)); (KS (of_string "z"), Leaf (SInt 3));
     (KS (of_string "e"), Dict [(KS (of_string "f"), Leaf (SInt 5)); (KS (of_string "g"), Leaf (SStr (of_string "more words")))]);
     (KS (of_string "l"), Lst [Leaf (SInt 1); Leaf (SInt 2); Leaf (SInt 3)]);
     (KS (of_string "d"), Dict [(KS (of_string "y"), Leaf (SInt 7)); (KS (of_string "w"), Leaf (SInt 8))])].
  Definition sa := sd_with_include da 7 (include_name a_deep b_cousin) b_cousin.
  Definition fs : fsys := [(a_deep, FNative (to_string_sd sa)); (b_cousin, FNative (to_string_plain db))].
  Definition kp1 (a : string) : list key := [KS (of_string a)].
  Definition kp2 (a b : string) : list key := [KS (of_string a); KS (of_string b)].
End C18_val_ex.
Import C18_val_ex.

Example C18_include_dump_read_values_nonvacuous :
  exists s c',
    norm_path a_deep = a_deep /\ norm_path b_cousin = b_cousin /\ plain_top da = true /\ RereadIncWrite.rereadable_inc sa = true /\
    (-1 <= 0)%Z /\
    (Z.of_nat (List.length (RereadProofs.lc_list (RereadIncProofs.written_doc_inc sa))) <= 1000000)%Z /\
    (Z.of_nat (List.length (RereadProofs.bc_list (RereadIncProofs.written_doc_inc sa))) <= 1000000)%Z /\
    (Z.of_nat (List.length (RereadProofs.lit_list (RereadIncProofs.written_doc_inc sa))) <= 1000000)%Z /\
    fs_wf fs = true /\
    fs_lookup a_deep fs = Some (FNative (to_string_sd sa)) /\ fs_lookup b_cousin fs = Some (FNative (to_string_plain db)) /\
    read_plain fs a_deep true true 0 = Ok (s, c') /\
    (* from the theorem: *)
    get_dpath (Dict (sd_data s)) (kp2 "e" "g") = Some (Leaf (SStr (of_string "more words"))) /\
    get_dpath (Dict (sd_data s)) (kp2 "e" "f") = Some (Leaf (SInt 5)) /\
    get_dpath (Dict (sd_data s)) (kp2 "d" "w") = Some (Leaf (SInt 8)) /\
    alookup (KS (of_string "z")) (sd_data s) = Some (Leaf (SInt 3)) /\
    alookup (KS (of_string "e")) (sd_data s) =
      Some (Dict [(KS (of_string "f"), Leaf (SInt 5)); (KS (of_string "g"), Leaf (SStr (of_string "more words")))]) /\
    alookup (KS (of_string "l")) (sd_data s) = Some (Lst [Leaf (SInt 1); Leaf (SInt 2); Leaf (SInt 3)]) /\
    (exists pra prb, parse_unit true a_deep 0 (FNative (to_string_sd sa)) = Ok pra /\
       parse_unit true (path_join (dir_of a_deep) (include_name a_deep b_cousin)) (pr_count pra) (FNative (to_string_plain db)) = Ok prb /\
       sd_data s = sd_data (merged_two (pr_sd pra) (pr_sd prb)) /\ c' = pr_count prb) /\
    (* computed: where a holds something, a wins *)
    get_dpath (Dict (sd_data s)) (kp2 "d" "y") = Some (Leaf (SStr (of_string "two words"))) /\
    alookup (KS (of_string "x")) (sd_data s) = Some (Leaf (SInt 1)).
Proof.
  destruct (read_plain fs a_deep true true 0%Z) as [[s c']|?] eqn:E; [|vm_compute in E; discriminate E].
  exists s, c'.
  assert (H1 : norm_path a_deep = a_deep) by (vm_compute; reflexivity).
  assert (H2 : norm_path b_cousin = b_cousin) by (vm_compute; reflexivity).
  assert (H3 : plain_top da = true) by (vm_compute; reflexivity).
  assert (H4 : RereadIncWrite.rereadable_inc sa = true) by (vm_compute; reflexivity).
  assert (H5 : (-1 <= 0)%Z) by (vm_compute; discriminate).
  assert (H6 : (Z.of_nat (List.length (RereadProofs.lc_list (RereadIncProofs.written_doc_inc sa))) <= 1000000)%Z) by (vm_compute; discriminate).
  assert (H7 : (Z.of_nat (List.length (RereadProofs.bc_list (RereadIncProofs.written_doc_inc sa))) <= 1000000)%Z) by (vm_compute; discriminate).
  assert (H8 : (Z.of_nat (List.length (RereadProofs.lit_list (RereadIncProofs.written_doc_inc sa))) <= 1000000)%Z) by (vm_compute; discriminate).
  assert (H9 : fs_wf fs = true) by (vm_compute; reflexivity).
  assert (H10 : fs_lookup a_deep fs = Some (FNative (to_string_sd sa))) by (vm_compute; reflexivity).
  assert (H11 : fs_lookup b_cousin fs = Some (FNative (to_string_plain db))) by (vm_compute; reflexivity).
  destruct (C18_include_dump_read_values fs a_deep b_cousin da 7 0%Z s c' _ H1 H2 H3 H4 H5 H6 H7 H8 H9 H10 H11 E)
    as (pra & prb & Hpa & Hpb & Hdeep & Htop & Hexact & Htree & Hkeys).
  assert (Epa : sd_data (pr_sd pra) = match parse_unit true a_deep 0 (FNative (to_string_sd sa)) with Ok p => sd_data (pr_sd p) | Raise _ => [] end)
    by (unfold sa; rewrite Hpa; reflexivity).
  assert (Ecnt : pr_count pra = match parse_unit true a_deep 0 (FNative (to_string_sd sa)) with Ok p => pr_count p | Raise _ => 0%Z end)
    by (unfold sa; rewrite Hpa; reflexivity).
  remember (match parse_unit true a_deep 0 (FNative (to_string_sd sa)) with Ok p => pr_count p | Raise _ => 0%Z end) as n eqn:En.
  vm_compute in En. subst n.
  assert (Epb : pr_sd prb = match parse_unit true (path_join (dir_of a_deep) (include_name a_deep b_cousin)) (pr_count pra) (FNative (to_string_plain db)) with
                            | Ok p => pr_sd p | Raise _ => sd_empty end)
    by (rewrite Hpb; reflexivity).
  rewrite Ecnt in Epb.
  refine (conj H1 (conj H2 (conj H3 (conj H4 (conj H5 (conj H6 (conj H7 (conj H8 (conj H9 (conj H10 (conj H11 (conj eq_refl _)))))))))))).
  split; [apply Hdeep; [vm_compute; reflexivity|reflexivity| rewrite Epa; vm_compute; reflexivity | rewrite Epb; vm_compute; reflexivity]|].
  split; [apply Hdeep; [vm_compute; reflexivity|reflexivity| rewrite Epa; vm_compute; reflexivity | rewrite Epb; vm_compute; reflexivity]|].
  split; [apply Hdeep; [vm_compute; reflexivity|reflexivity| rewrite Epa; vm_compute; reflexivity | rewrite Epb; vm_compute; reflexivity]|].
  split; [apply Htop; [vm_compute; reflexivity|reflexivity| rewrite Epa; vm_compute; reflexivity | rewrite Epb; vm_compute; reflexivity]|].
  split; [apply Htree; [rewrite Epb; vm_compute; reflexivity|vm_compute; reflexivity|vm_compute; reflexivity| apply Hkeys; vm_compute; reflexivity | rewrite Epb; vm_compute; reflexivity]|].
  split; [apply Htree; [rewrite Epb; vm_compute; reflexivity|vm_compute; reflexivity|vm_compute; reflexivity| apply Hkeys; vm_compute; reflexivity | rewrite Epb; vm_compute; reflexivity]|].
  split; [exists pra, prb; split; [exact Hpa|]; split; [exact Hpb|]; apply Hexact; rewrite Epb; vm_compute; reflexivity|].
  vm_compute in E. injection E as Es _. rewrite <- Es. vm_compute. split; reflexivity.
Qed.

Example C18_include_dump_read_total_nonvacuous :
  norm_path a_deep = a_deep /\ norm_path b_cousin = b_cousin /\ plain_top da = true /\ RereadIncWrite.rereadable_inc sa = true /\
  (-1 <= 0)%Z /\
  (Z.of_nat (List.length (RereadProofs.lc_list (RereadIncProofs.written_doc_inc sa))) <= 1000000)%Z /\
  (Z.of_nat (List.length (RereadProofs.bc_list (RereadIncProofs.written_doc_inc sa))) <= 1000000)%Z /\
  (Z.of_nat (List.length (RereadProofs.lit_list (RereadIncProofs.written_doc_inc sa))) <= 1000000)%Z /\
  wf (Dict db) = true /\ writable_tree (Dict db) = true /\
  (Z.of_nat (E2EFullProofs.nq (Dict db)) <= 1000000)%Z /\ E2EFullProofs.quoted_within 11 (Dict db) = true /\
  fs_lookup a_deep fs = Some (FNative (to_string_sd sa)) /\ fs_lookup b_cousin fs = Some (FNative (to_string_plain db)) /\
  exists pra s c',
    parse_unit true a_deep 0 (FNative (to_string_sd sa)) = Ok pra /\
    read_plain fs a_deep true true 0 = Ok (s, c') /\
    sd_data s = sd_data (merged_two (pr_sd pra) (mkSD (kvs_of (map_leaves written_value (Dict db))) [] [] [] [])) /\
    alookup (KS (of_string "l")) (sd_data s) = Some (Lst [Leaf (SInt 1); Leaf (SInt 2); Leaf (SInt 3)]) /\
    alookup (KS (of_string "e")) (sd_data s) =
      Some (Dict [(KS (of_string "f"), Leaf (SInt 5)); (KS (of_string "g"), Leaf (SStr (of_string "more words")))]).
Proof.
  assert (H1 : norm_path a_deep = a_deep) by (vm_compute; reflexivity).
  assert (H2 : norm_path b_cousin = b_cousin) by (vm_compute; reflexivity).
  assert (H3 : plain_top da = true) by (vm_compute; reflexivity).
  assert (H4 : RereadIncWrite.rereadable_inc sa = true) by (vm_compute; reflexivity).
  assert (H5 : (-1 <= 0)%Z) by (vm_compute; discriminate).
  assert (H6 : (Z.of_nat (List.length (RereadProofs.lc_list (RereadIncProofs.written_doc_inc sa))) <= 1000000)%Z) by (vm_compute; discriminate).
  assert (H7 : (Z.of_nat (List.length (RereadProofs.bc_list (RereadIncProofs.written_doc_inc sa))) <= 1000000)%Z) by (vm_compute; discriminate).
  assert (H8 : (Z.of_nat (List.length (RereadProofs.lit_list (RereadIncProofs.written_doc_inc sa))) <= 1000000)%Z) by (vm_compute; discriminate).
  assert (W1 : wf (Dict db) = true) by (vm_compute; reflexivity).
  assert (W2 : writable_tree (Dict db) = true) by (vm_compute; reflexivity).
  assert (W3 : (Z.of_nat (E2EFullProofs.nq (Dict db)) <= 1000000)%Z) by (vm_compute; discriminate).
  assert (W4 : E2EFullProofs.quoted_within 11 (Dict db) = true) by (vm_compute; reflexivity).
  assert (H10 : fs_lookup a_deep fs = Some (FNative (to_string_sd sa))) by (vm_compute; reflexivity).
  assert (H11 : fs_lookup b_cousin fs = Some (FNative (to_string_plain db))) by (vm_compute; reflexivity).
  do 14 (split; [assumption|]).
  destruct (C18_include_dump_read_total fs a_deep b_cousin da db 7 0%Z H1 H2 H3 H4 H5 H6 H7 H8 W1 W2 W3 W4 H10 H11)
    as (pra & s & c' & Hpa & Hread & Hdata & Htree & Hkeys).
  exists pra, s, c'. split; [exact Hpa|]. split; [exact Hread|]. split; [exact Hdata|].
  split; apply Htree; try (vm_compute; reflexivity); apply Hkeys; vm_compute; reflexivity.
Qed.

(* FINDING (expected behaviour, the reason for the condition of (3) and (4)): the unit at pb includes a third file c.dict
   that also has a dict e.  Every hypothesis of C18_include_dump_read_values holds; the include table of prb is not
   empty; the value under e in the result is the MERGE of b's and c's (b's wins where both hold something), not b's. *)
Example C18_values_own_includes_finding :
  let pc := of_string "/r/other dir/v1.2/c.dict" in
  let tb := of_string "#include 'c.dict'
e { f 5; }
" in
  let tc := of_string "e { f 0; h 6; }
" in
  let fs := [(a_deep, FNative (to_string_sd sa)); (b_cousin, FNative tb); (pc, FNative tc)] in
  let ke := KS (of_string "e") in
  fs_wf fs = true /\
  match parse_unit true a_deep 0 (FNative (to_string_sd sa)) with
  | Ok pra =>
      match parse_unit true (path_join (dir_of a_deep) (include_name a_deep b_cousin)) (pr_count pra) (FNative tb),
            read_plain fs a_deep true true 0 with
      | Ok prb, Ok (s, _) =>
          sd_inc (pr_sd prb) <> [] /\ alookup ke (sd_data (pr_sd pra)) = None /\
          alookup ke (sd_data (pr_sd prb)) = Some (Dict [(KS (of_string "f"), Leaf (SInt 5))]) /\
          alookup ke (sd_data s) = Some (Dict [(KS (of_string "f"), Leaf (SInt 5)); (KS (of_string "h"), Leaf (SInt 6))]) /\
          alookup ke (sd_data (merged_two (pr_sd pra) (pr_sd prb))) = Some (Dict [(KS (of_string "f"), Leaf (SInt 5))])
      | _, _ => False
      end
  | Raise _ => False
  end.
Proof. vm_compute. split; [reflexivity|]. split; [discriminate|]. repeat split; reflexivity. Qed.

(* ---- non-vacuity examples under the theorems' own names ------------------------------------------------------ *)
(* (the placements above are named ..._nonvacuous_same_folder etc. / ..._full_nonvacuous_...).  A further placement: the
   included file three folders below the including one; C18_chain_case / C18_full_case list every hypothesis, obtain the
   conclusion by applying the theorem (C18_chain_tac / C18_full_tac) and show what the read returns. *)
Example C18_include_dump_read_partial_nonvacuous :
  C18_chain_case (of_string "/r/a.dict") (of_string "/r/run 1/v1.2/deep dir/b.dict") /\
  include_name (of_string "/r/a.dict") (of_string "/r/run 1/v1.2/deep dir/b.dict") = of_string "run 1/v1.2/deep dir/b.dict".
Proof. split; [C18_chain_tac|vm_compute; reflexivity]. Qed.

Example C18_include_dump_read_nonvacuous :
  C18_full_case (of_string "/r/a.dict") (of_string "/r/run 1/v1.2/deep dir/b.dict") /\
  C18_full_case (of_string "/r/run 1/v1.2/deep dir/a.dict") (of_string "/b.dict") /\
  include_name (of_string "/r/run 1/v1.2/deep dir/a.dict") (of_string "/b.dict") = of_string "../../../../b.dict".
Proof. split; [C18_full_tac|]. split; [C18_full_tac|vm_compute; reflexivity]. Qed.
