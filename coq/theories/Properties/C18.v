(* C18  Relative paths and generated include directives lead to the file they name. *)
From Coq Require Import NArith ZArith List Bool.
From DictIO Require Import Chars Str Value Scalar Paths MiscSpec PathsProofs.
Import ListNotations.

(* the relative path joined to the start location denotes the target: below, above and beside the start *)
Theorem C18_rel_join : forall from to, nodots from -> nodots to -> norm_join from (relative_path from to) = to.
Proof. exact rel_join. Qed.
Print Assumptions C18_rel_join.

(* the common root is an ancestor of every path ... *)
Theorem C18_hcr_ancestor : forall l x, In x l -> is_prefix (common_prefix_all l) x = true.
Proof. exact hcr_ancestor. Qed.
Print Assumptions C18_hcr_ancestor.

(* ... and no deeper common ancestor exists *)
Theorem C18_hcr_deepest : forall l p, l <> [] -> (forall x, In x l -> is_prefix p x = true) ->
  is_prefix p (common_prefix_all l) = true.
Proof. exact hcr_deepest. Qed.
Print Assumptions C18_hcr_deepest.

(* the directive written for an include names, when read again, exactly the relative path that was registered *)
Theorem C18_directive : forall n, has_char c_dollar n = false -> (has_char c_sq n && has_char c_dq n) = false ->
  directive_name (of_string "#include " ++ format_string n) = Some n.
Proof. exact directive_roundtrip. Qed.
Print Assumptions C18_directive.

Example C18_example :
  let a := [of_string "t"; of_string "d1"; of_string "s1"; of_string "deep"] in
  let b := [of_string "t"; of_string "d1"; of_string "s2"; of_string "x.y"; of_string "b"] in
  relative_path a b = [dotdot; dotdot; of_string "s2"; of_string "x.y"; of_string "b"] /\ norm_join a (relative_path a b) = b.
Proof. vm_compute. split; reflexivity. Qed.
