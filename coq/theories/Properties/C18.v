(* C18  Relative paths and generated include directives lead to the file they name. *)
From Coq Require Import String.   (* string literals of the examples; imported first so the list names win *)
From Coq Require Import NArith ZArith List Bool.
From DictIO Require Import Chars Str Value Scalar Paths MiscSpec PathsProofs.
Import ListNotations.

Module C18_ex.
  Definition a : comps := [of_string "t"; of_string "d1"; of_string "s1"; of_string "deep"].
  Definition b : comps := [of_string "t"; of_string "d1"; of_string "s2"; of_string "x.y"; of_string "b"].
  Definition c : comps := [of_string "t"; of_string "d1"; of_string "s1"; of_string "deep"; of_string "er"; of_string "..."].
  Definition d : comps := [of_string "t"; of_string "d1"].
End C18_ex.
Ltac nodots_tac := repeat (constructor; [reflexivity|]); constructor.

(* the relative path joined to the start location denotes the target: below, above and beside the start *)
Theorem C18_rel_join : forall from to, nodots from -> nodots to -> norm_join from (relative_path from to) = to.
Proof. exact rel_join. Qed.
Print Assumptions C18_rel_join.

(* non-vacuity: target beside, below and above the start *)
Example C18_rel_join_nonvacuous :
  nodots C18_ex.a /\ nodots C18_ex.b /\ nodots C18_ex.c /\ nodots C18_ex.d /\
  (relative_path C18_ex.a C18_ex.b = [dotdot; dotdot; of_string "s2"; of_string "x.y"; of_string "b"] /\
   norm_join C18_ex.a (relative_path C18_ex.a C18_ex.b) = C18_ex.b) /\
  (relative_path C18_ex.a C18_ex.c = [of_string "er"; of_string "..."] /\ norm_join C18_ex.a (relative_path C18_ex.a C18_ex.c) = C18_ex.c) /\
  (relative_path C18_ex.a C18_ex.d = [dotdot; dotdot] /\ norm_join C18_ex.a (relative_path C18_ex.a C18_ex.d) = C18_ex.d).
Proof.
  assert (Ha : nodots C18_ex.a) by nodots_tac. assert (Hb : nodots C18_ex.b) by nodots_tac.
  assert (Hc : nodots C18_ex.c) by nodots_tac. assert (Hd : nodots C18_ex.d) by nodots_tac.
  refine (conj Ha (conj Hb (conj Hc (conj Hd (conj (conj _ (C18_rel_join _ _ Ha Hb))
            (conj (conj _ (C18_rel_join _ _ Ha Hc)) (conj _ (C18_rel_join _ _ Ha Hd)))))))); vm_compute; reflexivity.
Qed.

(* the common root is an ancestor of every path ... *)
Theorem C18_hcr_ancestor : forall l x, In x l -> is_prefix (common_prefix_all l) x = true.
Proof. exact hcr_ancestor. Qed.
Print Assumptions C18_hcr_ancestor.

Example C18_hcr_ancestor_nonvacuous :
  let l := [C18_ex.a; C18_ex.b; C18_ex.c] in
  In C18_ex.b l /\ common_prefix_all l = [of_string "t"; of_string "d1"] /\ is_prefix (common_prefix_all l) C18_ex.b = true.
Proof.
  intros l. assert (H : In C18_ex.b l) by (right; left; reflexivity).
  refine (conj H (conj _ (C18_hcr_ancestor l _ H))). vm_compute. reflexivity.
Qed.

(* ... and no deeper common ancestor exists *)
Theorem C18_hcr_deepest : forall l p, l <> [] -> (forall x, In x l -> is_prefix p x = true) ->
  is_prefix p (common_prefix_all l) = true.
Proof. exact hcr_deepest. Qed.
Print Assumptions C18_hcr_deepest.

Example C18_hcr_deepest_nonvacuous :
  let l := [C18_ex.a; C18_ex.b; C18_ex.c] in let p := [of_string "t"] in
  l <> [] /\ (forall x, In x l -> is_prefix p x = true) /\ is_prefix p (common_prefix_all l) = true.
Proof.
  intros l p. assert (H1 : l <> []) by discriminate.
  assert (H2 : forall x, In x l -> is_prefix p x = true).
  { intros x Hx. cbn [l In] in Hx. destruct Hx as [<-|[<-|[<-|[]]]]; vm_compute; reflexivity. }
  exact (conj H1 (conj H2 (C18_hcr_deepest l p H1 H2))).
Qed.

(* the directive written for an include names, when read again, exactly the relative path that was registered *)
Theorem C18_directive : forall n, has_char c_dollar n = false -> (has_char c_sq n && has_char c_dq n) = false ->
  directive_name (of_string "#include " ++ format_string n) = Some n.
Proof. exact directive_roundtrip. Qed.
Print Assumptions C18_directive.

(* non-vacuity: a relative path with a blank (written in single quotes), one with an apostrophe (double quotes), a
   plain one (bare) *)
Example C18_directive_nonvacuous :
  let n1 := of_string "../s 2/x.y/b" in let n2 := of_string "../it's/b" in let n3 := of_string "sub/b.dict" in
  (has_char c_dollar n1 = false /\ (has_char c_sq n1 && has_char c_dq n1) = false /\
   of_string "#include " ++ format_string n1 = of_string "#include '../s 2/x.y/b'" /\
   directive_name (of_string "#include " ++ format_string n1) = Some n1) /\
  (has_char c_dollar n2 = false /\ (has_char c_sq n2 && has_char c_dq n2) = false /\
   of_string "#include " ++ format_string n2 = of_string "#include ""../it's/b""" /\
   directive_name (of_string "#include " ++ format_string n2) = Some n2) /\
  (has_char c_dollar n3 = false /\ (has_char c_sq n3 && has_char c_dq n3) = false /\
   directive_name (of_string "#include " ++ format_string n3) = Some n3).
Proof.
  intros n1 n2 n3.
  assert (A1 : has_char c_dollar n1 = false) by (vm_compute; reflexivity).
  assert (B1 : (has_char c_sq n1 && has_char c_dq n1) = false) by (vm_compute; reflexivity).
  assert (A2 : has_char c_dollar n2 = false) by (vm_compute; reflexivity).
  assert (B2 : (has_char c_sq n2 && has_char c_dq n2) = false) by (vm_compute; reflexivity).
  assert (A3 : has_char c_dollar n3 = false) by (vm_compute; reflexivity).
  assert (B3 : (has_char c_sq n3 && has_char c_dq n3) = false) by (vm_compute; reflexivity).
  refine (conj (conj A1 (conj B1 (conj _ (C18_directive n1 A1 B1))))
         (conj (conj A2 (conj B2 (conj _ (C18_directive n2 A2 B2)))) (conj A3 (conj B3 (C18_directive n3 A3 B3)))));
  vm_compute; reflexivity.
Qed.

Example C18_example :
  let a := [of_string "t"; of_string "d1"; of_string "s1"; of_string "deep"] in
  let b := [of_string "t"; of_string "d1"; of_string "s2"; of_string "x.y"; of_string "b"] in
  relative_path a b = [dotdot; dotdot; of_string "s2"; of_string "x.y"; of_string "b"] /\ norm_join a (relative_path a b) = b.
Proof. vm_compute. split; reflexivity. Qed.
